package main

import (
	"strings"
	"testing"
)

// the translator on a synthetic module: fields named ok… must not be flagged, fields named bad… must be
func TestSynthetic(t *testing.T) {
	out, _, err := analyzeRepo("testdata/mod", nil, false)
	if err != nil {
		t.Fatal(err)
	}
	if len(out.TypeErrors) > 0 {
		t.Fatalf("type errors: %v", out.TypeErrors)
	}
	verdict := map[string]bool{}
	for _, v := range out.Vars {
		f := v.Name
		if i := strings.Index(f, "@"); i >= 0 {
			f = f[:i]
		}
		name := f[strings.LastIndex(f, ".")+1:]
		if strings.HasPrefix(f, "p.H.") {
			// helper object: named by its owner path
			if strings.Contains(v.Name, "okHelper") {
				name = "okHelper.n"
			} else {
				name = "badHelper.n"
			}
		}
		if strings.HasPrefix(f, "p.E.") {
			name = "badEscape.N"
		}
		if strings.HasPrefix(f, "p.items.") {
			name = "okItems.[]"
		}
		good := v.OK && len(v.Split) == 0
		if old, ok := verdict[name]; ok {
			verdict[name] = old && good
		} else {
			verdict[name] = good
		}
	}
	want := map[string]bool{
		"okCount": true, "okRW": true, "okDeferOrder": true, "okEarly": true, "okHelper.n": true, "okItems": true, "okItems.[]": true, "okViaLog": true,
		"badRace": false, "badBranch": false, "badAfterUnlock": false, "badGo": false, "badDeferOrder": false, "badRW": false,
		"badClosure": false, "badLoop": false, "badSwitch": false, "badHelper.n": false,
		"badScratch": false, "badEscape.N": false, "badEscape": true, "badSplit": false, "badSplitCall": false, "badStale": false, "okRecheck": true, "okBlind": true,
	}
	for k, w := range want {
		got, ok := verdict[k]
		if !ok {
			t.Errorf("%s: no variable emitted (verdicts: %v)", k, verdict)
			continue
		}
		if got != w {
			t.Errorf("%s: disciplined=%v, want %v", k, got, w)
		}
	}
	for k := range verdict {
		if _, ok := want[k]; !ok {
			t.Errorf("unexpected variable %s", k)
		}
	}
	for _, v := range out.Vars {
		if strings.HasSuffix(v.Name, ".okCount") && !v.Counter {
			// okCount is written by ++ and by the blind store of Reset(): not a pure counter
			continue
		}
		if strings.HasSuffix(v.Name, ".okEarly") && !v.Counter {
			t.Errorf("okEarly is only ever incremented: want counter")
		}
	}
	imm := strings.Join(out.Immutable, " ")
	for _, f := range []string{"p.A.okImm", "p.A.next"} {
		if !strings.Contains(imm, f) {
			t.Errorf("%s should be classified immutable (got %s)", f, imm)
		}
	}
}
