module zzverif-locks

go 1.23.0
