// Command locks is the C09 translator: it regenerates the lock facts of the repository under test.
//
//	locks [-repo DIR] [-lean FILE] [-json FILE] [-exceptions FILE] [-v]
//
// Method (go/parser + go/types only):
//   - root types  = repo struct types that own a sync.Mutex/RWMutex field or have a ServeHTTP method;
//     entry points = their exported methods (each analysed with the empty lockset), minus the
//     configuration setters named in the exceptions file; for internal packages only the methods that
//     the rest of the repository calls.
//   - per function the held locks are tracked statement by statement (Lock/RLock/Unlock/RUnlock,
//     `defer`; a lock counts as held after a branch only if held on all paths); callees inside the
//     repository are analysed in the caller's context (held locks + identity of receiver/arguments),
//     interface calls by class hierarchy, func-valued calls by signature, `go` starts from the empty set.
//   - helper objects without a lock of their own (RollingCounter, tokenBucket, …) are named by the path
//     through which their owner reaches them (`RollingCounter.values@memmetrics.RTMetrics.total`);
//     objects that were allocated in the current call chain and not yet stored anywhere are thread
//     local and skipped; fields never written from an entry point are immutable and skipped.
//   - output: one fact per (variable, read|write, locks held with mode, file:line).
package main

import (
	"encoding/json"
	"flag"
	"fmt"
	"go/token"
	"os"
	"path/filepath"
	"sort"
	"strings"
	"time"
)

type exception struct {
	Kind   string `json:"kind"`   // config-method | readonly-method | var
	Name   string `json:"name"`   // method name / variable name prefix
	Reason string `json:"reason"` // one line
	Used   bool   `json:"used"`
}

type varVerdict struct {
	Name  string   `json:"name"`
	ID    int      `json:"id"`
	OK    bool     `json:"ok"`
	Lock  string   `json:"lock,omitempty"`
	Reads int      `json:"reads"`
	Write int      `json:"writes"`
	Bad   []string `json:"bad,omitempty"` // sites that break the best candidate lock
	// update sites that are not a single critical section: the stored value (split) or the decision to
	// store (stale) derives from a load of the variable in another critical section of its lock
	Split   []string `json:"split,omitempty"`
	Counter bool     `json:"counter"` // every write site is a one-statement read-modify-write
}

type output struct {
	Entries        []string     `json:"entries"`
	Roots          []string     `json:"root_types"`
	LockClasses    []string     `json:"lock_classes"`
	Facts          []*fact      `json:"facts"`
	Vars           []varVerdict `json:"vars"`
	Immutable      []string     `json:"immutable_fields"`
	ImmutableReads int          `json:"immutable_reads_dropped"`
	FreshSkipped   int          `json:"thread_local_accesses_skipped"`
	Exceptions     []exception  `json:"exceptions"`
	Excepted       []*fact      `json:"excepted_facts"`
	ClosuresMissed []string     `json:"closures_not_reached"`
	Notes          []string     `json:"notes"`
	TypeErrors     []string     `json:"type_errors"`
	Undisciplined  int          `json:"undisciplined"`
	SplitUpdates   int          `json:"split_updates"`
}

func holds(f *fact, lock string) bool {
	for _, l := range f.Locks {
		if l[0] == lock && (l[1] == "W" || !f.Write) {
			return true
		}
	}
	return false
}

func main() {
	repo := os.Getenv("VERIF_REPO")
	if repo == "" {
		repo = "/repo"
	}
	here, _ := os.Getwd()
	flagRepo := flag.String("repo", repo, "repository under test")
	flagLean := flag.String("lean", "", "write Generated/LockFacts.lean here")
	flagJSON := flag.String("json", "", "write the machine readable facts here")
	flagExc := flag.String("exceptions", filepath.Join(here, "exceptions.json"), "justified exceptions")
	verbose := flag.Bool("v", false, "print every fact")
	flag.Parse()

	var excs []exception
	if b, err := os.ReadFile(*flagExc); err == nil {
		if err := json.Unmarshal(b, &excs); err != nil {
			fmt.Fprintln(os.Stderr, "exceptions:", err)
			os.Exit(2)
		}
	}

	out, varNames, err := analyzeRepo(*flagRepo, excs, *verbose)
	if err != nil {
		fmt.Fprintln(os.Stderr, err)
		os.Exit(2)
	}
	facts := out.Facts
	if *flagJSON != "" {
		b, _ := json.MarshalIndent(out, "", " ")
		if err := os.WriteFile(*flagJSON, append(b, '\n'), 0o644); err != nil {
			fmt.Fprintln(os.Stderr, err)
			os.Exit(2)
		}
	}
	if *flagLean != "" {
		if err := os.WriteFile(*flagLean, []byte(leanFile(out, varNames)), 0o644); err != nil {
			fmt.Fprintln(os.Stderr, err)
			os.Exit(2)
		}
	}
	if *verbose {
		for _, f := range facts {
			fmt.Printf("%-70s %s [%s] %s %s\n", f.Var, rw(f.Write), lockStr(f), f.Site, f.Fn)
		}
	}
	fmt.Printf("locks: %d entry points, %d facts, %d variables, %d lock classes, %d immutable fields, %d thread-local accesses skipped, %d exceptions, %d type errors\n",
		len(out.Entries), len(facts), len(varNames), len(out.LockClasses), len(out.Immutable), out.FreshSkipped, len(excs), len(out.TypeErrors))
	for _, v := range out.Vars {
		if !v.OK {
			fmt.Printf("UNDISCIPLINED %s (best candidate %q)\n", v.Name, v.Lock)
			for _, b := range v.Bad {
				fmt.Printf("    %s\n", b)
			}
		}
		if len(v.Split) > 0 {
			fmt.Printf("SPLIT-UPDATE %s\n", v.Name)
			for _, b := range v.Split {
				fmt.Printf("    %s\n", b)
			}
		}
	}
	_ = token.NoPos
}

// analyzeRepo runs the whole translation on the module rooted at repoDir
func analyzeRepo(repoDir string, excs []exception, verbose bool) (*output, []string, error) {
	root, _ := filepath.Abs(repoDir)
	// the source importer resolves third-party modules from the working directory's module
	if wd, err := os.Getwd(); err == nil {
		if os.Chdir(root) == nil {
			defer func() { _ = os.Chdir(wd) }()
		}
	}
	l, err := newLoader(root)
	if err != nil {
		return nil, nil, err
	}
	tl := time.Now()
	err = l.loadAll(map[string]bool{"testutils": true, "zzverif": true})
	if verbose {
		fmt.Fprintf(os.Stderr, "load %v, %d packages, %d type errors\n", time.Since(tl), len(l.pkgs), len(l.errs))
	}
	if err != nil {
		return nil, nil, fmt.Errorf("load: %v", err)
	}
	a := &analyzer{l: l, fset: l.fset, facts: map[string]*fact{}, memo: map[string]bool{}, summ: map[string]map[string]loadRec{}, retMemo: map[string][]oset{}, retBusy: map[string]bool{},
		staticEnvs: map[*funcInfo]*env{}, entrySeen: map[*funcInfo]bool{}, configMeth: map[string]string{}, readonlyMeth: map[string]string{}, usedConfig: map[string]bool{}, notes: map[string]bool{}}
	for _, e := range excs {
		switch e.Kind {
		case "config-method":
			a.configMeth[e.Name] = e.Reason
		case "readonly-method":
			a.readonlyMeth[e.Name] = e.Reason
		case "var":
		default:
			return nil, nil, fmt.Errorf("exceptions: unknown kind %q", e.Kind)
		}
	}
	t0 := time.Now()
	a.index()
	a.run()
	if verbose {
		fmt.Fprintf(os.Stderr, "analysis %v, %d contexts\n", time.Since(t0), len(a.memo))
	}

	out := &output{Entries: a.entries, TypeErrors: l.errs, FreshSkipped: a.nFresh}
	for i := range excs {
		if excs[i].Kind == "config-method" || excs[i].Kind == "readonly-method" {
			excs[i].Used = a.usedConfig[excs[i].Name]
		}
	}
	for n := range a.roots {
		out.Roots = append(out.Roots, a.tname(n))
	}
	sort.Strings(out.Roots)
	for n := range a.notes {
		out.Notes = append(out.Notes, n)
	}
	sort.Strings(out.Notes)
	for _, fi := range a.allFuncs {
		if fi.lit == nil {
			continue
		}
		reached := false
		for k := range a.memo {
			if strings.HasPrefix(k, fi.name+"|") {
				reached = true
				break
			}
		}
		if !reached {
			out.ClosuresMissed = append(out.ClosuresMissed, fi.name+" "+a.site(fi.lit.Pos()))
		}
	}
	sort.Strings(out.ClosuresMissed)

	// 1. all facts, sorted
	var facts []*fact
	for _, f := range a.facts {
		facts = append(facts, f)
	}
	sortFacts(facts)
	// 2. exceptions on variables
	var kept []*fact
	for _, f := range facts {
		ex := false
		for i := range excs {
			if excs[i].Kind == "var" && strings.HasPrefix(f.Var, excs[i].Name) {
				excs[i].Used = true
				ex = true
			}
		}
		if ex {
			out.Excepted = append(out.Excepted, f)
		} else {
			kept = append(kept, f)
		}
	}
	facts = kept
	// 3. immutable fields: never written from an entry point
	written := map[string]bool{}
	allFields := map[string]bool{}
	for _, f := range facts {
		allFields[f.Field] = true
		if f.Write {
			written[f.Field] = true
		}
	}
	kept = nil
	for _, f := range facts {
		if written[f.Field] {
			kept = append(kept, f)
		} else {
			out.ImmutableReads++
		}
	}
	facts = kept
	for f := range allFields {
		if !written[f] {
			out.Immutable = append(out.Immutable, f)
		}
	}
	sort.Strings(out.Immutable)
	// 4. an access to an unknown object of a type counts for every known object of that type
	byField := map[string]map[string]bool{}
	for _, f := range facts {
		if byField[f.Field] == nil {
			byField[f.Field] = map[string]bool{}
		}
		byField[f.Field][f.Var] = true
	}
	var extra []*fact
	for _, f := range facts {
		if !strings.HasSuffix(f.Var, "@"+oAny) {
			continue
		}
		for v := range byField[f.Field] {
			if v != f.Var {
				c := *f
				c.Var = v
				c.Via = "unknown object: " + f.Via
				extra = append(extra, &c)
			}
		}
	}
	facts = append(facts, extra...)
	sortFacts(facts)
	out.Facts = facts

	// 5. verdict per variable: one fixed lock held at every access, exclusively at every write
	lockSet := map[string]bool{}
	varFacts := map[string][]*fact{}
	var varNames []string
	for _, f := range facts {
		if _, ok := varFacts[f.Var]; !ok {
			varNames = append(varNames, f.Var)
		}
		varFacts[f.Var] = append(varFacts[f.Var], f)
		for _, lk := range f.Locks {
			lockSet[lk[0]] = true
		}
	}
	sort.Strings(varNames)
	for n := range lockSet {
		out.LockClasses = append(out.LockClasses, n)
	}
	sort.Strings(out.LockClasses)
	for id, v := range varNames {
		fs := varFacts[v]
		vv := varVerdict{Name: v, ID: id}
		for _, f := range fs {
			if f.Write {
				vv.Write++
			} else {
				vv.Reads++
			}
		}
		best, bestBad := "", []string(nil)
		for _, lock := range out.LockClasses {
			var bad []string
			for _, f := range fs {
				if !holds(f, lock) {
					bad = append(bad, fmt.Sprintf("%s %s in %s holds [%s]", rw(f.Write), f.Site, f.Fn, lockStr(f)))
				}
			}
			if len(bad) == 0 {
				vv.OK, vv.Lock = true, lock
				break
			}
			if best == "" || len(bad) < len(bestBad) {
				best, bestBad = lock, bad
			}
		}
		if !vv.OK {
			if best == "" {
				for _, f := range fs {
					bestBad = append(bestBad, fmt.Sprintf("%s %s in %s holds []", rw(f.Write), f.Site, f.Fn))
				}
			}
			vv.Lock = best
			vv.Bad = bestBad
			out.Undisciplined++
		}
		vv.Counter = vv.Write > 0
		for _, f := range fs {
			if !f.Write {
				continue
			}
			for _, is := range f.Issues {
				if is.Lock == vv.Lock || !vv.OK {
					f.Kind = kSplit
					vv.Split = append(vv.Split, fmt.Sprintf("%s store %s in %s uses what was read at %s in another critical section of %s", is.What, f.Site, f.Fn, is.Load, is.Lock))
				}
			}
			if f.Kind != kRMW {
				vv.Counter = false
			}
		}
		if len(vv.Split) > 0 {
			out.SplitUpdates++
		}
		out.Vars = append(out.Vars, vv)
	}
	out.Exceptions = excs

	return out, varNames, nil
}

func rw(w bool) string {
	if w {
		return "write"
	}
	return "read"
}

func lockStr(f *fact) string {
	var s []string
	for _, l := range f.Locks {
		s = append(s, l[0]+":"+l[1])
	}
	return strings.Join(s, ", ")
}

func sortFacts(fs []*fact) {
	sort.Slice(fs, func(i, j int) bool {
		a, b := fs[i], fs[j]
		if a.Var != b.Var {
			return a.Var < b.Var
		}
		if a.Site != b.Site {
			return siteLess(a.Site, b.Site)
		}
		if a.Write != b.Write {
			return !a.Write
		}
		if a.Kind != b.Kind {
			return a.Kind < b.Kind
		}
		return lockStr(a) < lockStr(b)
	})
}

func siteLess(a, b string) bool {
	ia, ib := strings.LastIndex(a, ":"), strings.LastIndex(b, ":")
	if a[:ia] != b[:ib] {
		return a[:ia] < b[:ib]
	}
	var x, y int
	fmt.Sscan(a[ia+1:], &x)
	fmt.Sscan(b[ib+1:], &y)
	return x < y
}

func leanFile(out *output, varNames []string) string {
	var b strings.Builder
	lockID := map[string]int{}
	for i, n := range out.LockClasses {
		lockID[n] = i
	}
	varID := map[string]int{}
	for i, n := range varNames {
		varID[n] = i
	}
	b.WriteString("/- GENERATED by /verif/harness/locks (the C09 translator) from the Go sources of the repository under test.\n")
	b.WriteString("   Do not edit: `bin/check C09` rewrites this file on every run.\n")
	b.WriteString("   One fact per access site: variable, write?, kind (0 read, 1 one-statement read-modify-write, 2 plain store,\n   3 split update), locks held (lock, exclusive?), file:line. -/\n")
	b.WriteString("import OxyModel.Model.Locks\n\nnamespace Locks.Generated\nopen Locks\n\n")
	b.WriteString("/-- lock classes, indexed by position -/\ndef lockNames : List String := [\n")
	for i, n := range out.LockClasses {
		fmt.Fprintf(&b, "  %q%s\n", n, comma(i, len(out.LockClasses)))
	}
	b.WriteString("]\n\n/-- shared variables, indexed by position -/\ndef varNames : List String := [\n")
	for i, n := range varNames {
		fmt.Fprintf(&b, "  %q%s\n", n, comma(i, len(varNames)))
	}
	b.WriteString("]\n\n/-- group `i` = the access sites of variable `i` -/\ndef groups : List (List Fact) := [\n")
	gi := 0
	for v := range varNames {
		fmt.Fprintf(&b, "  -- %d %s\n  [", v, varNames[v])
		first := true
		for gi < len(out.Facts) && varID[out.Facts[gi].Var] == v {
			f := out.Facts[gi]
			var ls []string
			for _, l := range f.Locks {
				ls = append(ls, fmt.Sprintf("(%d, %v)", lockID[l[0]], l[1] == "W"))
			}
			if !first {
				b.WriteString(",\n   ")
			}
			first = false
			fmt.Fprintf(&b, "⟨%d, %v, %d, [%s], %q⟩", v, f.Write, f.Kind, strings.Join(ls, ", "), f.Site)
			gi++
		}
		fmt.Fprintf(&b, "]%s\n", comma(v, len(varNames)))
	}
	b.WriteString("]\n\n/-- all facts -/\ndef facts : List Fact := groups.flatten\n\n")
	var cv []string
	for _, v := range out.Vars {
		if v.Counter && v.OK && len(v.Split) == 0 {
			cv = append(cv, fmt.Sprint(v.ID))
		}
	}
	fmt.Fprintf(&b, "/-- variables all of whose write sites are one-statement read-modify-writes -/\ndef counterVars : List Nat := [%s]\n\n", strings.Join(cv, ", "))
	b.WriteString("/-- a sample execution of the first write site of the table: take its locks, write, give them back -/\ndef exampleExec : List Ev := [")
	for _, f := range out.Facts {
		if !f.Write || len(f.Locks) == 0 {
			continue
		}
		var ev []string
		for _, l := range f.Locks {
			ev = append(ev, fmt.Sprintf(".acq 1 %d %v", lockID[l[0]], l[1] == "W"))
		}
		ev = append(ev, fmt.Sprintf(".acc 1 %d true", varID[f.Var]))
		for i := len(f.Locks) - 1; i >= 0; i-- {
			ev = append(ev, fmt.Sprintf(".rel 1 %d %v", lockID[f.Locks[i][0]], f.Locks[i][1] == "W"))
		}
		b.WriteString(strings.Join(ev, ", "))
		break
	}
	b.WriteString("]\n\n")
	fmt.Fprintf(&b, "def numVars : Nat := %d\ndef numLocks : Nat := %d\ndef numFacts : Nat := %d\n\nend Locks.Generated\n", len(varNames), len(out.LockClasses), len(out.Facts))
	return b.String()
}

func comma(i, n int) string {
	if i+1 < n {
		return ","
	}
	return ""
}
