package main

// Loading and type-checking of the repository under test with go/parser + go/types only.
// Packages of the module itself are type-checked from their sources by this loader (one object
// universe, ASTs kept); everything else (stdlib, third-party) goes through the stock source importer.

import (
	"fmt"
	"go/ast"
	"go/build"
	"go/importer"
	"go/parser"
	"go/token"
	"go/types"
	"os"
	"path/filepath"
	"sort"
	"strings"
)

type pkgInfo struct {
	path  string
	dir   string
	files []*ast.File
	tpkg  *types.Package
	info  *types.Info
}

type loader struct {
	root    string
	modPath string
	fset    *token.FileSet
	pkgs    map[string]*pkgInfo
	loading map[string]bool
	ext     types.ImporterFrom
	errs    []string
}

func newLoader(root string) (*loader, error) {
	gm, err := os.ReadFile(filepath.Join(root, "go.mod"))
	if err != nil {
		return nil, err
	}
	mod := ""
	for _, l := range strings.Split(string(gm), "\n") {
		if strings.HasPrefix(l, "module ") {
			mod = strings.TrimSpace(strings.TrimPrefix(l, "module "))
		}
	}
	if mod == "" {
		return nil, fmt.Errorf("no module line in %s/go.mod", root)
	}
	fset := token.NewFileSet()
	l := &loader{root: root, modPath: mod, fset: fset, pkgs: map[string]*pkgInfo{}, loading: map[string]bool{}}
	l.ext = importer.ForCompiler(fset, "source", nil).(types.ImporterFrom)
	return l, nil
}

func (l *loader) Import(path string) (*types.Package, error) { return l.ImportFrom(path, l.root, 0) }

func (l *loader) ImportFrom(path, dir string, mode types.ImportMode) (*types.Package, error) {
	if path == l.modPath || strings.HasPrefix(path, l.modPath+"/") {
		p, err := l.load(path)
		if err != nil {
			return nil, err
		}
		return p.tpkg, nil
	}
	return l.ext.ImportFrom(path, l.root, mode)
}

func (l *loader) load(path string) (*pkgInfo, error) {
	if p, ok := l.pkgs[path]; ok {
		return p, nil
	}
	if l.loading[path] {
		return nil, fmt.Errorf("import cycle through %s", path)
	}
	l.loading[path] = true
	defer delete(l.loading, path)
	dir := filepath.Join(l.root, strings.TrimPrefix(strings.TrimPrefix(path, l.modPath), "/"))
	ents, err := os.ReadDir(dir)
	if err != nil {
		return nil, err
	}
	ctx := build.Default
	var files []*ast.File
	for _, e := range ents {
		n := e.Name()
		if e.IsDir() || !strings.HasSuffix(n, ".go") || strings.HasSuffix(n, "_test.go") {
			continue
		}
		if ok, _ := ctx.MatchFile(dir, n); !ok {
			continue
		}
		f, err := parser.ParseFile(l.fset, filepath.Join(dir, n), nil, parser.SkipObjectResolution)
		if err != nil {
			return nil, err
		}
		files = append(files, f)
	}
	if len(files) == 0 {
		return nil, fmt.Errorf("no Go files in %s", dir)
	}
	info := &types.Info{
		Types:      map[ast.Expr]types.TypeAndValue{},
		Defs:       map[*ast.Ident]types.Object{},
		Uses:       map[*ast.Ident]types.Object{},
		Selections: map[*ast.SelectorExpr]*types.Selection{},
		Implicits:  map[ast.Node]types.Object{},
	}
	conf := types.Config{Importer: l, Error: func(err error) { l.errs = append(l.errs, err.Error()) }}
	tp, _ := conf.Check(path, l.fset, files, info)
	p := &pkgInfo{path: path, dir: dir, files: files, tpkg: tp, info: info}
	l.pkgs[path] = p
	return p, nil
}

// loadAll loads every non-test package of the module except the ones whose first path element is skipped.
func (l *loader) loadAll(skip map[string]bool) error {
	var dirs []string
	err := filepath.Walk(l.root, func(p string, fi os.FileInfo, err error) error {
		if err != nil {
			return nil
		}
		if fi.IsDir() {
			b := fi.Name()
			if p != l.root && (strings.HasPrefix(b, ".") || strings.HasPrefix(b, "_") || b == "testdata" || b == "vendor") {
				return filepath.SkipDir
			}
			rel, _ := filepath.Rel(l.root, p)
			if skip[strings.Split(rel, string(filepath.Separator))[0]] {
				return filepath.SkipDir
			}
			if p != l.root {
				if _, err := os.Stat(filepath.Join(p, "go.mod")); err == nil {
					return filepath.SkipDir // nested module
				}
			}
			dirs = append(dirs, p)
		}
		return nil
	})
	if err != nil {
		return err
	}
	sort.Strings(dirs)
	for _, d := range dirs {
		ents, _ := os.ReadDir(d)
		has := false
		for _, e := range ents {
			if !e.IsDir() && strings.HasSuffix(e.Name(), ".go") && !strings.HasSuffix(e.Name(), "_test.go") {
				has = true
			}
		}
		if !has {
			continue
		}
		rel, _ := filepath.Rel(l.root, d)
		path := l.modPath
		if rel != "." {
			path += "/" + filepath.ToSlash(rel)
		}
		if _, err := l.load(path); err != nil {
			return fmt.Errorf("%s: %v", path, err)
		}
	}
	return nil
}
