package main

// Lock-fact extraction.  See README in main.go for the method.  Everything here is deliberately
// simple and conservative: an access is emitted with the locks that are *provably* held on every
// path to it; whether that is enough is decided later (checker in Go, and again in Lean).

import (
	"fmt"
	"go/ast"
	"go/token"
	"go/types"
	"os"
	"path/filepath"
	"sort"
	"strings"
)

const (
	oFresh = "fresh" // object allocated in this call chain and not (yet) reachable by other threads
	oAny   = "*"     // unknown object of its type
)

type oset map[string]bool

func (o oset) add(p oset) {
	for k := range p {
		o[k] = true
	}
}

func (o oset) key() string {
	ks := make([]string, 0, len(o))
	for k := range o {
		ks = append(ks, k)
	}
	sort.Strings(ks)
	return strings.Join(ks, "|")
}

func one(s string) oset { return oset{s: true} }

type lk struct {
	w        bool
	deferred bool   // its unlock is already deferred: held until the function returns
	sec      string // critical section: which acquisition this hold belongs to
}

type lockset map[string]lk

func (l lockset) copy() lockset {
	c := lockset{}
	for k, v := range l {
		c[k] = v
	}
	return c
}

func (l lockset) secKey() string {
	ks := make([]string, 0, len(l))
	for k, v := range l {
		ks = append(ks, k+"@"+v.sec)
	}
	sort.Strings(ks)
	return strings.Join(ks, ",")
}

func (l lockset) key() string {
	ks := make([]string, 0, len(l))
	for k, v := range l {
		m := "R"
		if v.w {
			m = "W"
		}
		ks = append(ks, k+":"+m)
	}
	sort.Strings(ks)
	return strings.Join(ks, ",")
}

// meet keeps what is held on both paths (weaker mode wins)
func meet(a, b lockset) lockset {
	c := lockset{}
	for k, v := range a {
		if w, ok := b[k]; ok {
			c[k] = lk{w: v.w && w.w, deferred: v.deferred && w.deferred, sec: v.sec}
		}
	}
	return c
}

type funcInfo struct {
	name    string
	pkg     *pkgInfo
	body    *ast.BlockStmt
	sig     *types.Signature
	obj     *types.Func // nil for literals
	lit     *ast.FuncLit
	encl    *funcInfo // literals: lexically enclosing function
	recv    *types.Var
	params  []*types.Var
	results []*types.Var
	pos     token.Pos // extent of the whole function (signature included)
	end     token.Pos
}

type fact struct {
	Var   string      `json:"var"`
	Field string      `json:"field"` // type-level name (no @owner)
	Write bool        `json:"write"`
	Kind  int         `json:"kind"` // 0 read, 1 read-modify-write in one statement, 2 plain store, 3 split update
	Locks [][2]string `json:"locks"`
	Site  string      `json:"site"`
	Fn    string      `json:"fn"`
	Via   string      `json:"via,omitempty"` // entry point / thread through which it was first reached
	// stores whose value or guard derives from a load of the same variable in another critical section
	Issues []issue `json:"issues,omitempty"`
}

const (
	kRead  = 0
	kRMW   = 1
	kStore = 2
	kSplit = 3
)

type issue struct {
	What string `json:"what"` // split | stale
	Lock string `json:"lock"`
	Load string `json:"load_site"`
}

// loadRec: a read of a shared variable and the critical section of every lock held at that moment
type loadRec struct {
	v    string
	secs map[string]string
	site string
}

func (r loadRec) key() string {
	ks := make([]string, 0, len(r.secs))
	for k, v := range r.secs {
		ks = append(ks, k+"@"+v)
	}
	sort.Strings(ks)
	return r.v + "|" + strings.Join(ks, ",")
}

// flow: what one activation of a function (and the calls it made) has loaded so far
type flow struct {
	loads map[string]loadRec
	taint map[*types.Var][]loadRec
}

func newFlow() *flow { return &flow{loads: map[string]loadRec{}, taint: map[*types.Var][]loadRec{}} }

type analyzer struct {
	l            *loader
	fset         *token.FileSet
	funcs        map[*types.Func]*funcInfo
	lits         map[*ast.FuncLit]*funcInfo
	allFuncs     []*funcInfo
	fieldOwner   map[*types.Var]*types.Named
	named        []*types.Named
	roots        map[*types.Named]bool
	lockTypes    map[*types.Named]bool
	facts        map[string]*fact
	memo         map[string]bool
	summ         map[string]map[string]loadRec // loads performed by an analysed context (merged into its callers)
	secN         int
	retMemo      map[string][]oset
	retBusy      map[string]bool
	staticEnvs   map[*funcInfo]*env
	entries      []string
	entrySeen    map[*funcInfo]bool
	entryQueue   []*funcInfo
	configMeth   map[string]string // name -> reason (exceptions of kind config-method)
	usedConfig   map[string]bool
	readonlyMeth map[string]string // external pointer-receiver methods known not to mutate their receiver
	nFresh       int
	notes        map[string]bool
	curVia       string
}

func (a *analyzer) isRepoPkg(p *types.Package) bool {
	if p == nil {
		return false
	}
	_, ok := a.l.pkgs[p.Path()]
	return ok
}

func (a *analyzer) tname(n *types.Named) string {
	o := n.Obj()
	if o.Pkg() == nil {
		return o.Name()
	}
	return o.Pkg().Name() + "." + o.Name()
}

func deref(t types.Type) types.Type {
	for {
		p, ok := t.Underlying().(*types.Pointer)
		if !ok {
			return t
		}
		if _, isNamed := t.(*types.Named); isNamed {
			return t
		}
		t = p.Elem()
	}
}

// elemNamed: the repo named type an expression of type t denotes "an object of", looking through
// pointers, slices, arrays and map values
func (a *analyzer) repoNamed(t types.Type) *types.Named {
	if t == nil {
		return nil
	}
	t = deref(t)
	if n, ok := t.(*types.Named); ok && a.isRepoPkg(n.Obj().Pkg()) {
		return n
	}
	return nil
}

func (a *analyzer) rootNamed(t types.Type) *types.Named {
	if n := a.repoNamed(t); n != nil && a.roots[n] {
		return n
	}
	return nil
}

func isSyncLock(t types.Type) (rw bool, ok bool) {
	t = deref(t)
	n, isN := t.(*types.Named)
	if !isN || n.Obj().Pkg() == nil || n.Obj().Pkg().Path() != "sync" {
		return false, false
	}
	switch n.Obj().Name() {
	case "Mutex":
		return false, true
	case "RWMutex":
		return true, true
	}
	return false, false
}

func (a *analyzer) index() {
	a.funcs = map[*types.Func]*funcInfo{}
	a.lits = map[*ast.FuncLit]*funcInfo{}
	a.fieldOwner = map[*types.Var]*types.Named{}
	a.roots = map[*types.Named]bool{}
	a.lockTypes = map[*types.Named]bool{}
	paths := make([]string, 0, len(a.l.pkgs))
	for p := range a.l.pkgs {
		paths = append(paths, p)
	}
	sort.Strings(paths)
	for _, pp := range paths {
		p := a.l.pkgs[pp]
		// named types
		sc := p.tpkg.Scope()
		for _, nm := range sc.Names() {
			tn, ok := sc.Lookup(nm).(*types.TypeName)
			if !ok || tn.IsAlias() {
				continue
			}
			n, ok := tn.Type().(*types.Named)
			if !ok {
				continue
			}
			a.named = append(a.named, n)
			if st, ok := n.Underlying().(*types.Struct); ok {
				for i := 0; i < st.NumFields(); i++ {
					f := st.Field(i)
					a.fieldOwner[f] = n
					if _, isL := isSyncLock(f.Type()); isL {
						a.roots[n] = true
						a.lockTypes[n] = true
					}
				}
			}
			for _, T := range []types.Type{n, types.NewPointer(n)} {
				ms := types.NewMethodSet(T)
				for i := 0; i < ms.Len(); i++ {
					if ms.At(i).Obj().Name() == "ServeHTTP" {
						a.roots[n] = true
					}
				}
			}
		}
		// functions and literals
		for _, f := range p.files {
			for _, d := range f.Decls {
				fd, ok := d.(*ast.FuncDecl)
				if !ok || fd.Body == nil {
					continue
				}
				obj, _ := p.info.Defs[fd.Name].(*types.Func)
				if obj == nil {
					continue
				}
				sig := obj.Type().(*types.Signature)
				fi := &funcInfo{name: a.funcName(obj), pkg: p, body: fd.Body, sig: sig, obj: obj, pos: fd.Pos(), end: fd.End()}
				fi.recv = sig.Recv()
				for i := 0; i < sig.Params().Len(); i++ {
					fi.params = append(fi.params, sig.Params().At(i))
				}
				for i := 0; i < sig.Results().Len(); i++ {
					fi.results = append(fi.results, sig.Results().At(i))
				}
				a.funcs[obj] = fi
				a.allFuncs = append(a.allFuncs, fi)
				a.indexLits(fi, fd.Body)
			}
		}
	}
}

func (a *analyzer) indexLits(encl *funcInfo, body ast.Node) {
	k := 0
	var walk func(n ast.Node, encl *funcInfo)
	walk = func(n ast.Node, encl *funcInfo) {
		ast.Inspect(n, func(m ast.Node) bool {
			fl, ok := m.(*ast.FuncLit)
			if !ok || m == n {
				return true
			}
			k++
			sig, _ := encl.pkg.info.Types[fl].Type.(*types.Signature)
			if sig == nil {
				return false
			}
			fi := &funcInfo{name: fmt.Sprintf("%s$%d", strings.SplitN(encl.name, "$", 2)[0], k), pkg: encl.pkg, body: fl.Body, sig: sig, lit: fl, encl: encl, pos: fl.Pos(), end: fl.End()}
			for i := 0; i < sig.Params().Len(); i++ {
				fi.params = append(fi.params, sig.Params().At(i))
			}
			for i := 0; i < sig.Results().Len(); i++ {
				fi.results = append(fi.results, sig.Results().At(i))
			}
			a.lits[fl] = fi
			a.allFuncs = append(a.allFuncs, fi)
			walk(fl.Body, fi)
			return false
		})
	}
	walk(body, encl)
}

func (a *analyzer) funcName(f *types.Func) string {
	sig := f.Type().(*types.Signature)
	if r := sig.Recv(); r != nil {
		t := r.Type()
		ptr := ""
		if p, ok := t.(*types.Pointer); ok {
			t = p.Elem()
			ptr = "*"
		}
		if n, ok := t.(*types.Named); ok {
			_ = ptr
			return a.tname(n) + "." + f.Name()
		}
	}
	if f.Pkg() != nil {
		return f.Pkg().Name() + "." + f.Name()
	}
	return f.Name()
}

// ---------------------------------------------------------------- environments (who is this object?)

type env struct {
	a      *analyzer
	fn     *funcInfo
	parent *env
	bound  map[*types.Var]oset
	cache  map[*types.Var]oset
	busy   map[*types.Var]bool
	fields map[*types.Var]map[string]oset // receiver/parameter bound to a struct literal: what its fields were initialised with
}

func (a *analyzer) newEnv(fn *funcInfo, parent *env) *env {
	return &env{a: a, fn: fn, parent: parent, bound: map[*types.Var]oset{}, cache: map[*types.Var]oset{}, busy: map[*types.Var]bool{}, fields: map[*types.Var]map[string]oset{}}
}

func (a *analyzer) defaultOrigin(t types.Type) oset {
	if r := a.rootNamed(t); r != nil {
		return one(a.tname(r))
	}
	if a.repoNamed(t) != nil {
		return one(oAny)
	}
	return oset{}
}

// staticEnv: the environment of a function when nothing is known about its caller
func (a *analyzer) staticEnv(fn *funcInfo) *env {
	if e, ok := a.staticEnvs[fn]; ok {
		return e
	}
	var parent *env
	if fn.encl != nil {
		parent = a.staticEnv(fn.encl)
	}
	e := a.newEnv(fn, parent)
	a.staticEnvs[fn] = e
	if fn.recv != nil {
		e.bound[fn.recv] = a.defaultOrigin(fn.recv.Type())
	}
	for _, p := range fn.params {
		e.bound[p] = a.defaultOrigin(p.Type())
	}
	return e
}

func contains(fn *funcInfo, pos token.Pos) bool {
	return fn.pos <= pos && pos <= fn.end
}

func (en *env) lookup(v *types.Var) oset {
	for e := en; e != nil; e = e.parent {
		if o, ok := e.bound[v]; ok {
			return o
		}
	}
	// package-level variable
	if v.Parent() != nil && v.Pkg() != nil && v.Parent() == v.Pkg().Scope() {
		if en.a.repoNamed(v.Type()) != nil {
			return one("global:" + v.Pkg().Name() + "." + v.Name())
		}
		return oset{}
	}
	// local: find the innermost function of the chain that declares it
	var home *env
	for e := en; e != nil; e = e.parent {
		if contains(e.fn, v.Pos()) {
			home = e
			break
		}
	}
	if home == nil {
		return en.a.defaultOrigin(v.Type())
	}
	if o, ok := home.cache[v]; ok {
		return o
	}
	if home.busy[v] {
		return oset{}
	}
	home.busy[v] = true
	o := home.scanVar(v)
	delete(home.busy, v)
	home.cache[v] = o
	return o
}

func unparen(e ast.Expr) ast.Expr {
	for {
		switch x := e.(type) {
		case *ast.ParenExpr:
			e = x.X
		default:
			return e
		}
	}
}

func (en *env) objOf(id *ast.Ident) types.Object {
	info := en.fn.pkg.info
	if o := info.Uses[id]; o != nil {
		return o
	}
	return info.Defs[id]
}

func (en *env) isVar(e ast.Expr, v *types.Var) bool {
	e = unparen(e)
	if u, ok := e.(*ast.UnaryExpr); ok && u.Op == token.AND {
		e = unparen(u.X)
	}
	id, ok := e.(*ast.Ident)
	return ok && en.objOf(id) == v
}

// scanVar: flow-insensitive origin of a local: everything it is assigned from, plus every shared
// place it is stored into in the same function (an object published into a path is that path's object)
func (en *env) scanVar(v *types.Var) oset {
	res := oset{}
	a := en.a
	if !a.hasIdentity(v.Type()) {
		return res
	}
	ast.Inspect(en.fn.body, func(n ast.Node) bool {
		switch s := n.(type) {
		case *ast.AssignStmt:
			for i, lh := range s.Lhs {
				if !en.isVarPlain(lh, v) {
					continue
				}
				if len(s.Rhs) == len(s.Lhs) {
					res.add(a.originOf(s.Rhs[i], en))
				} else if len(s.Rhs) == 1 {
					r := unparen(s.Rhs[0])
					if c, ok := r.(*ast.CallExpr); ok {
						res.add(a.callResult(c, i, en))
					} else if i == 0 {
						res.add(a.originOf(r, en))
					}
				}
			}
			if len(s.Rhs) == len(s.Lhs) {
				for i, rh := range s.Rhs {
					stored := en.isVar(rh, v)
					if c, ok := unparen(rh).(*ast.CallExpr); ok && !stored {
						if id, ok := c.Fun.(*ast.Ident); ok && id.Name == "append" && len(c.Args) > 1 {
							for _, x := range c.Args[1:] {
								if en.isVar(x, v) {
									stored = true
								}
							}
						}
					}
					if stored {
						if _, isId := unparen(s.Lhs[i]).(*ast.Ident); !isId {
							o := a.originOf(s.Lhs[i], en)
							delete(o, oFresh)
							res.add(o)
						}
					}
				}
			}
		case *ast.RangeStmt:
			if s.Value != nil && en.isVarPlain(s.Value, v) {
				res.add(a.originOf(s.X, en))
			}
		case *ast.ValueSpec:
			for i, nm := range s.Names {
				if en.objOf(nm) == v {
					if i < len(s.Values) {
						res.add(a.originOf(s.Values[i], en))
					} else if len(s.Values) == 1 {
						if c, ok := unparen(s.Values[0]).(*ast.CallExpr); ok {
							res.add(a.callResult(c, i, en))
						}
					} else if _, isPtr := v.Type().Underlying().(*types.Pointer); !isPtr && !isIface(v.Type()) {
						res.add(one(oFresh)) // zero value of a struct type
					}
				}
			}
		}
		return true
	})
	if len(res) > 1 {
		delete(res, oFresh)
	}
	return res
}

func (en *env) isVarPlain(e ast.Expr, v *types.Var) bool {
	id, ok := unparen(e).(*ast.Ident)
	return ok && en.objOf(id) == v
}

// hasIdentity: values of this type may denote (or contain) an object of a repository type
func (a *analyzer) hasIdentity(t types.Type) bool {
	for i := 0; i < 6 && t != nil; i++ {
		if a.repoNamed(t) != nil || isIface(t) {
			return true
		}
		switch u := deref(t).Underlying().(type) {
		case *types.Slice:
			t = u.Elem()
		case *types.Array:
			t = u.Elem()
		case *types.Map:
			t = u.Elem()
		case *types.Pointer:
			t = u.Elem()
		default:
			return false
		}
	}
	return false
}

func isIface(t types.Type) bool {
	_, ok := t.Underlying().(*types.Interface)
	return ok
}

func (a *analyzer) typeOf(e ast.Expr, en *env) types.Type {
	if tv, ok := en.fn.pkg.info.Types[e]; ok {
		return tv.Type
	}
	if id, ok := e.(*ast.Ident); ok {
		if o := en.objOf(id); o != nil {
			return o.Type()
		}
	}
	return nil
}

func (a *analyzer) originOf(e ast.Expr, en *env) oset {
	o := a.originRaw(e, en)
	if len(o) == 1 && o[oFresh] {
		return o
	}
	if r := a.rootNamed(a.typeOf(e, en)); r != nil {
		return one(a.tname(r))
	}
	return o
}

func extend(o oset, f string) oset {
	r := oset{}
	for k := range o {
		switch k {
		case oFresh, oAny:
			r[k] = true
		default:
			// bounded naming: below depth 5, or when the field already occurs in the path (recursive
			// structure), the sub-object keeps the name of its ancestor
			if strings.Count(k, ".") >= 6 || strings.HasSuffix(k, "."+f) || strings.Contains(k, "."+f+".") {
				r[k] = true
			} else {
				r[k+"."+f] = true
			}
		}
	}
	return r
}

func (a *analyzer) originRaw(e ast.Expr, en *env) oset {
	switch x := unparen(e).(type) {
	case *ast.Ident:
		if v, ok := en.objOf(x).(*types.Var); ok {
			return en.lookup(v)
		}
		return oset{}
	case *ast.SelectorExpr:
		if sel := en.fn.pkg.info.Selections[x]; sel != nil {
			if sel.Kind() == types.FieldVal {
				base := a.originOf(x.X, en)
				if len(base) == 1 && base[oFresh] {
					// a thread-local wrapper: its field denotes whatever it was initialised with
					if o, ok := a.litField(x.X, x.Sel.Name, en); ok {
						return o
					}
				}
				return extend(base, x.Sel.Name)
			}
			return oset{}
		}
		if v, ok := en.fn.pkg.info.Uses[x.Sel].(*types.Var); ok {
			return en.lookup(v)
		}
		return oset{}
	case *ast.IndexExpr:
		return a.originOf(x.X, en)
	case *ast.SliceExpr:
		return a.originOf(x.X, en)
	case *ast.StarExpr:
		return a.originOf(x.X, en)
	case *ast.TypeAssertExpr:
		return a.originOf(x.X, en)
	case *ast.UnaryExpr:
		if x.Op == token.AND {
			return a.originOf(x.X, en)
		}
		return oset{}
	case *ast.CompositeLit, *ast.FuncLit, *ast.BasicLit:
		return one(oFresh)
	case *ast.CallExpr:
		return a.callResult(x, 0, en)
	}
	return one(oAny)
}

// litFields: origins of the explicitly initialised fields of a struct literal (T{…} or &T{…})
func (a *analyzer) litFields(e ast.Expr, en *env) map[string]oset {
	e = unparen(e)
	if u, ok := e.(*ast.UnaryExpr); ok && u.Op == token.AND {
		e = unparen(u.X)
	}
	cl, ok := e.(*ast.CompositeLit)
	if !ok {
		return nil
	}
	t := a.typeOf(cl, en)
	if t == nil {
		return nil
	}
	st, ok := deref(t).Underlying().(*types.Struct)
	if !ok {
		return nil
	}
	out := map[string]oset{}
	for i, el := range cl.Elts {
		if kv, ok := el.(*ast.KeyValueExpr); ok {
			if id, ok := kv.Key.(*ast.Ident); ok {
				out[id.Name] = a.originOf(kv.Value, en)
			}
		} else if i < st.NumFields() {
			out[st.Field(i).Name()] = a.originOf(el, en)
		}
	}
	return out
}

// litField: origin of field f of the thread-local struct denoted by holder, when it is known from a
// struct literal (directly, through a local variable, or through a receiver/parameter binding) or from
// assignments `holder.f = e` in the same function
func (a *analyzer) litField(holder ast.Expr, f string, en *env) (oset, bool) {
	holder = unparen(holder)
	if m := a.litFields(holder, en); m != nil {
		if o, ok := m[f]; ok {
			return o, true
		}
		return nil, false
	}
	id, ok := holder.(*ast.Ident)
	if !ok {
		return nil, false
	}
	v, ok := en.objOf(id).(*types.Var)
	if !ok {
		return nil, false
	}
	for e := en; e != nil; e = e.parent {
		if m, ok := e.fields[v]; ok {
			if o, ok := m[f]; ok {
				return o, true
			}
			return nil, false
		}
	}
	// local variable: literal initialisers and field assignments in its function
	var home *env
	for e := en; e != nil; e = e.parent {
		if contains(e.fn, v.Pos()) {
			home = e
			break
		}
	}
	if home == nil || home.busy[v] {
		return nil, false
	}
	home.busy[v] = true
	defer delete(home.busy, v)
	res := oset{}
	found := false
	ast.Inspect(home.fn.body, func(n ast.Node) bool {
		as, ok := n.(*ast.AssignStmt)
		if !ok || len(as.Lhs) != len(as.Rhs) {
			return true
		}
		for i, lh := range as.Lhs {
			if home.isVarPlain(lh, v) {
				if m := a.litFields(as.Rhs[i], home); m != nil {
					if o, ok := m[f]; ok {
						res.add(o)
						found = true
					}
				}
			}
			if se, ok := unparen(lh).(*ast.SelectorExpr); ok && se.Sel.Name == f && home.isVarPlain(se.X, v) {
				res.add(a.originOf(as.Rhs[i], home))
				found = true
			}
		}
		return true
	})
	if len(res) > 1 {
		delete(res, oFresh)
	}
	return res, found
}

// ---------------------------------------------------------------- call resolution

type callee struct {
	fi   *funcInfo
	recv ast.Expr // receiver expression or nil
	lex  bool     // literal invoked where it is written: lexical environment applies
}

func (a *analyzer) implementers(iface *types.Interface, name string) []*funcInfo {
	var out []*funcInfo
	seen := map[*funcInfo]bool{}
	for _, n := range a.named {
		if isIface(n) {
			continue
		}
		for _, T := range []types.Type{n, types.NewPointer(n)} {
			if !types.Implements(T, iface) {
				continue
			}
			obj, _, _ := types.LookupFieldOrMethod(T, true, n.Obj().Pkg(), name)
			if f, ok := obj.(*types.Func); ok {
				if fi := a.funcs[f]; fi != nil && !seen[fi] {
					seen[fi] = true
					out = append(out, fi)
				}
			}
		}
	}
	return out
}

func (a *analyzer) bySignature(sig *types.Signature) []*funcInfo {
	var out []*funcInfo
	plain := types.NewSignatureType(nil, nil, nil, sig.Params(), sig.Results(), sig.Variadic())
	for _, fi := range a.allFuncs {
		if fi.recv != nil {
			continue
		}
		cand := types.NewSignatureType(nil, nil, nil, fi.sig.Params(), fi.sig.Results(), fi.sig.Variadic())
		if types.Identical(plain, cand) {
			out = append(out, fi)
		}
	}
	return out
}

// resolve returns the possible targets of a call inside the repository; external is true when the
// callee is code outside the repository (stdlib, third party, user supplied)
func (a *analyzer) resolve(c *ast.CallExpr, en *env) (cs []callee, external bool, extSig *types.Signature, isConv bool) {
	info := en.fn.pkg.info
	fun := unparen(c.Fun)
	if tv, ok := info.Types[fun]; ok && tv.IsType() {
		return nil, false, nil, true
	}
	dyn := func() {
		ft := a.typeOf(fun, en)
		if ft == nil {
			return
		}
		if sig, ok := ft.Underlying().(*types.Signature); ok {
			for _, fi := range a.bySignature(sig) {
				cs = append(cs, callee{fi: fi})
			}
		}
	}
	switch f := fun.(type) {
	case *ast.FuncLit:
		if fi := a.lits[f]; fi != nil {
			cs = append(cs, callee{fi: fi, lex: true})
		}
		return
	case *ast.Ident:
		switch o := en.objOf(f).(type) {
		case *types.Func:
			if fi := a.funcs[o]; fi != nil {
				cs = append(cs, callee{fi: fi})
			} else {
				external = true
				extSig, _ = o.Type().(*types.Signature)
			}
		case *types.Var:
			dyn()
		}
		return
	case *ast.SelectorExpr:
		if sel := info.Selections[f]; sel != nil {
			switch sel.Kind() {
			case types.MethodVal:
				m := sel.Obj().(*types.Func)
				if it, ok := sel.Recv().Underlying().(*types.Interface); ok {
					if a.isRepoPkg(m.Pkg()) {
						for _, fi := range a.implementers(it, m.Name()) {
							cs = append(cs, callee{fi: fi, recv: f.X})
						}
					} else {
						external = true
						extSig, _ = m.Type().(*types.Signature)
					}
					return
				}
				if fi := a.funcs[m]; fi != nil {
					cs = append(cs, callee{fi: fi, recv: f.X})
				} else {
					external = true
					extSig, _ = m.Type().(*types.Signature)
				}
			case types.FieldVal:
				dyn()
			}
			return
		}
		switch o := info.Uses[f.Sel].(type) {
		case *types.Func:
			if fi := a.funcs[o]; fi != nil {
				cs = append(cs, callee{fi: fi})
			} else {
				external = true
				extSig, _ = o.Type().(*types.Signature)
			}
		case *types.Var:
			dyn()
		}
		return
	}
	dyn()
	return
}

func (a *analyzer) bind(fi *funcInfo, cl callee, c *ast.CallExpr, en *env) *env {
	var parent *env
	if fi.encl != nil {
		if cl.lex {
			parent = en
		} else {
			parent = a.staticEnv(fi.encl)
		}
	}
	ne := a.newEnv(fi, parent)
	if fi.recv != nil {
		if cl.recv != nil {
			ne.bound[fi.recv] = a.originOf(cl.recv, en)
			if m := a.litFields(cl.recv, en); m != nil {
				ne.fields[fi.recv] = m
			}
		} else {
			ne.bound[fi.recv] = a.defaultOrigin(fi.recv.Type())
		}
	}
	for i, p := range fi.params {
		o := oset{}
		if c != nil {
			if fi.sig.Variadic() && i == len(fi.params)-1 {
				if c.Ellipsis.IsValid() && i < len(c.Args) {
					o.add(a.originOf(c.Args[i], en))
				} else {
					for _, x := range c.Args[min(i, len(c.Args)):] {
						o.add(a.originOf(x, en))
					}
				}
			} else if i < len(c.Args) {
				if a.hasIdentity(p.Type()) {
					o = a.originOf(c.Args[i], en)
					if m := a.litFields(c.Args[i], en); m != nil {
						ne.fields[p] = m
					}
				}
			}
		} else {
			o = a.defaultOrigin(p.Type())
		}
		ne.bound[p] = o
	}
	return ne
}

func envKey(fi *funcInfo, ne *env) string {
	var b strings.Builder
	b.WriteString(fi.name)
	if fi.recv != nil {
		b.WriteString("|r=" + ne.bound[fi.recv].key())
	}
	for _, p := range fi.params {
		if o := ne.bound[p]; len(o) > 0 {
			b.WriteString("|" + p.Name() + "=" + o.key())
		}
	}
	for e := ne.parent; e != nil; e = e.parent {
		if e.fn.recv != nil {
			b.WriteString("|^" + e.bound[e.fn.recv].key())
		}
	}
	var fk []string
	for v, m := range ne.fields {
		for f, o := range m {
			fk = append(fk, v.Name()+"."+f+"="+o.key())
		}
	}
	sort.Strings(fk)
	for _, k := range fk {
		b.WriteString("|" + k)
	}
	return b.String()
}

// callResult: which object does result i of this call denote
func (a *analyzer) callResult(c *ast.CallExpr, i int, en *env) oset {
	fun := unparen(c.Fun)
	if id, ok := fun.(*ast.Ident); ok {
		if _, isB := en.objOf(id).(*types.Builtin); isB {
			switch id.Name {
			case "append":
				o := oset{}
				for _, x := range c.Args {
					o.add(a.originOf(x, en))
				}
				if len(o) > 1 {
					delete(o, oFresh)
				}
				return o
			case "make", "new":
				return one(oFresh)
			}
			return oset{}
		}
	}
	cs, ext, _, conv := a.resolve(c, en)
	if conv {
		if len(c.Args) == 1 {
			return a.originOf(c.Args[0], en)
		}
		return oset{}
	}
	res := oset{}
	if tv, ok := en.fn.pkg.info.Types[c]; ok {
		// only objects of repo types (or interfaces that may hide them) have an identity we care about
		t := tv.Type
		if tup, ok := t.(*types.Tuple); ok && i < tup.Len() {
			t = tup.At(i).Type()
		}
		if !a.hasIdentity(t) {
			return res
		}
	}
	if ext || len(cs) == 0 {
		return one(oAny)
	}
	for _, cl := range cs {
		ne := a.bind(cl.fi, cl, c, en)
		k := envKey(cl.fi, ne)
		rs, ok := a.retMemo[k]
		if !ok {
			if a.retBusy[k] {
				continue
			}
			a.retBusy[k] = true
			rs = a.returns(cl.fi, ne)
			delete(a.retBusy, k)
			a.retMemo[k] = rs
		}
		if i < len(rs) {
			res.add(rs[i])
		}
	}
	if len(res) > 1 {
		delete(res, oFresh)
	}
	return res
}

func (a *analyzer) returns(fi *funcInfo, ne *env) []oset {
	n := fi.sig.Results().Len()
	out := make([]oset, n)
	for i := range out {
		out[i] = oset{}
	}
	var visit func(n ast.Node) bool
	visit = func(nd ast.Node) bool {
		switch s := nd.(type) {
		case *ast.FuncLit:
			return false
		case *ast.ReturnStmt:
			if len(s.Results) == 0 {
				for i, r := range fi.results {
					if r.Name() != "" && r.Name() != "_" {
						out[i].add(ne.lookup(r))
					}
				}
			} else if len(s.Results) == n {
				for i, r := range s.Results {
					out[i].add(a.originOf(r, ne))
				}
			} else if len(s.Results) == 1 {
				if c, ok := unparen(s.Results[0]).(*ast.CallExpr); ok {
					for i := 0; i < n; i++ {
						out[i].add(a.callResult(c, i, ne))
					}
				}
			}
		}
		return true
	}
	ast.Inspect(fi.body, visit)
	for i := range out {
		if len(out[i]) > 1 {
			delete(out[i], oFresh)
		}
	}
	return out
}

// ---------------------------------------------------------------- the walk

type walker struct {
	a        *analyzer
	en       *env
	locks    lockset
	term     bool
	fl       *flow
	collect  *[]loadRec // loads seen while evaluating the right-hand side of an assignment
	wkind    int        // kind of the write being emitted (0 = plain store)
	rhsLoads []loadRec  // what the stored value derives from
}

func (a *analyzer) site(p token.Pos) string {
	pos := a.fset.Position(p)
	rel, err := filepath.Rel(a.l.root, pos.Filename)
	if err != nil {
		rel = pos.Filename
	}
	return fmt.Sprintf("%s:%d", filepath.ToSlash(rel), pos.Line)
}

func (a *analyzer) note(s string) { a.notes[s] = true }

func (a *analyzer) analyze(fi *funcInfo, ne *env, locks lockset) map[string]loadRec {
	k := envKey(fi, ne) + "||" + locks.key() + "||" + locks.secKey()
	if a.memo[k] {
		return a.summ[k]
	}
	a.memo[k] = true
	if os.Getenv("LOCKS_DEBUG") != "" && strings.Contains(fi.name, os.Getenv("LOCKS_DEBUG")) {
		fmt.Fprintln(os.Stderr, "analyze", k)
	}
	w := &walker{a: a, en: ne, locks: locks.copy(), fl: newFlow()}
	// locks inherited from the caller stay held for the whole call
	for n, v := range w.locks {
		v.deferred = true
		w.locks[n] = v
	}
	w.block(fi.body.List)
	a.summ[k] = w.fl.loads
	return w.fl.loads
}

// merge the loads of a callee into this activation
func (w *walker) merge(m map[string]loadRec) {
	for k, r := range m {
		if _, ok := w.fl.loads[k]; !ok {
			w.fl.loads[k] = r
		}
		if w.collect != nil {
			*w.collect = append(*w.collect, r)
		}
	}
}

func (w *walker) emitField(x *ast.SelectorExpr, write bool) {
	a := w.a
	sel := w.en.fn.pkg.info.Selections[x]
	if sel == nil || sel.Kind() != types.FieldVal {
		return
	}
	f, ok := sel.Obj().(*types.Var)
	if !ok {
		return
	}
	owner := a.fieldOwner[f]
	if owner == nil {
		return
	}
	if _, isL := isSyncLock(f.Type()); isL {
		return
	}
	w.emit(a.tname(owner)+"."+f.Name(), a.tname(owner), a.originOf(x.X, w.en), write, x.Sel.Pos())
}

func (w *walker) emit(field, ownerType string, origins oset, write bool, pos token.Pos) {
	a := w.a
	if len(origins) == 0 {
		origins = one(oAny)
	}
	for o := range origins {
		if o == oFresh {
			a.nFresh++
			continue
		}
		name := field
		if o != ownerType {
			name = field + "@" + o
		}
		ls := [][2]string{}
		for n, v := range w.locks {
			m := "R"
			if v.w {
				m = "W"
			}
			ls = append(ls, [2]string{n, m})
		}
		sort.Slice(ls, func(i, j int) bool { return ls[i][0] < ls[j][0] })
		ft := &fact{Var: name, Field: field, Write: write, Locks: ls, Site: a.site(pos), Fn: w.en.fn.name, Via: a.curVia}
		secs := map[string]string{}
		for n, v := range w.locks {
			secs[n] = v.sec
		}
		if !write {
			r := loadRec{v: name, secs: secs, site: ft.Site}
			if _, ok := w.fl.loads[r.key()]; !ok {
				w.fl.loads[r.key()] = r
			}
			if w.collect != nil {
				*w.collect = append(*w.collect, r)
			}
		} else {
			ft.Kind = w.wkind
			if ft.Kind == 0 {
				ft.Kind = kStore
			}
			if ft.Kind == kStore {
				seen := map[string]bool{}
				add := func(is issue) {
					k := is.What + is.Lock + is.Load
					if !seen[k] {
						seen[k] = true
						ft.Issues = append(ft.Issues, is)
					}
				}
				// the stored value derives from a load of this variable in another critical section
				for _, r := range w.rhsLoads {
					if r.v != name {
						continue
					}
					for n, sb := range secs {
						if r.secs[n] != sb {
							add(issue{What: "split", Lock: n, Load: r.site})
						}
					}
				}
				// check-then-act: the variable was looked at in an earlier critical section of this lock
				// and is stored now without having been looked at again in the current one
				for n, sb := range secs {
					other, same := "", false
					for _, r := range w.fl.loads {
						if r.v != name {
							continue
						}
						if sa, held := r.secs[n]; held {
							if sa == sb {
								same = true
							} else if other == "" || r.site < other {
								other = r.site
							}
						}
					}
					if other != "" && !same {
						add(issue{What: "stale", Lock: n, Load: other})
					}
				}
				sort.Slice(ft.Issues, func(i, j int) bool {
					x, y := ft.Issues[i], ft.Issues[j]
					return x.What+x.Lock+x.Load < y.What+y.Lock+y.Load
				})
			}
		}
		k := fmt.Sprintf("%s|%v|%d|%v|%s", name, write, ft.Kind, ls, ft.Site)
		if old, ok := a.facts[k]; !ok {
			a.facts[k] = ft
		} else if len(ft.Issues) > len(old.Issues) {
			old.Issues = ft.Issues
		}
	}
}

// contents of a named slice/map type with methods (e.g. a heap implementation): pseudo field "[]"
func (w *walker) emitContents(e ast.Expr, write bool) bool {
	t := w.a.typeOf(e, w.en)
	n := w.a.repoNamed(t)
	if n == nil {
		return false
	}
	switch n.Underlying().(type) {
	case *types.Slice, *types.Map, *types.Array:
	default:
		return false
	}
	w.emit(w.a.tname(n)+".[]", w.a.tname(n), w.a.originOf(e, w.en), write, e.Pos())
	return true
}

func (w *walker) block(list []ast.Stmt) {
	for _, s := range list {
		if w.term {
			return
		}
		w.stmt(s)
	}
}

func (w *walker) fork() *walker {
	return &walker{a: w.a, en: w.en, locks: w.locks.copy(), fl: w.fl, collect: w.collect}
}

// join the states of alternative paths; terminated paths do not flow on
func (w *walker) join(alts ...*walker) {
	var cur lockset
	live := false
	for _, x := range alts {
		if x.term {
			continue
		}
		if !live {
			cur = x.locks.copy()
			live = true
		} else {
			cur = meet(cur, x.locks)
		}
	}
	if !live {
		w.term = true
		return
	}
	w.locks = cur
}

func (w *walker) stmt(s ast.Stmt) {
	switch x := s.(type) {
	case nil:
	case *ast.BlockStmt:
		w.block(x.List)
	case *ast.ExprStmt:
		w.expr(x.X)
		if c, ok := unparen(x.X).(*ast.CallExpr); ok {
			if id, ok := unparen(c.Fun).(*ast.Ident); ok && id.Name == "panic" {
				w.term = true
			}
		}
	case *ast.AssignStmt:
		var recs [][]loadRec
		for _, r := range x.Rhs {
			c := []loadRec{}
			saved := w.collect
			w.collect = &c
			w.expr(r)
			w.collect = saved
			c = append(c, w.taintsIn(r)...)
			if saved != nil {
				*saved = append(*saved, c...)
			}
			recs = append(recs, c)
		}
		opAssign := x.Tok != token.ASSIGN && x.Tok != token.DEFINE
		for i, l := range x.Lhs {
			var rl []loadRec
			var rhs ast.Expr
			if len(recs) > 0 {
				j := i
				if j >= len(recs) {
					j = len(recs) - 1
				}
				rl, rhs = recs[j], x.Rhs[j]
			}
			if id, ok := unparen(l).(*ast.Ident); ok {
				if v, ok := w.en.objOf(id).(*types.Var); ok && len(rl) > 0 {
					w.fl.taint[v] = rl
				} else if ok {
					delete(w.fl.taint, v)
				}
				continue
			}
			w.wkind = kStore
			if opAssign || w.selfRef(l, rhs) {
				w.wkind = kRMW
			}
			w.rhsLoads = rl
			w.lhs(l)
			w.wkind, w.rhsLoads = 0, nil
		}
	case *ast.IncDecStmt:
		w.wkind = kRMW
		w.lhs(x.X)
		w.wkind = 0
	case *ast.DeclStmt:
		if gd, ok := x.Decl.(*ast.GenDecl); ok {
			for _, sp := range gd.Specs {
				if vs, ok := sp.(*ast.ValueSpec); ok {
					for _, v := range vs.Values {
						w.expr(v)
					}
				}
			}
		}
	case *ast.ReturnStmt:
		for _, r := range x.Results {
			w.expr(r)
		}
		w.term = true
	case *ast.IfStmt:
		w.stmt(x.Init)
		w.expr(x.Cond)
		t := w.fork()
		t.block(x.Body.List)
		e := w.fork()
		if x.Else != nil {
			e.stmt(x.Else)
		}
		w.join(t, e)
	case *ast.ForStmt:
		w.stmt(x.Init)
		if x.Cond != nil {
			w.expr(x.Cond)
		}
		b := w.fork()
		b.block(x.Body.List)
		if !b.term {
			b.stmt(x.Post)
		}
		if x.Cond == nil && !hasBreak(x.Body) {
			w.term = true // `for { ... }` is left only by return
			return
		}
		b.term = false
		w.join(w.fork(), b)
	case *ast.RangeStmt:
		w.expr(x.X)
		w.emitContents(x.X, false)
		b := w.fork()
		b.block(x.Body.List)
		b.term = false
		w.join(w.fork(), b)
	case *ast.SwitchStmt:
		w.stmt(x.Init)
		if x.Tag != nil {
			w.expr(x.Tag)
		}
		w.clauses(x.Body)
	case *ast.TypeSwitchStmt:
		w.stmt(x.Init)
		w.stmt(x.Assign)
		w.clauses(x.Body)
	case *ast.SelectStmt:
		w.clauses(x.Body)
	case *ast.LabeledStmt:
		w.stmt(x.Stmt)
	case *ast.GoStmt:
		w.spawn(x.Call)
	case *ast.DeferStmt:
		w.deferred(x.Call)
	case *ast.SendStmt:
		w.expr(x.Chan)
		w.expr(x.Value)
	case *ast.BranchStmt:
		if x.Tok != token.FALLTHROUGH {
			w.term = true
		}
	}
}

func hasBreak(b *ast.BlockStmt) bool {
	found := false
	ast.Inspect(b, func(n ast.Node) bool {
		switch x := n.(type) {
		case *ast.FuncLit, *ast.ForStmt, *ast.RangeStmt, *ast.SwitchStmt, *ast.SelectStmt, *ast.TypeSwitchStmt:
			if n != ast.Node(b) {
				// a labelled break out of an inner statement is not modelled: be conservative
				ast.Inspect(x, func(m ast.Node) bool {
					if br, ok := m.(*ast.BranchStmt); ok && br.Tok == token.BREAK && br.Label != nil {
						found = true
					}
					return true
				})
				return false
			}
		case *ast.BranchStmt:
			if x.Tok == token.BREAK || x.Tok == token.GOTO {
				found = true
			}
		}
		return true
	})
	return found
}

func (w *walker) clauses(body *ast.BlockStmt) {
	alts := []*walker{}
	hasDefault := false
	for _, c := range body.List {
		f := w.fork()
		switch cc := c.(type) {
		case *ast.CaseClause:
			if cc.List == nil {
				hasDefault = true
			}
			for _, e := range cc.List {
				f.expr(e)
			}
			f.block(cc.Body)
		case *ast.CommClause:
			if cc.Comm == nil {
				hasDefault = true
			}
			f.stmt(cc.Comm)
			f.block(cc.Body)
		}
		// `break` inside a clause leaves the switch, it does not terminate the path
		if f.term && endsWithBreak(c) {
			f.term = false
		}
		alts = append(alts, f)
	}
	if !hasDefault {
		alts = append(alts, w.fork())
	}
	w.join(alts...)
}

func endsWithBreak(c ast.Stmt) bool {
	var body []ast.Stmt
	switch cc := c.(type) {
	case *ast.CaseClause:
		body = cc.Body
	case *ast.CommClause:
		body = cc.Body
	}
	if len(body) == 0 {
		return false
	}
	br, ok := body[len(body)-1].(*ast.BranchStmt)
	return ok && br.Tok == token.BREAK && br.Label == nil
}

// lock operation?  returns (lock name, op) with op in Lock RLock Unlock RUnlock
func (w *walker) lockOp(c *ast.CallExpr) (string, string, bool) {
	se, ok := unparen(c.Fun).(*ast.SelectorExpr)
	if !ok {
		return "", "", false
	}
	sel := w.en.fn.pkg.info.Selections[se]
	if sel == nil || sel.Kind() != types.MethodVal {
		return "", "", false
	}
	m := sel.Obj().(*types.Func)
	if m.Pkg() == nil || m.Pkg().Path() != "sync" {
		return "", "", false
	}
	switch m.Name() {
	case "Lock", "RLock", "Unlock", "RUnlock":
	default:
		return "", "", false
	}
	recvT := m.Type().(*types.Signature).Recv().Type()
	if _, isL := isSyncLock(recvT); !isL {
		return "", "", false
	}
	return w.lockName(se.X), m.Name(), true
}

func (w *walker) lockName(e ast.Expr) string {
	a := w.a
	switch x := unparen(e).(type) {
	case *ast.SelectorExpr:
		if sel := w.en.fn.pkg.info.Selections[x]; sel != nil && sel.Kind() == types.FieldVal {
			if f, ok := sel.Obj().(*types.Var); ok {
				if _, isL := isSyncLock(f.Type()); isL {
					if o := a.fieldOwner[f]; o != nil {
						return a.tname(o) + "." + f.Name()
					}
				}
			}
			// promoted through an embedded lock or nested struct: name it by the static type of the holder
			if n := a.repoNamed(a.typeOf(x.X, w.en)); n != nil {
				return a.tname(n) + "." + x.Sel.Name
			}
		}
		if v, ok := w.en.fn.pkg.info.Uses[x.Sel].(*types.Var); ok && v.Pkg() != nil {
			return v.Pkg().Name() + "." + v.Name()
		}
	case *ast.Ident:
		if v, ok := w.en.objOf(x).(*types.Var); ok {
			if v.Pkg() != nil && v.Parent() == v.Pkg().Scope() {
				return v.Pkg().Name() + "." + v.Name()
			}
			// embedded sync.Mutex reached through the receiver: x.Lock()
			if n := a.repoNamed(v.Type()); n != nil {
				return a.tname(n) + ".<embedded>"
			}
			return "local:" + v.Name() + "@" + a.site(v.Pos())
		}
	case *ast.UnaryExpr:
		return w.lockName(x.X)
	}
	return "unknown@" + a.site(e.Pos())
}

func (w *walker) applyLock(name, op string) {
	switch op {
	case "Lock":
		w.a.secN++
		w.locks[name] = lk{w: true, sec: fmt.Sprintf("s%d", w.a.secN)}
	case "RLock":
		if cur, ok := w.locks[name]; !ok || !cur.w {
			w.a.secN++
			w.locks[name] = lk{w: false, sec: fmt.Sprintf("s%d", w.a.secN)}
		}
	case "Unlock", "RUnlock":
		delete(w.locks, name)
	}
}

func (w *walker) deferred(c *ast.CallExpr) {
	if name, op, ok := w.lockOp(c); ok {
		switch op {
		case "Unlock", "RUnlock":
			if v, held := w.locks[name]; held {
				v.deferred = true
				w.locks[name] = v
			}
		default:
			w.a.note("deferred " + op + " ignored at " + w.a.site(c.Pos()))
		}
		return
	}
	// arguments are evaluated now; the call runs at return, when only the locks whose unlock was
	// deferred earlier are still held
	at := lockset{}
	for n, v := range w.locks {
		if v.deferred {
			at[n] = v
		}
	}
	w.call(c, at, false)
}

func (w *walker) spawn(c *ast.CallExpr) {
	old := w.a.curVia
	w.a.curVia = "goroutine started at " + w.a.site(c.Pos()) + " (" + old + ")"
	w.call(c, lockset{}, true)
	w.a.curVia = old
}

func (w *walker) lhs(e ast.Expr) {
	switch x := unparen(e).(type) {
	case *ast.Ident:
	case *ast.SelectorExpr:
		w.expr(x.X)
		w.emitField(x, true)
	case *ast.IndexExpr:
		w.expr(x.Index)
		w.lhsContainer(x.X)
	case *ast.StarExpr:
		if !w.emitContents(x.X, true) {
			w.expr(x.X)
		} else {
			w.exprNoContents(x.X)
		}
	default:
		w.expr(e)
	}
}

// the container of an element that is assigned: a field (write to the field) or a named slice/map
func (w *walker) lhsContainer(e ast.Expr) {
	switch x := unparen(e).(type) {
	case *ast.SelectorExpr:
		w.expr(x.X)
		w.emitField(x, true)
	case *ast.IndexExpr:
		w.expr(x.Index)
		w.lhsContainer(x.X)
	case *ast.StarExpr:
		w.lhsContainer(x.X)
	case *ast.Ident:
		w.emitContents(x, true)
	default:
		w.expr(e)
	}
}

func (w *walker) exprNoContents(e ast.Expr) {
	if _, ok := unparen(e).(*ast.Ident); ok {
		return
	}
	w.expr(e)
}

func (w *walker) expr(e ast.Expr) {
	switch x := e.(type) {
	case nil:
	case *ast.ParenExpr:
		w.expr(x.X)
	case *ast.SelectorExpr:
		if sel := w.en.fn.pkg.info.Selections[x]; sel != nil {
			w.expr(x.X)
			if sel.Kind() == types.FieldVal {
				w.emitField(x, false)
			}
		}
	case *ast.IndexExpr:
		w.expr(x.X)
		w.expr(x.Index)
		w.emitContents(x.X, false)
	case *ast.SliceExpr:
		w.expr(x.X)
		w.expr(x.Low)
		w.expr(x.High)
		w.expr(x.Max)
		w.emitContents(x.X, false)
		// slicing an array field hands out a window onto the field's own storage: whoever gets the slice
		// can write the field (binary.PutVarint(v.nonce[:], …)), so it counts as a write
		if se, ok := unparen(x.X).(*ast.SelectorExpr); ok {
			if t := w.a.typeOf(se, w.en); t != nil {
				if _, isArr := t.Underlying().(*types.Array); isArr {
					w.emitField(se, true)
				}
			}
		}
	case *ast.StarExpr:
		w.expr(x.X)
		w.emitContents(x.X, false)
	case *ast.UnaryExpr:
		w.expr(x.X)
		// &x.f escapes the field: later writes through the pointer are writes of the field
		if x.Op == token.AND {
			if se, ok := unparen(x.X).(*ast.SelectorExpr); ok {
				w.emitField(se, true)
			}
		}
	case *ast.BinaryExpr:
		w.expr(x.X)
		w.expr(x.Y)
	case *ast.KeyValueExpr:
		w.expr(x.Value)
	case *ast.CompositeLit:
		for _, el := range x.Elts {
			w.expr(el)
		}
	case *ast.TypeAssertExpr:
		w.expr(x.X)
	case *ast.CallExpr:
		w.call(x, nil, false)
	case *ast.FuncLit:
		// a closure value: its body is analysed where it is called (resolution by signature)
	}
}

var stringerLike = map[string]bool{"String": true, "Error": true, "GoString": true, "Format": true}

// call: at == nil means "with the locks held right now"
func (w *walker) call(c *ast.CallExpr, at lockset, newThread bool) {
	a := w.a
	if name, op, ok := w.lockOp(c); ok && at == nil {
		w.applyLock(name, op)
		return
	}
	fun := unparen(c.Fun)
	// builtins
	if id, ok := fun.(*ast.Ident); ok {
		if _, isB := w.en.objOf(id).(*types.Builtin); isB {
			switch id.Name {
			case "delete":
				if len(c.Args) == 2 {
					w.lhsContainer(c.Args[0])
					w.expr(c.Args[1])
				}
				return
			case "copy":
				if len(c.Args) == 2 {
					w.lhsContainer(c.Args[0])
					w.expr(c.Args[1])
				}
				return
			case "clear":
				for _, x := range c.Args {
					w.lhsContainer(x)
				}
				return
			}
			for _, x := range c.Args {
				w.expr(x)
				if id.Name == "len" || id.Name == "cap" || id.Name == "append" {
					w.emitContents(x, false)
				}
			}
			return
		}
	}
	// the function expression itself (receiver chain, func-typed field) and the arguments are read now
	switch f := fun.(type) {
	case *ast.SelectorExpr:
		if sel := w.en.fn.pkg.info.Selections[f]; sel != nil {
			w.expr(f.X)
			if sel.Kind() == types.FieldVal {
				w.emitField(f, false)
			}
		}
	case *ast.FuncLit, *ast.Ident:
	default:
		w.expr(fun)
	}
	for _, x := range c.Args {
		if fl, ok := unparen(x).(*ast.FuncLit); ok {
			// a literal handed to a callee is assumed to run synchronously in this thread
			if fi := a.lits[fl]; fi != nil {
				ne := a.bind(fi, callee{fi: fi, lex: true}, nil, w.en)
				for _, p := range fi.params {
					ne.bound[p] = a.defaultOrigin(p.Type())
				}
				w.merge(a.analyze(fi, ne, w.cur(at)))
			}
			continue
		}
		w.expr(x)
	}
	cs, ext, extSig, conv := a.resolve(c, w.en)
	if conv {
		return
	}
	held := w.cur(at)
	for _, cl := range cs {
		// an internal package's API becomes an entry point when the rest of the repository uses it
		if cl.fi.obj != nil && cl.fi.recv != nil && cl.fi.pkg != w.en.fn.pkg && strings.Contains(cl.fi.pkg.path+"/", "/internal/") && cl.fi.obj.Exported() {
			if r := a.rootNamed(cl.fi.recv.Type()); r != nil {
				a.addEntry(cl.fi)
			}
		}
		ne := a.bind(cl.fi, cl, c, w.en)
		if sm := a.analyze(cl.fi, ne, held); !newThread {
			w.merge(sm)
		}
	}
	if ext {
		// a method of an external type invoked on one of our fields: unless it has a value receiver,
		// assume it mutates the object, i.e. the call is a write of the field
		if se, ok := fun.(*ast.SelectorExpr); ok {
			if sel := w.en.fn.pkg.info.Selections[se]; sel != nil && sel.Kind() == types.MethodVal {
				m := sel.Obj().(*types.Func)
				rt := m.Type().(*types.Signature).Recv().Type()
				_, ptrRecv := rt.(*types.Pointer)
				if inner, ok := unparen(se.X).(*ast.SelectorExpr); ok && ptrRecv && !isIface(sel.Recv()) {
					full := m.Name()
					if n, ok := deref(rt).(*types.Named); ok && n.Obj().Pkg() != nil {
						full = n.Obj().Pkg().Path() + "." + n.Obj().Name() + "." + m.Name()
					}
					if _, ro := a.readonlyMeth[full]; ro {
						a.usedConfig[full] = true
					} else if _, isL := isSyncLock(rt); !isL {
						w.wkind = kRMW // the external method reads and writes its receiver within this one call
						w.emitField(inner, true)
						w.wkind = 0
					}
				}
			}
		}
		// callbacks: an argument of ours passed as a non-empty interface may have these methods called;
		// passed as `any` (formatting): String/Error/Format
		if extSig != nil {
			for i, x := range c.Args {
				var pt types.Type
				if extSig.Variadic() && i >= extSig.Params().Len()-1 {
					if sl, ok := extSig.Params().At(extSig.Params().Len() - 1).Type().(*types.Slice); ok {
						pt = sl.Elem()
					}
				} else if i < extSig.Params().Len() {
					pt = extSig.Params().At(i).Type()
				}
				if pt == nil {
					continue
				}
				it, ok := pt.Underlying().(*types.Interface)
				if !ok {
					continue
				}
				w.callbacks(x, it, held)
			}
		}
	}
	// loggers and formatters declared in the repository (utils.Logger): same treatment of `any` arguments
	if !ext {
		if se, ok := fun.(*ast.SelectorExpr); ok {
			if sel := w.en.fn.pkg.info.Selections[se]; sel != nil && sel.Kind() == types.MethodVal && isIface(sel.Recv()) {
				sig := sel.Obj().Type().(*types.Signature)
				if sig.Variadic() {
					if sl, ok := sig.Params().At(sig.Params().Len() - 1).Type().(*types.Slice); ok {
						if it, ok := sl.Elem().Underlying().(*types.Interface); ok && it.Empty() {
							for i, x := range c.Args {
								if i >= sig.Params().Len()-1 {
									w.callbacks(x, it, held)
								}
							}
						}
					}
				}
			}
		}
	}
}

func (w *walker) cur(at lockset) lockset {
	if at != nil {
		return at
	}
	return w.locks
}

func (w *walker) callbacks(arg ast.Expr, it *types.Interface, held lockset) {
	a := w.a
	t := a.typeOf(arg, w.en)
	n := a.repoNamed(t)
	if n == nil || isIface(n) {
		return
	}
	var names []string
	if it.Empty() {
		for k := range stringerLike {
			names = append(names, k)
		}
	} else {
		for i := 0; i < it.NumMethods(); i++ {
			names = append(names, it.Method(i).Name())
		}
	}
	sort.Strings(names)
	for _, nm := range names {
		obj, _, _ := types.LookupFieldOrMethod(t, true, n.Obj().Pkg(), nm)
		f, ok := obj.(*types.Func)
		if !ok {
			continue
		}
		fi := a.funcs[f]
		if fi == nil {
			continue
		}
		ne := a.bind(fi, callee{fi: fi, recv: arg}, nil, w.en)
		for _, p := range fi.params {
			ne.bound[p] = a.defaultOrigin(p.Type())
		}
		w.merge(a.analyze(fi, ne, held))
	}
}

// taintsIn: the loads that the locals mentioned in e were computed from
func (w *walker) taintsIn(e ast.Expr) []loadRec {
	var out []loadRec
	if e == nil {
		return nil
	}
	ast.Inspect(e, func(n ast.Node) bool {
		if _, ok := n.(*ast.FuncLit); ok {
			return false
		}
		if id, ok := n.(*ast.Ident); ok {
			if v, ok := w.en.objOf(id).(*types.Var); ok {
				out = append(out, w.fl.taint[v]...)
			}
		}
		return true
	})
	return out
}

// selfRef: the assigned field occurs in the right-hand side of the same statement (x.f = g(x.f))
func (w *walker) selfRef(l, rhs ast.Expr) bool {
	if rhs == nil {
		return false
	}
	var target *types.Var
	for e := unparen(l); target == nil; {
		switch x := e.(type) {
		case *ast.SelectorExpr:
			if sel := w.en.fn.pkg.info.Selections[x]; sel != nil && sel.Kind() == types.FieldVal {
				target, _ = sel.Obj().(*types.Var)
			}
			if target == nil {
				return false
			}
		case *ast.IndexExpr:
			e = unparen(x.X)
		case *ast.StarExpr:
			e = unparen(x.X)
		default:
			return false
		}
	}
	found := false
	ast.Inspect(rhs, func(n ast.Node) bool {
		if se, ok := n.(*ast.SelectorExpr); ok {
			if sel := w.en.fn.pkg.info.Selections[se]; sel != nil && sel.Obj() == target {
				found = true
			}
		}
		return !found
	})
	return found
}

// ---------------------------------------------------------------- entry points

func (a *analyzer) addEntry(fi *funcInfo) {
	if a.entrySeen[fi] {
		return
	}
	a.entrySeen[fi] = true
	a.entryQueue = append(a.entryQueue, fi)
}

func (a *analyzer) collectEntries() {
	for _, fi := range a.allFuncs {
		if fi.obj == nil || fi.recv == nil || !fi.obj.Exported() {
			continue
		}
		r := a.rootNamed(fi.recv.Type())
		if r == nil {
			continue
		}
		if strings.Contains(fi.pkg.path+"/", "/internal/") {
			continue // becomes an entry only when used from outside its package
		}
		if reason, ok := a.configMeth[fi.name]; ok {
			a.usedConfig[fi.name] = true
			_ = reason
			continue
		}
		a.addEntry(fi)
	}
}

func (a *analyzer) run() {
	a.collectEntries()
	for len(a.entryQueue) > 0 {
		fi := a.entryQueue[0]
		a.entryQueue = a.entryQueue[1:]
		a.entries = append(a.entries, fi.name)
		a.curVia = fi.name
		a.analyze(fi, a.staticEnv(fi), lockset{})
	}
	sort.Strings(a.entries)
}
