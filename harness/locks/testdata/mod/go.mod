module example.test/mod

go 1.23.0
