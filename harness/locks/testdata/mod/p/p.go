// Package p is the self-test input of the C09 translator: every field named ok… must come out
// disciplined (or be dropped as immutable / thread-local), every field named bad… undisciplined.
package p

import (
	"fmt"
	"net/http"
	"sort"
	"sync"
)

type A struct {
	mu sync.Mutex
	rw sync.RWMutex

	okCount        int
	okImm          int
	okRW           int
	okDeferOrder   int
	okEarly        int
	okHelper       *H
	okItems        items
	okViaLog       int
	badRace        int
	badBranch      int
	badAfterUnlock int
	badGo          int
	badDeferOrder  int
	badRW          int
	badClosure     int
	badLoop        int
	badSwitch      int
	badHelper      *H
	badSplit       int
	badStale       map[string]int
	badSplitCall   int
	okRecheck      map[string]int
	okBlind        int
	badScratch     [8]byte
	badEscape      E
	next           http.Handler
	log            Logger
}

type Logger interface {
	Debug(format string, args ...interface{})
}

type H struct{ n int }

type items []int

func (x items) Len() int           { return len(x) }
func (x items) Less(i, j int) bool { return x[i] < x[j] }
func (x items) Swap(i, j int)      { x[i], x[j] = x[j], x[i] }

func NewA(next http.Handler) *A {
	a := &A{okImm: 1, okHelper: &H{}, badHelper: &H{}, next: next}
	a.okCount = 7 // thread-local: not yet published
	return a
}

func (a *A) ServeHTTP(w http.ResponseWriter, r *http.Request) {
	a.Inc()
	a.next.ServeHTTP(w, r)
}

func (a *A) Inc() {
	a.mu.Lock()
	defer a.mu.Unlock()
	a.okCount++
	a.okHelper.bump()
	_ = a.okImm
	sort.Sort(a.okItems) // callbacks Len/Less/Swap run under the lock
	a.okItems = append(a.okItems, 1)
	a.log.Debug("%v", view{a})
}

type view struct{ a *A }

func (v view) String() string { v.a.okViaLog++; return fmt.Sprint(v.a.okViaLog) }

func (h *H) bump() { h.n++ }

func (a *A) HelperBad() { a.badHelper.bump() }

func (a *A) HelperBad2() {
	a.mu.Lock()
	defer a.mu.Unlock()
	h := a.badHelper
	h.n = 0
}

func (a *A) Race() { a.badRace++ }

func (a *A) ReadRace() int {
	a.mu.Lock()
	defer a.mu.Unlock()
	return a.badRace
}

func (a *A) Branch(c bool) {
	if c {
		a.mu.Lock()
	}
	a.badBranch++
	if c {
		a.mu.Unlock()
	}
}

func (a *A) After() {
	a.mu.Lock()
	a.badAfterUnlock++
	a.mu.Unlock()
	a.badAfterUnlock++
}

func (a *A) Go() {
	a.mu.Lock()
	defer a.mu.Unlock()
	a.badGo++
	go func() { a.badGo++ }()
}

func (a *A) DeferOK() {
	a.mu.Lock()
	defer a.mu.Unlock()
	defer a.setOK() // runs before the Unlock
}

func (a *A) setOK() { a.okDeferOrder++ }

func (a *A) DeferBad() {
	defer a.setBad() // runs after the Unlock
	a.mu.Lock()
	defer a.mu.Unlock()
	a.badDeferOrder++
}

func (a *A) setBad() { a.badDeferOrder++ }

func (a *A) RW() {
	a.rw.RLock()
	a.badRW++
	a.rw.RUnlock()
}

func (a *A) RWok() int {
	a.rw.Lock()
	a.okRW++
	a.rw.Unlock()
	a.rw.RLock()
	defer a.rw.RUnlock()
	return a.okRW
}

func (a *A) EarlyReturn(c bool) error {
	a.mu.Lock()
	if c {
		a.mu.Unlock()
		return nil
	}
	a.okEarly++
	a.mu.Unlock()
	return nil
}

func (a *A) Loop(n int) {
	for i := 0; i < n; i++ {
		a.mu.Lock()
		a.okEarly++
		if i == 3 {
			a.mu.Unlock()
			continue
		}
		a.mu.Unlock()
		a.badLoop++
	}
}

func (a *A) Switch(k int) {
	switch k {
	case 1:
		a.mu.Lock()
	default:
	}
	a.badSwitch++
}

type opt func(*A)

func (a *A) Apply(o opt) {
	a.mu.Lock()
	defer a.mu.Unlock()
	o(a)
}

func Reset() opt { return func(a *A) { a.okCount = 0 } }

type opt2 func(*A) error

func (a *A) ApplyBad(o opt2) { _ = o(a) }

func Bad() opt2 { return func(a *A) error { a.badClosure++; return nil } }

// lock, load, unlock, lock, store: every access holds the lock, yet updates are lost
func (a *A) Split() {
	a.mu.Lock()
	x := a.badSplit
	a.mu.Unlock()
	y := x + 1
	a.mu.Lock()
	a.badSplit = y
	a.mu.Unlock()
}

func (a *A) loadSplit() int {
	a.mu.Lock()
	defer a.mu.Unlock()
	return a.badSplitCall
}

// the same through a helper that has its own critical section
func (a *A) SplitCall() {
	v := a.loadSplit()
	a.mu.Lock()
	defer a.mu.Unlock()
	a.badSplitCall = v + 1
}

// check, unlock, act
func (a *A) Stale(k string) {
	a.mu.Lock()
	_, ok := a.badStale[k]
	a.mu.Unlock()
	if ok {
		return
	}
	a.mu.Lock()
	defer a.mu.Unlock()
	a.badStale[k] = 1
}

// check, unlock, lock, check again, act: fine
func (a *A) Recheck(k string) {
	a.mu.Lock()
	_, ok := a.okRecheck[k]
	a.mu.Unlock()
	if ok {
		return
	}
	a.mu.Lock()
	defer a.mu.Unlock()
	if _, ok := a.okRecheck[k]; ok {
		return
	}
	a.okRecheck[k] = 1
}

// a store that does not depend on anything read before
func (a *A) Blind() {
	a.mu.Lock()
	defer a.mu.Unlock()
	a.okBlind = 0
}

func (a *A) BlindRead() int {
	a.mu.Lock()
	defer a.mu.Unlock()
	return a.okBlind
}

type E struct{ N int }

// a scratch array field sliced and filled by somebody else
func (a *A) Scratch() []byte {
	buf := a.badScratch[:]
	fill(buf)
	return append([]byte(nil), buf...)
}

func fill(b []byte) {
	for i := range b {
		b[i] = byte(i)
	}
}

// a pointer to a field leaves the critical section
func (a *A) Escape(n int) *E {
	a.mu.Lock()
	defer a.mu.Unlock()
	a.badEscape.N = n
	return &a.badEscape
}

func (a *A) ReadEscaped(e *E) int { return e.N }
