// Package hx is the shared line-protocol runner of the correspondence harness.
//
// A scenario file is a sequence of lines.  A line whose first token is "cfg" starts a new
// scenario (fresh middleware instance); every other non-empty line is one operation.  For every
// input line exactly one output line is printed.  Lines starting with '#' are echoed as "#".
// A panic inside an operation is reported as "panic <msg>" and the scenario continues.
package hx

import (
	"bufio"
	"fmt"
	"os"
	"strconv"
	"strings"
	"time"

	"github.com/vulcand/oxy/v2/internal/holsterv4/clock"
)

// Handler executes the operations of one scenario against the real code.
type Handler interface {
	// Op runs one operation and returns its canonical output line.
	Op(f []string) string
	// Close releases servers, goroutines, files.
	Close()
}

// Base is the instant every scenario's clock starts at unless "cfg" says otherwise:
// 2020-01-01T00:00:00Z.  Model time is nanoseconds since Go's zero time.Time (year 1), which is
// what time.Truncate is relative to; ZeroOffset converts.
var Base = time.Date(2020, 1, 1, 0, 0, 0, 0, time.UTC)

// NsSinceZero converts a time to nanoseconds since Go's zero Time as a decimal string-safe int64
// pair is not possible (overflows int64), so the protocol uses nanoseconds since Base instead
// and the model adds BaseSinceZeroNs.
const BaseUnixSec = 1577836800

var unfreeze func()

// FreezeAt freezes the repo's global clock at Base+ns.
func FreezeAt(ns int64) {
	if unfreeze != nil {
		unfreeze()
	}
	u := clock.Freeze(Base.Add(time.Duration(ns)))
	unfreeze = u.Unfreeze
}

// AdvanceTo moves the frozen clock forward to Base+ns (never backwards).
func AdvanceTo(ns int64) {
	d := Base.Add(time.Duration(ns)).Sub(clock.Now())
	if d > 0 {
		clock.Advance(d)
	}
}

// NowNs is the frozen clock as ns since Base.
func NowNs() int64 { return int64(clock.Now().Sub(Base)) }

func Atoi(s string) int {
	v, err := strconv.Atoi(s)
	if err != nil {
		panic("bad int " + s)
	}
	return v
}

func Atoi64(s string) int64 {
	v, err := strconv.ParseInt(s, 10, 64)
	if err != nil {
		panic("bad int64 " + s)
	}
	return v
}

// KV finds "key=value" among the tokens.
func KV(f []string, key string) (string, bool) {
	for _, t := range f {
		if strings.HasPrefix(t, key+"=") {
			return t[len(key)+1:], true
		}
	}
	return "", false
}

func KVInt(f []string, key string, def int) int {
	if v, ok := KV(f, key); ok {
		return Atoi(v)
	}
	return def
}

func KVInt64(f []string, key string, def int64) int64 {
	if v, ok := KV(f, key); ok {
		return Atoi64(v)
	}
	return def
}

// OpTimeout bounds one operation (env HX_OP_TIMEOUT_MS, default 12000). An operation that does not
// return in time (a loop that no longer terminates, a lost wake-up) is reported as "timeout", the
// rest of its scenario as "dead"; after three timeouts the process gives up.
var OpTimeout = 12 * time.Second

func withTimeout(fn func() string) (res string, timedOut bool) {
	ch := make(chan string, 1)
	go func() {
		defer func() {
			if r := recover(); r != nil {
				ch <- fmt.Sprintf("panic %v", r)
			}
		}()
		ch <- fn()
	}()
	t := time.NewTimer(OpTimeout)
	defer t.Stop()
	select {
	case r := <-ch:
		return r, false
	case <-t.C:
		return "timeout", true
	}
}

// Main runs the protocol on stdin/stdout. newScenario is called for every "cfg" line and returns
// the handler of the new scenario plus the output line for the cfg line itself.
func Main(newScenario func(cfg []string) (Handler, string)) {
	if v := os.Getenv("HX_OP_TIMEOUT_MS"); v != "" {
		OpTimeout = time.Duration(Atoi(v)) * time.Millisecond
	}
	in := bufio.NewScanner(os.Stdin)
	in.Buffer(make([]byte, 1<<20), 1<<26)
	out := bufio.NewWriterSize(os.Stdout, 1<<16)
	defer out.Flush()
	var h Handler
	dead := false
	timeouts := 0
	emit := func(s string) {
		out.WriteString(strings.ReplaceAll(s, "\n", "\\n"))
		out.WriteByte('\n')
		out.Flush()
	}
	for in.Scan() {
		line := in.Text()
		f := strings.Fields(line)
		switch {
		case len(f) == 0:
			emit("")
		case strings.HasPrefix(f[0], "#"):
			emit("#")
		case f[0] == "cfg":
			if h != nil && !dead {
				safeClose(h)
			}
			h = nil
			dead = false
			o, to := withTimeout(func() string {
				var o string
				h, o = newScenario(f)
				return o
			})
			if to {
				dead = true
				timeouts++
			}
			emit(o)
		default:
			if dead {
				emit("dead")
				continue
			}
			if h == nil {
				emit("no-scenario")
				continue
			}
			hh := h
			o, to := withTimeout(func() string { return hh.Op(f) })
			if to {
				dead = true
				timeouts++
			}
			emit(o)
		}
		if timeouts >= 3 {
			out.Flush()
			os.Exit(3)
		}
	}
	if h != nil && !dead {
		safeClose(h)
	}
}

func safeClose(h Handler) {
	done := make(chan struct{})
	go func() {
		defer close(done)
		defer func() { _ = recover() }()
		h.Close()
	}()
	select {
	case <-done:
	case <-time.After(OpTimeout):
	}
}
