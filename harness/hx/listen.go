package hx

import (
	"fmt"
	"math/rand"
	"net"
	"net/http"
	"net/http/httptest"
	"time"
)

// Listen returns a loopback listener. When several checks run at once the ephemeral port range fills
// up with TIME_WAIT sockets and listen(127.0.0.1:0) fails with EADDRINUSE; that is a property of the
// host, not of the code under test, so it must never surface as a result: fall back to explicit
// ports below the ephemeral range and keep trying for a while.
func Listen() (net.Listener, error) {
	var err error
	var ln net.Listener
	deadline := time.Now().Add(20 * time.Second)
	for {
		if ln, err = net.Listen("tcp", "127.0.0.1:0"); err == nil {
			return ln, nil
		}
		for i := 0; i < 64; i++ {
			port := 10000 + rand.Intn(22000)
			if ln, err = net.Listen("tcp", fmt.Sprintf("127.0.0.1:%d", port)); err == nil {
				return ln, nil
			}
		}
		if time.Now().After(deadline) {
			return nil, err
		}
		time.Sleep(50 * time.Millisecond)
	}
}

// NewUnstartedServer is httptest.NewUnstartedServer on a listener obtained from Listen (the stock
// one panics when no port is free).
func NewUnstartedServer(h http.Handler) *httptest.Server {
	ln, err := Listen()
	if err != nil {
		panic("hx: no loopback port available: " + err.Error())
	}
	return &httptest.Server{Listener: ln, Config: &http.Server{Handler: h}}
}

// NewServer is httptest.NewServer on such a listener.
func NewServer(h http.Handler) *httptest.Server {
	s := NewUnstartedServer(h)
	s.Start()
	return s
}
