// Command c17 executes C17 scenarios against the real memmetrics.RollingCounter / RatioCounter.
//
//	cfg n=<buckets> r=<resolution ns> [ratio]   -> ok | err buckets | err resolution
//	[at <ns>] inc <v>      -> ok            (counter)
//	[at <ns>] count        -> <int>
//	[at <ns>] counted      -> <countedBuckets>
//	[at <ns>] window       -> <WindowSize ns>
//	[at <ns>] clone        -> ok            (continue with c.Clone())
//	[at <ns>] append       -> ok            (c.Append(c.Clone()))
//	[at <ns>] snap         -> ok            (snapshot = c.Clone(), kept next to the live counter)
//	[at <ns>] scount | sinc <v> | scounted | sreset -> as count/inc/counted/reset on the snapshot; "none" without one
//	[at <ns>] inca|incb <v>-> ok            (ratio counter)
//	[at <ns>] ratio        -> num/den | 0/0 (from CountA/CountB; Ratio() is cross-checked against it)
//	[at <ns>] ready        -> true|false
//	reset                  -> ok
//
// Time is ns since hx.Base; the frozen clock only moves forward.
package main

import (
	"fmt"
	"strings"
	"time"

	"github.com/vulcand/oxy/v2/memmetrics"
	"github.com/vulcand/oxy/v2/zzverif/hx"
)

type h struct {
	c    *memmetrics.RollingCounter
	snap *memmetrics.RollingCounter
	r    *memmetrics.RatioCounter
}

func (s *h) Op(f []string) string {
	if f[0] == "at" {
		if len(f) < 3 {
			return "bad-op"
		}
		hx.AdvanceTo(hx.Atoi64(f[1]))
		f = f[2:]
	}
	if s.c != nil {
		switch {
		case f[0] == "inc" && len(f) == 2:
			s.c.Inc(hx.Atoi(f[1]))
			return "ok"
		case f[0] == "count" && len(f) == 1:
			return fmt.Sprint(s.c.Count())
		case f[0] == "counted" && len(f) == 1:
			return fmt.Sprint(s.c.CountedBuckets())
		case f[0] == "window" && len(f) == 1:
			return fmt.Sprint(int64(s.c.WindowSize()))
		case f[0] == "clone" && len(f) == 1:
			s.c = s.c.Clone()
			return "ok"
		case f[0] == "append" && len(f) == 1:
			if err := s.c.Append(s.c.Clone()); err != nil {
				return "err " + err.Error()
			}
			return "ok"
		case f[0] == "reset" && len(f) == 1:
			s.c.Reset()
			return "ok"
		case f[0] == "snap" && len(f) == 1:
			s.snap = s.c.Clone()
			return "ok"
		case (f[0] == "scount" || f[0] == "scounted" || f[0] == "sreset") && len(f) == 1, f[0] == "sinc" && len(f) == 2:
			if f[0] == "sinc" {
				_ = hx.Atoi(f[1])
			}
			if s.snap == nil {
				return "none"
			}
			switch f[0] {
			case "scount":
				return fmt.Sprint(s.snap.Count())
			case "scounted":
				return fmt.Sprint(s.snap.CountedBuckets())
			case "sreset":
				s.snap.Reset()
			case "sinc":
				s.snap.Inc(hx.Atoi(f[1]))
			}
			return "ok"
		}
		return "bad-op"
	}
	switch {
	case f[0] == "inca" && len(f) == 2:
		s.r.IncA(hx.Atoi(f[1]))
		return "ok"
	case f[0] == "incb" && len(f) == 2:
		s.r.IncB(hx.Atoi(f[1]))
		return "ok"
	case f[0] == "ratio" && len(f) == 1:
		got := s.r.Ratio()
		a, b := s.r.CountA(), s.r.CountB()
		out, want := "0/0", 0.0
		if a+b != 0 {
			out = fmt.Sprintf("%d/%d", a, a+b)
			want = float64(a) / float64(a+b)
		}
		if got != want {
			// Ratio() is not the quotient of the counters it is built on
			return out + " ratio-mismatch"
		}
		if pc := s.r.ProcessedCount(); pc != a+b {
			return out + " processed-mismatch"
		}
		return out
	case f[0] == "ready" && len(f) == 1:
		return fmt.Sprint(s.r.IsReady())
	case f[0] == "window" && len(f) == 1:
		return fmt.Sprint(int64(s.r.WindowSize()))
	case f[0] == "reset" && len(f) == 1:
		s.r.Reset()
		return "ok"
	}
	return "bad-op"
}

func (s *h) Close() {}

func errStr(err error) string {
	switch {
	case strings.Contains(err.Error(), "buckets"):
		return "err buckets"
	case strings.Contains(err.Error(), "resolution"):
		return "err resolution"
	}
	return "err other " + strings.ReplaceAll(err.Error(), " ", "_")
}

func main() {
	hx.Main(func(cfg []string) (hx.Handler, string) {
		hx.FreezeAt(0)
		n := hx.KVInt(cfg, "n", 10)
		r := time.Duration(hx.KVInt64(cfg, "r", int64(time.Second)))
		ratio := false
		for _, t := range cfg {
			if t == "ratio" {
				ratio = true
			}
		}
		if ratio {
			rc, err := memmetrics.NewRatioCounter(n, r)
			if err != nil {
				return nil, errStr(err)
			}
			return &h{r: rc}, "ok"
		}
		c, err := memmetrics.NewCounter(n, r)
		if err != nil {
			return nil, errStr(err)
		}
		return &h{c: c}, "ok"
	})
}
