// Command c20 builds REAL stacks of the real oxy middlewares and serves scripted handlers through them
// over a real httptest.Server + real client (so http.Flusher / http.Hijacker are the stdlib's own).
//
//	cfg stack=<layer>,<layer>,...|-  intervene=<idx|none>  [front=real|nohijack|noflush|plain]  h=<script>
//	    front: the ResponseWriter the outermost layer receives: net/http's own (real) or a wrapper that hides
//	           http.Hijacker, http.Flusher or both (what a recorder, http.TimeoutHandler or HTTP/2 hand to a middleware)
//	    layer  := kind[/opt]...   kind in stream trace connlimit ratelimit cbreaker roundrobin rebalancer buffer
//	    opts   := s        sticky session on a balancer (cookie sk0…0 with 9-idx zeros)
//	              f<code>  breaker fallback = ResponseFallback{code,"text/fb","fb-body"};  fr = RedirectFallback, frp = RedirectFallback with PreservePath
//	              q<n> r<n> m<n>   buffer MaxRequestBodyBytes / MaxResponseBodyBytes / Mem{Request,Response}BodyBytes
//	              t        buffer Retry("IsNetworkError() && Attempts() <= 2")
//	              v        the layer's Verbose/Debug option on and a Logger installed (all kinds; trace and ratelimit: Logger only)
//	              p<ms>    ratelimit period in milliseconds (default 1000): passing = 10^6 per period, at its limit = 1 per period burst 1
//	    intervene=<idx>: the layer at that position (0 = outermost) is driven to its limit before the first op:
//	              connlimit max=1 with one request parked inside the handler (every other connlimit: max = 1 + parked requests,
//	              i.e. exactly what the sequential ops need, so that one leaked slot is visible); ratelimit 1/s burst 1 consumed by a
//	              priming request (frozen clock); breaker tripped by a priming 500; balancers get an empty pool.
//	              stream / trace / buffer have no such state (buffer intervenes through q<n> and the request body).
//	    script := status:<code|none>;hdr:K=V,K=V;body:<len>,<len>;flush:<k>;hijack:<0|1>[;info:<1xx>,<1xx>][;early:<0|1>]
//	              info: WriteHeader(1xx) calls before the final status; early:1 = Flush after the headers/WriteHeader,
//	              before the first body byte (flush=1 then also needs the response HEADERS at the client while the handler runs)
//	              body chunk i byte j = (37i+11j+7) mod 251; flush:k = Flush after chunk k (0 = never)
//	req [body=<len>] [abort=1] [src=<name>]
//	    src: the source the connection/rate limiters see (their extractor reads the header X-Src; default "src", which is also the
//	    source of the priming / parked requests): limits are per source, other sources start fresh
//	    abort=1: the handler does its (non-hijacking) writes/flush and then leaves by panic(http.ErrAbortHandler); the client
//	    sees a broken or short response -> aborted invoked=<n>   (if a layer intervened the handler never ran: normal line)
//	    all req ops of a scenario go to the SAME stack instance, one after the other
//	    -> status=<code> invoked=<n> body=<len>:<adler32> hdr=<K:V|K:V sorted by key|-> flush=<-|0|1> hijack=<-|0|1> fi=<-|0|1> hi=<-|0|1> info=<1xx codes the client saw|->
//	       flush=1: the bytes written before Flush reached the client while the handler was still running
//	       hijack=1: Hijack() returned a connection (the handler then writes the raw response itself)
//	       fi/hi: the handler's ResponseWriter implements http.Flusher / http.Hijacker ("-" = handler not invoked)
//	    -> err transport:<class> invoked=<n> [panic=<msg>] | err body:<class> status=<code> invoked=<n>   (no complete response)
//	       an exchange that hits the 25 s client timeout is repeated once as a fresh request
//	    -> env-error <class>   the host ran out of ports (EADDRINUSE / EADDRNOTAVAIL) even after retries: not a statement about the code
//	    client connections are closed with SO_LINGER 0 (RST) so that tens of thousands of requests leave no TIME_WAIT sockets
package main

import (
	"errors"
	"context"
	"fmt"
	"hash/adler32"
	"io"
	"log"
	"net"
	"net/http"
	"net/http/httptest"
	"net/http/httptrace"
	"net/textproto"
	"net/url"
	"os"
	"sort"
	"strconv"
	"strings"
	"sync"
	"sync/atomic"
	"time"

	"github.com/vulcand/oxy/v2/buffer"
	"github.com/vulcand/oxy/v2/cbreaker"
	"github.com/vulcand/oxy/v2/connlimit"
	"github.com/vulcand/oxy/v2/ratelimit"
	"github.com/vulcand/oxy/v2/roundrobin"
	"github.com/vulcand/oxy/v2/stream"
	"github.com/vulcand/oxy/v2/trace"
	"github.com/vulcand/oxy/v2/utils"
	"github.com/vulcand/oxy/v2/zzverif/hx"
)

var flushWait = time.Second

type layerSpec struct {
	kind     string
	sticky   bool
	sinkFails bool // trace: the io.Writer the records go to returns an error on every Write
	fb       string // "", "r", "<code>"
	q, r, m  int64
	periodMs int64
	retry    bool
	verbose  bool
}

type script struct {
	status     int // 0 = never calls WriteHeader
	hdrs       [][2]string
	chunks     []int
	flushAfter int
	hijack     bool
	info       []int
	early      bool
}

type reqState struct {
	invoked  int32
	fi, hi   int32 // -1 unknown
	flush    int32 // -1 not attempted
	hijack   int32
	hdrSeen  int32
	read     int64
	done     chan struct{}
	once     sync.Once
	panicked atomic.Value // string
	infoMu   sync.Mutex
	infos    []int
}

type scen struct {
	srv         *httptest.Server
	client      *http.Client
	sc          script
	cur         string // source of the current op ("" = default source "src")
	states      sync.Map
	seq         int
	holdEntered chan struct{}
	holdRelease chan struct{}
	holdDone    chan struct{}
}

func (s *scen) state(id string) *reqState {
	v, _ := s.states.LoadOrStore(id, &reqState{fi: -1, hi: -1, flush: -1, hijack: -1, done: make(chan struct{})})
	return v.(*reqState)
}

func chunkBytes(i, n int) []byte {
	b := make([]byte, n)
	for j := range b {
		b[j] = byte((37*i + 11*j + 7) % 251)
	}
	return b
}

func b2i(b bool) int32 {
	if b {
		return 1
	}
	return 0
}

// the scripted innermost handler
func (s *scen) handle(w http.ResponseWriter, r *http.Request) {
	st := s.state(r.Header.Get("X-Req-Id"))
	atomic.AddInt32(&st.invoked, 1)
	n, _ := io.Copy(io.Discard, r.Body)
	if r.Header.Get("X-Hold") != "" {
		close(s.holdEntered)
		<-s.holdRelease
		w.WriteHeader(http.StatusOK)
		return
	}
	if ps := r.Header.Get("X-Prime-Status"); ps != "" {
		w.WriteHeader(hx.Atoi(ps))
		return
	}
	fl, fi := w.(http.Flusher)
	hj, hi := w.(http.Hijacker)
	atomic.StoreInt32(&st.fi, b2i(fi))
	atomic.StoreInt32(&st.hi, b2i(hi))
	sc := s.sc
	hdrs := append(append([][2]string{}, sc.hdrs...), [2]string{"X-Req-Len", strconv.FormatInt(n, 10)})
	// the credentials of the request as the handler received them (every client request carries the same three):
	// a layer that passes must hand the handler the request the client sent
	app := ""
	if c, err := r.Cookie("app"); err == nil {
		app = c.Value
	}
	hdrs = append(hdrs, [2]string{"X-Req-Cred", r.Header.Get("Authorization") + "/" + r.Header.Get("Proxy-Authorization") + "/" + app})
	status := sc.status
	if status == 0 {
		status = http.StatusOK
	}
	abort := r.Header.Get("X-Abort") != ""
	if abort {
		defer panic(http.ErrAbortHandler)
	}
	if sc.hijack && !abort {
		ok := false
		if hi {
			conn, _, err := hj.Hijack()
			if err == nil && conn != nil {
				ok = true
				atomic.StoreInt32(&st.hijack, 1)
				var sb strings.Builder
				fmt.Fprintf(&sb, "HTTP/1.1 %d %s\r\n", status, http.StatusText(status))
				total := 0
				for _, c := range sc.chunks {
					total += c
				}
				for _, kv := range hdrs {
					fmt.Fprintf(&sb, "%s: %s\r\n", kv[0], kv[1])
				}
				if status != 204 && status != 304 {
					fmt.Fprintf(&sb, "Content-Length: %d\r\n", total)
				}
				sb.WriteString("Connection: close\r\n\r\n")
				_, _ = conn.Write([]byte(sb.String()))
				for i, c := range sc.chunks {
					_, _ = conn.Write(chunkBytes(i, c))
				}
				_ = conn.Close()
				return
			}
		}
		if !ok {
			atomic.StoreInt32(&st.hijack, 0)
		}
	}
	for _, kv := range hdrs {
		w.Header().Add(kv[0], kv[1])
	}
	for _, c := range sc.info {
		w.WriteHeader(c)
	}
	if sc.status != 0 {
		w.WriteHeader(sc.status)
	}
	noteFlush := func(v int32) { // flush=1 only if every Flush of the script was delivered
		if cur := atomic.LoadInt32(&st.flush); cur == -1 || v < cur {
			atomic.StoreInt32(&st.flush, v)
		}
	}
	if sc.early {
		if fi {
			fl.Flush()
			noteFlush(waitDelivered(st, 0))
		} else {
			noteFlush(0)
		}
	}
	cum := int64(0)
	for i, c := range sc.chunks {
		_, _ = w.Write(chunkBytes(i, c))
		cum += int64(c)
		if sc.flushAfter == i+1 {
			if fi {
				fl.Flush()
				noteFlush(waitDelivered(st, cum))
			} else {
				noteFlush(0)
			}
		}
	}
}

// waitDelivered reports whether the client has read the first cum body bytes while the handler is still running.
// The negative answer needs both the wall-clock wait and a minimum number of polls actually executed, so that a
// stalled machine cannot turn a delivered flush into "not delivered".
func waitDelivered(st *reqState, cum int64) int32 {
	deadline := time.Now().Add(flushWait)
	for polls := 0; ; polls++ {
		if atomic.LoadInt32(&st.hdrSeen) == 1 && atomic.LoadInt64(&st.read) >= cum {
			return 1
		}
		if polls >= 500 && time.Now().After(deadline) {
			return 0
		}
		time.Sleep(200 * time.Microsecond)
	}
}

func parseScript(v string) (script, error) {
	var sc script
	for _, part := range strings.Split(v, ";") {
		k, val, ok := strings.Cut(part, ":")
		if !ok {
			return sc, fmt.Errorf("script")
		}
		switch k {
		case "status":
			if val != "none" {
				sc.status = hx.Atoi(val)
			}
		case "hdr":
			if val == "" {
				continue
			}
			for _, kv := range strings.Split(val, ",") {
				a, b, ok := strings.Cut(kv, "=")
				if !ok {
					return sc, fmt.Errorf("hdr")
				}
				sc.hdrs = append(sc.hdrs, [2]string{a, b})
			}
		case "body":
			if val == "" {
				continue
			}
			for _, c := range strings.Split(val, ",") {
				sc.chunks = append(sc.chunks, hx.Atoi(c))
			}
		case "flush":
			sc.flushAfter = hx.Atoi(val)
		case "hijack":
			sc.hijack = val == "1"
		case "early":
			sc.early = val == "1"
		case "info":
			if val == "" {
				continue
			}
			for _, c := range strings.Split(val, ",") {
				sc.info = append(sc.info, hx.Atoi(c))
			}
		default:
			return sc, fmt.Errorf("script key")
		}
	}
	return sc, nil
}

func parseStack(v string) ([]layerSpec, error) {
	if v == "-" || v == "" {
		return nil, nil
	}
	var out []layerSpec
	for _, tok := range strings.Split(v, ",") {
		parts := strings.Split(tok, "/")
		l := layerSpec{kind: parts[0]}
		switch l.kind {
		case "stream", "trace", "connlimit", "ratelimit", "cbreaker", "roundrobin", "rebalancer", "buffer":
		default:
			return nil, fmt.Errorf("kind")
		}
		for _, o := range parts[1:] {
			switch {
			case o == "s":
				l.sticky = true
			case o == "fr":
				l.fb = "r"
			case o == "frp":
				l.fb = "rp"
			case o == "t":
				l.retry = true
			case o == "v":
				l.verbose = true
			case o == "wf":
				l.sinkFails = true
			case strings.HasPrefix(o, "f"):
				l.fb = o[1:]
				hx.Atoi(l.fb)
			case strings.HasPrefix(o, "q"):
				l.q = hx.Atoi64(o[1:])
			case strings.HasPrefix(o, "r"):
				l.r = hx.Atoi64(o[1:])
			case strings.HasPrefix(o, "m"):
				l.m = hx.Atoi64(o[1:])
			case strings.HasPrefix(o, "p"):
				l.periodMs = hx.Atoi64(o[1:])
			default:
				return nil, fmt.Errorf("opt")
			}
		}
		out = append(out, l)
	}
	return out, nil
}

// fmtLogger formats every message (so that the arguments are really evaluated) and drops it.
type fmtLogger struct{ n int64 }

func (l *fmtLogger) log(msg string, args ...any) {
	atomic.AddInt64(&l.n, int64(len(fmt.Sprintf(msg, args...))))
}
func (l *fmtLogger) Debug(msg string, args ...any) { l.log(msg, args...) }
func (l *fmtLogger) Info(msg string, args ...any)  { l.log(msg, args...) }
func (l *fmtLogger) Warn(msg string, args ...any)  { l.log(msg, args...) }
func (l *fmtLogger) Error(msg string, args ...any) { l.log(msg, args...) }

// the source of a request (connlimit / ratelimit key): header X-Src, default "src" (priming and parked requests are "src")
var source = utils.ExtractorFunc(func(r *http.Request) (string, int64, error) {
	if v := r.Header.Get("X-Src"); v != "" {
		return v, 1, nil
	}
	return "src", 1, nil
})

func build(specs []layerSpec, intervene int, inner http.Handler) (http.Handler, error) {
	next := inner
	for i := len(specs) - 1; i >= 0; i-- {
		l := specs[i]
		trip := i == intervene
		var h http.Handler
		var err error
		lg := &fmtLogger{}
		switch l.kind {
		case "stream":
			if l.verbose {
				h, err = stream.New(next, stream.Verbose(true), stream.Logger(lg))
			} else {
				h, err = stream.New(next)
			}
		case "trace":
			var sink io.Writer = io.Discard
			if l.sinkFails {
				sink = failingWriter{}
			}
			if l.verbose {
				h, err = trace.New(next, sink, trace.Logger(lg), trace.RequestHeaders("X-Req-Id"), trace.ResponseHeaders("Content-Type"))
			} else {
				h, err = trace.New(next, sink)
			}
		case "connlimit":
			max := int64(1)
			if !trip && intervene >= 0 && specs[intervene].kind == "connlimit" {
				max = 2 // the parked request sits in one slot of every connlimit of the stack
			}
			if l.verbose {
				h, err = connlimit.New(next, source, max, connlimit.Verbose(true), connlimit.Logger(lg))
			} else {
				h, err = connlimit.New(next, source, max)
			}
		case "ratelimit":
			rs := ratelimit.NewRateSet()
			period := time.Second
			if l.periodMs > 0 {
				period = time.Duration(l.periodMs) * time.Millisecond
			}
			if trip {
				err = rs.Add(period, 1, 1)
			} else {
				err = rs.Add(period, 1000000, 1000000)
			}
			if err == nil {
				if l.verbose {
					h, err = ratelimit.New(next, source, rs, ratelimit.Logger(lg))
				} else {
					h, err = ratelimit.New(next, source, rs)
				}
			}
		case "cbreaker":
			expr := "NetworkErrorRatio() > 2.0"
			if trip {
				expr = "ResponseCodeRatio(500, 600, 0, 600) > 0.5"
			}
			var opts []cbreaker.Option
			var rfo []cbreaker.ResponseFallbackOption
			var rdo []cbreaker.RedirectFallbackOption
			if l.verbose {
				opts = append(opts, cbreaker.Verbose(true), cbreaker.Logger(lg))
				rfo = append(rfo, cbreaker.ResponseFallbackDebug(true), cbreaker.ResponseFallbackLogger(lg))
				rdo = append(rdo, cbreaker.RedirectFallbackDebug(true), cbreaker.RedirectFallbackLogger(lg))
			}
			switch {
			case l.fb == "r" || l.fb == "rp":
				fb, e := cbreaker.NewRedirectFallback(cbreaker.Redirect{URL: "http://fallback.verif/x", PreservePath: l.fb == "rp"}, rdo...)
				if e != nil {
					return nil, e
				}
				opts = append(opts, cbreaker.Fallback(fb))
			case l.fb != "":
				fb, e := cbreaker.NewResponseFallback(cbreaker.Response{StatusCode: hx.Atoi(l.fb), ContentType: "text/fb", Body: []byte("fb-body")}, rfo...)
				if e != nil {
					return nil, e
				}
				opts = append(opts, cbreaker.Fallback(fb))
			}
			h, err = cbreaker.New(next, expr, opts...)
		case "roundrobin":
			var opts []roundrobin.LBOption
			if l.verbose {
				opts = append(opts, roundrobin.Verbose(true), roundrobin.Logger(lg))
			}
			if l.sticky {
				opts = append(opts, roundrobin.EnableStickySession(roundrobin.NewStickySession(stickyName(i))))
			}
			var rr *roundrobin.RoundRobin
			rr, err = roundrobin.New(next, opts...)
			if err == nil && !trip {
				err = rr.UpsertServer(&url.URL{Scheme: "http", Host: "b0"})
			}
			h = rr
		case "rebalancer":
			var rr *roundrobin.RoundRobin
			rr, err = roundrobin.New(next)
			if err != nil {
				return nil, err
			}
			var opts []roundrobin.RebalancerOption
			if l.verbose {
				opts = append(opts, roundrobin.RebalancerDebug(true), roundrobin.RebalancerLogger(lg))
			}
			if l.sticky {
				opts = append(opts, roundrobin.RebalancerStickySession(roundrobin.NewStickySession(stickyName(i))))
			}
			var rb *roundrobin.Rebalancer
			rb, err = roundrobin.NewRebalancer(rr, opts...)
			if err == nil && !trip {
				err = rb.UpsertServer(&url.URL{Scheme: "http", Host: "b0"})
			}
			h = rb
		case "buffer":
			var opts []buffer.Option
			if l.verbose {
				opts = append(opts, buffer.Verbose(true), buffer.Logger(lg))
			}
			if l.retry {
				opts = append(opts, buffer.Retry(`IsNetworkError() && Attempts() <= 2`))
			}
			if l.q > 0 {
				opts = append(opts, buffer.MaxRequestBodyBytes(l.q))
			}
			if l.r > 0 {
				opts = append(opts, buffer.MaxResponseBodyBytes(l.r))
			}
			if l.m > 0 {
				opts = append(opts, buffer.MemRequestBodyBytes(l.m), buffer.MemResponseBodyBytes(l.m))
			}
			h, err = buffer.New(next, opts...)
		}
		if err != nil {
			return nil, err
		}
		next = h
	}
	return next, nil
}

func (s *scen) do(body int, hdr map[string]string) (*http.Response, *reqState, error) {
	s.seq++
	id := strconv.Itoa(s.seq)
	st := s.state(id)
	var rd io.Reader
	method := http.MethodGet
	if body > 0 {
		method = http.MethodPost
		rd = strings.NewReader(strings.Repeat("x", body))
	}
	req, err := http.NewRequest(method, s.srv.URL+"/p", rd)
	if err != nil {
		return nil, st, err
	}
	if s.cur != "" {
		req.Header.Set("X-Src", s.cur)
	}
	req.Header.Set("X-Req-Id", id)
	req.Header.Set("Authorization", "Bearer-c20")
	req.Header.Set("Proxy-Authorization", "Basic-c20p")
	req.AddCookie(&http.Cookie{Name: "app", Value: "c20"})
	for k, v := range hdr {
		req.Header.Set(k, v)
	}
	req = req.WithContext(httptrace.WithClientTrace(req.Context(), &httptrace.ClientTrace{
		Got1xxResponse: func(code int, _ textproto.MIMEHeader) error {
			st.infoMu.Lock()
			st.infos = append(st.infos, code)
			st.infoMu.Unlock()
			return nil
		},
	}))
	resp, err := s.client.Do(req)
	return resp, st, err
}

func (s *scen) prime(status string) error {
	resp, st, err := s.do(0, map[string]string{"X-Prime-Status": status})
	if err != nil {
		return err
	}
	_, _ = io.Copy(io.Discard, resp.Body)
	_ = resp.Body.Close()
	select {
	case <-st.done:
	case <-time.After(30 * time.Second):
		return fmt.Errorf("prime not finished")
	}
	return nil
}

var skipHdr = map[string]bool{"Date": true, "Content-Length": true, "Transfer-Encoding": true, "Connection": true}

func canonHeaders(h http.Header) string {
	keys := make([]string, 0, len(h))
	for k := range h {
		if !skipHdr[k] {
			keys = append(keys, k)
		}
	}
	sort.Strings(keys)
	var parts []string
	for _, k := range keys {
		for _, v := range h[k] {
			parts = append(parts, k+":"+strings.ReplaceAll(v, " ", "_"))
		}
	}
	if len(parts) == 0 {
		return "-"
	}
	return strings.Join(parts, "|")
}

func tri(v int32) string {
	if v < 0 {
		return "-"
	}
	return strconv.Itoa(int(v))
}

func (s *scen) Op(f []string) string {
	if f[0] != "req" {
		return "bad-op"
	}
	body := hx.KVInt(f, "body", 0)
	s.cur, _ = hx.KV(f, "src")
	if v, _ := hx.KV(f, "abort"); v == "1" {
		return s.abortExchange(body)
	}
	out, timedOut := s.exchange(body)
	for try := 0; try < 4 && strings.HasPrefix(out, "err transport:") && (strings.Contains(out, "cannot_assign") || strings.Contains(out, "address_already_in_use")); try++ {
		time.Sleep(500 * time.Millisecond)
		out, timedOut = s.exchange(body)
	}
	if strings.HasPrefix(out, "err transport:cannot_assign") || strings.HasPrefix(out, "err transport:address_already_in_use") {
		return "env-error " + strings.Fields(out)[1]
	}
	if timedOut {
		// Machine-wide stalls of tens of seconds (memory exhaustion by unrelated processes) have been observed; the
		// exchange is repeated once as a fresh request.  A reproducible hang times out again and is reported.
		out, _ = s.exchange(body)
	}
	return out
}

// abortExchange sends a request whose handler panics with http.ErrAbortHandler.  Whatever the client saw of it is
// canonicalised as "aborted"; if the handler was never reached the exchange is an ordinary one (a layer answered).
func (s *scen) abortExchange(body int) string {
	line, st, _ := s.exchangeH(body, map[string]string{"X-Abort": "1"})
	<-waitOr(st.done, 10*time.Second) // the panic has unwound through the whole stack (deferred code has run)
	if inv := atomic.LoadInt32(&st.invoked); inv > 0 {
		return fmt.Sprintf("aborted invoked=%d", inv)
	}
	return line
}

func isTimeout(err error) bool {
	c := errClass(err)
	return c == "Timeout_exceeded" || c == "deadline_exceeded"
}

func (s *scen) exchange(body int) (string, bool) {
	line, _, timedOut := s.exchangeH(body, nil)
	return line, timedOut
}

func (s *scen) exchangeH(body int, hdr map[string]string) (string, *reqState, bool) {
	resp, st, err := s.do(body, hdr)
	if err != nil {
		<-waitOr(st.done, 500*time.Millisecond)
		return fmt.Sprintf("err transport:%s invoked=%d%s", errClass(err), atomic.LoadInt32(&st.invoked), panicNote(st)), st, isTimeout(err)
	}
	atomic.StoreInt32(&st.hdrSeen, 1)
	sum := adler32.New()
	total := 0
	buf := make([]byte, 32768)
	var rerr error
	for {
		n, e := resp.Body.Read(buf)
		if n > 0 {
			sum.Write(buf[:n])
			total += n
			atomic.AddInt64(&st.read, int64(n))
		}
		if e != nil {
			if e != io.EOF {
				rerr = e
			}
			break
		}
	}
	_ = resp.Body.Close()
	<-waitOr(st.done, 3*time.Second)
	if rerr != nil {
		return fmt.Sprintf("err body:%s status=%d invoked=%d%s", errClass(rerr), resp.StatusCode, atomic.LoadInt32(&st.invoked), panicNote(st)), st, isTimeout(rerr)
	}
	inv := atomic.LoadInt32(&st.invoked)
	fi, hi := atomic.LoadInt32(&st.fi), atomic.LoadInt32(&st.hi)
	st.infoMu.Lock()
	info := "-"
	if len(st.infos) > 0 {
		parts := make([]string, len(st.infos))
		for i, c := range st.infos {
			parts[i] = strconv.Itoa(c)
		}
		info = strings.Join(parts, ",")
	}
	st.infoMu.Unlock()
	return fmt.Sprintf("status=%d invoked=%d body=%d:%08x hdr=%s flush=%s hijack=%s fi=%s hi=%s info=%s", resp.StatusCode, inv, total, sum.Sum32(),
		canonHeaders(resp.Header), tri(atomic.LoadInt32(&st.flush)), tri(atomic.LoadInt32(&st.hijack)), tri(fi), tri(hi), info), st, false
}

func panicNote(st *reqState) string {
	if p, ok := st.panicked.Load().(string); ok {
		return " panic=" + p
	}
	return ""
}

func errClass(err error) string {
	m := err.Error()
	for _, k := range []string{"EOF", "Timeout exceeded", "deadline exceeded", "connection refused", "connection reset", "cannot assign", "address already in use", "broken pipe", "malformed"} {
		if strings.Contains(m, k) {
			return strings.ReplaceAll(k, " ", "_")
		}
	}
	return "other"
}

func isEnvErr(err error) bool {
	c := errClass(err)
	return c == "cannot_assign" || c == "address_already_in_use"
}

// newTransport: one connection per request, dialled with retries when the host is out of ports, and closed with
// SO_LINGER 0 so that the client side sends RST instead of leaving a TIME_WAIT socket behind.
func newTransport() *http.Transport {
	d := &net.Dialer{Timeout: 10 * time.Second}
	return &http.Transport{
		DisableKeepAlives:  true,
		DisableCompression: true,
		DialContext: func(ctx context.Context, network, addr string) (net.Conn, error) {
			var c net.Conn
			var err error
			for try := 0; try < 20; try++ {
				if c, err = d.DialContext(ctx, network, addr); err == nil || !isEnvErr(err) {
					break
				}
				time.Sleep(100 * time.Millisecond)
			}
			if err != nil {
				return nil, err
			}
			if t, ok := c.(*net.TCPConn); ok {
				_ = t.SetLinger(0)
			}
			return c, nil
		},
	}
}

// fronts: what the outermost layer gets as its ResponseWriter when the server's own writer is wrapped
type flushOnly struct {
	http.ResponseWriter
	http.Flusher
}
type hijackOnly struct {
	http.ResponseWriter
	http.Hijacker
}
type plainWriter struct{ http.ResponseWriter }

func waitOr(c chan struct{}, d time.Duration) chan struct{} {
	out := make(chan struct{})
	go func() {
		select {
		case <-c:
		case <-time.After(d):
		}
		close(out)
	}()
	return out
}

func (s *scen) Close() {
	if s.holdRelease != nil {
		select {
		case <-s.holdRelease:
		default:
			close(s.holdRelease)
		}
		if s.holdDone != nil {
			<-waitOr(s.holdDone, 2*time.Second)
		}
	}
	s.client.CloseIdleConnections()
	s.srv.CloseClientConnections()
	s.srv.Close()
}

// failingWriter: a trace sink that is gone (closed file, broken pipe, full disk)
type failingWriter struct{}

func (failingWriter) Write([]byte) (int, error) { return 0, errors.New("sink gone") }

// stickyName: affinity cookie of the balancer at stack position i.  Inner tiers get names that are proper prefixes of the outer
// tiers' names (sk000000000, sk00000000, …): a tier that touches cookies by name prefix shows at once.
func stickyName(i int) string {
	if i > 9 {
		i = 9
	}
	return "sk" + strings.Repeat("0", 9-i)
}

func newScenario(cfg []string) (hx.Handler, string) {
	if len(cfg) > 1 && cfg[1] == "pw" {
		return newPWScenario(cfg)
	}
	hx.FreezeAt(0)
	sv, _ := hx.KV(cfg, "stack")
	specs, err := parseStack(sv)
	if err != nil {
		return nil, "bad-cfg " + err.Error()
	}
	intervene := -1
	if v, ok := hx.KV(cfg, "intervene"); ok && v != "none" {
		intervene = hx.Atoi(v)
		if intervene < 0 || intervene >= len(specs) {
			return nil, "bad-cfg intervene"
		}
	}
	front, _ := hx.KV(cfg, "front")
	switch front {
	case "", "real", "nohijack", "noflush", "plain":
	default:
		return nil, "bad-cfg front"
	}
	hv, _ := hx.KV(cfg, "h")
	sc, err := parseScript(hv)
	if err != nil {
		return nil, "bad-cfg " + err.Error()
	}
	s := &scen{sc: sc, holdEntered: make(chan struct{}), holdRelease: make(chan struct{})}
	stack, err := build(specs, intervene, http.HandlerFunc(s.handle))
	if err != nil {
		return nil, "err build " + strings.ReplaceAll(err.Error(), " ", "_")
	}
	top := http.HandlerFunc(func(w http.ResponseWriter, r *http.Request) {
		st := s.state(r.Header.Get("X-Req-Id"))
		defer st.once.Do(func() { close(st.done) })
		switch front {
		case "nohijack":
			w = flushOnly{w, w.(http.Flusher)}
		case "noflush":
			w = hijackOnly{w, w.(http.Hijacker)}
		case "plain":
			w = plainWriter{w}
		}
		defer func() {
			if p := recover(); p != nil {
				st.panicked.Store(strings.ReplaceAll(fmt.Sprint(p), " ", "_"))
				panic(http.ErrAbortHandler)
			}
		}()
		stack.ServeHTTP(w, r)
	})
	s.srv = hx.NewUnstartedServer(top)
	s.srv.Config.ErrorLog = log.New(io.Discard, "", 0)
	s.srv.Start()
	s.client = &http.Client{
		Transport:     newTransport(),
		CheckRedirect: func(*http.Request, []*http.Request) error { return http.ErrUseLastResponse },
		Timeout:       25 * time.Second,
	}
	if intervene >= 0 {
		switch specs[intervene].kind {
		case "connlimit":
			s.holdDone = make(chan struct{})
			go func() {
				defer close(s.holdDone)
				c := &http.Client{Transport: newTransport()}
				s.seq++
				req, _ := http.NewRequest(http.MethodGet, s.srv.URL+"/hold", nil)
				req.Header.Set("X-Req-Id", "hold")
				req.Header.Set("X-Hold", "1")
				if resp, err := c.Do(req); err == nil {
					_, _ = io.Copy(io.Discard, resp.Body)
					_ = resp.Body.Close()
				}
			}()
			select {
			case <-s.holdEntered:
			case <-time.After(30 * time.Second):
				s.Close()
				return nil, "err prime hold"
			}
		case "ratelimit":
			if err := s.prime("200"); err != nil {
				s.Close()
				if isEnvErr(err) {
					return nil, "env-error prime"
				}
				return nil, "err prime ratelimit"
			}
		case "cbreaker":
			if err := s.prime("500"); err != nil {
				s.Close()
				if isEnvErr(err) {
					return nil, "env-error prime"
				}
				return nil, "err prime cbreaker"
			}
		}
	}
	return s, "ok"
}

func main() {
	if v := os.Getenv("HX_FLUSH_WAIT_MS"); v != "" {
		flushWait = time.Duration(hx.Atoi(v)) * time.Millisecond
	}
	// every op is a real HTTP exchange; a loaded machine has been seen to stall one for several seconds
	hx.OpTimeout = 60 * time.Second
	hx.Main(newScenario)
}
