package main

// `cfg pw depth=<d> base=<fh|f|h|->`: a nest of real utils.ProxyWriter values over a recording http.ResponseWriter that does or
// does not implement http.Flusher / http.Hijacker.  Ops `wh <code>`, `w <b,b,…|->`, `flush`, `hijack` are the calls a handler
// makes on the outermost writer (through the same type assertions a handler uses); every op prints what the caller observed, the
// calls the recording writer has received so far and StatusCode()/GetLength() of every ProxyWriter, outermost first.
// Model: lean/OxyModel/Model/Writer.lean.

import (
	"bufio"
	"fmt"
	"net"
	"net/http"
	"strconv"
	"strings"

	"github.com/vulcand/oxy/v2/utils"
	"github.com/vulcand/oxy/v2/zzverif/hx"
)

type recBase struct {
	h     http.Header
	calls []string
}

func (r *recBase) Header() http.Header { return r.h }
func (r *recBase) Write(b []byte) (int, error) {
	sum := 0
	for _, x := range b {
		sum += int(x)
	}
	r.calls = append(r.calls, fmt.Sprintf("w:%d:%d", len(b), sum))
	return len(b), nil
}
func (r *recBase) WriteHeader(code int) { r.calls = append(r.calls, "wh:"+strconv.Itoa(code)) }

type recF struct{ *recBase }

func (r recF) Flush() { r.calls = append(r.calls, "fl") }

type recH struct{ *recBase }

func (r recH) Hijack() (net.Conn, *bufio.ReadWriter, error) {
	r.calls = append(r.calls, "hj")
	return nil, nil, nil
}

type recFH struct{ *recBase }

func (r recFH) Flush() { r.calls = append(r.calls, "fl") }
func (r recFH) Hijack() (net.Conn, *bufio.ReadWriter, error) {
	r.calls = append(r.calls, "hj")
	return nil, nil, nil
}

type pwScen struct {
	base *recBase
	top  http.ResponseWriter
	pws  []*utils.ProxyWriter // outermost first
}

func newPWScenario(cfg []string) (hx.Handler, string) {
	dv, _ := hx.KV(cfg, "depth")
	d, err := strconv.Atoi(dv)
	if err != nil || d < 0 || d > 8 {
		return nil, "bad-cfg"
	}
	b := &recBase{h: make(http.Header)}
	var w http.ResponseWriter
	bv, _ := hx.KV(cfg, "base")
	switch bv {
	case "fh":
		w = recFH{b}
	case "f":
		w = recF{b}
	case "h":
		w = recH{b}
	case "-":
		w = b
	default:
		return nil, "bad-cfg"
	}
	s := &pwScen{base: b}
	for i := 0; i < d; i++ {
		p := utils.NewProxyWriter(w)
		s.pws = append([]*utils.ProxyWriter{p}, s.pws...)
		w = p
	}
	s.top = w
	return s, "ok"
}

func dash(l []string) string {
	if len(l) == 0 {
		return "-"
	}
	return strings.Join(l, ",")
}

func (s *pwScen) render(ok bool) string {
	var sc, ln []string
	for _, p := range s.pws {
		sc = append(sc, strconv.Itoa(p.StatusCode()))
		ln = append(ln, strconv.FormatInt(p.GetLength(), 10))
	}
	r := 0
	if ok {
		r = 1
	}
	return fmt.Sprintf("r=%d seen=%s sc=%s len=%s", r, dash(s.base.calls), dash(sc), dash(ln))
}

func (s *pwScen) Op(f []string) string {
	switch {
	case len(f) == 2 && f[0] == "wh":
		c, err := strconv.Atoi(f[1])
		if err != nil || c < 0 {
			return "bad-op"
		}
		s.top.WriteHeader(c)
		return s.render(true)
	case len(f) == 2 && f[0] == "w":
		var b []byte
		if f[1] != "-" {
			for _, t := range strings.Split(f[1], ",") {
				v, err := strconv.Atoi(t)
				if err != nil || v < 0 || v > 255 {
					return "bad-op"
				}
				b = append(b, byte(v))
			}
		}
		n, err := s.top.Write(b)
		return s.render(err == nil && n == len(b))
	case len(f) == 1 && f[0] == "flush":
		fl, ok := s.top.(http.Flusher)
		if ok {
			fl.Flush()
		}
		return s.render(ok)
	case len(f) == 1 && f[0] == "hijack":
		hj, ok := s.top.(http.Hijacker)
		if ok {
			_, _, err := hj.Hijack()
			ok = err == nil
		}
		return s.render(ok)
	}
	return "bad-op"
}

func (s *pwScen) Close() {}
