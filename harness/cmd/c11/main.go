// Command c11 executes sticky-session scenarios against the real roundrobin / stickycookie packages,
// through net/http (http.SetCookie on the way out, Request.Cookie on the way in).
//
//	cfg lb=rr|rb codec=<spec> [name=<esc>] [via=rec|srv] [opts=0|1] [verbose=0|1] [director=0|1]
//	upsert <esc-url> [w]        -> ok <esc-url>,<weight now>,<key> | err badurl | err <msg>
//	remove <esc-url>            -> ok <key> | err notfound | err badurl      (<key> = <esc scheme>|<esc host>|<esc path>)
//	upsert-inner / remove-inner -> as upsert / remove, but on the RoundRobin wrapped by the Rebalancer (lb=rb) directly
//	servers                     -> servers <esc-url>,<w>,<esc scheme>|<esc host>|<esc path> ...   (Servers() order, ServerWeight)
//	codec <spec>                -> ok            (StickySession.SetCookieValue)
//	mint <spec> <esc-url>       -> minted v:<esc-token>|none <esc-url>,<key>   (a second, foreign StickySession of that
//	                               codec, kept alive next to the scenario's own, runs StickBackend(url); the value goes into the jar)
//	adv <ns>                    -> ok            (frozen clock, ns since hx.Base, never backwards)
//	req cookie=none|@<k>|raw:<esc> [t=<tamper>]
//	                            -> served <esc-url> set=v:<esc-token>|none
//	                             | rejected noservers|allzero|other set=...
//	                             | env-error addr-in-use|addr-not-avail   (via=srv only: the host has no local port left
//	                               after 8 dial attempts; nothing reached the balancer; not a statement about the code)
//
// <spec>   = raw | hash:<salt-esc> | aes:<keyid>:<ttl-ns> | fb(<spec>,<spec>)
// @<k>     = the k-th most recent Set-Cookie value received in this scenario (1 = latest)
// raw:<v>  = Cookie header "<name>=<v>"; when <v> is a canonical token aes.<keyid>.<esc plaintext> the
//
//	harness sends a real AES-GCM cookie sealing that plaintext under key <keyid>
//
// <tamper> = trunc:<n> | flip:<i>:<b> | hex | upper | pct
//
// Tokens: an AES cookie is random; it is reported as aes.<keyid>.<esc plaintext> (the harness opens it
// with the key it configured). Every other cookie value is reported as it is.
package main

import (
	"context"
	"crypto/aes"
	"crypto/cipher"
	"crypto/rand"
	"crypto/sha256"
	"encoding/base64"
	"encoding/hex"
	"errors"
	"fmt"
	"io"
	"log"
	"net"
	"net/http"
	"net/http/httptest"
	"net/url"
	"strconv"
	"strings"
	"syscall"
	"time"

	"github.com/vulcand/oxy/v2/roundrobin"
	"github.com/vulcand/oxy/v2/roundrobin/stickycookie"
	"github.com/vulcand/oxy/v2/utils"
	"github.com/vulcand/oxy/v2/zzverif/hx"
)

// ---------------------------------------------------------------- token escaping

func tokKeep(c byte) bool {
	return 'a' <= c && c <= 'z' || 'A' <= c && c <= 'Z' || '0' <= c && c <= '9' || strings.IndexByte("-._~:/@?=&[]", c) >= 0
}

func esc(s string) string {
	var b strings.Builder
	for i := 0; i < len(s); i++ {
		if tokKeep(s[i]) {
			b.WriteByte(s[i])
		} else {
			fmt.Fprintf(&b, "%%%02X", s[i])
		}
	}
	return b.String()
}

func ishex(c byte) bool {
	return '0' <= c && c <= '9' || 'a' <= c && c <= 'f' || 'A' <= c && c <= 'F'
}

func unesc(s string) (string, bool) {
	var b strings.Builder
	for i := 0; i < len(s); i++ {
		if s[i] == '%' {
			if i+2 >= len(s) || !ishex(s[i+1]) || !ishex(s[i+2]) {
				return "", false
			}
			v, _ := strconv.ParseUint(s[i+1:i+3], 16, 8)
			b.WriteByte(byte(v))
			i += 2
		} else {
			b.WriteByte(s[i])
		}
	}
	return b.String(), true
}

// ---------------------------------------------------------------- codecs

type spec struct {
	kind     string // raw hash aes fb
	salt     string
	key      int
	ttl      int64
	from, to *spec
}

func parseSpec(s string) (*spec, string, bool) {
	switch {
	case strings.HasPrefix(s, "fb("):
		a, r, ok := parseSpec(s[3:])
		if !ok || !strings.HasPrefix(r, ",") {
			return nil, "", false
		}
		b, r2, ok := parseSpec(r[1:])
		if !ok || !strings.HasPrefix(r2, ")") {
			return nil, "", false
		}
		return &spec{kind: "fb", from: a, to: b}, r2[1:], true
	case strings.HasPrefix(s, "raw"):
		return &spec{kind: "raw"}, s[3:], true
	case strings.HasPrefix(s, "hash:"):
		body := s[5:]
		n := strings.IndexAny(body, ",)")
		if n < 0 {
			n = len(body)
		}
		salt, ok := unesc(body[:n])
		if !ok {
			return nil, "", false
		}
		return &spec{kind: "hash", salt: salt}, body[n:], true
	case strings.HasPrefix(s, "aes:"):
		body := s[4:]
		i := 0
		for i < len(body) && '0' <= body[i] && body[i] <= '9' {
			i++
		}
		if i == 0 || i >= len(body) || body[i] != ':' {
			return nil, "", false
		}
		j := i + 1
		for j < len(body) && '0' <= body[j] && body[j] <= '9' {
			j++
		}
		if j == i+1 {
			return nil, "", false
		}
		return &spec{kind: "aes", key: hx.Atoi(body[:i]), ttl: hx.Atoi64(body[i+1 : j])}, body[j:], true
	}
	return nil, "", false
}

func keyBytes(id int) []byte {
	h := sha256.Sum256([]byte("c11-key-" + strconv.Itoa(id)))
	return h[:16]
}

func gcmOf(id int) cipher.AEAD {
	b, err := aes.NewCipher(keyBytes(id))
	if err != nil {
		panic(err)
	}
	g, err := cipher.NewGCM(b)
	if err != nil {
		panic(err)
	}
	return g
}

func (s *spec) build() stickycookie.CookieValue {
	switch s.kind {
	case "raw":
		return &stickycookie.RawValue{}
	case "hash":
		return &stickycookie.HashValue{Salt: s.salt}
	case "aes":
		v, err := stickycookie.NewAESValue(keyBytes(s.key), time.Duration(s.ttl))
		if err != nil {
			panic(err)
		}
		return v
	}
	v, err := stickycookie.NewFallbackValue(s.from.build(), s.to.build())
	if err != nil {
		panic(err)
	}
	return v
}

// minter is the leaf codec whose Get produces the cookie value.
func (s *spec) minter() *spec {
	for s.kind == "fb" {
		s = s.to
	}
	return s
}

// sealReal makes a real AESValue-format cookie for plaintext under key id.
func sealReal(id int, plain string) string {
	g := gcmOf(id)
	nonce := make([]byte, 12)
	if _, err := io.ReadFull(rand.Reader, nonce); err != nil {
		panic(err)
	}
	out := g.Seal(nil, nonce, []byte(plain), nil)
	out = append(out, nonce...)
	return base64.RawURLEncoding.EncodeToString(out)
}

func openReal(id int, v string) (string, bool) {
	raw, err := base64.RawURLEncoding.DecodeString(v)
	if err != nil || len(raw) <= 12 {
		return "", false
	}
	n := len(raw) - 12
	p, err := gcmOf(id).Open(nil, raw[n:], raw[:n], nil)
	if err != nil {
		return "", false
	}
	return string(p), true
}

// tokenOf recognises the canonical token aes.<keyid>.<esc plaintext>.
func tokenOf(v string) (int, string, bool) {
	if !strings.HasPrefix(v, "aes.") {
		return 0, "", false
	}
	rest := v[4:]
	i := strings.IndexByte(rest, '.')
	if i < 0 {
		return 0, "", false
	}
	id, err := strconv.Atoi(rest[:i])
	if err != nil || id < 0 || strconv.Itoa(id) != rest[:i] {
		return 0, "", false
	}
	plain, ok := unesc(rest[i+1:])
	if !ok || esc(plain) != rest[i+1:] {
		return 0, "", false
	}
	return id, plain, true
}

// ---------------------------------------------------------------- scenario

type entry struct {
	wire   string // exactly what followed "<name>=" in the Set-Cookie line
	sealed bool
}

type lbI interface {
	http.Handler
	Servers() []*url.URL
	UpsertServer(u *url.URL, options ...roundrobin.ServerOption) error
	RemoveServer(u *url.URL) error
}

type h struct {
	name   string
	cur    *spec
	ss     *roundrobin.StickySession
	lb     lbI
	rr     *roundrobin.RoundRobin
	srv    *httptest.Server
	client *http.Client
	jar    []entry
	// foreign sticky sessions by codec spec, alive for the whole scenario
	foreign map[string]*roundrobin.StickySession
}

func (s *h) Close() {
	if s.client != nil {
		s.client.CloseIdleConnections() // client closes first, with RST: no TIME_WAIT on either side
	}
	if s.srv != nil {
		s.srv.Close()
	}
}

func errKind(err error) string {
	switch {
	case err == roundrobin.ErrNoServers:
		return "noservers"
	case err != nil && strings.Contains(err.Error(), "0 weight"):
		return "allzero"
	}
	return "other"
}

func tamperSealed(v string, t []string) (string, bool) {
	flipDecoded := func(i, b int) (string, bool) {
		raw, err := base64.RawURLEncoding.DecodeString(v)
		if err != nil || len(raw) == 0 {
			return "", false
		}
		raw[i%len(raw)] ^= 1 << uint(b)
		return base64.RawURLEncoding.EncodeToString(raw), true
	}
	switch t[0] {
	case "trunc":
		n := hx.Atoi(t[1])
		if n == 0 {
			return v, true
		}
		if n > len(v) {
			n = len(v)
		}
		return v[:len(v)-n], true
	case "flip":
		return flipDecoded(hx.Atoi(t[1]), hx.Atoi(t[2]))
	case "hex":
		return hex.EncodeToString([]byte(v)), true
	case "upper", "pct":
		return flipDecoded(0, 0)
	}
	return "", false
}

func tamperPlain(v string, t []string) (string, bool) {
	switch t[0] {
	case "trunc":
		n := hx.Atoi(t[1])
		if n > len(v) {
			n = len(v)
		}
		return v[:len(v)-n], true
	case "flip":
		i, b := hx.Atoi(t[1]), hx.Atoi(t[2])
		if b > 7 {
			return "", false
		}
		if len(v) == 0 {
			return v, true
		}
		bs := []byte(v)
		bs[i%len(bs)] ^= 1 << uint(b)
		return string(bs), true
	case "hex":
		return hex.EncodeToString([]byte(v)), true
	case "upper":
		bs := []byte(v)
		for i, c := range bs {
			if 'a' <= c && c <= 'z' {
				bs[i] = c - 32
			}
		}
		return string(bs), true
	case "pct":
		i := strings.LastIndexByte(v, '/')
		if i < 0 {
			return v, true
		}
		var b strings.Builder
		b.WriteString(v[:i+1])
		for _, c := range []byte(v[i+1:]) {
			if 'a' <= c && c <= 'z' || 'A' <= c && c <= 'Z' || '0' <= c && c <= '9' {
				fmt.Fprintf(&b, "%%%02X", c)
			} else {
				b.WriteByte(c)
			}
		}
		return b.String(), true
	}
	return "", false
}

func hasCTL(s string) bool {
	for i := 0; i < len(s); i++ {
		if s[i] < 0x20 && s[i] != '\t' || s[i] == 0x7f {
			return true
		}
	}
	return false
}

func (s *h) do(cookieHdr *string) (served, rejected string, setCookie []string, envErr string) {
	if s.srv != nil && (cookieHdr == nil || !hasCTL(*cookieHdr)) {
		req, err := http.NewRequest(http.MethodGet, s.srv.URL+"/x", nil)
		if err != nil {
			panic(err)
		}
		if cookieHdr != nil {
			req.Header["Cookie"] = []string{*cookieHdr}
		}
		resp, err := s.roundTrip(req)
		if err != nil {
			if c := addrClass(err); c != "" {
				// the host ran out of local ports: nothing reached the balancer, and it says nothing about the code
				return "", "", nil, "env-error " + c
			}
			panic(err)
		}
		io.Copy(io.Discard, resp.Body)
		resp.Body.Close()
		return resp.Header.Get("X-Served"), resp.Header.Get("X-Rejected"), resp.Header["Set-Cookie"], ""
	}
	req := httptest.NewRequest(http.MethodGet, "http://front/x", nil)
	if cookieHdr != nil {
		req.Header["Cookie"] = []string{*cookieHdr}
	}
	rec := httptest.NewRecorder()
	s.lb.ServeHTTP(rec, req)
	hd := rec.Result().Header
	return hd.Get("X-Served"), hd.Get("X-Rejected"), hd["Set-Cookie"], ""
}

// addrClass recognises the errors of a host whose ephemeral port range is exhausted (many checks at once,
// TIME_WAIT sockets). They arise in connect(2), before a single byte is sent, so retrying is safe.
func addrClass(err error) string {
	switch {
	case errors.Is(err, syscall.EADDRINUSE):
		return "addr-in-use"
	case errors.Is(err, syscall.EADDRNOTAVAIL):
		return "addr-not-avail"
	}
	return ""
}

// client of the via=srv front end: ONE keep-alive connection per scenario, closed with RST (SO_LINGER 0, no
// TIME_WAIT socket left behind); a dial that fails for lack of a local port is retried with a pause.
func newClient() *http.Client {
	d := &net.Dialer{Timeout: 5 * time.Second}
	return &http.Client{Transport: &http.Transport{
		MaxIdleConns: 1, MaxIdleConnsPerHost: 1, MaxConnsPerHost: 1, IdleConnTimeout: time.Minute,
		DialContext: func(ctx context.Context, network, addr string) (net.Conn, error) {
			c, err := d.DialContext(ctx, network, addr)
			if tc, ok := c.(*net.TCPConn); ok && err == nil {
				_ = tc.SetLinger(0)
			}
			return c, err
		},
	}}
}

func (s *h) roundTrip(req *http.Request) (*http.Response, error) {
	var resp *http.Response
	var err error
	for try := 0; try < 8; try++ {
		if resp, err = s.client.Do(req); err == nil || addrClass(err) == "" {
			return resp, err
		}
		time.Sleep(time.Duration(50*(try+1)) * time.Millisecond)
	}
	return resp, err
}

// takeCookie reads the Set-Cookie lines a client received, stores the pair's value in the jar and returns its token.
func (s *h) takeCookie(sc []string, sp *spec) (set string, errs string) {
	if len(sc) > 1 {
		return "", "err multiple-set-cookie"
	}
	if len(sc) == 0 {
		return "none", ""
	}
	pair, _, _ := strings.Cut(sc[0], ";")
	n, v, found := strings.Cut(pair, "=")
	if !found || n != s.name {
		return "", "err set-cookie-name " + esc(sc[0])
	}
	m := sp.minter()
	e := entry{wire: v}
	tok := v
	if m.kind == "aes" {
		plain, ok := openReal(m.key, v)
		if !ok {
			return "", "err set-cookie-does-not-open " + esc(v)
		}
		e.sealed = true
		tok = "aes." + strconv.Itoa(m.key) + "." + esc(plain)
	}
	s.jar = append(s.jar, e)
	return "v:" + esc(tok), ""
}

func keyOf(u *url.URL) string { return esc(u.Scheme) + "|" + esc(u.Host) + "|" + esc(u.Path) }

func (s *h) Op(f []string) string {
	switch f[0] {
	case "mint":
		// a FOREIGN sticky session (another balancer's: other salt, other key, other codec) that lives next to the
		// scenario's own one for the whole scenario hands out a cookie for <url>; the client puts it in its jar
		if len(f) != 3 {
			return "bad-op"
		}
		sp, rest, ok := parseSpec(f[1])
		if !ok || rest != "" {
			return "bad-op"
		}
		raw, ok := unesc(f[2])
		if !ok {
			return "err badurl"
		}
		u, err := url.Parse(raw)
		if err != nil {
			return "err badurl"
		}
		fs := s.foreign[f[1]]
		if fs == nil {
			fs = roundrobin.NewStickySession(s.name).SetCookieValue(sp.build())
			if s.foreign == nil {
				s.foreign = map[string]*roundrobin.StickySession{}
			}
			s.foreign[f[1]] = fs
		}
		rec := httptest.NewRecorder()
		fs.StickBackend(u, rec)
		set, errs := s.takeCookie(rec.Result().Header["Set-Cookie"], sp)
		if errs != "" {
			return errs
		}
		return "minted " + set + " " + esc(u.String()) + "," + esc(u.Scheme) + "|" + esc(u.Host) + "|" + esc(u.Path)
	case "upsert", "remove", "upsert-inner", "remove-inner":
		// upsert/remove go through the front end (the Rebalancer when lb=rb); the -inner forms register the server on
		// the wrapped RoundRobin directly, outside the Rebalancer
		var adm lbI = s.lb
		if strings.HasSuffix(f[0], "-inner") {
			adm = s.rr
		}
		isRemove := strings.HasPrefix(f[0], "remove")
		if len(f) < 2 || len(f) > 3 || isRemove && len(f) != 2 {
			return "bad-op"
		}
		w := -1
		if len(f) == 3 {
			v, err := strconv.Atoi(f[2])
			if err != nil || v < 0 {
				return "bad-op"
			}
			w = v
		}
		raw, ok := unesc(f[1])
		if !ok {
			return "err badurl"
		}
		u, err := url.Parse(raw)
		if err != nil {
			return "err badurl"
		}
		if isRemove {
			if err := adm.RemoveServer(u); err != nil {
				return "err notfound"
			}
			return "ok " + keyOf(u)
		}
		if w >= 0 {
			err = adm.UpsertServer(u, roundrobin.Weight(w))
		} else {
			err = adm.UpsertServer(u)
		}
		if err != nil {
			return "err " + strings.ReplaceAll(err.Error(), " ", "_")
		}
		// what was asked for (the URL as given, its identity) and the weight the balancer now reports for it;
		// ServerWeight looks the server up by URL, it does not go through Servers()
		wt, _ := s.rr.ServerWeight(u)
		return fmt.Sprintf("ok %s,%d,%s", esc(u.String()), wt, keyOf(u))
	case "servers":
		var b strings.Builder
		b.WriteString("servers")
		// the reference membership is what the (wrapped) round-robin balancer holds
		for _, u := range s.rr.Servers() {
			w, _ := s.rr.ServerWeight(u)
			fmt.Fprintf(&b, " %s,%d,%s|%s|%s", esc(u.String()), w, esc(u.Scheme), esc(u.Host), esc(u.Path))
		}
		return b.String()
	case "codec":
		if len(f) != 2 {
			return "bad-op"
		}
		sp, rest, ok := parseSpec(f[1])
		if !ok || rest != "" {
			return "bad-op"
		}
		s.cur = sp
		s.ss.SetCookieValue(sp.build())
		return "ok"
	case "adv":
		if len(f) != 2 {
			return "bad-op"
		}
		ns, err := strconv.ParseInt(f[1], 10, 64)
		if err != nil || ns < 0 {
			return "bad-op"
		}
		hx.AdvanceTo(ns)
		return "ok"
	case "req":
		ck, ok := hx.KV(f[1:], "cookie")
		if !ok {
			return "bad-op"
		}
		var val *entry
		switch {
		case ck == "none":
		case strings.HasPrefix(ck, "@"):
			k, err := strconv.Atoi(ck[1:])
			if err != nil || k <= 0 {
				return "bad-op"
			}
			if k <= len(s.jar) {
				e := s.jar[len(s.jar)-k]
				val = &e
			}
		case strings.HasPrefix(ck, "raw:"):
			v, ok := unesc(ck[4:])
			if !ok {
				return "bad-op"
			}
			if id, plain, ok := tokenOf(v); ok {
				val = &entry{wire: sealReal(id, plain), sealed: true}
			} else {
				val = &entry{wire: v}
			}
		default:
			return "bad-op"
		}
		if t, ok := hx.KV(f[1:], "t"); ok && val != nil {
			tt := strings.Split(t, ":")
			want := map[string]int{"trunc": 2, "flip": 3, "hex": 1, "upper": 1, "pct": 1}
			if want[tt[0]] != len(tt) {
				return "bad-op"
			}
			for _, x := range tt[1:] {
				if v, err := strconv.Atoi(x); err != nil || v < 0 {
					return "bad-op"
				}
			}
			if tt[0] == "flip" && hx.Atoi(tt[2]) > 7 {
				return "bad-op"
			}
			var nv string
			var ok bool
			if val.sealed {
				nv, ok = tamperSealed(val.wire, tt)
			} else {
				nv, ok = tamperPlain(val.wire, tt)
			}
			if !ok {
				return "bad-op"
			}
			val = &entry{wire: nv, sealed: val.sealed}
		}
		var hdr *string
		if val != nil {
			l := s.name + "=" + val.wire
			hdr = &l
		}
		served, rejected, sc, envErr := s.do(hdr)
		if envErr != "" {
			return envErr
		}
		set, errs := s.takeCookie(sc, s.cur)
		if errs != "" {
			return errs
		}
		if rejected != "" {
			return "rejected " + rejected + " set=" + set
		}
		return "served " + served + " set=" + set
	}
	return "bad-op"
}

func main() {
	log.SetOutput(io.Discard) // net/http logs every sanitised cookie byte
	hx.Main(func(cfg []string) (hx.Handler, string) {
		hx.FreezeAt(0)
		cs, ok := hx.KV(cfg, "codec")
		if !ok {
			return nil, "bad-op"
		}
		sp, rest, ok := parseSpec(cs)
		if !ok || rest != "" {
			return nil, "bad-op"
		}
		name := "aff"
		if n, ok := hx.KV(cfg, "name"); ok {
			if name, ok = unesc(n); !ok {
				return nil, "bad-op"
			}
		}
		var ss *roundrobin.StickySession
		if hx.KVInt(cfg, "opts", 0) == 1 {
			ss = roundrobin.NewStickySessionWithOptions(name, roundrobin.CookieOptions{
				HTTPOnly: true, Secure: true, Path: "/app", Domain: "example.org", MaxAge: 3600, SameSite: http.SameSiteLaxMode,
				Expires: hx.Base.Add(48 * time.Hour),
			})
		} else {
			ss = roundrobin.NewStickySession(name)
		}
		ss.SetCookieValue(sp.build())
		director := hx.KVInt(cfg, "director", 0) == 1
		backend := http.HandlerFunc(func(w http.ResponseWriter, r *http.Request) {
			w.Header().Set("X-Served", esc(r.URL.String()))
			if director {
				// director style: the downstream handler completes the URL it was handed, in place
				r.URL.Path += "/dir"
				r.URL.RawPath = ""
				r.URL.RawQuery = "d=1"
				r.URL.Host = "rewritten." + r.URL.Host
			}
		})
		eh := utils.ErrorHandlerFunc(func(w http.ResponseWriter, _ *http.Request, err error) {
			w.Header().Set("X-Rejected", errKind(err))
			w.WriteHeader(http.StatusBadGateway)
		})
		s := &h{name: name, cur: sp, ss: ss}
		kind, _ := hx.KV(cfg, "lb")
		verbose := hx.KVInt(cfg, "verbose", 0) == 1 // the balancer's diagnostics (request dump) must not touch the request
		switch kind {
		case "rr":
			lbo := []roundrobin.LBOption{roundrobin.EnableStickySession(ss), roundrobin.ErrorHandler(eh)}
			if verbose {
				lbo = append(lbo, roundrobin.Verbose(true), roundrobin.Logger(&utils.NoopLogger{}))
			}
			rr, err := roundrobin.New(backend, lbo...)
			if err != nil {
				return nil, "err " + err.Error()
			}
			s.lb = rr
			s.rr = rr
		case "rb":
			rr, err := roundrobin.New(backend)
			if err != nil {
				return nil, "err " + err.Error()
			}
			rbo := []roundrobin.RebalancerOption{roundrobin.RebalancerStickySession(ss), roundrobin.RebalancerErrorHandler(eh)}
			if verbose {
				rbo = append(rbo, roundrobin.RebalancerDebug(true), roundrobin.RebalancerLogger(&utils.NoopLogger{}))
			}
			rb, err := roundrobin.NewRebalancer(rr, rbo...)
			if err != nil {
				return nil, "err " + err.Error()
			}
			s.lb = rb
			s.rr = rr
		default:
			return nil, "bad-op"
		}
		if v, _ := hx.KV(cfg, "via"); v == "srv" {
			s.srv = hx.NewServer(s.lb)
			s.client = newClient()
		}
		return s, "ok"
	})
}
