package main

// `-race` stress of C09: every middleware (and a stack of them) is hammered from 16 goroutines
// together with its administration / inspection calls; afterwards exact totals are compared.
// A data race is reported by the race detector (GORACE=halt_on_error=1 log_path=...), a lost update
// by a wrong total.  Everything user supplied (writers, handlers, extractors, meters, loggers,
// side effects) is concurrency safe here, so that a report can only point into the repository.

import (
	"bytes"
	"encoding/json"
	"flag"
	"fmt"
	"io"
	"net/http"
	"net/http/httptest"
	"net/url"
	"os"
	"runtime"
	"sort"
	"strings"
	"sync"
	"sync/atomic"
	"time"

	"github.com/vulcand/oxy/v2/buffer"
	"github.com/vulcand/oxy/v2/cbreaker"
	"github.com/vulcand/oxy/v2/connlimit"
	"github.com/vulcand/oxy/v2/internal/holsterv4/collections"
	"github.com/vulcand/oxy/v2/memmetrics"
	"github.com/vulcand/oxy/v2/ratelimit"
	"github.com/vulcand/oxy/v2/roundrobin"
	"github.com/vulcand/oxy/v2/roundrobin/stickycookie"
	"github.com/vulcand/oxy/v2/stream"
	"github.com/vulcand/oxy/v2/trace"
	"github.com/vulcand/oxy/v2/utils"
	"github.com/vulcand/oxy/v2/zzverif/hx"
)

const workers = 16

type cfgT struct {
	iters    int
	deadline time.Time
}

type result struct {
	bad  []string
	info []string
}

func (r *result) check(ok bool, format string, a ...interface{}) {
	if !ok {
		r.bad = append(r.bad, fmt.Sprintf(format, a...))
	}
}
func (r *result) kv(k string, v interface{}) { r.info = append(r.info, fmt.Sprintf("%s=%v", k, v)) }

func su(i int) *url.URL { return &url.URL{Scheme: "http", Host: fmt.Sprintf("s%d", i)} }

// hammer runs fn(worker, j) from `workers` goroutines, c.iters times each (or until the deadline),
// while admin() loops in its own goroutines until the workers are done; returns the number of fn calls.
func hammer(c cfgT, fn func(w, j int), admins ...func(k int)) int64 {
	var done int64
	var stop int32
	var wg, ag sync.WaitGroup
	for _, ad := range admins {
		ag.Add(1)
		go func(ad func(int)) {
			defer ag.Done()
			for k := 0; atomic.LoadInt32(&stop) == 0; k++ {
				ad(k)
				runtime.Gosched()
			}
		}(ad)
	}
	for w := 0; w < workers; w++ {
		wg.Add(1)
		go func(w int) {
			defer wg.Done()
			for j := 0; j < c.iters; j++ {
				if j%64 == 63 && time.Now().After(c.deadline) {
					break
				}
				fn(w, j)
				atomic.AddInt64(&done, 1)
			}
		}(w)
	}
	wg.Wait()
	atomic.StoreInt32(&stop, 1)
	ag.Wait()
	return done
}

type counters struct {
	mu sync.Mutex
	m  map[string]int64
}

func (c *counters) inc(k string) {
	c.mu.Lock()
	if c.m == nil {
		c.m = map[string]int64{}
	}
	c.m[k]++
	c.mu.Unlock()
}
func (c *counters) get(k string) int64 { c.mu.Lock(); defer c.mu.Unlock(); return c.m[k] }
func (c *counters) sum() int64 {
	c.mu.Lock()
	defer c.mu.Unlock()
	var s int64
	for _, v := range c.m {
		s += v
	}
	return s
}

// safeWriter is goroutine safe; with failEvery = k its k-th, 2k-th, … Write fails (nothing is written)
type safeWriter struct {
	mu        sync.Mutex
	buf       bytes.Buffer
	failEvery int
	calls     int
	failed    int
}

func (s *safeWriter) Write(p []byte) (int, error) {
	s.mu.Lock()
	defer s.mu.Unlock()
	s.calls++
	if s.failEvery > 0 && s.calls%s.failEvery == 0 {
		s.failed++
		return 0, fmt.Errorf("disk full")
	}
	return s.buf.Write(p)
}

// faultyExtractor fails for requests that carry X-Bad (a user-supplied extractor may fail)
func faultyExtractor() utils.SourceExtractor {
	return utils.ExtractorFunc(func(q *http.Request) (string, int64, error) {
		if q.Header.Get("X-Bad") != "" {
			return "", 0, fmt.Errorf("cannot extract source")
		}
		return q.Header.Get("X-Src"), 1, nil
	})
}

func reqMaybeBad(src string, j int) *http.Request {
	q := req(src)
	if j%101 == 100 {
		q.Header.Set("X-Bad", "1")
	}
	return q
}

// fmtLogger formats its arguments like a real logger does (synchronously), and is itself thread safe
type fmtLogger struct{ n int64 }

func (l *fmtLogger) out(f string, a ...interface{}) {
	fmt.Fprintf(io.Discard, f, a...)
	atomic.AddInt64(&l.n, 1)
}
func (l *fmtLogger) Debug(f string, a ...interface{}) { l.out(f, a...) }
func (l *fmtLogger) Info(f string, a ...interface{})  { l.out(f, a...) }
func (l *fmtLogger) Warn(f string, a ...interface{})  { l.out(f, a...) }
func (l *fmtLogger) Error(f string, a ...interface{}) { l.out(f, a...) }

func req(src string) *http.Request {
	r := httptest.NewRequest(http.MethodGet, "http://front/x", nil)
	r.Header.Set("X-Src", src)
	r.RemoteAddr = "10.0.0.1:1234"
	return r
}

// ---------------------------------------------------------------- round robin

func stressRR(c cfgT, r *result) {
	var hits, errs counters
	next := http.HandlerFunc(func(w http.ResponseWriter, q *http.Request) { hits.inc(q.URL.Host); w.WriteHeader(200) })
	eh := utils.ErrorHandlerFunc(func(w http.ResponseWriter, _ *http.Request, err error) { errs.inc("e"); w.WriteHeader(502) })
	rr, err := roundrobin.New(next, roundrobin.ErrorHandler(eh))
	must(err)
	for i := 0; i < 3; i++ {
		must(rr.UpsertServer(su(i), roundrobin.Weight(i+1)))
	}
	var direct int64
	n := hammer(c, func(w, j int) {
		rr.ServeHTTP(httptest.NewRecorder(), req("a"))
		if j%5 == 0 {
			if _, err := rr.NextServer(); err == nil {
				atomic.AddInt64(&direct, 1)
			}
		}
	}, func(k int) {
		_ = rr.UpsertServer(su(0), roundrobin.Weight(k%5+1))
		_ = rr.Servers()
		_, _ = rr.ServerWeight(su(1))
	}, func(k int) {
		_ = rr.UpsertServer(su(9), roundrobin.Weight(2))
		_, _ = rr.ServerWeight(su(9))
		_ = rr.RemoveServer(su(9))
	})
	r.check(hits.sum()+errs.sum() == n, "requests=%d but forwarded=%d + errors=%d", n, hits.sum(), errs.sum())
	r.check(len(rr.Servers()) == 3, "pool has %d servers, want 3", len(rr.Servers()))
	r.kv("requests", n)
	r.kv("forwarded", hits.sum())
	r.kv("nextserver", direct)
}

// ---------------------------------------------------------------- rebalancer

type safeMeter struct{ good, bad int64 }

func (m *safeMeter) Rating() float64 {
	g, b := atomic.LoadInt64(&m.good), atomic.LoadInt64(&m.bad)
	if g+b == 0 {
		return 0
	}
	return float64(b) / float64(g+b)
}
func (m *safeMeter) Record(code int, _ time.Duration) {
	if code >= 500 {
		atomic.AddInt64(&m.bad, 1)
	} else {
		atomic.AddInt64(&m.good, 1)
	}
}
func (m *safeMeter) IsReady() bool { return true }

func stressRebalancer(c cfgT, r *result) {
	for _, variant := range []string{"default-meter", "ready-meter"} {
		var hits, errs counters
		next := http.HandlerFunc(func(w http.ResponseWriter, q *http.Request) {
			hits.inc(q.URL.Host)
			if q.URL.Host == "s1" && hits.get("s1")%2 == 0 {
				w.WriteHeader(500)
				return
			}
			w.WriteHeader(200)
		})
		eh := utils.ErrorHandlerFunc(func(w http.ResponseWriter, _ *http.Request, err error) { errs.inc("e"); w.WriteHeader(502) })
		rr, err := roundrobin.New(next, roundrobin.ErrorHandler(eh))
		must(err)
		opts := []roundrobin.RebalancerOption{roundrobin.RebalancerBackoff(time.Millisecond), roundrobin.RebalancerErrorHandler(eh)}
		var meterCalls, meterFaults int64
		if variant == "ready-meter" {
			opts = append(opts, roundrobin.RebalancerMeter(func() (roundrobin.Meter, error) {
				if k := atomic.AddInt64(&meterCalls, 1); k > 3 && k%5 == 0 {
					atomic.AddInt64(&meterFaults, 1)
					return nil, fmt.Errorf("no meter")
				}
				return &safeMeter{}, nil
			}))
		}
		rb, err := roundrobin.NewRebalancer(rr, opts...)
		must(err)
		for i := 0; i < 3; i++ {
			must(rb.UpsertServer(su(i), roundrobin.Weight(1)))
		}
		cc := c
		cc.iters = c.iters / 2
		n := hammer(cc, func(w, j int) {
			rb.ServeHTTP(httptest.NewRecorder(), req("a"))
		}, func(k int) {
			_ = rb.Servers()
			_, _ = rr.ServerWeight(su(k % 3))
			_ = rr.Servers()
		}, func(k int) {
			_ = rb.UpsertServer(su(9), roundrobin.Weight(1))
			_ = rb.RemoveServer(su(9))
		})
		r.check(hits.sum()+errs.sum() == n, "%s: requests=%d but forwarded=%d + errors=%d", variant, n, hits.sum(), errs.sum())
		r.check(len(rb.Servers()) == 3, "%s: pool has %d servers, want 3", variant, len(rb.Servers()))
		w0, _ := rr.ServerWeight(su(0))
		r.kv(variant+".requests", n)
		r.kv(variant+".w0", w0)
		if variant == "ready-meter" {
			r.kv("meter-faults", atomic.LoadInt64(&meterFaults))
		}
	}
}

// ---------------------------------------------------------------- circuit breaker

type effect struct {
	n    int64
	fail bool
}

func (e *effect) Exec() error {
	k := atomic.AddInt64(&e.n, 1)
	if e.fail && k%2 == 0 {
		return fmt.Errorf("side effect failed")
	}
	return nil
}

func stressBreaker(inspect bool) func(c cfgT, r *result) {
	return func(c cfgT, r *result) {
		var hits, fb counters
		var badPhase int32
		next := http.HandlerFunc(func(w http.ResponseWriter, q *http.Request) {
			k := hits.get("n")
			hits.inc("n")
			if atomic.LoadInt32(&badPhase) == 1 && k%3 != 0 {
				w.WriteHeader(500)
				return
			}
			w.WriteHeader(200)
		})
		fallback := http.HandlerFunc(func(w http.ResponseWriter, q *http.Request) { fb.inc("n"); w.WriteHeader(503) })
		trip, stand := &effect{fail: true}, &effect{fail: true}
		opts := []cbreaker.Option{cbreaker.FallbackDuration(2 * time.Millisecond), cbreaker.RecoveryDuration(2 * time.Millisecond),
			cbreaker.CheckPeriod(time.Millisecond), cbreaker.OnTripped(trip), cbreaker.OnStandby(stand), cbreaker.Fallback(fallback)}
		lg := &fmtLogger{}
		if inspect {
			opts = append(opts, cbreaker.Logger(lg))
		}
		cb, err := cbreaker.New(next, "ResponseCodeRatio(500, 600, 0, 600) > 0.3 || NetworkErrorRatio() > 0.9 || LatencyAtQuantileMS(50.0) > 100000", opts...)
		must(err)
		admins := []func(int){func(k int) {
			atomic.StoreInt32(&badPhase, int32((k/50)%2))
			time.Sleep(50 * time.Microsecond)
		}}
		if inspect {
			admins = append(admins, func(k int) { _ = cb.String() })
		}
		n := hammer(c, func(w, j int) {
			cb.ServeHTTP(httptest.NewRecorder(), req("a"))
		}, admins...)
		time.Sleep(5 * time.Millisecond) // let side-effect goroutines finish
		r.check(hits.sum()+fb.sum() == n, "requests=%d but next=%d + fallback=%d", n, hits.sum(), fb.sum())
		r.kv("requests", n)
		r.kv("fallback", fb.sum())
		r.kv("tripped", atomic.LoadInt64(&trip.n))
		r.kv("standby", atomic.LoadInt64(&stand.n))
	}
}

// ---------------------------------------------------------------- rate limiter

func stressRateLimit(c cfgT, r *result) {
	hx.FreezeAt(0)
	ex := faultyExtractor()
	for _, capacity := range []int{0, 3} {
		var ok, rej counters
		next := http.HandlerFunc(func(w http.ResponseWriter, q *http.Request) { ok.inc(q.Header.Get("X-Src")); w.WriteHeader(200) })
		eh := utils.ErrorHandlerFunc(func(w http.ResponseWriter, q *http.Request, err error) { rej.inc(q.Header.Get("X-Src")); w.WriteHeader(429) })
		rates := ratelimit.NewRateSet()
		must(rates.Add(time.Hour, 1, 100))
		opts := []ratelimit.TokenLimiterOption{ratelimit.ErrorHandler(eh)}
		var rateCalls int64
		if capacity > 0 {
			opts = append(opts, ratelimit.Capacity(capacity))
			// a user-supplied rate extractor that fails now and then (the limiter falls back to the defaults)
			opts = append(opts, ratelimit.ExtractRates(ratelimit.RateExtractorFunc(func(*http.Request) (*ratelimit.RateSet, error) {
				if atomic.AddInt64(&rateCalls, 1)%7 == 0 {
					return nil, fmt.Errorf("no rates")
				}
				return rates, nil
			})))
		}
		tl, err := ratelimit.New(next, ex, rates, opts...)
		must(err)
		const sources = 8
		n := hammer(c, func(w, j int) {
			tl.ServeHTTP(httptest.NewRecorder(), reqMaybeBad(fmt.Sprintf("src%d", (w+j)%sources), j))
		})
		r.check(ok.sum()+rej.sum() == n, "cap=%d: requests=%d but admitted=%d + rejected=%d", capacity, n, ok.sum(), rej.sum())
		if capacity == 0 && n >= 100*sources*4 {
			// frozen clock, burst 100, no refill: exactly 100 admitted per source in every interleaving
			for i := 0; i < sources; i++ {
				s := fmt.Sprintf("src%d", i)
				r.check(ok.get(s) == 100, "source %s admitted %d, want exactly 100", s, ok.get(s))
			}
		}
		r.kv(fmt.Sprintf("cap%d.requests", capacity), n)
		r.kv(fmt.Sprintf("cap%d.admitted", capacity), ok.sum())
	}
	// rejections with different delays: every source has its own rate (period (i+1) s, burst 1), the clock is
	// frozen, so after the first admitted request every further one is turned away with that source's own
	// constant delay; the DEFAULT error handler reports it in X-Retry-In.  Expected values come from a
	// sequential run of an identical limiter.
	{
		const sources = 8
		perSource := ratelimit.RateExtractorFunc(func(q *http.Request) (*ratelimit.RateSet, error) {
			var i int
			fmt.Sscanf(q.Header.Get("X-Src"), "d%d", &i)
			rs := ratelimit.NewRateSet()
			if err := rs.Add(time.Duration(i+1)*time.Second, 1, 1); err != nil {
				return nil, err
			}
			return rs, nil
		})
		mkl := func() *ratelimit.TokenLimiter {
			def := ratelimit.NewRateSet()
			must(def.Add(time.Second, 1, 1))
			tl, err := ratelimit.New(http.HandlerFunc(func(w http.ResponseWriter, q *http.Request) { w.WriteHeader(200) }), ex, def, ratelimit.ExtractRates(perSource))
			must(err)
			return tl
		}
		want := map[string]string{}
		ref := mkl()
		for i := 0; i < sources; i++ {
			src := fmt.Sprintf("d%d", i)
			ref.ServeHTTP(httptest.NewRecorder(), req(src))
			rec := httptest.NewRecorder()
			ref.ServeHTTP(rec, req(src))
			want[src] = rec.Header().Get("X-Retry-In")
			r.check(rec.Code == 429 && want[src] != "", "delays: sequential reference for %s: code %d X-Retry-In %q", src, rec.Code, want[src])
		}
		tl := mkl()
		var admitted, rejected, wrong int64
		firstWrong := ""
		var mu sync.Mutex
		cc := c
		cc.iters = c.iters / 2
		n := hammer(cc, func(w, j int) {
			src := fmt.Sprintf("d%d", (w+j)%sources)
			rec := httptest.NewRecorder()
			tl.ServeHTTP(rec, req(src))
			if rec.Code == 200 {
				atomic.AddInt64(&admitted, 1)
				return
			}
			atomic.AddInt64(&rejected, 1)
			if got := rec.Header().Get("X-Retry-In"); rec.Code != 429 || got != want[src] {
				atomic.AddInt64(&wrong, 1)
				mu.Lock()
				if firstWrong == "" {
					firstWrong = fmt.Sprintf("source %s: code %d X-Retry-In %q, its own delay is %q", src, rec.Code, got, want[src])
				}
				mu.Unlock()
			}
		})
		r.check(admitted == sources && admitted+rejected == n, "delays: requests=%d admitted=%d (want %d) rejected=%d", n, admitted, sources, rejected)
		r.check(wrong == 0, "delays: %d of %d rejections carried another delay than their source's own (%s)", wrong, rejected, firstWrong)
		r.kv("delays.rejected", rejected)
	}
	// fresh sources: every source is first seen by all goroutines at about the same moment, so that the
	// creation of its bucket set is contended; burst 2, no refill: exactly 2 admitted per source whatever
	// the interleaving (a second bucket set created for the same source would admit more: lost debits)
	{
		var ok, rej counters
		next := http.HandlerFunc(func(w http.ResponseWriter, q *http.Request) { ok.inc(q.Header.Get("X-Src")); w.WriteHeader(200) })
		eh := utils.ErrorHandlerFunc(func(w http.ResponseWriter, q *http.Request, err error) { rej.inc(q.Header.Get("X-Src")); w.WriteHeader(429) })
		rates := ratelimit.NewRateSet()
		must(rates.Add(time.Hour, 1, 2))
		tl, err := ratelimit.New(next, ex, rates, ratelimit.ErrorHandler(eh))
		must(err)
		rounds := c.iters / 2
		if rounds > 20000 {
			rounds = 20000
		}
		var wg sync.WaitGroup
		start := make([]chan struct{}, rounds/25+1)
		for i := range start {
			start[i] = make(chan struct{})
		}
		var arrived int64
		for w := 0; w < workers; w++ {
			wg.Add(1)
			go func(w int) {
				defer wg.Done()
				for j := 0; j < rounds; j++ {
					if j%25 == 0 { // cyclic barrier: all goroutines enter each block of 25 fresh sources together
						if atomic.AddInt64(&arrived, 1) == int64(workers*(j/25+1)) {
							close(start[j/25])
						}
						<-start[j/25]
					}
					tl.ServeHTTP(httptest.NewRecorder(), req(fmt.Sprintf("f%d", j)))
				}
			}(w)
		}
		wg.Wait()
		n := int64(workers * rounds)
		r.check(ok.sum()+rej.sum() == n, "fresh: requests=%d but admitted=%d + rejected=%d", n, ok.sum(), rej.sum())
		wrong := 0
		first := ""
		for j := 0; j < rounds; j++ {
			s := fmt.Sprintf("f%d", j)
			if ok.get(s) != 2 {
				wrong++
				if first == "" {
					first = fmt.Sprintf("source %s admitted %d", s, ok.get(s))
				}
			}
		}
		r.check(wrong == 0, "fresh: %d of %d sources did not admit exactly their burst of 2 (%s): token debits lost", wrong, rounds, first)
		r.kv("fresh.requests", n)
		r.kv("fresh.sources", rounds)
	}
}

// ---------------------------------------------------------------- connection limiter

func stressConnLimit(c cfgT, r *result) {
	ex := faultyExtractor()
	const max = 4
	var inflight [2]int64
	var over, ok, rej int64
	next := http.HandlerFunc(func(w http.ResponseWriter, q *http.Request) {
		i := 0
		if q.Header.Get("X-Src") == "b" {
			i = 1
		}
		if atomic.AddInt64(&inflight[i], 1) > max {
			atomic.AddInt64(&over, 1)
		}
		runtime.Gosched()
		atomic.AddInt64(&inflight[i], -1)
		atomic.AddInt64(&ok, 1)
		if q.Header.Get("X-Panic") != "" {
			panic(http.ErrAbortHandler)
		}
		w.WriteHeader(200)
	})
	eh := utils.ErrorHandlerFunc(func(w http.ResponseWriter, q *http.Request, err error) { atomic.AddInt64(&rej, 1); w.WriteHeader(429) })
	cl, err := connlimit.New(next, ex, max, connlimit.ErrorHandler(eh))
	must(err)
	n := hammer(c, func(w, j int) {
		q := reqMaybeBad([]string{"a", "b"}[(w+j)%2], j)
		if j%17 == 0 {
			q.Header.Set("X-Panic", "1")
		}
		func() {
			defer func() { _ = recover() }()
			cl.ServeHTTP(httptest.NewRecorder(), q)
		}()
	})
	r.check(ok+rej == n, "requests=%d but admitted=%d + rejected=%d", n, ok, rej)
	r.check(over == 0, "in-flight exceeded the limit %d times", over)
	// every slot must have been given back: `max` held requests are admitted again, one more is not
	hold := make(chan struct{})
	var adm int64
	var entered sync.WaitGroup
	blocker := http.HandlerFunc(func(w http.ResponseWriter, q *http.Request) { atomic.AddInt64(&adm, 1); entered.Done(); <-hold })
	cl.Wrap(blocker) // quiescent: no request is in flight here
	var wg sync.WaitGroup
	for i := 0; i < max; i++ {
		wg.Add(1)
		entered.Add(1)
		go func() { defer wg.Done(); cl.ServeHTTP(httptest.NewRecorder(), req("a")) }()
	}
	waitTimeout(&entered, 3*time.Second)
	before := atomic.LoadInt64(&rej)
	cl.ServeHTTP(httptest.NewRecorder(), req("a"))
	r.check(atomic.LoadInt64(&adm) == max, "after the run only %d of %d slots are free (count leaked)", atomic.LoadInt64(&adm), max)
	r.check(atomic.LoadInt64(&rej) == before+1, "request %d of a full source was not rejected", max+1)
	close(hold)
	wg.Wait()
	r.kv("requests", n)
	r.kv("rejected", rej)
}

func waitTimeout(wg *sync.WaitGroup, d time.Duration) {
	ch := make(chan struct{})
	go func() { wg.Wait(); close(ch) }()
	select {
	case <-ch:
	case <-time.After(d):
	}
}

// ---------------------------------------------------------------- tracer

func stressTrace(c cfgT, r *result) {
	// the output writer fails every 97th write: the tracer must drop exactly those records and nothing else
	sw := &safeWriter{failEvery: 97}
	lg := &fmtLogger{}
	next := http.HandlerFunc(func(w http.ResponseWriter, q *http.Request) { w.Header().Set("X-R", "1"); w.WriteHeader(200) })
	t, err := trace.New(next, sw, trace.RequestHeaders("X-Src"), trace.ResponseHeaders("X-R"), trace.Logger(lg))
	must(err)
	cc := c
	cc.iters = c.iters / 2
	n := hammer(cc, func(w, j int) { t.ServeHTTP(httptest.NewRecorder(), req("a")) })
	lines := bytes.Split(bytes.TrimSpace(sw.buf.Bytes()), []byte("\n"))
	valid := 0
	for _, l := range lines {
		if json.Valid(l) {
			valid++
		}
	}
	r.check(int64(sw.calls) == n, "requests=%d but the writer was called %d times (one Write per record expected)", n, sw.calls)
	r.check(int64(valid) == n-int64(sw.failed), "requests=%d, failed writes=%d: want %d complete trace records, the writer received %d", n, sw.failed, n-int64(sw.failed), valid)
	r.kv("requests", n)
	r.kv("failed-writes", sw.failed)
	r.kv("records", valid)
}

// ---------------------------------------------------------------- RTMetrics

func stressRTMetrics(c cfgT, r *result) {
	hx.FreezeAt(0)
	m, err := memmetrics.NewRTMetrics()
	must(err)
	other, err := memmetrics.NewRTMetrics()
	must(err)
	for i := 0; i < 7; i++ {
		other.Record(404, time.Millisecond)
	}
	codes := []int{200, 404, 500, 502, 504}
	var perCode [5]int64
	var appends int64
	n := hammer(c, func(w, j int) {
		k := (w + j) % len(codes)
		m.Record(codes[k], time.Duration(1+j%50)*time.Millisecond)
		atomic.AddInt64(&perCode[k], 1)
	}, func(k int) {
		_ = m.TotalCount()
		_ = m.NetworkErrorCount()
		_ = m.NetworkErrorRatio()
		_ = m.ResponseCodeRatio(500, 600, 0, 600)
		_ = m.StatusCodesCounts()
		_ = m.CounterWindowSize()
	}, func(k int) {
		_, _ = m.LatencyHistogram()
		_ = m.Export()
	}, func(k int) {
		if k < 40 {
			if m.Append(other) == nil {
				atomic.AddInt64(&appends, 1)
			}
		}
	})
	want := n + 7*appends
	r.check(m.TotalCount() == want, "Record x%d + Append x%d: TotalCount=%d, want %d", n, appends, m.TotalCount(), want)
	r.check(m.NetworkErrorCount() == perCode[3]+perCode[4], "NetworkErrorCount=%d, want %d", m.NetworkErrorCount(), perCode[3]+perCode[4])
	sc := m.StatusCodesCounts()
	for i, code := range codes {
		w := perCode[i]
		if code == 404 {
			w += 7 * appends
		}
		r.check(sc[code] == w, "StatusCodesCounts[%d]=%d, want %d", code, sc[code], w)
	}
	ex := m.Export()
	r.check(ex.TotalCount() == want, "Export().TotalCount=%d, want %d", ex.TotalCount(), want)
	// Reset against readers and writers, then a quiescent Reset must leave zero
	hammer(cfgT{iters: c.iters / 10, deadline: c.deadline}, func(w, j int) { m.Record(200, time.Millisecond) }, func(k int) { m.Reset() }, func(k int) { _ = m.TotalCount(); _ = m.StatusCodesCounts() })
	m.Reset()
	r.check(m.TotalCount() == 0 && len(m.StatusCodesCounts()) == 0, "after Reset: TotalCount=%d", m.TotalCount())
	r.kv("records", n)
	r.kv("appends", appends)
	// inspectors after the window has moved: Count() -> cleanup() zeroes the buckets that expired since the
	// last Record, i.e. "reading" writes once the frozen clock has advanced by >= one resolution (1 s).
	// Rounds of: Record phase, advance 1-3 s, then 8 concurrent inspection goroutines; fresh metrics per
	// round so the exact totals are known (advance < 10 s window).
	now := int64(0)
	rounds, inspected := 0, int64(0)
	for k := 0; k < 40 && time.Now().Before(c.deadline); k++ {
		mm, err := memmetrics.NewRTMetrics()
		must(err)
		var wg sync.WaitGroup
		const recs = 50
		for g := 0; g < 4; g++ {
			wg.Add(1)
			go func(g int) {
				defer wg.Done()
				for i := 0; i < recs; i++ {
					mm.Record(codes[(g+i)%len(codes)], time.Duration(1+i)*time.Millisecond)
				}
			}(g)
		}
		wg.Wait()
		now += int64(1+k%3) * int64(time.Second)
		hx.AdvanceTo(now)
		start := make(chan struct{})
		for g := 0; g < 8; g++ {
			wg.Add(1)
			go func(g int) {
				defer wg.Done()
				<-start
				for i := 0; i < 60; i++ {
					switch (g + i) % 6 {
					case 0:
						_ = mm.StatusCodesCounts()
					case 1:
						_ = mm.ResponseCodeRatio(500, 600, 200, 600)
					case 2:
						_ = mm.NetworkErrorRatio()
					case 3:
						_ = mm.TotalCount()
						_ = mm.NetworkErrorCount()
					case 4:
						if h, err := mm.LatencyHistogram(); err == nil {
							_ = h.LatencyAtQuantile(50)
						}
					case 5:
						_ = mm.Export().TotalCount()
					}
					atomic.AddInt64(&inspected, 1)
				}
			}(g)
		}
		close(start)
		wg.Wait()
		sum := int64(0)
		for _, v := range mm.StatusCodesCounts() {
			sum += v
		}
		r.check(mm.TotalCount() == 4*recs && sum == 4*recs, "round %d (clock +%ds after the last Record): TotalCount=%d status-code sum=%d, want %d", k, 1+k%3, mm.TotalCount(), sum, 4*recs)
		rounds++
	}
	r.kv("window-rounds", rounds)
	r.kv("inspections", inspected)
}

// ---------------------------------------------------------------- TTL map used directly

func stressTTLMap(c cfgT, r *result) {
	hx.FreezeAt(0)
	m := collections.NewTTLMap(64)
	n := hammer(c, func(w, j int) {
		k := fmt.Sprintf("k%d", (w*7+j)%100)
		if j%3 == 0 {
			_, _ = m.Get(k)
		} else {
			_ = m.Set(k, j, 1+j%5)
		}
	}, func(k int) {
		hx.AdvanceTo(int64(k) * int64(time.Millisecond) * 20)
	})
	cnt := 0
	for i := 0; i < 100; i++ {
		if _, ok := m.Get(fmt.Sprintf("k%d", i)); ok {
			cnt++
		}
	}
	r.check(cnt <= 64, "%d live keys in a map of capacity 64", cnt)
	r.kv("ops", n)
	r.kv("live", cnt)
}

// ---------------------------------------------------------------- sticky sessions

// every cookie kind, on the plain balancer and on the rebalancer: 16 goroutines send cookie-less requests
// and replay the Set-Cookie they got; every cookie handed out must pin: the replay is answered by the
// server that answered the first request (pool is stable, so this is exact)
func stressSticky(c cfgT, r *result) {
	key := []byte("0123456789abcdef")
	mk := map[string]func() stickycookie.CookieValue{
		"raw":  func() stickycookie.CookieValue { return &stickycookie.RawValue{} },
		"hash": func() stickycookie.CookieValue { return &stickycookie.HashValue{Salt: "salt"} },
		"aes": func() stickycookie.CookieValue {
			v, err := stickycookie.NewAESValue(key, 0)
			must(err)
			return v
		},
		"aes-ttl": func() stickycookie.CookieValue {
			v, err := stickycookie.NewAESValue(key, time.Hour)
			must(err)
			return v
		},
		"fallback": func() stickycookie.CookieValue {
			a, err := stickycookie.NewAESValue(key, time.Hour)
			must(err)
			h := &stickycookie.HashValue{Salt: "old"}
			v, err := stickycookie.NewFallbackValue(h, a)
			must(err)
			return v
		},
	}
	kinds := []string{"raw", "hash", "aes", "aes-ttl", "fallback"}
	var total int64
	for _, lb := range []string{"rr", "rebalancer"} {
		for _, kind := range kinds {
			next := http.HandlerFunc(func(w http.ResponseWriter, q *http.Request) {
				w.Header().Set("X-Served", q.URL.Host)
				w.WriteHeader(200)
			})
			var h http.Handler
			var rr *roundrobin.RoundRobin
			var err error
			if lb == "rr" {
				rr, err = roundrobin.New(next, roundrobin.EnableStickySession(roundrobin.NewStickySession("sid").SetCookieValue(mk[kind]())))
				must(err)
				h = rr
				for i := 0; i < 4; i++ {
					must(rr.UpsertServer(su(i), roundrobin.Weight(i+1)))
				}
			} else {
				rr, err = roundrobin.New(next)
				must(err)
				rb, err := roundrobin.NewRebalancer(rr, roundrobin.RebalancerStickySession(roundrobin.NewStickySession("sid").SetCookieValue(mk[kind]())))
				must(err)
				h = rb
				for i := 0; i < 4; i++ {
					must(rb.UpsertServer(su(i), roundrobin.Weight(i+1)))
				}
			}
			var issued, pinned, nocookie int64
			first := ""
			var mu sync.Mutex
			cc := c
			cc.iters = c.iters / 20
			if cc.iters < 50 {
				cc.iters = 50
			}
			n := hammer(cc, func(w, j int) {
				rec := httptest.NewRecorder()
				h.ServeHTTP(rec, req("a"))
				served := rec.Header().Get("X-Served")
				cs := rec.Result().Cookies()
				if len(cs) != 1 {
					atomic.AddInt64(&nocookie, 1)
					return
				}
				atomic.AddInt64(&issued, 1)
				q := req("a")
				q.AddCookie(&http.Cookie{Name: cs[0].Name, Value: cs[0].Value})
				rec2 := httptest.NewRecorder()
				h.ServeHTTP(rec2, q)
				if rec2.Header().Get("X-Served") == served {
					atomic.AddInt64(&pinned, 1)
				} else {
					mu.Lock()
					if first == "" {
						first = fmt.Sprintf("cookie %q issued by %s, replay answered by %s", cs[0].Value, served, rec2.Header().Get("X-Served"))
					}
					mu.Unlock()
				}
			}, func(k int) {
				_ = rr.Servers()
				_, _ = rr.ServerWeight(su(k % 4))
			})
			r.check(nocookie == 0, "%s/%s: %d of %d cookie-less requests got no Set-Cookie", lb, kind, nocookie, n)
			r.check(pinned == issued, "%s/%s: %d of %d cookies did not pin (%s)", lb, kind, issued-pinned, issued, first)
			r.kv(lb+"."+kind+".cookies", issued)
			total += 2 * n
		}
	}
	r.kv("requests", total)
}

// ---------------------------------------------------------------- a stack of all of them

func stressStack(c cfgT, r *result) {
	var backend, rejected, tripped, lberr counters
	ex := faultyExtractor()
	var err error
	h := http.HandlerFunc(func(w http.ResponseWriter, q *http.Request) {
		backend.inc(q.URL.Host)
		if q.URL.Host != "s0" && backend.get(q.URL.Host)%4 != 0 {
			w.WriteHeader(500)
			return
		}
		w.WriteHeader(200)
		_, _ = w.Write([]byte("ok"))
	})
	rr, err := roundrobin.New(h, roundrobin.ErrorHandler(utils.ErrorHandlerFunc(func(w http.ResponseWriter, _ *http.Request, _ error) { lberr.inc("e"); w.WriteHeader(502) })))
	must(err)
	rb, err := roundrobin.NewRebalancer(rr, roundrobin.RebalancerBackoff(time.Millisecond),
		roundrobin.RebalancerMeter(func() (roundrobin.Meter, error) { return &safeMeter{}, nil }))
	must(err)
	for i := 0; i < 3; i++ {
		must(rb.UpsertServer(su(i)))
	}
	cl, err := connlimit.New(rb, ex, 64, connlimit.ErrorHandler(utils.ErrorHandlerFunc(func(w http.ResponseWriter, _ *http.Request, _ error) { rejected.inc("conn"); w.WriteHeader(429) })))
	must(err)
	rates := ratelimit.NewRateSet()
	must(rates.Add(time.Second, 1000000, 1000000))
	tl, err := ratelimit.New(cl, ex, rates, ratelimit.ErrorHandler(utils.ErrorHandlerFunc(func(w http.ResponseWriter, _ *http.Request, _ error) { rejected.inc("rate"); w.WriteHeader(429) })))
	must(err)
	cb, err := cbreaker.New(tl, "ResponseCodeRatio(500, 600, 0, 600) > 0.3", cbreaker.CheckPeriod(time.Millisecond), cbreaker.FallbackDuration(time.Millisecond), cbreaker.RecoveryDuration(time.Millisecond),
		cbreaker.Fallback(http.HandlerFunc(func(w http.ResponseWriter, _ *http.Request) { tripped.inc("n"); w.WriteHeader(503) })))
	must(err)
	st, err := stream.New(cb)
	must(err)
	bf, err := buffer.New(st, buffer.MemRequestBodyBytes(1<<16), buffer.MemResponseBodyBytes(1<<16))
	must(err)
	sw := &safeWriter{failEvery: 89}
	top, err := trace.New(bf, sw)
	must(err)
	var answered int64
	cc := c
	cc.iters = c.iters / 3
	n := hammer(cc, func(w, j int) {
		rec := httptest.NewRecorder()
		q := httptest.NewRequest(http.MethodPost, "http://front/x", strings.NewReader("payload"))
		q.Header.Set("X-Src", fmt.Sprintf("c%d", w%4))
		if j%101 == 100 {
			q.Header.Set("X-Bad", "1")
		}
		top.ServeHTTP(rec, q)
		if rec.Code >= 200 {
			atomic.AddInt64(&answered, 1)
		}
	}, func(k int) {
		_ = rb.UpsertServer(su(9))
		_ = rb.Servers()
		_ = rb.RemoveServer(su(9))
	}, func(k int) {
		_, _ = rr.ServerWeight(su(k % 3))
		_ = rr.Servers()
	})
	total := backend.sum() + rejected.sum() + tripped.sum() + lberr.sum()
	r.check(answered == n, "requests=%d answered=%d", n, answered)
	r.check(total == n, "requests=%d but backend=%d + rejected=%d + fallback=%d + lb-errors=%d", n, backend.sum(), rejected.sum(), tripped.sum(), lberr.sum())
	lines := bytes.Count(sw.buf.Bytes(), []byte("\n"))
	r.check(int64(lines) == n-int64(sw.failed), "requests=%d, failed writes=%d, but %d trace records", n, sw.failed, lines)
	r.kv("requests", n)
	r.kv("backend", backend.sum())
	r.kv("fallback", tripped.sum())
}

// ----------------------------------------------------------------

func must(err error) {
	if err != nil {
		fmt.Println("stress setup FAIL", err)
		os.Exit(4)
	}
}

var stressTests = map[string]func(cfgT, *result){
	"rr":              stressRR,
	"rebalancer":      stressRebalancer,
	"cbreaker":        stressBreaker(false),
	"cbreaker-string": stressBreaker(true),
	"ratelimit":       stressRateLimit,
	"connlimit":       stressConnLimit,
	"trace":           stressTrace,
	"rtmetrics":       stressRTMetrics,
	"ttlmap":          stressTTLMap,
	"stack":           stressStack,
	"sticky":          stressSticky,
}

func stressMain(args []string) {
	fs := flag.NewFlagSet("stress", flag.ExitOnError)
	only := fs.String("only", "", "comma separated sub-tests (default all)")
	iters := fs.Int("iters", 3000, "iterations per goroutine")
	secs := fs.Float64("seconds", 20, "time budget per sub-test")
	list := fs.Bool("list", false, "print the sub-test names")
	_ = fs.Parse(args)
	var names []string
	for n := range stressTests {
		names = append(names, n)
	}
	sort.Strings(names)
	if *list {
		fmt.Println(strings.Join(names, " "))
		return
	}
	if *only != "" {
		names = strings.Split(*only, ",")
	}
	rc := 0
	for _, n := range names {
		f, ok := stressTests[n]
		if !ok {
			fmt.Printf("stress %s UNKNOWN\n", n)
			rc = 2
			continue
		}
		fmt.Printf("begin %s\n", n)
		r := &result{}
		t0 := time.Now()
		f(cfgT{iters: *iters, deadline: t0.Add(time.Duration(*secs * float64(time.Second)))}, r)
		r.kv("goroutines", workers)
		r.kv("ms", time.Since(t0).Milliseconds())
		if len(r.bad) > 0 {
			fmt.Printf("stress %s WRONG-TOTAL %s | %s\n", n, strings.Join(r.bad, "; "), strings.Join(r.info, " "))
			rc = 3
		} else {
			fmt.Printf("stress %s ok %s\n", n, strings.Join(r.info, " "))
		}
	}
	os.Exit(rc)
}
