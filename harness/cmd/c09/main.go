// Command c09 has two faces.
//
//  1. `c09 stress [-only a,b] [-iters N] [-seconds S]` — the -race stress of every middleware (stress.go).
//
//  2. line protocol (no arguments): the Go-side evaluation of the lock discipline over a fact table, to be
//     diffed against the Lean checker `Locks.checkVar` (driver drv_c09) on the same lines:
//
//     cfg facts
//     fact <var> <r|u|w|x> <lock:W,lock:R,...|-> <site> -> ok   (r read, u one-statement read-modify-write,
//                                                               w plain store, x split update)
//     verdict <var>                                    -> disciplined <lock> | undisciplined | novar
//     all                                              -> all-disciplined | undisciplined <var> ...
//     updates                                          -> updates-atomic | split <var> ...
//     counter <var>                                    -> counter | not-counter | novar
//     count                                            -> <number of facts>
//
//     A variable is disciplined when one fixed lock is held at every access, exclusively at every write;
//     the lock reported is the one with the smallest id.
package main

import (
	"fmt"
	"os"
	"sort"
	"strconv"
	"strings"

	"github.com/vulcand/oxy/v2/zzverif/hx"
)

type lfact struct {
	v     int
	kind  byte // r u w x
	write bool
	locks map[int]bool // lock -> exclusive
}

type table struct{ facts []lfact }

func (t *table) Close() {}

func (t *table) verdict(v int) (int, bool, bool) {
	cands := map[int]bool{}
	seen := false
	for _, f := range t.facts {
		if f.v != v {
			continue
		}
		seen = true
		for l := range f.locks {
			cands[l] = true
		}
	}
	if !seen {
		return 0, false, false
	}
	var ls []int
	for l := range cands {
		ls = append(ls, l)
	}
	sort.Ints(ls)
	for _, l := range ls {
		ok := true
		for _, f := range t.facts {
			if f.v != v {
				continue
			}
			excl, held := f.locks[l]
			if !held || (f.write && !excl) {
				ok = false
				break
			}
		}
		if ok {
			return l, true, true
		}
	}
	return 0, false, true
}

func (t *table) Op(f []string) string {
	switch f[0] {
	case "fact":
		if len(f) != 5 || len(f[2]) != 1 || !strings.Contains("ruwx", f[2]) {
			return "bad-op"
		}
		v, err := strconv.Atoi(f[1])
		if err != nil || v < 0 {
			return "bad-op"
		}
		lf := lfact{v: v, kind: f[2][0], write: f[2] != "r", locks: map[int]bool{}}
		if f[3] != "-" {
			for _, p := range strings.Split(f[3], ",") {
				q := strings.Split(p, ":")
				if len(q) != 2 || (q[1] != "R" && q[1] != "W") {
					return "bad-op"
				}
				l, err := strconv.Atoi(q[0])
				if err != nil || l < 0 {
					return "bad-op"
				}
				lf.locks[l] = lf.locks[l] || q[1] == "W"
			}
		}
		t.facts = append(t.facts, lf)
		return "ok"
	case "verdict":
		if len(f) != 2 {
			return "bad-op"
		}
		v, err := strconv.Atoi(f[1])
		if err != nil || v < 0 {
			return "bad-op"
		}
		l, ok, seen := t.verdict(v)
		if !seen {
			return "novar"
		}
		if !ok {
			return "undisciplined"
		}
		return fmt.Sprintf("disciplined %d", l)
	case "all":
		if len(f) != 1 {
			return "bad-op"
		}
		vs := map[int]bool{}
		for _, x := range t.facts {
			vs[x.v] = true
		}
		var bad []int
		for v := range vs {
			if _, ok, _ := t.verdict(v); !ok {
				bad = append(bad, v)
			}
		}
		if len(bad) == 0 {
			return "all-disciplined"
		}
		sort.Ints(bad)
		s := "undisciplined"
		for _, v := range bad {
			s += " " + strconv.Itoa(v)
		}
		return s
	case "updates":
		if len(f) != 1 {
			return "bad-op"
		}
		bad := map[int]bool{}
		for _, x := range t.facts {
			if x.kind == 'x' {
				bad[x.v] = true
			}
		}
		if len(bad) == 0 {
			return "updates-atomic"
		}
		var vs []int
		for v := range bad {
			vs = append(vs, v)
		}
		sort.Ints(vs)
		s := "split"
		for _, v := range vs {
			s += " " + strconv.Itoa(v)
		}
		return s
	case "counter":
		if len(f) != 2 {
			return "bad-op"
		}
		v, err := strconv.Atoi(f[1])
		if err != nil || v < 0 {
			return "bad-op"
		}
		seen, ok := false, true
		for _, x := range t.facts {
			if x.v == v {
				seen = true
				if x.write && x.kind != 'u' {
					ok = false
				}
			}
		}
		if !seen {
			return "novar"
		}
		if ok {
			return "counter"
		}
		return "not-counter"
	case "count":
		if len(f) != 1 {
			return "bad-op"
		}
		return strconv.Itoa(len(t.facts))
	}
	return "bad-op"
}

func main() {
	if len(os.Args) > 1 && os.Args[1] == "stress" {
		stressMain(os.Args[2:])
		return
	}
	hx.Main(func(cfg []string) (hx.Handler, string) {
		if len(cfg) == 2 && cfg[1] == "facts" {
			return &table{}, "ok"
		}
		return nil, "bad-cfg"
	})
}
