// Command c05 executes circuit-breaker scenarios (C05, C12, C18) against the real cbreaker package.
//
//	cfg fb=<ns> rec=<ns> cp=<ns> go=<condition in Go syntax, '~' for a space> qs=<quantile literals, comma separated> [px=… model only]
//	    [verbose=1] [fbk=custom|default|resp|redir] [fx=0: no OnTripped/OnStandby registered, `effects` -> effects none; fx=fail|failtrip|failstandby: the effect counts, then returns an error; fx=slow: it counts, then stays in flight until `release-fx` -> ok]
//	finish <id> <code> info=<1xx>: the protected handler sends that informational status first, then <code>
//	    (the Logger option always carries the parking logger)
//	at <ns> | adv <ns>            -> ok
//	start <id> [cancelled]        -> pass <state> | fallback <state>   ("cancelled": the request's context is already cancelled)   (pass: the request is now blocked inside the protected handler)
//	finish <id> <code> [q=v,v,…]  -> done <code> <state>               (the protected handler answers <code>; latency = clock advance since start)
//	burst <n> <step_ns>           -> burst <run-length outcomes, e.g. f3p1f2> <state>   (n arrivals, the clock advancing step_ns after each;
//	                                 passed requests stay in flight until the scenario ends)
//	park-warn <n>                 -> ok      (the next n requests that make the breaker log "is in error state" are parked inside that Warn call)
//	start <id>                    -> parked  (when it blocks in the Warn; nothing else is printed: on the unchanged code it holds the breaker's lock)
//	unpark <id>                   -> pass <state> | fallback <state>   (the request is decided now)
//	start <id2> while one is parked -> unparked <pass|fallback> then <pass|fallback> <state>   when <id2> cannot get past the parked request
//	                                 within 25 ms (it waits for the lock): the parked request is released, both are decided in that order;
//	                                 if <id2> is answered at once, just that answer is printed (no state: String() would block) and the other stays parked
//	finish <id> <code> …          -> unparked <pass|fallback> <state> done <code> <state>   when a request is parked *and holds the lock*
//	                                 (probed with String(), 25 ms): the parked request is decided first, then the completion proceeds;
//	                                 if the parked request does not hold the lock the completion simply proceeds and it stays parked
//	finish2 <id1> <c1> <id2> <c2> [q=…] [adv=<ns>] -> unparked <pass|fallback> done2 <c1> <c2> <state>   only while a request is parked and the breaker is
//	                                 recovering (now <= until) or tripped (now < until): both handlers return one after the other, both
//	                                 requests run metrics.Record and then wait for the lock the parked request holds (25 ms each), then the
//	                                 parked request is released: Record_1 Record_2 <decision> checkAndSet checkAndSet — the schedule in which
//	                                 the one evaluation sees both responses.  q= is the oracle after both records.
//	state                         -> standby | tripped until=<ns> | recovering until=<ns>   (parsed from CircuitBreaker.String())
//	effects                       -> effects tripped=<n> standby=<n>   (executions of the registered OnTripped / OnStandby side effects)
//
// The latency quantiles are an oracle: a shadow memmetrics.RTMetrics is fed the same (code, latency)
// at the same frozen instants and reset when a trip is observed; `c05 annotate` echoes the input with the
// shadow's LatencyAtQuantileMS values filled in as q=… (followed by a tab and the normal output), the normal mode checks the q= it is given against
// them (a difference is printed, it never stays silent).
package main

import (
	"bytes"
	"context"
	"fmt"
	"net/http"
	"net/http/httptest"
	"os"
	"regexp"
	"runtime"
	"strconv"
	"strings"
	"sync"
	"sync/atomic"
	"time"

	"github.com/vulcand/oxy/v2/cbreaker"
	"github.com/vulcand/oxy/v2/internal/holsterv4/clock"
	"github.com/vulcand/oxy/v2/memmetrics"
	"github.com/vulcand/oxy/v2/zzverif/hx"
)

var annotate bool

// recorder is the client's view of one response: like net/http, informational (1xx) headers do not end the header phase.
type recorder struct {
	hdr   http.Header
	Code  int
	Infos []int
	Body  *bytes.Buffer
	wrote bool
}

func newRecorder() *recorder { return &recorder{hdr: http.Header{}, Code: 200, Body: &bytes.Buffer{}} }

func (r *recorder) Header() http.Header { return r.hdr }
func (r *recorder) WriteHeader(code int) {
	if r.wrote {
		return
	}
	if code >= 100 && code <= 199 && code != http.StatusSwitchingProtocols {
		r.Infos = append(r.Infos, code)
		return
	}
	r.Code, r.wrote = code, true
}
func (r *recorder) Write(b []byte) (int, error) {
	if !r.wrote {
		r.WriteHeader(http.StatusOK)
	}
	return r.Body.Write(b)
}

type flight struct {
	parked  chan struct{}
	unpark  chan struct{}
	entered chan struct{}
	release chan int
	done    chan struct{}
	rec     *recorder
	info    int
	start   time.Time
}

// effect counts its executions; a failing one acts (counts) and then reports an error.
type effect struct {
	n    *int64
	fail bool
	slow *slowFx // non-nil: the effect counts at entry, then stays in flight until `release-fx` or the end of the scenario
}

type slowFx struct {
	mu      sync.Mutex
	release chan struct{}
	running int32
}

func (e effect) Exec() error {
	atomic.AddInt64(e.n, 1)
	if e.slow != nil {
		e.slow.mu.Lock()
		ch := e.slow.release
		e.slow.mu.Unlock()
		atomic.AddInt32(&e.slow.running, 1)
		<-ch
		atomic.AddInt32(&e.slow.running, -1)
	}
	if e.fail {
		return fmt.Errorf("side effect acted, then failed")
	}
	return nil
}

type h struct {
	cb        *cbreaker.CircuitBreaker
	flights   map[string]*flight
	nTripped  int64
	nStandby  int64
	shadow    *memmetrics.RTMetrics
	quantiles []float64
	prevState string
	nBurst    int
	armed     int32
	parking   *flight // the request being started: the one a Warn call may park
	parkedID  string
	fbk       string
	noFx      bool
	slow      *slowFx
	ramp      atomic.Pointer[rendezvous]
}

// releaseFx lets every side effect that is still in flight finish.
func (s *h) releaseFx() {
	if s.slow == nil {
		return
	}
	s.slow.mu.Lock()
	close(s.slow.release)
	s.slow.release = make(chan struct{})
	s.slow.mu.Unlock()
}

// parkProbe bounds the waits that decide "this goroutine is held up by the parked request".  On the unchanged code (the
// parked request holds the breaker's lock) the held-up goroutine never answers, so the outcome of a wait is "blocked"
// whether it ends by the timer or earlier; blockedOnLock is only an accelerator (and a guard against CPU starvation): it
// looks for goroutines that are inside the *exported* entry point named and wait for a sync lock — stdlib names and the
// package's exported API only, never an unexported name of the code under test.  When it sees nothing the timer decides.
const parkProbe = 250 * time.Millisecond

var probeFallbacks int64 // waits that ended by the timer (reported on stderr at exit, never in an output line)

// blockedOnLock counts the goroutines inside cbreaker.(*CircuitBreaker).<entry> that are waiting for a mutex.
func blockedOnLock(entry string) int {
	if os.Getenv("C05_NO_STACK_PROBE") != "" { // self-test of the timer path
		return 0
	}
	buf := make([]byte, 1<<20)
	for {
		n := runtime.Stack(buf, true)
		if n < len(buf) {
			buf = buf[:n]
			break
		}
		buf = make([]byte, 2*len(buf))
	}
	cnt := 0
	for _, g := range strings.Split(string(buf), "\n\n") {
		nl := strings.IndexByte(g, '\n')
		if nl < 0 {
			continue
		}
		hdr := g[:nl]
		if !(strings.Contains(hdr, "semacquire") || strings.Contains(hdr, "sync.Mutex") || strings.Contains(hdr, "sync.RWMutex")) {
			continue
		}
		if strings.Contains(g, "cbreaker.(*CircuitBreaker)."+entry+"(") {
			cnt++
		}
	}
	return cnt
}

// waitAnswerOrBlocked waits until done() reports an answer (returns true), or n goroutines are seen waiting for a lock inside
// entry, or the bound has passed (both: returns false = "held up").
func waitAnswerOrBlocked(done func() bool, entry string, n int, bound ...time.Duration) bool {
	d := parkProbe
	if len(bound) > 0 {
		d = bound[0]
	}
	deadline := time.Now().Add(d)
	for i := 0; ; i++ {
		if done() {
			return true
		}
		if blockedOnLock(entry) >= n {
			return done()
		}
		if time.Now().After(deadline) {
			atomic.AddInt64(&probeFallbacks, 1)
			return done()
		}
		if i < 20 {
			runtime.Gosched()
		} else {
			time.Sleep(200 * time.Microsecond)
		}
	}
}

func chanClosed(c chan struct{}) func() bool {
	return func() bool {
		select {
		case <-c:
			return true
		default:
			return false
		}
	}
}

// parkLogger is given to the breaker through the Logger option; its Warn parks a request on demand.
type parkLogger struct{ s *h }

// every message is formatted, as a real logger would do (the arguments' String methods run)
func (l *parkLogger) Debug(msg string, a ...any) {
	txt := fmt.Sprintf(msg, a...)
	// `pburst`: the first callers that log the recovery ramp's state before deciding rendezvous here
	if rv := l.s.ramp.Load(); rv != nil && strings.HasPrefix(txt, "RatioController(") && !strings.HasSuffix(txt, "allowed") && !strings.HasSuffix(txt, "denied") {
		rv.wait()
	}
}

// rendezvous (op `pburst`): the first callers wait until `want` of them are inside at once, or 300 ms have passed; after that
// it is transparent.  The breaker decides a request in recovery (and logs the ramp's state first) while it holds its write
// lock, so on the code as it is only one caller is ever inside: the rendezvous times out, once, and the burst is decided one
// request after the other.  A breaker that takes these decisions on a shared snapshot lets every caller read the same counters.
type rendezvous struct {
	mu   sync.Mutex
	want int
	in   int
	done bool
	ch   chan struct{}
}

func (b *rendezvous) wait() {
	b.mu.Lock()
	if b.done {
		b.mu.Unlock()
		return
	}
	b.in++
	if b.in >= b.want {
		b.done = true
		close(b.ch)
		b.mu.Unlock()
		return
	}
	ch := b.ch
	b.mu.Unlock()
	select {
	case <-ch:
	case <-time.After(300 * time.Millisecond):
		b.mu.Lock()
		if !b.done {
			b.done = true
			close(b.ch)
		}
		b.mu.Unlock()
	}
}
func (l *parkLogger) Info(msg string, a ...any)  { _ = fmt.Sprintf(msg, a...) }
func (l *parkLogger) Error(msg string, a ...any) { _ = fmt.Sprintf(msg, a...) }
func (l *parkLogger) Warn(msg string, a ...any) {
	_ = fmt.Sprintf(msg, a...)
	if !strings.Contains(msg, "is in error state") || atomic.LoadInt32(&l.s.armed) <= 0 {
		return
	}
	p := l.s.parking
	if p == nil {
		return
	}
	atomic.AddInt32(&l.s.armed, -1)
	p.parked <- struct{}{}
	<-p.unpark
}

// newReq builds the request of `start <id> [cancelled]`; "cancelled": the client has already gone (context cancelled) —
// the breaker must treat it like any other request.
type flightKey struct{}

func newReq(f []string, fl *flight) *http.Request {
	req := httptest.NewRequest(http.MethodGet, "http://backend/", nil)
	req.Header.Set("X-Id", f[1])
	ctx := context.WithValue(req.Context(), flightKey{}, fl)
	if len(f) == 3 && f[2] == "cancelled" {
		var cancel context.CancelFunc
		ctx, cancel = context.WithCancel(ctx)
		cancel()
	}
	return req.WithContext(ctx)
}

func newFlight() *flight {
	return &flight{parked: make(chan struct{}, 1), unpark: make(chan struct{}), entered: make(chan struct{}, 1),
		release: make(chan int, 1), done: make(chan struct{}), rec: newRecorder(), start: clock.Now().UTC()}
}

func (s *h) isFallback(rec *recorder) bool {
	switch s.fbk {
	case "default":
		return rec.Code == http.StatusServiceUnavailable && rec.Body.String() == http.StatusText(http.StatusServiceUnavailable)
	case "resp":
		return rec.Code == http.StatusTooManyRequests && rec.Body.String() == "fb-resp" && rec.Header().Get("Content-Type") == "text/x-fb"
	case "redir":
		return rec.Code == http.StatusFound && rec.Header().Get("Location") == "http://fallback.example/fb"
	}
	return rec.Header().Get("X-Fb") == "1" && rec.Code == http.StatusServiceUnavailable
}

// decisionKeepsState: judging by the last printed state, the decision of a request arriving now cannot move the state
// (recovering and not past the deadline, or tripped and before it)
func (s *h) decisionKeepsState() bool {
	g := strings.Fields(s.prevState)
	if len(g) != 2 || !strings.HasPrefix(g[1], "until=") {
		return false
	}
	u, err := strconv.ParseInt(g[1][6:], 10, 64)
	if err != nil {
		return false
	}
	return (g[0] == "recovering" && hx.NowNs() <= u) || (g[0] == "tripped" && hx.NowNs() < u)
}

// decided waits until a released (or never parked) request is inside the protected handler or answered.
func (s *h) decided(id string, fl *flight) string {
	select {
	case <-fl.entered:
		return "pass"
	case <-fl.done:
		delete(s.flights, id)
		if s.isFallback(fl.rec) {
			return "fallback"
		}
		return fmt.Sprintf("lost code=%d", fl.rec.Code)
	}
}

var stateRe = regexp.MustCompile(`^CircuitBreaker\(state=([a-z]+)(?:, until=(.*))?\)$`)

func (s *h) state() string {
	m := stateRe.FindStringSubmatch(s.cb.String())
	if m == nil {
		return "unparsed:" + strings.ReplaceAll(s.cb.String(), " ", "_")
	}
	if m[2] == "" {
		return m[1]
	}
	t, err := time.Parse("2006-01-02 15:04:05.999999999 -0700 MST", m[2])
	if err != nil {
		return m[1] + " until=unparsed:" + strings.ReplaceAll(m[2], " ", "_")
	}
	return fmt.Sprintf("%s until=%d", m[1], int64(t.Sub(hx.Base)))
}

// quiesce waits until every goroutine launched by the breaker (side effects) has run to completion:
// what remains is main, the goroutine of the current op and the blocked in-flight requests.
func (s *h) quiesce() string {
	deadline := time.Now().Add(4 * time.Second)
	want := func() int {
		n := 2 + len(s.flights)
		if s.slow != nil {
			n += int(atomic.LoadInt32(&s.slow.running)) // side effects deliberately kept in flight
		}
		return n
	}
	for i := 0; runtime.NumGoroutine() > want(); i++ {
		if i < 200 {
			runtime.Gosched()
		} else {
			time.Sleep(20 * time.Microsecond)
		}
		if time.Now().After(deadline) {
			return fmt.Sprintf(" quiesce-timeout goroutines=%d want=%d", runtime.NumGoroutine(), want())
		}
	}
	return ""
}

func (s *h) next(w http.ResponseWriter, r *http.Request) {
	// the flight travels in the request context: the handler must not read s.flights, which the op goroutine mutates
	fl := r.Context().Value(flightKey{}).(*flight)
	fl.entered <- struct{}{}
	code := <-fl.release
	if fl.info != 0 {
		w.WriteHeader(fl.info) // an informational response first (e.g. 103 Early Hints); the final code follows
	}
	w.WriteHeader(code)
}

func fallback(w http.ResponseWriter, _ *http.Request) {
	w.Header().Set("X-Fb", "1")
	w.WriteHeader(http.StatusServiceUnavailable)
}

func (s *h) oracle() string {
	if len(s.quantiles) == 0 {
		return ""
	}
	hist, err := s.shadow.LatencyHistogram()
	if err != nil {
		return "err"
	}
	vs := make([]string, len(s.quantiles))
	for i, q := range s.quantiles {
		vs[i] = strconv.Itoa(int(hist.LatencyAtQuantile(q) / clock.Millisecond))
	}
	return strings.Join(vs, ",")
}

func (s *h) Op(f []string) string {
	line := strings.Join(f, " ")
	out := s.op(f, &line)
	if annotate {
		return line + "\t" + out
	}
	return out
}

func (s *h) op(f []string, line *string) string {
	switch {
	case f[0] == "at" && len(f) == 2:
		hx.AdvanceTo(hx.Atoi64(f[1]))
		return "ok"
	case f[0] == "adv" && len(f) == 2:
		hx.AdvanceTo(hx.NowNs() + hx.Atoi64(f[1]))
		return "ok"
	case f[0] == "release-fx" && len(f) == 1:
		if s.parkedID != "" {
			return "bad-op"
		}
		s.releaseFx()
		return "ok" + s.quiesce()
	case f[0] == "park-warn" && len(f) == 2:
		atomic.StoreInt32(&s.armed, int32(hx.Atoi(f[1])))
		return "ok"
	case f[0] == "start" && (len(f) == 2 || (len(f) == 3 && f[2] == "cancelled")):
		if _, ok := s.flights[f[1]]; ok || (s.parkedID != "" && atomic.LoadInt32(&s.armed) > 0) {
			return "bad-op"
		}
		fl := newFlight()
		s.flights[f[1]] = fl
		s.parking = fl
		if s.parkedID != "" {
			// a second arrival while the first is parked in the breaker's Warn
			s.parking = nil
			req := newReq(f, fl)
			go func() {
				defer close(fl.done)
				s.cb.ServeHTTP(fl.rec, req)
			}()
			entered := false
			answered := waitAnswerOrBlocked(func() bool {
				select {
				case <-fl.entered:
					entered = true
					return true
				case <-fl.done:
					return true
				default:
					return entered
				}
			}, "ServeHTTP", 1)
			if answered {
				if entered {
					return "pass"
				}
				delete(s.flights, f[1])
				if s.isFallback(fl.rec) {
					return "fallback"
				}
				return fmt.Sprintf("lost code=%d", fl.rec.Code)
			}
			pid := s.parkedID
			pf := s.flights[pid]
			pf.start = clock.Now().UTC()
			s.parkedID = ""
			close(pf.unpark)
			ra := s.decided(pid, pf)
			rb := s.decided(f[1], fl)
			q := s.quiesce()
			s.prevState = s.state()
			return "unparked " + ra + " then " + rb + " " + s.prevState + q
		}
		req := newReq(f, fl)
		go func() {
			defer close(fl.done)
			s.cb.ServeHTTP(fl.rec, req)
		}()
		res := ""
		select {
		case <-fl.parked:
			s.parkedID = f[1]
			return "parked"
		case <-fl.entered:
			res = "pass"
		case <-fl.done:
			delete(s.flights, f[1])
			if s.isFallback(fl.rec) {
				res = "fallback"
			} else {
				res = fmt.Sprintf("lost code=%d", fl.rec.Code)
			}
		}
		q := s.quiesce()
		s.prevState = s.state()
		return res + " " + s.prevState + q
	case f[0] == "unpark" && len(f) == 2:
		if s.parkedID == "" || s.parkedID != f[1] {
			return "bad-op"
		}
		fl := s.flights[f[1]]
		fl.start = clock.Now().UTC()
		s.parkedID = ""
		close(fl.unpark)
		res := s.decided(f[1], fl)
		q := s.quiesce()
		s.prevState = s.state()
		return res + " " + s.prevState + q
	case f[0] == "burst" && len(f) == 3:
		if s.parkedID != "" || atomic.LoadInt32(&s.armed) > 0 {
			return "bad-op"
		}
		s.parking = nil
		n, step := hx.Atoi(f[1]), hx.Atoi64(f[2])
		var sb strings.Builder
		last, run := byte(0), 0
		flush := func() {
			if run > 0 {
				fmt.Fprintf(&sb, "%c%d", last, run)
			}
		}
		for i := 0; i < n; i++ {
			s.nBurst++
			id := fmt.Sprintf("~%d", s.nBurst)
			fl := newFlight()
			s.flights[id] = fl
			req := newReq([]string{"start", id}, fl)
			go func() {
				defer close(fl.done)
				s.cb.ServeHTTP(fl.rec, req)
			}()
			c := byte('p')
			select {
			case <-fl.entered:
			case <-fl.done:
				delete(s.flights, id)
				c = 'f'
				if !s.isFallback(fl.rec) {
					c = 'x'
				}
			}
			if c != last {
				flush()
				last, run = c, 0
			}
			run++
			hx.AdvanceTo(hx.NowNs() + step)
		}
		flush()
		q := s.quiesce()
		s.prevState = s.state()
		return "burst " + sb.String() + " " + s.prevState + q
	case f[0] == "pburst" && len(f) == 2:
		// n requests arrive at once, at one frozen instant: the answers are counted, not ordered
		if s.parkedID != "" || atomic.LoadInt32(&s.armed) > 0 {
			return "bad-op"
		}
		s.parking = nil
		n := hx.Atoi(f[1])
		if n < 1 || n > 64 {
			return "bad-op"
		}
		s.ramp.Store(&rendezvous{want: n, ch: make(chan struct{})})
		fls := make([]*flight, n)
		ids := make([]string, n)
		for i := 0; i < n; i++ {
			s.nBurst++
			ids[i] = fmt.Sprintf("~%d", s.nBurst)
			fls[i] = newFlight()
			s.flights[ids[i]] = fls[i]
		}
		gate := make(chan struct{})
		for i := 0; i < n; i++ {
			fl, req := fls[i], newReq([]string{"start", ids[i]}, fls[i])
			go func() {
				defer close(fl.done)
				<-gate
				s.cb.ServeHTTP(fl.rec, req)
			}()
		}
		close(gate)
		np, nf, nx := 0, 0, 0
		for i := 0; i < n; i++ {
			select {
			case <-fls[i].entered:
				np++
			case <-fls[i].done:
				delete(s.flights, ids[i])
				if s.isFallback(fls[i].rec) {
					nf++
				} else {
					nx++
				}
			}
		}
		s.ramp.Store(nil)
		q := s.quiesce()
		s.prevState = s.state()
		out := fmt.Sprintf("pburst pass=%d fallback=%d", np, nf)
		if nx > 0 {
			out += fmt.Sprintf(" other=%d", nx)
		}
		return out + " " + s.prevState + q
	case f[0] == "finish" && len(f) >= 3:
		fl, ok := s.flights[f[1]]
		if !ok || f[1] == s.parkedID {
			return "bad-op"
		}
		code := hx.Atoi(f[2])
		fl.info = hx.KVInt(f, "info", 0)
		prefix := ""
		if s.parkedID != "" {
			// does the parked request hold the breaker's lock?  String() takes the read lock.
			probe := make(chan string, 1)
			probed := make(chan struct{})
			go func() { probe <- s.state(); close(probed) }()
			if waitAnswerOrBlocked(chanClosed(probed), "String", 1) {
				// no: the completion is not held up by it; it stays parked
				<-probe
			} else {
				// yes: nothing can overtake it; it is decided now, before the completion gets the lock
				pid := s.parkedID
				pf := s.flights[pid]
				pf.start = clock.Now().UTC()
				s.parkedID = ""
				close(pf.unpark)
				res := s.decided(pid, pf)
				s.prevState = <-probe
				prefix = "unparked " + res + " " + s.prevState + " "
			}
		}
		// the shadow metrics see the same record at the same instant
		s.shadow.Record(code, clock.Now().UTC().Sub(fl.start))
		orc := s.oracle()
		fl.release <- code
		<-fl.done
		delete(s.flights, f[1])
		q := s.quiesce()
		st := s.state()
		if strings.HasPrefix(st, "tripped") && !strings.HasPrefix(s.prevState, "tripped") {
			s.shadow.Reset()
		}
		s.prevState = st
		mismatch := ""
		if orc != "" {
			if annotate {
				keep := []string{}
				for _, t := range f {
					if !strings.HasPrefix(t, "q=") {
						keep = append(keep, t)
					}
				}
				*line = strings.Join(keep, " ") + " q=" + orc
			} else if given, _ := hx.KV(f, "q"); given != orc {
				mismatch = " oracle-mismatch=" + orc
			}
		}
		return fmt.Sprintf("%sdone %d %s%s%s", prefix, fl.rec.Code, st, q, mismatch)
	case f[0] == "finish2" && len(f) >= 5:
		f1, ok1 := s.flights[f[1]]
		f2, ok2 := s.flights[f[3]]
		if !ok1 || !ok2 || f[1] == f[3] || s.parkedID == "" || f[1] == s.parkedID || f[3] == s.parkedID || !s.decisionKeepsState() {
			return "bad-op"
		}
		c1, c2 := hx.Atoi(f[2]), hx.Atoi(f[4])
		probe := make(chan string, 1)
		probed := make(chan struct{})
		go func() { probe <- s.state(); close(probed) }()
		if waitAnswerOrBlocked(chanClosed(probed), "String", 1) {
			return "finish2-lock-not-held"
		}
		// each completing request runs metrics.Record and then waits for the lock the parked request holds: it is seen waiting for
		// a mutex inside ServeHTTP (its handler has returned; the other in-flight requests wait on channels), or the timer passes
		s.shadow.Record(c1, clock.Now().UTC().Sub(f1.start))
		f1.release <- c1
		if waitAnswerOrBlocked(chanClosed(f1.done), "ServeHTTP", 1) {
			return "finish2-first-not-blocked"
		}
		s.shadow.Record(c2, clock.Now().UTC().Sub(f2.start))
		orc := s.oracle()
		f2.release <- c2
		if waitAnswerOrBlocked(chanClosed(f2.done), "ServeHTTP", 2) {
			return "finish2-second-not-blocked"
		}
		// adv=<ns>: the clock moves on while both completions wait for the lock
		if adv := hx.KVInt(f, "adv", 0); adv > 0 {
			clock.Advance(time.Duration(adv))
		}
		pid := s.parkedID
		pf := s.flights[pid]
		pf.start = clock.Now().UTC()
		s.parkedID = ""
		close(pf.unpark)
		ra := s.decided(pid, pf)
		<-probe
		<-f1.done
		<-f2.done
		delete(s.flights, f[1])
		delete(s.flights, f[3])
		q := s.quiesce()
		st := s.state()
		if strings.HasPrefix(st, "tripped") && !strings.HasPrefix(s.prevState, "tripped") {
			s.shadow.Reset()
		}
		s.prevState = st
		mismatch := ""
		if orc != "" {
			if annotate {
				*line = strings.Join(f[:5], " ") + " q=" + orc
				if adv, ok := hx.KV(f, "adv"); ok {
					*line += " adv=" + adv
				}
			} else if given, _ := hx.KV(f, "q"); given != orc {
				mismatch = " oracle-mismatch=" + orc
			}
		}
		return fmt.Sprintf("unparked %s done2 %d %d %s%s%s", ra, f1.rec.Code, f2.rec.Code, st, q, mismatch)
	case f[0] == "state" && len(f) == 1:
		if s.parkedID != "" {
			return "bad-op"
		}
		return s.state()
	case f[0] == "effects" && len(f) == 1:
		if s.parkedID != "" {
			return "bad-op"
		}
		if s.noFx {
			return "effects none"
		}
		q := s.quiesce()
		return fmt.Sprintf("effects tripped=%d standby=%d%s", atomic.LoadInt64(&s.nTripped), atomic.LoadInt64(&s.nStandby), q)
	}
	return "bad-op"
}

func (s *h) Close() {
	defer func() { s.releaseFx(); s.quiesce() }()
	if s.parkedID != "" {
		pf := s.flights[s.parkedID]
		close(pf.unpark)
		s.decided(s.parkedID, pf)
		s.parkedID = ""
	}
	for id, fl := range s.flights {
		fl.release <- 200
		<-fl.done
		delete(s.flights, id)
	}
	s.quiesce()
}

// echoH keeps the lines of a scenario whose cfg is rejected (annotate mode)
type echoH struct{}

func (echoH) Op(f []string) string { return strings.Join(f, " ") + "\tno-scenario" }
func (echoH) Close()               {}

func main() {
	defer func() {
		if n := atomic.LoadInt64(&probeFallbacks); n > 0 {
			fmt.Fprintf(os.Stderr, "c05: %d lock probes ended by the timer\n", n)
		}
	}()
	annotate = len(os.Args) > 1 && os.Args[1] == "annotate"
	hx.Main(func(cfg []string) (hx.Handler, string) {
		echo := "ok"
		fail := "err"
		if annotate {
			echo = strings.Join(cfg, " ") + "\tok"
			fail = strings.Join(cfg, " ") + "\terr"
		}
		hx.FreezeAt(0)
		s := &h{flights: map[string]*flight{}, prevState: "standby"}
		expr, _ := hx.KV(cfg, "go")
		expr = strings.ReplaceAll(expr, "~", " ")
		if qs, ok := hx.KV(cfg, "qs"); ok && qs != "" {
			for _, q := range strings.Split(qs, ",") {
				v, err := strconv.ParseFloat(q, 64)
				if err != nil {
					return nil, "bad-cfg"
				}
				s.quantiles = append(s.quantiles, v)
			}
		}
		opts := []cbreaker.Option{
			cbreaker.FallbackDuration(time.Duration(hx.KVInt64(cfg, "fb", 0))),
			cbreaker.RecoveryDuration(time.Duration(hx.KVInt64(cfg, "rec", 0))),
			cbreaker.CheckPeriod(time.Duration(hx.KVInt64(cfg, "cp", 0))),
			cbreaker.Logger(&parkLogger{s}),
		}
		if v, _ := hx.KV(cfg, "verbose"); v == "1" {
			opts = append(opts, cbreaker.Verbose(true))
		}
		s.fbk, _ = hx.KV(cfg, "fbk")
		switch s.fbk {
		case "default":
		case "resp":
			rf, err := cbreaker.NewResponseFallback(cbreaker.Response{StatusCode: http.StatusTooManyRequests, ContentType: "text/x-fb", Body: []byte("fb-resp")})
			if err != nil {
				return nil, "err fallback"
			}
			opts = append(opts, cbreaker.Fallback(rf))
		case "redir":
			rf, err := cbreaker.NewRedirectFallback(cbreaker.Redirect{URL: "http://fallback.example/fb"})
			if err != nil {
				return nil, "err fallback"
			}
			opts = append(opts, cbreaker.Fallback(rf))
		default:
			opts = append(opts, cbreaker.Fallback(http.HandlerFunc(fallback)))
		}
		switch v, _ := hx.KV(cfg, "fx"); v {
		case "0":
			s.noFx = true
		default: // "", "fail", "failtrip", "failstandby", "slow": the counters must not depend on what Exec returns or how long it runs
			if v == "slow" {
				s.slow = &slowFx{release: make(chan struct{})}
			}
			opts = append(opts, cbreaker.OnTripped(effect{&s.nTripped, v == "fail" || v == "failtrip", s.slow}),
				cbreaker.OnStandby(effect{&s.nStandby, v == "fail" || v == "failstandby", s.slow}))
		}
		cb, err := cbreaker.New(http.HandlerFunc(s.next), expr, opts...)
		if err != nil {
			if annotate {
				return echoH{}, fail
			}
			return nil, fail
		}
		sh, err := memmetrics.NewRTMetrics()
		if err != nil {
			return nil, "err shadow"
		}
		s.cb, s.shadow = cb, sh
		return s, echo
	})
}
