// Command c01 executes C01/C02-style pool scenarios against the real roundrobin package.
//
//	cfg rr
//	upsert <key> [w]     -> ok | err <kind>
//	upserts <key> w...   -> ok | err <kind>   (UpsertServer with several Weight options)
//	remove <key>         -> ok | err notfound
//	weight <key>         -> <w> | none
//	next | nextm         -> ok <key> | err noservers | err allzero   (nextm: the caller then rewrites the URL it got)
//	pnext <callers> <per>-> counts k1=.. k2=.. (sorted) | err ...   (concurrent NextServer calls)
package main

import (
	"fmt"
	"net/http"
	"net/url"
	"sort"
	"strings"
	"sync"

	"github.com/vulcand/oxy/v2/roundrobin"
	"github.com/vulcand/oxy/v2/zzverif/hx"
)

type h struct{ rr *roundrobin.RoundRobin }

func u(key string) *url.URL { return &url.URL{Scheme: "http", Host: key} }

func nextStr(uu *url.URL, err error) string {
	switch {
	case err == roundrobin.ErrNoServers:
		return "err noservers"
	case err != nil && strings.Contains(err.Error(), "0 weight"):
		return "err allzero"
	case err != nil:
		return "err other " + err.Error()
	}
	return "ok " + uu.Host
}

func (s *h) Op(f []string) string {
	switch f[0] {
	case "upsert":
		var err error
		if len(f) == 3 {
			err = s.rr.UpsertServer(u(f[1]), roundrobin.Weight(hx.Atoi(f[2])))
		} else {
			err = s.rr.UpsertServer(u(f[1]))
		}
		if err != nil {
			return "err " + strings.ReplaceAll(err.Error(), " ", "_")
		}
		return "ok"
	case "upserts":
		// several Weight options in one call (the last may be negative: the call fails after the earlier ones were applied)
		var opts []roundrobin.ServerOption
		for _, t := range f[2:] {
			opts = append(opts, roundrobin.Weight(hx.Atoi(t)))
		}
		if err := s.rr.UpsertServer(u(f[1]), opts...); err != nil {
			return "err " + strings.ReplaceAll(err.Error(), " ", "_")
		}
		return "ok"
	case "remove":
		if err := s.rr.RemoveServer(u(f[1])); err != nil {
			return "err notfound"
		}
		return "ok"
	case "weight":
		w, ok := s.rr.ServerWeight(u(f[1]))
		if !ok {
			return "none"
		}
		return fmt.Sprint(w)
	case "next":
		return nextStr(s.rr.NextServer())
	case "nextm":
		// the caller rewrites the URL it was handed (as a downstream handler may): the pool must not notice
		uu, err := s.rr.NextServer()
		out := nextStr(uu, err)
		if err == nil {
			uu.Host = "mutated-" + uu.Host
			uu.Path = "/mutated"
			uu.Scheme = "https"
		}
		return out
	case "pnext":
		callers, per := hx.Atoi(f[1]), hx.Atoi(f[2])
		var mu sync.Mutex
		counts := map[string]int{}
		var wg sync.WaitGroup
		for c := 0; c < callers; c++ {
			wg.Add(1)
			go func() {
				defer wg.Done()
				for i := 0; i < per; i++ {
					r := nextStr(s.rr.NextServer())
					mu.Lock()
					counts[r]++
					mu.Unlock()
				}
			}()
		}
		wg.Wait()
		keys := make([]string, 0, len(counts))
		for k := range counts {
			keys = append(keys, k)
		}
		sort.Strings(keys)
		var sb strings.Builder
		sb.WriteString("counts")
		for _, k := range keys {
			fmt.Fprintf(&sb, " %s=%d", strings.ReplaceAll(k, " ", ":"), counts[k])
		}
		return sb.String()
	}
	return "bad-op"
}

func (s *h) Close() {}

func main() {
	hx.Main(func(cfg []string) (hx.Handler, string) {
		rr, err := roundrobin.New(http.HandlerFunc(func(http.ResponseWriter, *http.Request) {}))
		if err != nil {
			return nil, "err " + err.Error()
		}
		return &h{rr: rr}, "ok"
	})
}
