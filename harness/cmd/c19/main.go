// Command c19 executes source-extractor scenarios against the real utils.NewExtractor / Extract.
//
//	cfg var=<esc variable>                                  -> ok | err unsupported | err wrongheader | err other
//	x addr=<esc> host=<esc> [urlhost=<esc>] [h=<esc name>=<esc value>]...   -> ok tok=<esc token> amt=<n> | err
//
// <esc>: bytes in [A-Za-z0-9.:_-] and '[' ']' stand for themselves, every other byte is %XX (upper-case
// hex); identical on the Lean side.  The request is forged in-process: RemoteAddr, Host as given, the
// header lines added with Header.Add in the order given (as a server does while reading them).
// urlhost sets req.URL.Host (and an absolute-form RequestURI): what a request looks like behind a
// load balancer that re-pointed req.URL at a backend, or after an absolute-form request line.
package main

import (
	"fmt"
	"net/http"
	"net/url"
	"strings"

	"github.com/vulcand/oxy/v2/utils"
	"github.com/vulcand/oxy/v2/zzverif/hx"
)

func safe(c byte) bool {
	return c >= 'a' && c <= 'z' || c >= 'A' && c <= 'Z' || c >= '0' && c <= '9' ||
		c == '.' || c == ':' || c == '_' || c == '-' || c == '[' || c == ']'
}

func esc(s string) string {
	var sb strings.Builder
	for i := 0; i < len(s); i++ {
		if safe(s[i]) {
			sb.WriteByte(s[i])
		} else {
			fmt.Fprintf(&sb, "%%%02X", s[i])
		}
	}
	return sb.String()
}

func hexv(c byte) int {
	switch {
	case c >= '0' && c <= '9':
		return int(c - '0')
	case c >= 'A' && c <= 'F':
		return int(c-'A') + 10
	}
	return -1
}

func unesc(s string) (string, bool) {
	var sb strings.Builder
	for i := 0; i < len(s); i++ {
		switch {
		case s[i] == '%':
			if i+2 >= len(s) {
				return "", false
			}
			a, b := hexv(s[i+1]), hexv(s[i+2])
			if a < 0 || b < 0 {
				return "", false
			}
			sb.WriteByte(byte(a*16 + b))
			i += 2
		case safe(s[i]):
			sb.WriteByte(s[i])
		default:
			return "", false
		}
	}
	return sb.String(), true
}

type h struct{ ex utils.SourceExtractor }

func (s *h) Op(f []string) string {
	if f[0] != "x" {
		return "bad-op"
	}
	req := &http.Request{Method: http.MethodGet, URL: &url.URL{Path: "/"}, Header: http.Header{}}
	seenA, seenH := false, false
	for _, t := range f[1:] {
		switch {
		case strings.HasPrefix(t, "addr=") && !seenA:
			v, ok := unesc(t[5:])
			if !ok {
				return "bad-op"
			}
			req.RemoteAddr, seenA = v, true
		case strings.HasPrefix(t, "host=") && !seenH:
			v, ok := unesc(t[5:])
			if !ok {
				return "bad-op"
			}
			req.Host, seenH = v, true
		case strings.HasPrefix(t, "urlhost=") && req.URL.Host == "":
			v, ok := unesc(t[8:])
			if !ok {
				return "bad-op"
			}
			req.URL.Scheme, req.URL.Host = "http", v
			req.RequestURI = "http://" + v + "/"
		case strings.HasPrefix(t, "h="):
			name, value, found := strings.Cut(t[2:], "=")
			n, ok1 := unesc(name)
			v, ok2 := unesc(value)
			if !found || !ok1 || !ok2 {
				return "bad-op"
			}
			req.Header.Add(n, v)
		default:
			return "bad-op"
		}
	}
	tok, amt, err := s.ex.Extract(req)
	if err != nil {
		return "err"
	}
	return fmt.Sprintf("ok tok=%s amt=%d", esc(tok), amt)
}

func (s *h) Close() {}

func main() {
	hx.Main(func(cfg []string) (hx.Handler, string) {
		raw, _ := hx.KV(cfg, "var")
		v, ok := unesc(raw)
		if !ok {
			return nil, "bad-op"
		}
		ex, err := utils.NewExtractor(v)
		switch {
		case err == nil:
			return &h{ex: ex}, "ok"
		case strings.HasPrefix(err.Error(), "unsupported limiting variable"):
			return nil, "err unsupported"
		case strings.HasPrefix(err.Error(), "wrong header"):
			return nil, "err wrongheader"
		}
		return nil, "err other"
	})
}
