// Command c04 executes connection-limiter scenarios against the real connlimit package with
// deterministic interleavings: the protected handler blocks on a channel, so every request is
// "inside the handler" from its `start` line until its `finish` line.
//
//	cfg max=<int> [ext=custom|builtin]
//	start <id> <src> [amt=<int>] [err=1]  -> admitted | 429 | err <status> | status <n> | dup
//	finish <id> normal|panic              -> released | unknown
//	inflight <src>                        -> <n>   requests of <src> observed inside the handler
//
// ext=custom (default): a utils.ExtractorFunc that returns (src, amt, nil) or an error (err=1).
// ext=builtin: utils.NewExtractor("request.header.X-Src") — amount is always 1, never an error.
package main

import (
	"errors"
	"fmt"
	"net/http"
	"net/http/httptest"
	"strconv"
	"sync"

	"github.com/vulcand/oxy/v2/connlimit"
	"github.com/vulcand/oxy/v2/utils"
	"github.com/vulcand/oxy/v2/zzverif/hx"
)

type req struct {
	src     string
	entered chan struct{}
	release chan string
	done    chan int // status code once ServeHTTP has returned (or panicked and been recovered)
}

type h struct {
	cl      *connlimit.ConnLimiter
	builtin bool
	mu      sync.Mutex
	reqs    map[string]*req // by key (id, or a synthetic key for err=1 requests)
	inside  map[string]int  // per source: requests currently inside the protected handler
	seq     int
}

func (s *h) protected(w http.ResponseWriter, r *http.Request) {
	key := r.Header.Get("X-Key")
	s.mu.Lock()
	rq := s.reqs[key]
	s.inside[rq.src]++
	s.mu.Unlock()
	close(rq.entered)
	mode := <-rq.release
	s.mu.Lock()
	s.inside[rq.src]--
	s.mu.Unlock()
	if mode == "panic" {
		panic("boom " + key)
	}
	w.WriteHeader(http.StatusOK)
}

func (s *h) launch(key, src, amt string, fail bool) *req {
	rq := &req{src: src, entered: make(chan struct{}), release: make(chan string, 1), done: make(chan int, 1)}
	s.mu.Lock()
	s.reqs[key] = rq
	s.mu.Unlock()
	r := httptest.NewRequest(http.MethodGet, "http://h/", nil)
	r.Header.Set("X-Key", key)
	r.Header.Set("X-Src", src)
	r.Header.Set("X-Amt", amt)
	if fail {
		r.Header.Set("X-Err", "1")
	}
	w := httptest.NewRecorder()
	go func() {
		// like net/http's conn.serve: a panicking handler is recovered per request
		defer func() {
			if rec := recover(); rec != nil {
				rq.done <- -1
				return
			}
			rq.done <- w.Code
		}()
		s.cl.ServeHTTP(w, r)
	}()
	return rq
}

func (s *h) drop(key string) {
	s.mu.Lock()
	delete(s.reqs, key)
	s.mu.Unlock()
}

func (s *h) Op(f []string) string {
	switch {
	case f[0] == "start" && len(f) >= 3 && len(f) <= 5:
		id, src, opts := f[1], f[2], f[3:]
		amt, fail := "1", false
		for _, o := range opts {
			if o == "err=1" {
				fail = true
			} else if v, ok := hx.KV([]string{o}, "amt"); ok {
				if _, err := strconv.ParseInt(v, 10, 64); err != nil {
					return "bad-op"
				}
				amt = v
			} else {
				return "bad-op"
			}
		}
		if s.builtin && len(opts) > 0 {
			return "bad-op"
		}
		key := id
		if fail {
			s.seq++
			key = fmt.Sprintf("%s#err%d", id, s.seq)
		} else {
			s.mu.Lock()
			_, dup := s.reqs[id]
			s.mu.Unlock()
			if dup {
				return "dup"
			}
		}
		rq := s.launch(key, src, amt, fail)
		select {
		case <-rq.entered:
			if fail {
				// must not happen: let it out again so nothing is left blocked
				rq.release <- "normal"
				<-rq.done
				s.drop(key)
				return "admitted-despite-extractor-error"
			}
			return "admitted"
		case code := <-rq.done:
			s.drop(key)
			switch {
			case code == http.StatusTooManyRequests:
				return "429"
			case code >= 500:
				return fmt.Sprintf("err %d", code)
			}
			return fmt.Sprintf("status %d", code)
		}
	case f[0] == "finish" && len(f) == 3 && (f[2] == "normal" || f[2] == "panic"):
		s.mu.Lock()
		rq := s.reqs[f[1]]
		s.mu.Unlock()
		if rq == nil {
			return "unknown"
		}
		rq.release <- f[2]
		code := <-rq.done
		s.drop(f[1])
		if (f[2] == "panic") != (code == -1) {
			return fmt.Sprintf("released-unexpected %d", code)
		}
		return "released"
	case f[0] == "inflight" && len(f) == 2:
		s.mu.Lock()
		defer s.mu.Unlock()
		return strconv.Itoa(s.inside[f[1]])
	}
	return "bad-op"
}

// Close lets every blocked handler return so no goroutine outlives the scenario.
func (s *h) Close() {
	s.mu.Lock()
	rs := make([]*req, 0, len(s.reqs))
	for _, r := range s.reqs {
		rs = append(rs, r)
	}
	s.mu.Unlock()
	for _, r := range rs {
		select {
		case r.release <- "normal":
		default:
		}
	}
}

func customExtract(r *http.Request) (string, int64, error) {
	if r.Header.Get("X-Err") != "" {
		return "", 0, errors.New("cannot identify the source")
	}
	a, err := strconv.ParseInt(r.Header.Get("X-Amt"), 10, 64)
	if err != nil {
		return "", 0, err
	}
	return r.Header.Get("X-Src"), a, nil
}

func main() {
	hx.Main(func(cfg []string) (hx.Handler, string) {
		s := &h{reqs: map[string]*req{}, inside: map[string]int{}}
		var ext utils.SourceExtractor = utils.ExtractorFunc(customExtract)
		if v, _ := hx.KV(cfg, "ext"); v == "builtin" {
			e, err := utils.NewExtractor("request.header.X-Src")
			if err != nil {
				return nil, "err " + err.Error()
			}
			ext, s.builtin = e, true
		}
		cl, err := connlimit.New(http.HandlerFunc(s.protected), ext, hx.KVInt64(cfg, "max", 0))
		if err != nil {
			return nil, "err " + err.Error()
		}
		s.cl = cl
		return s, "ok"
	})
}
