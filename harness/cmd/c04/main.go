// Command c04 executes connection-limiter scenarios against the real connlimit package with
// deterministic interleavings: the protected handler blocks on a channel, so every request is
// "inside the handler" from its `start` line until its `finish` line.
//
//	cfg max=<int> [ext=custom|builtin|clientip] [slowreject=1] [verbose=0|1] [log=0|1] [hvar=<name>] [hsend=<name>]
//	start <id> <src> [amt=<int>] [err=1] [port=<n>]  -> admitted | 429 | rejecting | err <status> | status <n> | dup
//	finish <id> normal|panic|panic-err|panic-abort|panic-rt  -> released | rejected-done | unknown
//	pstart <n> <src> <prefix>             -> admitted=<a> rejected=<r> | admitted=<a> rejecting=<r> | dup
//	inflight <src>                        -> <n>   requests of <src> observed inside the handler
//
// slowreject=1: the limiter is built with connlimit.ErrorHandler(h) where h parks every MaxConnError
// rejection until its `finish` line (a slow error handler / slow client), then answers like the
// stock handler.  `start` then returns `rejecting` once the request is parked inside h.
//
// pstart: n (1..64) simultaneous arrivals of one source.  The n goroutines are lined up by a spin
// barrier placed as close to acquire as the exported API allows (inside the custom extractor, which
// ServeHTTP calls right before acquire; before ServeHTTP for ext=builtin) and let go together.  The
// op returns when each of them is inside the protected handler, parked in the slow error handler, or
// answered; the admitted ones then get the ids <prefix>0.., the parked rejections the following ids.
//
// ext=custom (default): a utils.ExtractorFunc that returns (src, amt, nil) or an error (err=1).
// ext=builtin: utils.NewExtractor("request.header."+hvar) — amount is always 1, never an error; the
// client's source label travels in the header hsend, added with Header.Set as a server's header
// reader would store it (hvar, hsend default X-Src; any spelling of the same name must do).
// ext=clientip: utils.NewExtractor("client.ip"); <src> is the peer's IP text and the request's
// RemoteAddr is net.JoinHostPort(src, port) (port default 1234; 40000+i for the i-th arrival of a burst;
// port=none: RemoteAddr is src itself, without port and brackets).
// panic-err / panic-abort / panic-rt: the handler panics with an error value, with
// http.ErrAbortHandler (what httputil.ReverseProxy uses on a mid-body abort), with a runtime error.
// verbose / log: connlimit's Verbose and Logger options (a counting logger); they must not change
// any answer.  Every exported option of connlimit (Logger, Verbose, ErrorHandler) is reachable here.
package main

import (
	"errors"
	"fmt"
	"net"
	"net/http"
	"net/http/httptest"
	"runtime"
	"strconv"
	"strings"
	"sync"
	"sync/atomic"

	"github.com/vulcand/oxy/v2/connlimit"
	"github.com/vulcand/oxy/v2/utils"
	"github.com/vulcand/oxy/v2/zzverif/hx"
)

type req struct {
	src        string
	entered    chan struct{}
	release    chan string
	rejecting  chan struct{} // closed once the request is parked inside the slow error handler
	rejRelease chan struct{}
	parked     bool
	done       chan int // status code once ServeHTTP has returned (or panicked and been recovered)
}

// burst lines up the n arrivals of one pstart.
type burst struct {
	n       int32
	arrived int32
}

func (b *burst) wait() {
	atomic.AddInt32(&b.arrived, 1)
	for spins := 0; atomic.LoadInt32(&b.arrived) < b.n; spins++ {
		if spins > 2000 {
			runtime.Gosched()
		}
	}
}

type h struct {
	cl       *connlimit.ConnLimiter
	builtin  bool
	mu       sync.Mutex
	reqs     map[string]*req // by key (id, or a synthetic key for err=1 requests)
	inside   map[string]int  // per source: requests currently inside the protected handler
	bursts   map[string]*burst
	slow     bool
	hsend    string
	clientip bool
	logged   int64
	seq      int
}

// countLog is the utils.Logger of log=1.
type countLog struct{ n *int64 }

func (l countLog) Debug(string, ...any) { atomic.AddInt64(l.n, 1) }
func (l countLog) Info(string, ...any)  { atomic.AddInt64(l.n, 1) }
func (l countLog) Warn(string, ...any)  { atomic.AddInt64(l.n, 1) }
func (l countLog) Error(string, ...any) { atomic.AddInt64(l.n, 1) }

// slowErr is the parking error handler of slowreject=1.
func (s *h) slowErr(w http.ResponseWriter, r *http.Request, err error) {
	//nolint:errorlint // same test as the stock handler
	if _, ok := err.(*connlimit.MaxConnError); ok {
		s.mu.Lock()
		rq := s.reqs[r.Header.Get("X-Key")]
		s.mu.Unlock()
		if rq != nil {
			close(rq.rejecting)
			<-rq.rejRelease
		}
	}
	(&connlimit.ConnErrHandler{}).ServeHTTP(w, r, err)
}

func (s *h) protected(w http.ResponseWriter, r *http.Request) {
	key := r.Header.Get("X-Key")
	s.mu.Lock()
	rq := s.reqs[key]
	s.inside[rq.src]++
	s.mu.Unlock()
	close(rq.entered)
	mode := <-rq.release
	s.mu.Lock()
	s.inside[rq.src]--
	s.mu.Unlock()
	switch mode {
	case "panic-err":
		panic(errors.New("boom " + key))
	case "panic-abort":
		panic(http.ErrAbortHandler)
	case "panic-rt":
		var m map[string]int
		m[key] = 1 // runtime error: assignment to entry in nil map
	}
	if mode == "panic" {
		panic("boom " + key)
	}
	w.WriteHeader(http.StatusOK)
}

func (s *h) launch(key, src, amt, port string, fail bool, b *burst) *req {
	rq := &req{src: src, entered: make(chan struct{}), release: make(chan string, 1), done: make(chan int, 1),
		rejecting: make(chan struct{}), rejRelease: make(chan struct{})}
	s.mu.Lock()
	s.reqs[key] = rq
	s.mu.Unlock()
	r := httptest.NewRequest(http.MethodGet, "http://h/", nil)
	if s.clientip {
		r.RemoteAddr = net.JoinHostPort(src, port)
		if port == "none" { // the bare address: no port, no brackets
			r.RemoteAddr = src
		}
	}
	r.Header.Set("X-Key", key)
	r.Header.Set("X-Src", src)
	if s.builtin {
		r.Header.Set(s.hsend, src)
	}
	r.Header.Set("X-Amt", amt)
	if fail {
		r.Header.Set("X-Err", "1")
	}
	if b != nil && !s.builtin {
		r.Header.Set("X-Burst", key)
		s.mu.Lock()
		s.bursts[key] = b
		s.mu.Unlock()
	}
	w := httptest.NewRecorder()
	go func() {
		// like net/http's conn.serve: a panicking handler is recovered per request
		defer func() {
			if rec := recover(); rec != nil {
				rq.done <- -1
				return
			}
			rq.done <- w.Code
		}()
		if b != nil && s.builtin {
			b.wait()
		}
		s.cl.ServeHTTP(w, r)
	}()
	return rq
}

func (s *h) drop(key string) {
	s.mu.Lock()
	delete(s.reqs, key)
	delete(s.bursts, key)
	s.mu.Unlock()
}

func (s *h) pstart(n int, src, prefix string) string {
	s.mu.Lock()
	for i := 0; i < n; i++ {
		if _, dup := s.reqs[prefix+strconv.Itoa(i)]; dup {
			s.mu.Unlock()
			return "dup"
		}
	}
	s.mu.Unlock()
	s.seq++
	b := &burst{n: int32(n)}
	keys := make([]string, n)
	rqs := make([]*req, n)
	for i := 0; i < n; i++ {
		keys[i] = fmt.Sprintf("%s#burst%d#%d", prefix, s.seq, i)
		rqs[i] = s.launch(keys[i], src, "1", strconv.Itoa(40000+i), false, b)
	}
	var adm, parked []*req
	rejected, other := 0, 0
	for i, rq := range rqs {
		select {
		case <-rq.entered:
			adm = append(adm, rq)
		case <-rq.rejecting:
			rq.parked = true
			parked = append(parked, rq)
		case code := <-rq.done:
			if code == http.StatusTooManyRequests {
				rejected++
			} else {
				other++
			}
		}
		s.drop(keys[i])
	}
	s.mu.Lock()
	for i, rq := range append(adm, parked...) {
		s.reqs[prefix+strconv.Itoa(i)] = rq
	}
	s.mu.Unlock()
	out := fmt.Sprintf("admitted=%d", len(adm))
	if s.slow {
		out += fmt.Sprintf(" rejecting=%d", len(parked))
		if rejected > 0 {
			out += fmt.Sprintf(" rejected=%d", rejected)
		}
	} else {
		out += fmt.Sprintf(" rejected=%d", rejected)
		if len(parked) > 0 {
			out += fmt.Sprintf(" rejecting=%d", len(parked))
		}
	}
	if other > 0 {
		out += fmt.Sprintf(" other=%d", other)
	}
	return out
}

func (s *h) Op(f []string) string {
	switch {
	case f[0] == "start" && len(f) >= 3 && len(f) <= 5:
		id, src, opts := f[1], f[2], f[3:]
		amt, port, fail := "1", "1234", false
		for _, o := range opts {
			if o == "err=1" {
				fail = true
			} else if v, ok := hx.KV([]string{o}, "port"); ok {
				if !s.clientip || (v != "none" && strings.Trim(v, "0123456789") != "") {
					return "bad-op"
				}
				port = v
			} else if s.clientip {
				return "bad-op"
			} else if v, ok := hx.KV([]string{o}, "amt"); ok {
				if _, err := strconv.ParseInt(v, 10, 64); err != nil {
					return "bad-op"
				}
				amt = v
			} else {
				return "bad-op"
			}
		}
		if s.builtin && !s.clientip && len(opts) > 0 {
			return "bad-op"
		}
		key := id
		if fail {
			s.seq++
			key = fmt.Sprintf("%s#err%d", id, s.seq)
		} else {
			s.mu.Lock()
			_, dup := s.reqs[id]
			s.mu.Unlock()
			if dup {
				return "dup"
			}
		}
		rq := s.launch(key, src, amt, port, fail, nil)
		select {
		case <-rq.rejecting:
			rq.parked = true
			return "rejecting"
		case <-rq.entered:
			if fail {
				// must not happen: let it out again so nothing is left blocked
				rq.release <- "normal"
				<-rq.done
				s.drop(key)
				return "admitted-despite-extractor-error"
			}
			return "admitted"
		case code := <-rq.done:
			s.drop(key)
			switch {
			case code == http.StatusTooManyRequests:
				return "429"
			case code >= 500:
				return fmt.Sprintf("err %d", code)
			}
			return fmt.Sprintf("status %d", code)
		}
	case f[0] == "finish" && len(f) == 3 && (f[2] == "normal" || f[2] == "panic" || f[2] == "panic-err" || f[2] == "panic-abort" || f[2] == "panic-rt"):
		s.mu.Lock()
		rq := s.reqs[f[1]]
		s.mu.Unlock()
		if rq == nil {
			return "unknown"
		}
		if rq.parked {
			close(rq.rejRelease)
			code := <-rq.done
			s.drop(f[1])
			if code != http.StatusTooManyRequests {
				return fmt.Sprintf("rejected-done-status %d", code)
			}
			return "rejected-done"
		}
		rq.release <- f[2]
		code := <-rq.done
		s.drop(f[1])
		if (f[2] != "normal") != (code == -1) {
			return fmt.Sprintf("released-unexpected %d", code)
		}
		return "released"
	case f[0] == "pstart" && len(f) == 4:
		n, err := strconv.Atoi(f[1])
		if err != nil || n < 1 || n > 64 {
			return "bad-op"
		}
		return s.pstart(n, f[2], f[3])
	case f[0] == "inflight" && len(f) == 2:
		s.mu.Lock()
		defer s.mu.Unlock()
		return strconv.Itoa(s.inside[f[1]])
	}
	return "bad-op"
}

// Close lets every blocked handler return so no goroutine outlives the scenario.
func (s *h) Close() {
	s.mu.Lock()
	rs := make([]*req, 0, len(s.reqs))
	for _, r := range s.reqs {
		rs = append(rs, r)
	}
	s.mu.Unlock()
	for _, r := range rs {
		if r.parked {
			close(r.rejRelease)
			continue
		}
		select {
		case r.release <- "normal":
		default:
		}
	}
}

func (s *h) customExtract(r *http.Request) (string, int64, error) {
	if k := r.Header.Get("X-Burst"); k != "" {
		s.mu.Lock()
		b := s.bursts[k]
		s.mu.Unlock()
		if b != nil {
			b.wait()
		}
	}
	if r.Header.Get("X-Err") != "" {
		return "", 0, errors.New("cannot identify the source")
	}
	a, err := strconv.ParseInt(r.Header.Get("X-Amt"), 10, 64)
	if err != nil {
		return "", 0, err
	}
	return r.Header.Get("X-Src"), a, nil
}

func main() {
	hx.Main(func(cfg []string) (hx.Handler, string) {
		s := &h{reqs: map[string]*req{}, inside: map[string]int{}, bursts: map[string]*burst{}}
		var ext utils.SourceExtractor = utils.ExtractorFunc(s.customExtract)
		if v, _ := hx.KV(cfg, "ext"); v == "builtin" {
			hvar, ok := hx.KV(cfg, "hvar")
			if !ok {
				hvar = "X-Src"
			}
			if s.hsend, ok = hx.KV(cfg, "hsend"); !ok {
				s.hsend = "X-Src"
			}
			if hvar == "" || s.hsend == "" {
				return nil, "bad-op"
			}
			e, err := utils.NewExtractor("request.header." + hvar)
			if err != nil {
				return nil, "err " + err.Error()
			}
			ext, s.builtin = e, true
		}
		if v, _ := hx.KV(cfg, "ext"); v == "clientip" {
			e, err := utils.NewExtractor("client.ip")
			if err != nil {
				return nil, "err " + err.Error()
			}
			ext, s.builtin, s.clientip = e, true, true
		}
		var opts []connlimit.Option
		if v, _ := hx.KV(cfg, "log"); v == "1" {
			opts = append(opts, connlimit.Logger(countLog{&s.logged}))
		}
		if v, ok := hx.KV(cfg, "verbose"); ok {
			opts = append(opts, connlimit.Verbose(v == "1"))
		}
		if v, _ := hx.KV(cfg, "slowreject"); v == "1" {
			s.slow = true
			opts = append(opts, connlimit.ErrorHandler(utils.ErrorHandlerFunc(s.slowErr)))
		}
		cl, err := connlimit.New(http.HandlerFunc(s.protected), ext, hx.KVInt64(cfg, "max", 0), opts...)
		if err != nil {
			return nil, "err " + err.Error()
		}
		s.cl = cl
		return s, "ok"
	})
}
