// Command consts is a small fact extractor: it parses the non-test Go files of the tree under test
// (argument 1, default /repo) with go/parser and prints, as JSON, every package-level constant (and
// package-level var with a literal initialiser) of the middleware packages together with its value,
// plus the elements of package-level []string literals (header lists).  Integer/float constant
// expressions over literals, other constants of the same package and time/clock units are folded
// with go/constant.  The orchestrator compares the facts a property's model depends on with the
// values the model was written against (bin/consts_expected.json): a regenerated tie to the source.
package main

import (
	"encoding/json"
	"fmt"
	"go/ast"
	"go/constant"
	"go/parser"
	"go/token"
	"os"
	"path/filepath"
	"sort"
	"strings"
)

var units = map[string]int64{"Nanosecond": 1, "Microsecond": 1e3, "Millisecond": 1e6, "Second": 1e9, "Minute": 60e9, "Hour": 3600e9}

type env map[string]constant.Value

func eval(e ast.Expr, en env, iota int64) constant.Value {
	switch x := e.(type) {
	case *ast.BasicLit:
		return constant.MakeFromLiteral(x.Value, x.Kind, 0)
	case *ast.ParenExpr:
		return eval(x.X, en, iota)
	case *ast.Ident:
		if x.Name == "iota" {
			return constant.MakeInt64(iota)
		}
		if v, ok := en[x.Name]; ok {
			return v
		}
	case *ast.SelectorExpr:
		if p, ok := x.X.(*ast.Ident); ok && (p.Name == "time" || p.Name == "clock") {
			if u, ok := units[x.Sel.Name]; ok {
				return constant.MakeInt64(u)
			}
		}
		if p, ok := x.X.(*ast.Ident); ok && p.Name == "http" && strings.HasPrefix(x.Sel.Name, "Status") {
			return constant.MakeString("http." + x.Sel.Name)
		}
	case *ast.UnaryExpr:
		if v := eval(x.X, en, iota); v != nil && v.Kind() != constant.String {
			return constant.UnaryOp(x.Op, v, 0)
		}
	case *ast.BinaryExpr:
		a, b := eval(x.X, en, iota), eval(x.Y, en, iota)
		if a != nil && b != nil && a.Kind() != constant.String && b.Kind() != constant.String {
			if x.Op == token.QUO && a.Kind() == constant.Int && b.Kind() == constant.Int {
				return constant.BinaryOp(a, token.QUO_ASSIGN, b)
			}
			if x.Op == token.SHL || x.Op == token.SHR {
				if s, ok := constant.Uint64Val(b); ok {
					return constant.Shift(a, x.Op, uint(s))
				}
				return nil
			}
			return constant.BinaryOp(a, x.Op, b)
		}
	case *ast.CallExpr: // conversions such as time.Duration(10)
		if len(x.Args) == 1 {
			return eval(x.Args[0], en, iota)
		}
	}
	return nil
}

func main() {
	root := "/repo"
	if len(os.Args) > 1 {
		root = os.Args[1]
	}
	out := map[string]string{}
	pkgs := []string{"roundrobin", "roundrobin/stickycookie", "buffer", "cbreaker", "ratelimit", "connlimit", "memmetrics", "forward", "utils", "stream", "trace", "internal/holsterv4/collections"}
	for _, p := range pkgs {
		fset := token.NewFileSet()
		files, _ := filepath.Glob(filepath.Join(root, p, "*.go"))
		sort.Strings(files)
		en := env{}
		for pass := 0; pass < 2; pass++ { // second pass resolves forward references between files
			for _, fn := range files {
				if strings.HasSuffix(fn, "_test.go") {
					continue
				}
				f, err := parser.ParseFile(fset, fn, nil, 0)
				if err != nil {
					fmt.Fprintln(os.Stderr, "parse:", err)
					continue
				}
				for _, d := range f.Decls {
					g, ok := d.(*ast.GenDecl)
					if !ok || (g.Tok != token.CONST && g.Tok != token.VAR) {
						continue
					}
					var last []ast.Expr
					for i, s := range g.Specs {
						vs := s.(*ast.ValueSpec)
						vals := vs.Values
						if len(vals) == 0 && g.Tok == token.CONST {
							vals = last
						} else {
							last = vals
						}
						for k, name := range vs.Names {
							if k >= len(vals) {
								continue
							}
							key := p + "." + name.Name
							if cl, ok := vals[k].(*ast.CompositeLit); ok && g.Tok == token.VAR {
								var el []string
								for _, e := range cl.Elts {
									if v := eval(e, en, 0); v != nil {
										el = append(el, v.ExactString())
									} else if id, ok := e.(*ast.Ident); ok {
										el = append(el, "?"+id.Name)
									}
								}
								if len(el) > 0 {
									out[key] = "[" + strings.Join(el, ",") + "]"
								}
								continue
							}
							if v := eval(vals[k], en, int64(i)); v != nil {
								en[name.Name] = v
								out[key] = v.ExactString()
							}
						}
					}
				}
			}
		}
	}
	b, _ := json.MarshalIndent(out, "", " ")
	fmt.Println(string(b))
}
