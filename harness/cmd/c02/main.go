// Command c02 executes C02 / C10 scenarios against the real roundrobin package: a RoundRobin, or a
// Rebalancer (scripted meters) on top of a RoundRobin.  Exported API only.
//
//	cfg via=rr|rb [sticky=1 [codec=hash|aes]] [backoff=<ns>] [ready=0|1]   (codec: the affinity cookie is minted by stickycookie.HashValue / AESValue)
//	upsert <scheme> <host> <path|-> [user=..] [query=..] [w=<int>]  -> ok | err negweight | err other
//	remove <scheme> <host> <path|->                                  -> ok | err notfound
//	weight <scheme> <host> <path|->                                  -> <w> | none      (of the RoundRobin)
//	servers                                                          -> servers <url>… (sorted; url = scheme|user|host|path|query)
//	weights                                                          -> weights <url>=<w>… (sorted)
//	next                                                             -> ok <url> | err noservers | err allzero
//	serve [cookie=<scheme>,<host>,<path|->] [mutate=host|path|scheme|all] -> 200 <url seen downstream> fresh|alias | 500 <kind>
//	rate <scheme> <host> <path|-> <num>/<den> | ready … 0|1           -> ok | err notfound   (scripted meter of that server)
//	adv <ns>                                                         -> ok
//	serve-remove <scheme> <host> <path|->                            -> <serve output> ; <remove output>   (RemoveServer issued while the request's adjustment pushes weights)
//	remove-serve <scheme> <host> <path|->                            -> <remove output> ; <serve output>   (request issued while RemoveServer is between balancer and record)
//	serve-serve                                                      -> <serve> ; weights … ; <serve> ; weights …   (second request issued while the first one's adjustment finishes its push)
//	upsert … meterfail=1                                             -> err meter when the rebalancer has to create a meter (its factory fails)
//	pupsert <n> <scheme> <host> <path|-> [user=..] [query=..] [w=<int>] -> pupsert ok=<k> negweight=<m> other=<j>   (n goroutines upsert the same URL at once)
//	race <pairs> <reqs>                                              -> race ok | race nonmember=<n>   (add+remove of a reserved server racing with requests)
package main

import (
	"errors"
	"fmt"
	"net/http"
	"net/http/httptest"
	"net/url"
	"sort"
	"strconv"
	"strings"
	"sync"
	"time"

	"github.com/vulcand/oxy/v2/roundrobin"
	"github.com/vulcand/oxy/v2/roundrobin/stickycookie"
	"github.com/vulcand/oxy/v2/zzverif/hx"
)

type meter struct {
	rating float64
	ready  bool
	key    string
}

func (m *meter) Rating() float64           { return m.rating }
func (m *meter) Record(int, time.Duration) {}
func (m *meter) IsReady() bool             { return m.ready }

type front interface {
	http.Handler
	Servers() []*url.URL
	UpsertServer(u *url.URL, options ...roundrobin.ServerOption) error
	RemoveServer(u *url.URL) error
}

type h struct {
	rr     *roundrobin.RoundRobin
	lb     *pausingLB // via=rb only: between the Rebalancer and rr
	fr     front
	sticky bool
	codec  stickycookie.CookieValue // nil: the default (plain URL) affinity cookie
	now    int64
	// scripted meters, by (scheme,host,path) of the server they were created for
	meters   map[string]*meter
	creating string
	newReady bool
	// what the downstream handler saw / does
	seen    *url.URL
	seenStr string
	mutate  string
	called  bool
	errKind string
	// several requests in flight (serve-serve, remove-serve)
	capMu    sync.Mutex
	caps     map[string]*capture
	failNext bool // the next newMeter call fails
}

func pth(p string) string {
	if p == "-" {
		return ""
	}
	return p
}

func mkURL(f []string, s, host, p string) *url.URL {
	u := &url.URL{Scheme: s, Host: host, Path: pth(p)}
	if v, ok := hx.KV(f, "user"); ok && v != "" {
		u.User = url.User(v)
	}
	if v, ok := hx.KV(f, "query"); ok {
		u.RawQuery = v
	}
	return u
}

func key(u *url.URL) string { return u.Scheme + "\x00" + u.Host + "\x00" + u.Path }

func ustr(u *url.URL) string {
	user := ""
	if u.User != nil {
		user = u.User.Username()
	}
	return u.Scheme + "|" + user + "|" + u.Host + "|" + u.Path + "|" + u.RawQuery
}

func errKind(err error) string {
	switch {
	case err == roundrobin.ErrNoServers:
		return "noservers"
	case strings.Contains(err.Error(), "0 weight"):
		return "allzero"
	}
	return "other_" + strings.ReplaceAll(err.Error(), " ", "_")
}

func allKV(f []string) bool {
	for _, t := range f {
		if !strings.Contains(t, "=") {
			return false
		}
	}
	return true
}

// capture of one of several concurrent requests (identified by the X-Vreq header)
type capture struct {
	called  bool
	seen    *url.URL
	seenStr string
	errKind string
}

func (s *h) capFor(req *http.Request) *capture {
	id := req.Header.Get("X-Vreq")
	if id == "" {
		return nil
	}
	s.capMu.Lock()
	defer s.capMu.Unlock()
	c := s.caps[id]
	if c == nil {
		c = &capture{}
		s.caps[id] = c
	}
	return c
}

func (s *h) downstream(w http.ResponseWriter, req *http.Request) {
	if c := s.capFor(req); c != nil {
		c.called, c.seen, c.seenStr = true, req.URL, ustr(req.URL)
		w.WriteHeader(http.StatusOK)
		return
	}
	s.called = true
	s.seen = req.URL
	s.seenStr = ustr(req.URL)
	switch s.mutate {
	case "host":
		req.URL.Host = "evil"
	case "path":
		req.URL.Path = "/evil"
	case "scheme":
		req.URL.Scheme = "evil"
	case "all":
		*req.URL = url.URL{Scheme: "evil", Host: "evil", Path: "/evil", User: url.User("evil"), RawQuery: "evil=1"}
	}
	w.WriteHeader(http.StatusOK)
}

func (s *h) onError(w http.ResponseWriter, req *http.Request, err error) {
	if c := s.capFor(req); c != nil {
		c.errKind = errKind(err)
		w.WriteHeader(http.StatusInternalServerError)
		return
	}
	s.errKind = errKind(err)
	w.WriteHeader(http.StatusInternalServerError)
}

// request issues one request tagged id and returns a function giving its canonical output once it is done
func (s *h) request(id string) (done chan struct{}, out func() string) {
	rec := httptest.NewRecorder()
	req := httptest.NewRequest(http.MethodGet, "http://front.example/req", nil)
	req.Header.Set("X-Vreq", id)
	s.capMu.Lock()
	if s.caps == nil {
		s.caps = map[string]*capture{}
	}
	delete(s.caps, id)
	s.capMu.Unlock()
	done = make(chan struct{})
	go func() {
		defer close(done)
		s.fr.ServeHTTP(rec, req)
	}()
	return done, func() string {
		c := s.capFor(req)
		if !c.called {
			return fmt.Sprintf("%d %s", rec.Code, c.errKind)
		}
		al := "fresh"
		for _, u := range s.fr.Servers() {
			if u == c.seen {
				al = "alias"
			}
		}
		return fmt.Sprintf("%d %s %s", rec.Code, c.seenStr, al)
	}
}

// weightsRR reads ServerWeight of every server from the RoundRobin itself (no rebalancer lock involved)
func (s *h) weightsRR() string {
	var out []string
	for _, u := range s.rr.Servers() {
		w, ok := s.rr.ServerWeight(u)
		if !ok {
			w = -1
		}
		out = append(out, ustr(u)+"="+strconv.Itoa(w))
	}
	sort.Strings(out)
	return strings.Join(append([]string{"weights"}, out...), " ")
}

func rmStr(err error) string {
	if err == nil {
		return "ok"
	}
	if strings.Contains(err.Error(), "not found") {
		return "err notfound"
	}
	return "err other_" + strings.ReplaceAll(err.Error(), " ", "_")
}

func (s *h) Op(f []string) string {
	switch f[0] {
	case "upsert":
		if len(f) < 4 || !allKV(f[4:]) {
			return "bad-op"
		}
		u := mkURL(f[4:], f[1], f[2], f[3])
		var err error
		s.creating = key(u)
		s.failNext = hx.KVInt(f[4:], "meterfail", 0) == 1
		if ws, ok := hx.KV(f[4:], "w"); ok {
			w, e := strconv.Atoi(ws)
			if e != nil {
				return "bad-op"
			}
			err = s.fr.UpsertServer(u, roundrobin.Weight(w))
		} else {
			err = s.fr.UpsertServer(u)
		}
		s.creating = ""
		s.failNext = false
		if err != nil {
			if strings.Contains(err.Error(), "Weight should be >= 0") {
				return "err negweight"
			}
			if strings.Contains(err.Error(), "meter factory failed") {
				return "err meter"
			}
			return "err other_" + strings.ReplaceAll(err.Error(), " ", "_")
		}
		return "ok"
	case "remove":
		if len(f) != 4 {
			return "bad-op"
		}
		ru := mkURL(nil, f[1], f[2], f[3])
		if err := s.fr.RemoveServer(ru); err != nil {
			if strings.Contains(err.Error(), "not found") {
				return "err notfound"
			}
			return "err other_" + strings.ReplaceAll(err.Error(), " ", "_")
		}
		delete(s.meters, key(ru)) // the record and its meter are gone
		return "ok"
	case "weight":
		if len(f) != 4 {
			return "bad-op"
		}
		w, ok := s.rr.ServerWeight(mkURL(nil, f[1], f[2], f[3]))
		if !ok {
			return "none"
		}
		return strconv.Itoa(w)
	case "servers":
		if len(f) != 1 {
			return "bad-op"
		}
		var out []string
		for _, u := range s.fr.Servers() {
			out = append(out, ustr(u))
		}
		sort.Strings(out)
		return strings.Join(append([]string{"servers"}, out...), " ")
	case "weights":
		if len(f) != 1 {
			return "bad-op"
		}
		var out []string
		for _, u := range s.fr.Servers() {
			w, ok := s.rr.ServerWeight(u)
			if !ok {
				w = -1
			}
			out = append(out, ustr(u)+"="+strconv.Itoa(w))
		}
		sort.Strings(out)
		return strings.Join(append([]string{"weights"}, out...), " ")
	case "next":
		if len(f) != 1 {
			return "bad-op"
		}
		u, err := s.rr.NextServer()
		if err != nil {
			return "err " + errKind(err)
		}
		return "ok " + ustr(u)
	case "adv":
		if len(f) != 2 {
			return "bad-op"
		}
		ns, e := strconv.ParseInt(f[1], 10, 64)
		if e != nil || ns < 0 {
			return "bad-op"
		}
		s.now += ns
		hx.AdvanceTo(s.now)
		return "ok"
	case "serve":
		if !allKV(f[1:]) {
			return "bad-op"
		}
		req := httptest.NewRequest(http.MethodGet, "http://front.example/req", nil)
		if c, ok := hx.KV(f[1:], "cookie"); ok {
			p := strings.Split(c, ",")
			if len(p) != 3 {
				return "bad-op"
			}
			cu := &url.URL{Scheme: p[0], Host: p[1], Path: pth(p[2])}
			val := cu.String()
			if s.codec != nil { // hashed / encrypted affinity cookie naming the same server
				val = s.codec.Get(cu)
			}
			req.AddCookie(&http.Cookie{Name: "vsticky", Value: val})
		}
		s.mutate = ""
		if m, ok := hx.KV(f[1:], "mutate"); ok {
			if m != "host" && m != "path" && m != "scheme" && m != "all" {
				return "bad-op"
			}
			s.mutate = m
		}
		s.called, s.seen, s.seenStr, s.errKind = false, nil, "", ""
		rec := httptest.NewRecorder()
		s.fr.ServeHTTP(rec, req)
		if !s.called {
			return fmt.Sprintf("%d %s", rec.Code, s.errKind)
		}
		al := "fresh"
		for _, u := range s.fr.Servers() {
			if u == s.seen {
				al = "alias"
			}
		}
		return fmt.Sprintf("%d %s %s", rec.Code, s.seenStr, al)
	case "serve-remove":
		// a request, and RemoveServer issued at the moment the request's weight adjustment starts pushing
		// weights into the balancer (if it adjusts at all; otherwise right after the request).  Calls are
		// atomic, so the outcome must be the sequential one: the request, then the removal.
		if len(f) != 4 {
			return "bad-op"
		}
		ru := mkURL(nil, f[1], f[2], f[3])
		s.mutate = ""
		s.called, s.seen, s.seenStr, s.errKind = false, nil, "", ""
		rec := httptest.NewRecorder()
		req := httptest.NewRequest(http.MethodGet, "http://front.example/req", nil)
		var rmErr error
		if s.lb == nil {
			s.fr.ServeHTTP(rec, req)
			rmErr = s.fr.RemoveServer(ru)
		} else {
			reached, resume := s.lb.arm(holdBeforeFirstUpsert, 0)
			reqDone := make(chan struct{})
			go func() {
				defer close(reqDone)
				s.fr.ServeHTTP(rec, req)
			}()
			select {
			case <-reqDone: // no weight was pushed
				s.lb.disarm()
				rmErr = s.fr.RemoveServer(ru)
			case <-reached:
				rmDone := make(chan error, 1)
				go func() { rmDone <- s.fr.RemoveServer(ru) }()
				select {
				case rmErr = <-rmDone: // the removal went through in the middle of the weight push
					close(resume)
					<-reqDone
				case <-time.After(25 * time.Millisecond): // it waits for the adjustment to finish, as it should
					close(resume)
					<-reqDone
					rmErr = <-rmDone
				}
			}
		}
		var a string
		if !s.called {
			a = fmt.Sprintf("%d %s", rec.Code, s.errKind)
		} else {
			al := "fresh"
			for _, u := range s.fr.Servers() {
				if u == s.seen {
					al = "alias"
				}
			}
			a = fmt.Sprintf("%d %s %s", rec.Code, s.seenStr, al)
		}
		b := "ok"
		if rmErr != nil {
			if strings.Contains(rmErr.Error(), "not found") {
				b = "err notfound"
			} else {
				b = "err other_" + strings.ReplaceAll(rmErr.Error(), " ", "_")
			}
		} else {
			delete(s.meters, key(ru))
		}
		return a + " ; " + b
	case "pupsert":
		// <n> goroutines add / update the same URL at once.  They are made to queue on the balancer's mutex:
		// a parked ServerOption (options run inside UpsertServer, under that mutex) holds it via an add of a
		// reserved server until all of them wait, long enough (> 1 ms) for sync.Mutex to hand the lock over
		// strictly in arrival order.  Calls are atomic: the outcome must be that of n sequential upserts.
		if len(f) < 5 || !allKV(f[5:]) {
			return "bad-op"
		}
		n, e := strconv.Atoi(f[1])
		if e != nil || n < 1 || n > 64 {
			return "bad-op"
		}
		u := mkURL(f[5:], f[2], f[3], f[4])
		var opts []roundrobin.ServerOption
		if ws, ok := hx.KV(f[5:], "w"); ok {
			w, e := strconv.Atoi(ws)
			if e != nil {
				return "bad-op"
			}
			opts = append(opts, roundrobin.Weight(w))
		}
		z := &url.URL{Scheme: "http", Host: "zz-hold", Path: "/"}
		parked, release := make(chan struct{}), make(chan struct{})
		holdDone := make(chan struct{})
		go func() {
			defer close(holdDone)
			_ = s.rr.UpsertServer(z, parkingOption(1, func() { close(parked); <-release }))
			// Keep re-taking the mutex (briefly parked each time) while the first waiter wakes up: it finds the
			// mutex locked again after having waited > 1 ms and switches it to starvation mode, in which the lock
			// is handed from waiter to waiter in arrival order and whoever unlocks and locks again goes to the
			// back of the queue - all n callers are between their steps before any of them continues.
			for i := 0; i < 20; i++ {
				_ = s.rr.UpsertServer(z, parkingOption(1, func() { time.Sleep(20 * time.Microsecond) }))
			}
		}()
		<-parked
		s.creating = key(u)
		errs := make([]error, n)
		var wg sync.WaitGroup
		for i := 0; i < n; i++ {
			wg.Add(1)
			go func(i int) {
				defer wg.Done()
				errs[i] = s.fr.UpsertServer(mkURL(f[5:], f[2], f[3], f[4]), opts...)
			}(i)
		}
		time.Sleep(3 * time.Millisecond)
		close(release)
		<-holdDone
		wg.Wait()
		s.creating = ""
		_ = s.rr.RemoveServer(z)
		_ = u
		okc, neg, other := 0, 0, 0
		for _, e := range errs {
			switch {
			case e == nil:
				okc++
			case strings.Contains(e.Error(), "Weight should be >= 0"):
				neg++
			default:
				other++
			}
		}
		return fmt.Sprintf("pupsert ok=%d negweight=%d other=%d", okc, neg, other)
	case "remove-serve":
		// RemoveServer, and a request issued at the moment the rebalancer has removed the server from the
		// balancer but has not yet dropped its own record.  Calls are atomic: the outcome must be the
		// sequential one, the removal then the request.  (The iterator is put back to its reset position at
		// the end: where a request is while it waits for the lock is not part of the atomic-step model.)
		if len(f) != 4 {
			return "bad-op"
		}
		ru := mkURL(nil, f[1], f[2], f[3])
		var rmErr error
		var a string
		if s.lb == nil {
			rmErr = s.fr.RemoveServer(ru)
			d, out := s.request("r1")
			<-d
			a = out()
		} else {
			reached, resume := s.lb.arm(holdAfterRemove, 0)
			rmDone := make(chan error, 1)
			go func() { rmDone <- s.fr.RemoveServer(ru) }()
			select {
			case rmErr = <-rmDone: // no record: the balancer was not called
				s.lb.disarm()
				d, out := s.request("r1")
				<-d
				a = out()
			case <-reached:
				d, out := s.request("r1")
				select {
				case <-d: // the request ran to completion in the middle of the removal
				case <-time.After(25 * time.Millisecond): // it waits for the removal to finish, as it should
				}
				close(resume)
				rmErr = <-rmDone
				<-d
				a = out()
			}
		}
		if rmErr == nil {
			delete(s.meters, key(ru))
		}
		if srv := s.rr.Servers(); len(srv) > 0 {
			_ = s.rr.UpsertServer(srv[0]) // no option: only resets the iterator
		}
		// which member the request got depends on whether it selected before or after the removal's reset();
		// canonical output: only whether it went to a (current) member
		if p := strings.Fields(a); len(p) == 3 && p[0] == "200" {
			m := "nonmember:" + p[1]
			for _, u := range s.fr.Servers() {
				if ustr(u) == p[1] {
					m = "member"
				}
			}
			a = p[0] + " " + m + " " + p[2]
		}
		return rmStr(rmErr) + " ; " + a
	case "serve-serve":
		// two requests; the second is issued at the moment the first one's weight adjustment has pushed its
		// last weight into the balancer (if it adjusts at all).  Sequential outcome: request, request; the
		// ServerWeight readings after each are part of the output.
		if len(f) != 1 {
			return "bad-op"
		}
		var a1, a2, w1, w2 string
		if s.lb == nil || len(s.rr.Servers()) == 0 {
			d, out := s.request("r1")
			<-d
			a1, w1 = out(), s.weightsRR()
			d, out = s.request("r2")
			<-d
			a2, w2 = out(), s.weightsRR()
		} else {
			reached, resume := s.lb.arm(holdAfterNthUpsert, len(s.rr.Servers()))
			d1, out1 := s.request("r1")
			select {
			case <-d1: // no weight push
				s.lb.disarm()
				a1, w1 = out1(), s.weightsRR()
				d2, out2 := s.request("r2")
				<-d2
				a2, w2 = out2(), s.weightsRR()
			case <-reached:
				w1 = s.weightsRR()
				d2, out2 := s.request("r2")
				select {
				case <-d2: // the second request completed while the first was still adjusting
				case <-time.After(25 * time.Millisecond):
				}
				close(resume)
				<-d1
				<-d2
				a1, a2, w2 = out1(), out2(), s.weightsRR()
			}
		}
		return a1 + " ; " + w1 + " ; " + a2 + " ; " + w2
	case "race":
		// administration calls racing with requests: one goroutine adds and removes a reserved server
		// <pairs> times while another issues <reqs> requests and NextServer calls; every routed URL must be
		// a member (or the reserved server).  A final sequential add+remove leaves a deterministic state.
		if len(f) != 3 {
			return "bad-op"
		}
		pairs, e1 := strconv.Atoi(f[1])
		reqs, e2 := strconv.Atoi(f[2])
		if e1 != nil || e2 != nil || pairs < 0 || reqs < 0 {
			return "bad-op"
		}
		x := &url.URL{Scheme: "http", Host: "zz-race", Path: "/"}
		allowed := map[string]bool{ustr(x): true}
		for _, u := range s.fr.Servers() {
			allowed[ustr(u)] = true
		}
		s.mutate = ""
		var wg sync.WaitGroup
		bad := 0
		wg.Add(2)
		go func() {
			defer wg.Done()
			for i := 0; i < pairs; i++ {
				s.creating = key(x)
				_ = s.fr.UpsertServer(x)
				_ = s.fr.RemoveServer(x)
			}
		}()
		go func() {
			defer wg.Done()
			for i := 0; i < reqs; i++ {
				s.called = false
				rec := httptest.NewRecorder()
				s.fr.ServeHTTP(rec, httptest.NewRequest(http.MethodGet, "http://front.example/req", nil))
				if s.called && !allowed[s.seenStr] {
					bad++
				}
				if u, err := s.rr.NextServer(); err == nil && !allowed[ustr(u)] {
					bad++
				}
			}
		}()
		wg.Wait()
		s.creating = key(x)
		_ = s.fr.UpsertServer(x)
		_ = s.fr.RemoveServer(x)
		s.creating = ""
		delete(s.meters, key(x))
		if bad != 0 {
			return fmt.Sprintf("race nonmember=%d", bad)
		}
		return "race ok"
	case "rate", "ready":
		if len(f) != 5 {
			return "bad-op"
		}
		m := s.meters[key(mkURL(nil, f[1], f[2], f[3]))]
		if f[0] == "ready" {
			if f[4] != "0" && f[4] != "1" {
				return "bad-op"
			}
			if m == nil {
				return "err notfound"
			}
			m.ready = f[4] == "1"
			return "ok"
		}
		p := strings.Split(f[4], "/")
		if len(p) != 2 {
			return "bad-op"
		}
		n, e1 := strconv.ParseInt(p[0], 10, 64)
		d, e2 := strconv.ParseInt(p[1], 10, 64)
		if e1 != nil || e2 != nil || d <= 0 {
			return "bad-op"
		}
		if m == nil {
			return "err notfound"
		}
		m.rating = float64(n) / float64(d)
		return "ok"
	}
	return "bad-op"
}

func (s *h) Close() {}

func main() {
	hx.Main(func(cfg []string) (hx.Handler, string) {
		via, ok := hx.KV(cfg, "via")
		if !ok {
			via = "rr"
		}
		if via != "rr" && via != "rb" {
			return nil, "err cfg"
		}
		s := &h{meters: map[string]*meter{}}
		s.sticky = hx.KVInt(cfg, "sticky", 0) == 1
		newSticky := func() *roundrobin.StickySession {
			ss := roundrobin.NewStickySession("vsticky")
			switch c, _ := hx.KV(cfg, "codec"); c {
			case "hash":
				s.codec = &stickycookie.HashValue{Salt: "c02"}
			case "aes":
				if v, err := stickycookie.NewAESValue([]byte("0123456789abcdef"), 0); err == nil {
					s.codec = v
				}
			}
			if s.codec != nil {
				ss.SetCookieValue(s.codec)
			}
			return ss
		}
		s.newReady = hx.KVInt(cfg, "ready", 0) == 1
		hx.FreezeAt(0)
		next := http.HandlerFunc(s.downstream)
		eh := roundrobin.ErrorHandler(utilsErr(s.onError))
		var err error
		if via == "rr" {
			opts := []roundrobin.LBOption{eh}
			if s.sticky {
				opts = append(opts, roundrobin.EnableStickySession(newSticky()))
			}
			s.rr, err = roundrobin.New(next, opts...)
			if err != nil {
				return nil, "err " + err.Error()
			}
			s.fr = s.rr
			return s, "ok"
		}
		s.rr, err = roundrobin.New(next, eh)
		if err != nil {
			return nil, "err " + err.Error()
		}
		ropts := []roundrobin.RebalancerOption{
			roundrobin.RebalancerErrorHandler(utilsErr(s.onError)),
			roundrobin.RebalancerMeter(func() (roundrobin.Meter, error) {
				if s.failNext {
					return nil, errors.New("meter factory failed")
				}
				m := &meter{ready: s.newReady, key: s.creating}
				s.meters[s.creating] = m
				return m, nil
			}),
		}
		if b := hx.KVInt64(cfg, "backoff", 0); b != 0 {
			ropts = append(ropts, roundrobin.RebalancerBackoff(time.Duration(b)))
		}
		if s.sticky {
			ropts = append(ropts, roundrobin.RebalancerStickySession(newSticky()))
		}
		s.lb = &pausingLB{RoundRobin: s.rr}
		rb, err := roundrobin.NewRebalancer(s.lb, ropts...)
		if err != nil {
			return nil, "err " + err.Error()
		}
		s.fr = rb
		return s, "ok"
	})
}
