package main

import (
	"net/url"
	"sync"
	"time"

	"github.com/vulcand/oxy/v2/roundrobin"
)

// pausingLB sits between the Rebalancer and the real RoundRobin (it is the Rebalancer's BalancerHandler)
// and delegates everything.  Once armed it holds one call of the rebalancer into the balancer until
// release or a timeout, so that another call can be issued at exactly that point: interleavings such as
// "RemoveServer while weights are being applied" become deterministic instead of a matter of luck.
//
//	holdBeforeFirstUpsert: the first UpsertServer after arming is held before it is delegated
//	holdAfterNthUpsert:    the n-th UpsertServer after arming is held after it has been delegated
//	                       (n = number of servers: the whole weight push has been applied)
//	holdAfterRemove:       the first RemoveServer after arming is held after it has been delegated
type pausingLB struct {
	*roundrobin.RoundRobin
	mu      sync.Mutex
	mode    int
	n       int
	reached chan struct{}
	resume  chan struct{}
}

const (
	holdNone = iota
	holdBeforeFirstUpsert
	holdAfterNthUpsert
	holdAfterRemove
)

func (p *pausingLB) arm(mode, n int) (reached, resume chan struct{}) {
	p.mu.Lock()
	defer p.mu.Unlock()
	p.mode, p.n = mode, n
	p.reached = make(chan struct{})
	p.resume = make(chan struct{})
	return p.reached, p.resume
}

func (p *pausingLB) disarm() {
	p.mu.Lock()
	p.mode = holdNone
	p.mu.Unlock()
}

func hold(reached, resume chan struct{}) {
	close(reached)
	select {
	case <-resume:
	case <-time.After(2 * time.Second):
	}
}

func (p *pausingLB) UpsertServer(u *url.URL, opts ...roundrobin.ServerOption) error {
	p.mu.Lock()
	before, after := false, false
	switch p.mode {
	case holdBeforeFirstUpsert:
		before, p.mode = true, holdNone
	case holdAfterNthUpsert:
		p.n--
		if p.n <= 0 {
			after, p.mode = true, holdNone
		}
	}
	reached, resume := p.reached, p.resume
	p.mu.Unlock()
	if before {
		hold(reached, resume)
	}
	err := p.RoundRobin.UpsertServer(u, opts...)
	if after {
		hold(reached, resume)
	}
	return err
}

func (p *pausingLB) RemoveServer(u *url.URL) error {
	p.mu.Lock()
	after := p.mode == holdAfterRemove
	if after {
		p.mode = holdNone
	}
	reached, resume := p.reached, p.resume
	p.mu.Unlock()
	err := p.RoundRobin.RemoveServer(u)
	if after {
		hold(reached, resume)
	}
	return err
}
