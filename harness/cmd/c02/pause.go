package main

import (
	"net/url"
	"sync"
	"time"

	"github.com/vulcand/oxy/v2/roundrobin"
)

// pausingLB sits between the Rebalancer and the real RoundRobin (it is the Rebalancer's BalancerHandler)
// and delegates everything.  Once armed, the first UpsertServer that reaches it — the first weight the
// rebalancer pushes into the balancer — is held until release() or a timeout, so that an administration
// call can be issued at exactly that point: the interleaving "RemoveServer while weights are being
// applied" becomes deterministic instead of a matter of luck.
type pausingLB struct {
	*roundrobin.RoundRobin
	mu      sync.Mutex
	armed   bool
	reached chan struct{}
	resume  chan struct{}
}

func (p *pausingLB) arm() (reached, resume chan struct{}) {
	p.mu.Lock()
	defer p.mu.Unlock()
	p.armed = true
	p.reached = make(chan struct{})
	p.resume = make(chan struct{})
	return p.reached, p.resume
}

func (p *pausingLB) disarm() {
	p.mu.Lock()
	p.armed = false
	p.mu.Unlock()
}

func (p *pausingLB) UpsertServer(u *url.URL, opts ...roundrobin.ServerOption) error {
	p.mu.Lock()
	hold := p.armed
	p.armed = false
	reached, resume := p.reached, p.resume
	p.mu.Unlock()
	if hold {
		close(reached)
		select {
		case <-resume:
		case <-time.After(2 * time.Second):
		}
	}
	return p.RoundRobin.UpsertServer(u, opts...)
}
