package main

import "github.com/vulcand/oxy/v2/roundrobin"

// before wraps a function value so that pre runs first.  Instantiated with roundrobin.ServerOption's
// (unexported) parameter type by inference, it turns the exported option Weight(w) into an option that
// first parks: options run inside UpsertServer with the balancer's mutex held, so a parked option holds
// that mutex for as long as the harness wants.
func before[T any](inner func(T) error, pre func()) func(T) error {
	return func(t T) error {
		pre()
		return inner(t)
	}
}

func parkingOption(w int, pre func()) roundrobin.ServerOption {
	return before(roundrobin.Weight(w), pre)
}
