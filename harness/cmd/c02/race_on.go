//go:build race

package main

import (
	"os"
	"syscall"
)

// In a -race build a data-race report must not pass unnoticed: the race detector only prints to stderr
// and keeps going, so the output stream would still match the model.  Re-exec once with
// GORACE=halt_on_error=1: the first report ends the process (exit 66) and the truncated output is a
// divergence at the racing operation.
func init() {
	if os.Getenv("GORACE") != "" {
		return
	}
	exe, err := os.Executable()
	if err != nil {
		return
	}
	_ = syscall.Exec(exe, os.Args, append(os.Environ(), "GORACE=halt_on_error=1 exitcode=66"))
}
