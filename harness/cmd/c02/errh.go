package main

import (
	"net/http"

	"github.com/vulcand/oxy/v2/utils"
)

// utilsErr adapts a function to utils.ErrorHandler.
func utilsErr(f func(http.ResponseWriter, *http.Request, error)) utils.ErrorHandler {
	return utils.ErrorHandlerFunc(f)
}
