// Command c03 executes C03 / C13 / C14 scenarios against the real ratelimit, collections and
// connlimit packages (exported API + the repo's frozen clock).
//
//	cfg rate <p:a:b[,p:a:b…]> cap=<n>|cap=default [solo=1] [ext=clientip]   TokenLimiter (cap=default: no Capacity option) (solo=1: plus one private limiter per source)
//	      ext=clientip: the stock utils.NewExtractor("client.ip"); <src> of an op is the request's RemoteAddr verbatim, every request costs 1
//	  at <ns> req <src> <amount> [rates=<…>] [evict=<src>]   -> 200 | 429 <delay_ns> | 500   [solo=<…>]
//	  retry [extra=<ns>]                                      -> <resp> t=<ns> | noretry
//	  at <ns> preq <src> <amount> <n> <goroutines> [rates=<…>] -> 200=<a> 429=<b> 500=<c>
//	      n requests of one source issued from g goroutines at one frozen instant (order-free counts; not with solo=1)
//	      barrier=1: the first g calls of the rate extractor rendezvous inside it (300 ms at most)
//	  park-reject                                             -> ok    (not with solo=1)
//	      the next request that is refused parks inside the limiter's ErrorHandler, i.e. after consumeRates returned the
//	      error and before the real RateErrHandler reads it; that request answers `parked`
//	  unpark                                                  -> <resp of the parked request> | noparked
//	cfg set <rates>                                 bare TokenBucketSet
//	  at <ns> consume <amount>   -> ok | delay <ns> | err
//	  at <ns> update <rates>     -> ok
//	  maxperiod                  -> <ns>
//	cfg ttlmap cap=<n>                              bare collections.TTLMap
//	  at <ns> set <key> <ttl> [v=<n>] [probe=a,b] [evict=<key>]   -> ok len=<n> [gone=a,b] | err ttl
//	  at <ns> get <key>          -> hit <v> | miss
//	  len                        -> <n>
//	cfg conn max=<m>                                ConnLimiter
//	  start <id> <src> | finish <id> [rewrite=<src2>]  -> admitted | 429 | released | dup | unknown
//	      rewrite: the protected handler overwrites the header the source extractor reads before it returns
//
// `evict=` is a claim of the scenario author about which tracked source the TTL map forgets at this
// request; the harness only uses it to restart that source's private limiter (solo mode), the model
// checks that it is a legal victim.
package main

import (
	"fmt"
	"net/http"
	"net/http/httptest"
	"strconv"
	"strings"
	"sync"
	"sync/atomic"
	"time"

	"github.com/vulcand/oxy/v2/connlimit"
	"github.com/vulcand/oxy/v2/internal/holsterv4/collections"
	"github.com/vulcand/oxy/v2/ratelimit"
	"github.com/vulcand/oxy/v2/utils"
	"github.com/vulcand/oxy/v2/zzverif/hx"
)

var okHandler = http.HandlerFunc(func(w http.ResponseWriter, _ *http.Request) { w.WriteHeader(http.StatusOK) })

var extractor = utils.ExtractorFunc(func(req *http.Request) (string, int64, error) {
	return req.Header.Get("X-Src"), hx.Atoi64(req.Header.Get("X-Amount")), nil
})

func parseRates(s string) (*ratelimit.RateSet, error) {
	rs := ratelimit.NewRateSet()
	for _, t := range strings.Split(s, ",") {
		p := strings.Split(t, ":")
		if len(p) != 3 {
			return nil, fmt.Errorf("shape")
		}
		var v [3]int64
		for i := range p {
			x, err := strconv.ParseInt(p[i], 10, 64)
			if err != nil {
				return nil, err
			}
			v[i] = x
		}
		if err := rs.Add(time.Duration(v[0]), v[1], v[2]); err != nil {
			return nil, err
		}
	}
	return rs, nil
}

// ---------------------------------------------------------------- TokenLimiter

type last struct {
	t      int64
	src    string
	amount string
	rates  string
	delay  int64
}

type parkedReq struct {
	w    *httptest.ResponseRecorder
	done chan struct{}
	l    last
}

type rateH struct {
	cfgRates string
	cap      int
	tl       *ratelimit.TokenLimiter
	solo     map[string]*ratelimit.TokenLimiter
	last     *last
	pk       *parker
	parked   *parkedReq
}

// parker is the ErrorHandler given to the shared limiter: the repo's own RateErrHandler, optionally held back
// between "consumeRates returned the error" and "the handler reads it".
type parker struct {
	mu      sync.Mutex
	armed   bool
	entered chan struct{}
	release chan struct{}
	real    ratelimit.RateErrHandler
}

func (p *parker) ServeHTTP(w http.ResponseWriter, req *http.Request, err error) {
	p.mu.Lock()
	park := p.armed
	p.armed = false
	p.mu.Unlock()
	if park {
		p.entered <- struct{}{}
		<-p.release
	}
	p.real.ServeHTTP(w, req, err)
}

var (
	internMu sync.Mutex
	interned = map[string]*ratelimit.RateSet{}
)

// oneShot is a rendezvous inside the rate extractor (`preq … barrier=1`): the first callers wait until `want` of them are
// inside it at once, or 300 ms have passed; after that it is transparent.  The limiter calls the rate extractor while it
// holds its mutex, so on the code as it is only one caller is ever inside (the rendezvous times out, once) and the flood is
// decided one request after the other; a limiter that looks a source up before it takes the mutex lets every caller of the
// rendezvous see "no entry yet".
type oneShot struct {
	mu   sync.Mutex
	want int
	in   int
	done bool
	ch   chan struct{}
}

func (b *oneShot) wait() {
	b.mu.Lock()
	if b.done {
		b.mu.Unlock()
		return
	}
	b.in++
	if b.in >= b.want {
		b.done = true
		close(b.ch)
		b.mu.Unlock()
		return
	}
	ch := b.ch
	b.mu.Unlock()
	select {
	case <-ch:
	case <-time.After(300 * time.Millisecond):
		b.mu.Lock()
		if !b.done {
			b.done = true
			close(b.ch)
		}
		b.mu.Unlock()
	}
}

var (
	rateBarrierMu sync.Mutex
	rateBarrier   *oneShot
)

// clientIPMode (`cfg rate … ext=clientip`): the limiters of the scenario use the stock utils.NewExtractor("client.ip");
// the <src> field of an op is then the request's RemoteAddr, verbatim, and every request costs one token.
var clientIPMode bool

func newLimiter(rates string, capacity int, opts ...ratelimit.TokenLimiterOption) (*ratelimit.TokenLimiter, error) {
	rs, err := parseRates(rates)
	if err != nil {
		return nil, err
	}
	var ext utils.SourceExtractor = extractor
	if clientIPMode {
		if ext, err = utils.NewExtractor("client.ip"); err != nil {
			return nil, err
		}
	}
	// the extractor hands out one shared *RateSet per distinct rates= text of the scenario (the way a
	// per-plan configuration would), for every source and every limiter of the scenario
	extractRates := ratelimit.RateExtractorFunc(func(r *http.Request) (*ratelimit.RateSet, error) {
		rateBarrierMu.Lock()
		b := rateBarrier
		rateBarrierMu.Unlock()
		if b != nil {
			b.wait()
		}
		if v := r.Header.Get("X-Rates"); v != "" {
			internMu.Lock()
			defer internMu.Unlock()
			if rs, ok := interned[v]; ok {
				return rs, nil
			}
			rs, err := parseRates(v)
			if err == nil {
				interned[v] = rs
			}
			return rs, err
		}
		return ratelimit.NewRateSet(), nil
	})
	if capacity != 0 { // 0 = `cap=default`: no Capacity option at all (DefaultCapacity)
		opts = append(opts, ratelimit.Capacity(capacity))
	}
	opts = append(opts, ratelimit.ExtractRates(extractRates))
	return ratelimit.New(okHandler, ext, rs, opts...)
}

func serve(tl http.Handler, src, amount, rates string) (string, int64) {
	req := httptest.NewRequest(http.MethodGet, "http://h/", nil)
	req.Header.Set("X-Src", src)
	req.Header.Set("X-Amount", amount)
	if clientIPMode {
		req.RemoteAddr = src
	}
	if rates != "" {
		req.Header.Set("X-Rates", rates)
	}
	w := httptest.NewRecorder()
	tl.ServeHTTP(w, req)
	return respOf(w)
}

func newReq(src, amount, rates string) *http.Request {
	req := httptest.NewRequest(http.MethodGet, "http://h/", nil)
	req.Header.Set("X-Src", src)
	req.Header.Set("X-Amount", amount)
	if clientIPMode {
		req.RemoteAddr = src
	}
	if rates != "" {
		req.Header.Set("X-Rates", rates)
	}
	return req
}

func respOf(w *httptest.ResponseRecorder) (string, int64) {
	switch w.Code {
	case http.StatusTooManyRequests:
		d, err := time.ParseDuration(w.Header().Get("X-Retry-In"))
		if err != nil {
			return "429 bad-retry-in:" + w.Header().Get("X-Retry-In"), 0
		}
		return fmt.Sprintf("429 %d", int64(d)), int64(d)
	default:
		return strconv.Itoa(w.Code), 0
	}
}

func (s *rateH) doReq(t int64, src, amount, rates, evict, suffix string) string {
	hx.AdvanceTo(t)
	s.pk.mu.Lock()
	armed := s.pk.armed
	s.pk.mu.Unlock()
	if armed && s.solo == nil {
		// the refusal (if any) parks inside the error handler: run the request on its own goroutine
		p := &parkedReq{w: httptest.NewRecorder(), done: make(chan struct{}),
			l: last{t: hx.NowNs(), src: src, amount: amount, rates: rates}}
		req := newReq(src, amount, rates)
		go func() {
			defer close(p.done)
			s.tl.ServeHTTP(p.w, req)
		}()
		select {
		case <-s.pk.entered:
			s.parked = p
			return "parked"
		case <-p.done:
			out, delay := respOf(p.w)
			if strings.HasPrefix(out, "429") {
				p.l.delay = delay
				s.last = &p.l
			}
			return out + suffix
		}
	}
	out, delay := serve(s.tl, src, amount, rates)
	if strings.HasPrefix(out, "429") {
		s.last = &last{t: hx.NowNs(), src: src, amount: amount, rates: rates, delay: delay}
	}
	out += suffix
	if s.solo != nil {
		if evict != "" {
			delete(s.solo, evict)
		}
		p := s.solo[src]
		if p == nil {
			p, _ = newLimiter(s.cfgRates, s.cap)
			s.solo[src] = p
		}
		o2, _ := serve(p, src, amount, rates)
		out += " solo=" + strings.ReplaceAll(o2, " ", ":")
	}
	return out
}

func (s *rateH) Op(f []string) string {
	switch {
	case len(f) >= 5 && f[0] == "at" && f[2] == "req":
		rates, _ := hx.KV(f, "rates")
		if rates != "" {
			if _, err := parseRates(rates); err != nil {
				return "bad-op"
			}
		}
		if _, err := strconv.ParseUint(f[4], 10, 63); err != nil {
			return "bad-op"
		}
		evict, _ := hx.KV(f, "evict")
		return s.doReq(hx.Atoi64(f[1]), f[3], f[4], rates, evict, "")
	case len(f) >= 7 && f[0] == "at" && f[2] == "preq":
		s.pk.mu.Lock()
		armed := s.pk.armed
		s.pk.mu.Unlock()
		if s.solo != nil || armed {
			return "bad-op"
		}
		rates, _ := hx.KV(f, "rates")
		if rates != "" {
			if _, err := parseRates(rates); err != nil {
				return "bad-op"
			}
		}
		if _, err := strconv.ParseUint(f[4], 10, 63); err != nil {
			return "bad-op"
		}
		n, err1 := strconv.Atoi(f[5])
		g, err2 := strconv.Atoi(f[6])
		if err1 != nil || err2 != nil || n < 0 || g < 1 {
			return "bad-op"
		}
		hx.AdvanceTo(hx.Atoi64(f[1]))
		if hx.KVInt(f, "barrier", 0) == 1 && g > 1 && n >= g {
			rateBarrierMu.Lock()
			rateBarrier = &oneShot{want: g, ch: make(chan struct{})}
			rateBarrierMu.Unlock()
			defer func() { rateBarrierMu.Lock(); rateBarrier = nil; rateBarrierMu.Unlock() }()
		}
		return s.flood(f[3], f[4], rates, n, g)
	case len(f) == 1 && f[0] == "park-reject":
		if s.solo != nil || s.parked != nil {
			return "bad-op"
		}
		s.pk.mu.Lock()
		s.pk.armed = true
		s.pk.mu.Unlock()
		return "ok"
	case len(f) == 1 && f[0] == "unpark":
		if s.parked == nil {
			return "noparked"
		}
		p := s.parked
		s.parked = nil
		s.pk.release <- struct{}{}
		<-p.done
		out, delay := respOf(p.w)
		if strings.HasPrefix(out, "429") {
			p.l.delay = delay
			s.last = &p.l
		}
		return out
	case f[0] == "retry":
		if s.last == nil {
			return "noretry"
		}
		l := s.last
		s.last = nil
		t := l.t + l.delay + hx.KVInt64(f, "extra", 0)
		if now := hx.NowNs(); t < now {
			t = now
		}
		return s.doReq(t, l.src, l.amount, l.rates, "", fmt.Sprintf(" t=%d", t))
	}
	return "bad-op"
}

// miniWriter is the cheapest possible http.ResponseWriter (keeps the flood loop tight).
type miniWriter struct {
	h    http.Header
	code int
}

func (w *miniWriter) Header() http.Header { return w.h }
func (w *miniWriter) WriteHeader(c int) {
	if w.code == 0 {
		w.code = c
	}
}
func (w *miniWriter) Write(b []byte) (int, error) {
	if w.code == 0 {
		w.code = http.StatusOK
	}
	return len(b), nil
}

// flood issues n requests of one source from g goroutines at the current frozen instant.
func (s *rateH) flood(src, amount, rates string, n, g int) string {
	var c200, c429, c500, other int64
	var wg sync.WaitGroup
	start := make(chan struct{})
	for i := 0; i < g; i++ {
		share := n / g
		if i < n%g {
			share++
		}
		wg.Add(1)
		go func(share int) {
			defer wg.Done()
			req := httptest.NewRequest(http.MethodGet, "http://h/", nil)
			req.Header.Set("X-Src", src)
			req.Header.Set("X-Amount", amount)
			if rates != "" {
				req.Header.Set("X-Rates", rates)
			}
			<-start
			for k := 0; k < share; k++ {
				w := &miniWriter{h: http.Header{}}
				s.tl.ServeHTTP(w, req)
				switch w.code {
				case http.StatusOK:
					atomic.AddInt64(&c200, 1)
				case http.StatusTooManyRequests:
					atomic.AddInt64(&c429, 1)
				case http.StatusInternalServerError:
					atomic.AddInt64(&c500, 1)
				default:
					atomic.AddInt64(&other, 1)
				}
			}
		}(share)
	}
	close(start)
	wg.Wait()
	out := fmt.Sprintf("200=%d 429=%d 500=%d", c200, c429, c500)
	if other != 0 {
		out += fmt.Sprintf(" other=%d", other)
	}
	return out
}

func (s *rateH) Close() {
	if s.parked != nil {
		s.pk.release <- struct{}{}
		<-s.parked.done
		s.parked = nil
	}
}

// ---------------------------------------------------------------- TokenBucketSet

type setH struct{ tbs *ratelimit.TokenBucketSet }

func (s *setH) Op(f []string) string {
	switch {
	case len(f) == 4 && f[0] == "at" && f[2] == "consume":
		n, err := strconv.ParseUint(f[3], 10, 63)
		if err != nil {
			return "bad-op"
		}
		hx.AdvanceTo(hx.Atoi64(f[1]))
		d, err := s.tbs.Consume(int64(n))
		switch {
		case err != nil:
			return "err"
		case d > 0:
			return fmt.Sprintf("delay %d", int64(d))
		}
		return "ok"
	case len(f) == 4 && f[0] == "at" && f[2] == "update":
		rs, err := parseRates(f[3])
		if err != nil {
			return "err badrate"
		}
		hx.AdvanceTo(hx.Atoi64(f[1]))
		s.tbs.Update(rs)
		return "ok"
	case len(f) == 1 && f[0] == "maxperiod":
		return strconv.FormatInt(int64(s.tbs.GetMaxPeriod()), 10)
	}
	return "bad-op"
}

func (s *setH) Close() {}

// ---------------------------------------------------------------- TTLMap

type ttlH struct{ m *collections.TTLMap }

func (s *ttlH) Op(f []string) string {
	switch {
	case len(f) >= 5 && f[0] == "at" && f[2] == "set":
		hx.AdvanceTo(hx.Atoi64(f[1]))
		ttl, err := strconv.Atoi(f[4])
		if err != nil {
			return "bad-op"
		}
		if err := s.m.Set(f[3], hx.KVInt(f, "v", 0), ttl); err != nil {
			return "err ttl"
		}
		out := fmt.Sprintf("ok len=%d", s.m.Len())
		if p, ok := hx.KV(f, "probe"); ok {
			gone := []string{}
			for _, k := range strings.Split(p, ",") {
				if k == "" {
					continue
				}
				if _, ok := s.m.Get(k); !ok {
					gone = append(gone, k)
				}
			}
			out += " gone=" + strings.Join(gone, ",")
		}
		return out
	case len(f) == 4 && f[0] == "at" && f[2] == "get":
		hx.AdvanceTo(hx.Atoi64(f[1]))
		v, ok := s.m.Get(f[3])
		if !ok {
			return "miss"
		}
		return fmt.Sprintf("hit %v", v)
	case len(f) == 1 && f[0] == "len":
		return strconv.Itoa(s.m.Len())
	}
	return "bad-op"
}

func (s *ttlH) Close() {}

// ---------------------------------------------------------------- ConnLimiter

type connReq struct {
	release chan struct{}
	done    chan struct{}
	rewrite string // set before release is closed
}

type connH struct {
	cl       *connlimit.ConnLimiter
	entered  chan string
	inflight map[string]*connReq
}

func (s *connH) Op(f []string) string {
	switch {
	case len(f) == 3 && f[0] == "start":
		id, src := f[1], f[2]
		if _, ok := s.inflight[id]; ok {
			return "dup"
		}
		r := &connReq{release: make(chan struct{}), done: make(chan struct{})}
		req := httptest.NewRequest(http.MethodGet, "http://h/", nil)
		req.Header.Set("X-Src", src)
		req.Header.Set("X-Amount", "1")
		req.Header.Set("X-Id", id)
		w := httptest.NewRecorder()
		s.inflight[id] = r
		go func() {
			defer close(r.done)
			s.cl.ServeHTTP(w, req)
		}()
		select {
		case <-s.entered:
			return "admitted"
		case <-r.done:
			delete(s.inflight, id)
			return strconv.Itoa(w.Code)
		}
	case len(f) >= 2 && f[0] == "finish":
		r, ok := s.inflight[f[1]]
		if !ok {
			return "unknown"
		}
		delete(s.inflight, f[1])
		r.rewrite, _ = hx.KV(f, "rewrite")
		close(r.release)
		<-r.done
		return "released"
	}
	return "bad-op"
}

func (s *connH) Close() {
	for id, r := range s.inflight {
		close(r.release)
		<-r.done
		delete(s.inflight, id)
	}
}

func newConn(max int64) (*connH, error) {
	s := &connH{entered: make(chan string), inflight: map[string]*connReq{}}
	next := http.HandlerFunc(func(w http.ResponseWriter, req *http.Request) {
		id := req.Header.Get("X-Id")
		r := s.inflight[id]
		s.entered <- id
		<-r.release
		if r.rewrite != "" {
			// a downstream handler rewriting what the source extractor reads
			req.Header.Set("X-Src", r.rewrite)
		}
		w.WriteHeader(http.StatusOK)
	})
	cl, err := connlimit.New(next, extractor, max)
	s.cl = cl
	return s, err
}

// ----------------------------------------------------------------

func main() {
	hx.Main(func(cfg []string) (hx.Handler, string) {
		hx.FreezeAt(0)
		internMu.Lock()
		interned = map[string]*ratelimit.RateSet{}
		internMu.Unlock()
		if len(cfg) < 2 {
			return nil, "bad-cfg"
		}
		switch cfg[1] {
		case "rate":
			if len(cfg) < 3 {
				return nil, "bad-cfg"
			}
			capacity := 0
			if v, ok := hx.KV(cfg, "cap"); ok && v != "default" {
				capacity = hx.Atoi(v)
				if capacity <= 0 {
					return nil, "err badcap" // ratelimit.Capacity rejects it
				}
			}
			ev, _ := hx.KV(cfg, "ext")
			clientIPMode = ev == "clientip"
			pk := &parker{entered: make(chan struct{}), release: make(chan struct{})}
			tl, err := newLimiter(cfg[2], capacity, ratelimit.ErrorHandler(pk))
			if err != nil {
				return nil, "err badrate"
			}
			h := &rateH{cfgRates: cfg[2], cap: capacity, tl: tl, pk: pk}
			if hx.KVInt(cfg, "solo", 0) == 1 {
				h.solo = map[string]*ratelimit.TokenLimiter{}
			}
			return h, "ok"
		case "set":
			if len(cfg) != 3 {
				return nil, "bad-cfg"
			}
			rs, err := parseRates(cfg[2])
			if err != nil {
				return nil, "err badrate"
			}
			return &setH{tbs: ratelimit.NewTokenBucketSet(rs)}, "ok"
		case "ttlmap":
			return &ttlH{m: collections.NewTTLMap(hx.KVInt(cfg, "cap", 0))}, "ok"
		case "conn":
			v, ok := hx.KV(cfg, "max")
			if !ok {
				return nil, "bad-cfg"
			}
			h, err := newConn(hx.Atoi64(v))
			if err != nil {
				return nil, "bad-cfg"
			}
			return h, "ok"
		}
		return nil, "bad-cfg"
	})
}
