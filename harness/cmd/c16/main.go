// Command c16 drives a real forward.New(false) proxy — wrapped in forward.NewStateListener and served by a
// real net/http server — against a scripted raw loopback backend, and reports what the client saw, what status
// the proxy recorded and which connection-state notifications were delivered.
//
//	cfg rht=<ms> [tr=own|keep] [up=none|cb|trace|rb|rr-verbose]
//	                                           up: a real oxy middleware between the StateListener and the forwarder that never
//	                                           intervenes: CircuitBreaker with a condition that cannot hold, Tracer writing to
//	                                           io.Discard, Rebalancer (over a RoundRobin) or verbose RoundRobin whose only pool
//	                                           member is the op's backend
//	cfg rht=<ms> [tr=own|keep]                 ResponseHeaderTimeout of the proxy's transport; tr=keep keeps the RoundTripper
//	                                           forward.New chose (nil = a clone of http.DefaultTransport) and only switches
//	                                           keep-alives off and sets the timeout on it; tr=own installs a fresh http.Transport
//	resp s=<status> d=<n>:<digest> seed=<k> mode=cl|chunked|close|none [chunks=a,b,..] [slow=1] [hold=1] [pre=103,102] [rh=Name:pe(value)]...
//	   (hold=1, with mode=chunked|close: the backend waits after the head until the client has it -> output starts with head=early|late)
//	   -> <status> [pre=<1xx codes the client saw>] body=<n>:<digest> H <client headers> ev=<events> rec=<status>
//	      (pre: interim responses the backend sends before the final head; rec is the first non-1xx status written)
//	fail refused|reset-before|close-before|stall|garbage
//	   -> <status> ev=<events> rec=<status>
//	fail client-cancel                         the client disconnects while the backend stalls
//	   -> gone ev=<events> rec=<status>
//	abort s=<status> n=<len> sent=<k> seed=<k> mode=cl|chunked      head + k body bytes, then RST
//	   -> aborted ev=<events> rec=<status>      (the client saw a read error / missing bytes against the declared framing)
//	      short <status> <got>/<n> ...           if the response ended *cleanly* (valid framing, no read error) short of the n scripted bytes
//	presp c=<k> s=<status> d=<n>:<dig0>/<dig1>/.. seed=<base> mode=cl|chunked     k concurrent clients, client i is sent fx.Body(base+i, n)
//	   -> <status>:<n>:<dig0> <status>:<n>:<dig1> .. evc=<#connected>/<#disconnected>
//	listener ret|panic|abort|retarget|mutate   StateListener around a handler that returns / panics / panics with ErrAbortHandler /
//	                                           replaces req.URL by a new object / edits req.URL in place and returns; a
//	                                           'disconnected' reported for another URL object than 'connected' prints as disconnected-other-url
//	   -> 200|eof ev=<events> rec=<status|->
//
// Body bytes are fx.Body(seed, n); the digest on the op line is computed by the generator, the digest printed
// is that of the bytes the client received.
package main

import (
	"bufio"
	"fmt"
	"io"
	"log"
	"net"
	"net/http"
	"net/http/httptest"
	"net/url"
	"strings"
	"sync"
	"time"

	"github.com/vulcand/oxy/v2/cbreaker"
	"github.com/vulcand/oxy/v2/forward"
	"github.com/vulcand/oxy/v2/roundrobin"
	"github.com/vulcand/oxy/v2/trace"
	"github.com/vulcand/oxy/v2/utils"
	"github.com/vulcand/oxy/v2/zzverif/cmd/c08/fx"
	"github.com/vulcand/oxy/v2/zzverif/hx"
)

type recorder struct {
	http.ResponseWriter
	mu     sync.Mutex
	status int
}

func (r *recorder) WriteHeader(c int) {
	r.mu.Lock()
	if r.status == 0 && (c < 100 || c > 199) { // interim (1xx) responses are not the status of the exchange
		r.status = c
	}
	r.mu.Unlock()
	r.ResponseWriter.WriteHeader(c)
}

func (r *recorder) Write(b []byte) (int, error) {
	r.mu.Lock()
	if r.status == 0 {
		r.status = 200
	}
	r.mu.Unlock()
	return r.ResponseWriter.Write(b)
}

func (r *recorder) Flush() {
	if f, ok := r.ResponseWriter.(http.Flusher); ok {
		f.Flush()
	}
}

func (r *recorder) Unwrap() http.ResponseWriter { return r.ResponseWriter }

type h struct {
	mu      sync.Mutex
	events  []string
	rec     *recorder
	done    chan struct{}
	pending int
	target  *url.URL // where the wrapper points the request
	inner   string   // "", "ret", "retarget", "mutate", "panic", "abort": what the innermost handler does instead of forwarding
	pairURL bool     // set for the listener ops: compare the URL objects of the two notifications
	srv     *httptest.Server
	tr      *http.Transport
	be      *fx.Backend
	gotReq  chan struct{}
	release chan struct{}
	// pool administration when a balancer installs the backend URL (up=rb|rr-verbose)
	upsert  func(*url.URL) error
	remove  func(*url.URL) error
	pool    *url.URL
}

func newScenario(cfg []string) (hx.Handler, string) {
	s := &h{}
	be, err := fx.NewBackend()
	if err != nil {
		return nil, "err " + err.Error()
	}
	s.be = be
	rht := time.Duration(hx.KVInt(cfg, "rht", 3000)) * time.Millisecond
	fwd := forward.New(false)
	if mode, _ := hx.KV(cfg, "tr"); mode == "keep" {
		// what a caller gets who does not configure a transport: only make connections one-shot (the scripted
		// backend serves one exchange per connection) and bound the wait for a response head
		switch t := fwd.Transport.(type) {
		case nil:
			if d, ok := http.DefaultTransport.(*http.Transport); ok {
				s.tr = d.Clone()
				fwd.Transport = s.tr
			}
		case *http.Transport:
			s.tr = t
		}
		if s.tr != nil {
			s.tr.DisableKeepAlives = true
			s.tr.ResponseHeaderTimeout = rht
		}
	} else {
		s.tr = &http.Transport{DisableCompression: true, DisableKeepAlives: true, ResponseHeaderTimeout: rht}
		fwd.Transport = s.tr
	}
	fwd.ErrorLog = log.New(io.Discard, "", 0)
	up, _ := hx.KV(cfg, "up")
	nop := &utils.NoopLogger{}
	var balancer http.Handler
	switch up {
	case "", "none", "cb", "trace":
	case "rr-verbose":
		rr, err := roundrobin.New(fwd, roundrobin.Verbose(true), roundrobin.Logger(nop))
		if err != nil {
			return nil, "err " + err.Error()
		}
		s.upsert, s.remove, balancer = func(u *url.URL) error { return rr.UpsertServer(u) }, rr.RemoveServer, rr
	case "rb":
		rr, err := roundrobin.New(fwd)
		if err != nil {
			return nil, "err " + err.Error()
		}
		rb, err := roundrobin.NewRebalancer(rr, roundrobin.RebalancerLogger(nop))
		if err != nil {
			return nil, "err " + err.Error()
		}
		s.upsert, s.remove, balancer = func(u *url.URL) error { return rb.UpsertServer(u) }, rb.RemoveServer, rb
	default:
		return nil, "bad-op"
	}
	wrap := http.HandlerFunc(func(w http.ResponseWriter, r *http.Request) {
		s.mu.Lock()
		inner, target := s.inner, s.target
		s.mu.Unlock()
		switch inner {
		case "ret", "retarget", "mutate":
			// retarget: a failover step in front of the forwarder hands the request a new URL object;
			// mutate: it edits the URL it was given in place.  Either way the request then completes.
			if inner == "retarget" {
				r.URL = &url.URL{Scheme: "http", Host: "backup.example", Path: r.URL.Path}
			} else if inner == "mutate" {
				r.URL.Host = "backup.example"
			}
			w.WriteHeader(200)
			io.WriteString(w, "ok")
			return
		case "panic":
			panic("boom")
		case "abort":
			panic(http.ErrAbortHandler)
		}
		if balancer != nil {
			balancer.ServeHTTP(w, r) // installs the pool's only server as r.URL and calls the forwarder
			return
		}
		u := *target
		r.URL = &u
		fwd.ServeHTTP(w, r)
	})
	var listened http.Handler = wrap
	switch up {
	case "cb":
		cb, err := cbreaker.New(wrap, "NetworkErrorRatio() > 1.5", cbreaker.Logger(nop))
		if err != nil {
			return nil, "err " + err.Error()
		}
		listened = cb
	case "trace":
		tr, err := trace.New(wrap, io.Discard, trace.Logger(nop))
		if err != nil {
			return nil, "err " + err.Error()
		}
		listened = tr
	}
	var connectedURL *url.URL // requests of the listener ops are sequential (presp counts events only)
	sl := forward.NewStateListener(listened, func(u *url.URL, state int) {
		name := fmt.Sprintf("state%d", state)
		s.mu.Lock()
		switch state {
		case forward.StateConnected:
			name = "connected"
			connectedURL = u
		case forward.StateDisconnected:
			name = "disconnected"
			// the notifications of one request are about one URL: the one 'connected' was reported for
			if s.pairURL && u != connectedURL {
				name = "disconnected-other-url"
			}
		}
		s.events = append(s.events, name)
		s.mu.Unlock()
	})
	outer := http.HandlerFunc(func(w http.ResponseWriter, r *http.Request) {
		s.mu.Lock()
		rec := &recorder{ResponseWriter: w}
		s.rec = rec
		done := s.done
		s.mu.Unlock()
		defer func() {
			s.mu.Lock()
			s.pending--
			last := s.pending == 0
			s.mu.Unlock()
			if last {
				close(done)
			}
		}()
		sl.ServeHTTP(rec, r)
	})
	s.srv = hx.NewUnstartedServer(outer)
	if ln, err := fx.Listen(); err == nil {
		s.srv.Listener.Close()
		s.srv.Listener = ln
	}
	s.srv.Config.ErrorLog = log.New(io.Discard, "", 0)
	s.srv.Start()
	return s, "ok"
}

func (s *h) Close() {
	s.srv.CloseClientConnections()
	s.srv.Close()
	if s.tr != nil {
		s.tr.CloseIdleConnections()
	}
	s.be.Close()
}

// tail waits for the handler to finish and prints the listener events and the recorded status.
func (s *h) tail() string {
	s.mu.Lock()
	done := s.done
	s.mu.Unlock()
	select {
	case <-done:
	case <-time.After(3500 * time.Millisecond):
		return " ev=HANDLER-STILL-RUNNING"
	}
	s.mu.Lock()
	defer s.mu.Unlock()
	rec := "-"
	if s.rec != nil {
		s.rec.mu.Lock()
		if s.rec.status != 0 {
			rec = fmt.Sprint(s.rec.status)
		}
		s.rec.mu.Unlock()
	}
	return fmt.Sprintf(" ev=%s rec=%s", strings.Join(s.events, ","), rec)
}

func (s *h) prepare(target string, inner string) { s.prepareN(target, inner, 1) }

func (s *h) prepareN(target string, inner string, k int) {
	s.mu.Lock()
	s.pending = k
	s.events = nil
	s.rec = nil
	s.done = make(chan struct{})
	s.target = &url.URL{Scheme: "http", Host: target}
	s.inner = inner
	s.gotReq = make(chan struct{}, 1)
	s.release = make(chan struct{})
	s.mu.Unlock()
	if s.upsert != nil && (s.pool == nil || s.pool.Host != target) {
		old := s.pool
		s.pool = &url.URL{Scheme: "http", Host: target}
		_ = s.upsert(s.pool)
		if old != nil {
			_ = s.remove(old)
		}
	}
}

const reqBytes = "GET /c16 HTTP/1.1\r\nHost: client.example\r\n\r\n"

func (s *h) Op(f []string) string {
	addr := s.srv.Listener.Addr().String()
	switch f[0] {
	case "resp", "abort":
		isAbort := f[0] == "abort"
		status := hx.KVInt(f, "s", 200)
		mode, _ := hx.KV(f, "mode")
		seed := hx.KVInt(f, "seed", 1)
		n := hx.KVInt(f, "n", 0)
		if d, ok := hx.KV(f, "d"); ok {
			n = hx.Atoi(strings.SplitN(d, ":", 2)[0])
		}
		sent := n
		if isAbort {
			sent = hx.KVInt(f, "sent", 0)
			if sent >= n {
				return "bad-op"
			}
		}
		rh, ok := fx.ParseHV(f, "rh")
		if !ok {
			return "bad-op"
		}
		var pieces []int
		if cs, ok := hx.KV(f, "chunks"); ok && cs != "" {
			for _, c := range strings.Split(cs, ",") {
				pieces = append(pieces, hx.Atoi(c))
			}
		}
		var pre []int
		if ps, ok := hx.KV(f, "pre"); ok && ps != "" {
			for _, c := range strings.Split(ps, ",") {
				pre = append(pre, hx.Atoi(c))
			}
		}
		slow := hx.KVInt(f, "slow", 0) == 1
		// hold=1: a stream that is silent at first (SSE, long poll): the backend sends the head and waits for the client to have
		// it before the first body byte (at most 700 ms); head=early|late says whether the head was relayed on its own
		hold := hx.KVInt(f, "hold", 0) == 1 && !isAbort
		headSeen := make(chan struct{})
		headWhen := make(chan string, 1)
		if hold {
			var once sync.Once
			fx.HeadHook = func() { once.Do(func() { close(headSeen) }) }
			defer func() { fx.HeadHook = nil }()
		}
		body := fx.Body(seed, n)
		s.prepare(s.be.Addr, "")
		s.be.SetScript(func(c net.Conn, _ *bufio.Reader, _ *fx.RawReq) bool {
			bw := bufio.NewWriterSize(c, 64<<10)
			for _, code := range pre {
				fmt.Fprintf(bw, "HTTP/1.1 %d Interim\r\nLink: </x-%d>\r\n\r\n", code, code)
				bw.Flush()
			}
			fmt.Fprintf(bw, "HTTP/1.1 %d X\r\n", status)
			for _, hv := range rh {
				fmt.Fprintf(bw, "%s: %s\r\n", hv.Name, hv.Value)
			}
			switch mode {
			case "cl":
				fmt.Fprintf(bw, "Content-Length: %d\r\n", n)
			case "chunked":
				fmt.Fprintf(bw, "Transfer-Encoding: chunked\r\n")
			}
			bw.WriteString("\r\n")
			bw.Flush()
			if hold {
				select {
				case <-headSeen:
					headWhen <- "early"
				case <-time.After(700 * time.Millisecond):
					headWhen <- "late"
				}
			}
			rest := body[:sent]
			emit := func(p []byte) {
				if mode == "chunked" {
					fmt.Fprintf(bw, "%x\r\n", len(p))
					bw.Write(p)
					bw.WriteString("\r\n")
				} else {
					bw.Write(p)
				}
				bw.Flush()
				if slow {
					time.Sleep(time.Millisecond)
				}
			}
			for _, k := range pieces {
				if k <= 0 || k > len(rest) {
					break
				}
				emit(rest[:k])
				rest = rest[k:]
			}
			if len(rest) > 0 {
				emit(rest)
			}
			if isAbort {
				time.Sleep(20 * time.Millisecond) // let the proxy relay what it has
				fx.Reset(c)
				return false
			}
			if mode == "chunked" {
				bw.WriteString("0\r\n\r\n")
				bw.Flush()
			}
			c.Close()
			return false
		})
		res, err := fx.Do(addr, "GET", []byte(reqBytes), 4*time.Second, nil)
		if err != nil {
			return "err client " + strings.ReplaceAll(err.Error(), " ", "_")
		}
		var out string
		preSeen := ""
		if len(res.Interim) > 0 {
			var ps []string
			for _, c := range res.Interim {
				ps = append(ps, fmt.Sprint(c))
			}
			preSeen = " pre=" + strings.Join(ps, ",")
		}
		switch {
		case !res.Head || !res.Complete:
			out = "aborted"
		case isAbort:
			// valid framing, no read error, yet fewer bytes than the backend was scripted to send in total
			out = fmt.Sprintf("short %d %d/%d", res.Status, len(res.Body), n)
		default:
			out = fmt.Sprintf("%d%s body=%s H %s", res.Status, preSeen, fx.Sum(res.Body), fx.CanonHeaders(res.Headers, fx.ClientDrop))
		}
		if hold {
			select {
			case w := <-headWhen:
				out = "head=" + w + " " + out
			default:
				out = "head=never " + out
			}
		}
		return strings.Join(strings.Fields(out+s.tail()), " ")
	case "presp":
		k := hx.KVInt(f, "c", 2)
		status := hx.KVInt(f, "s", 200)
		mode, _ := hx.KV(f, "mode")
		seed := hx.KVInt(f, "seed", 1)
		d, _ := hx.KV(f, "d")
		n := hx.Atoi(strings.SplitN(d, ":", 2)[0])
		if k < 1 || k > 16 {
			return "bad-op"
		}
		s.prepareN(s.be.Addr, "", k)
		var arrived sync.WaitGroup
		arrived.Add(k)
		allIn := make(chan struct{})
		go func() { arrived.Wait(); close(allIn) }()
		s.be.SetScript(func(c net.Conn, _ *bufio.Reader, r *fx.RawReq) bool {
			idx := hx.Atoi(r.Target[strings.LastIndexByte(r.Target, '/')+1:])
			arrived.Done()
			select { // respond together so that the proxy copies the bodies concurrently
			case <-allIn:
			case <-time.After(time.Second):
			}
			body := fx.Body(seed+idx, n)
			bw := bufio.NewWriterSize(c, 16<<10)
			fmt.Fprintf(bw, "HTTP/1.1 %d X\r\nContent-Type: application/octet-stream\r\n", status)
			if mode == "chunked" {
				bw.WriteString("Transfer-Encoding: chunked\r\n\r\n")
			} else {
				fmt.Fprintf(bw, "Content-Length: %d\r\n\r\n", n)
			}
			for off := 0; off < n; off += 8192 {
				end := off + 8192
				if end > n {
					end = n
				}
				if mode == "chunked" {
					fmt.Fprintf(bw, "%x\r\n", end-off)
					bw.Write(body[off:end])
					bw.WriteString("\r\n")
				} else {
					bw.Write(body[off:end])
				}
				bw.Flush()
			}
			if mode == "chunked" {
				bw.WriteString("0\r\n\r\n")
				bw.Flush()
			}
			c.Close()
			return false
		})
		outs := make([]string, k)
		var wg sync.WaitGroup
		for i := 0; i < k; i++ {
			wg.Add(1)
			go func(i int) {
				defer wg.Done()
				raw := fmt.Sprintf("GET /c16/%d HTTP/1.1\r\nHost: client.example\r\n\r\n", i)
				res, err := fx.Do(addr, "GET", []byte(raw), 4*time.Second, nil)
				switch {
				case err != nil:
					outs[i] = "err"
				case !res.Head || !res.Complete:
					outs[i] = "aborted"
				default:
					outs[i] = fmt.Sprintf("%d:%s", res.Status, fx.Sum(res.Body))
				}
			}(i)
		}
		wg.Wait()
		t := s.tail() // waits for all handlers
		nc, nd := strings.Count(t, "connected")-strings.Count(t, "disconnected"), strings.Count(t, "disconnected")
		return strings.Join(outs, " ") + fmt.Sprintf(" evc=%d/%d", nc, nd)
	case "fail":
		if len(f) < 2 {
			return "bad-op"
		}
		mode := f[1]
		target := s.be.Addr
		if mode == "refused" {
			target = fx.ClosedAddr()
		}
		s.prepare(target, "")
		gotReq, release := s.gotReq, s.release
		defer close(release)
		switch mode {
		case "refused":
		case "reset-before":
			s.be.SetScript(func(c net.Conn, _ *bufio.Reader, _ *fx.RawReq) bool { fx.Reset(c); return false })
		case "close-before":
			s.be.SetScript(func(c net.Conn, _ *bufio.Reader, _ *fx.RawReq) bool { c.Close(); return false })
		case "garbage":
			s.be.SetScript(func(c net.Conn, _ *bufio.Reader, _ *fx.RawReq) bool {
				io.WriteString(c, "NOT-HTTP GARBAGE\r\n\r\n")
				c.Close()
				return false
			})
		case "stall", "client-cancel":
			s.be.SetScript(func(c net.Conn, _ *bufio.Reader, _ *fx.RawReq) bool {
				select {
				case gotReq <- struct{}{}:
				default:
				}
				select {
				case <-release:
				case <-time.After(4 * time.Second):
				}
				c.Close()
				return false
			})
		default:
			return "bad-op"
		}
		var after func(net.Conn) bool
		if mode == "client-cancel" {
			after = func(c net.Conn) bool {
				select {
				case <-gotReq:
				case <-time.After(2 * time.Second):
				}
				fx.Reset(c)
				return false
			}
		}
		res, err := fx.Do(addr, "GET", []byte(reqBytes), 4*time.Second, after)
		if err != nil {
			return "err client " + strings.ReplaceAll(err.Error(), " ", "_")
		}
		out := "eof"
		switch {
		case mode == "client-cancel":
			out = "gone"
		case res.Head:
			out = fmt.Sprint(res.Status)
		}
		return out + s.tail()
	case "listener":
		if len(f) < 2 || (f[1] != "ret" && f[1] != "panic" && f[1] != "abort" && f[1] != "retarget" && f[1] != "mutate") {
			return "bad-op"
		}
		s.prepare(s.be.Addr, f[1])
		s.mu.Lock()
		s.pairURL = true
		s.mu.Unlock()
		defer func() { s.mu.Lock(); s.pairURL = false; s.mu.Unlock() }()
		res, err := fx.Do(addr, "GET", []byte(reqBytes), 4*time.Second, nil)
		if err != nil {
			return "err client " + strings.ReplaceAll(err.Error(), " ", "_")
		}
		out := "eof"
		if res.Head {
			out = fmt.Sprint(res.Status)
		}
		return out + s.tail()
	}
	return "bad-op"
}

func main() { hx.Main(newScenario) }
