// Command c06 executes Buffer scenarios (C06, C07, C15) against the real buffer package behind a
// real HTTP server and client.
//
//	cfg [maxreq=N] [memreq=N] [maxresp=N] [memresp=N] [retry=<go expr> rx=<polish>] [hj=0|1] [verbose=1] [up=stream-verbose|rr-verbose] [dn=trace|cbreaker]
//	        -> ok | err expr
//	req <method> <url> cl|ch <len> <seed> [h=K:V;K:V] [ct=form|multipart] [fr=u0] a=<attempt> a=<attempt> ...
//	        (fr=u0, with ch: Buffer is handed the request with ContentLength 0 and a non-nil body of unknown length)
//	        -> inv=N v=<view>... w=<status>|<hdrs>|<len:ck> hij=0|1 cl=ok left=N
//
// attempt = comma separated fields, executed by the protected handler in this order:
// (hp:K:V append to the value slice, h0:K:V / hl:K:V overwrite first / last value in place)
// r:all|r:N (read body; rc: via io.Copy, rn: via io.CopyN, rp: via 7-byte Reads), hs:K:V ha:K:V hd:K u:/path (mutate its request copy), rh:K:V (response
// header), s:CODE (ls:CODE / lh:K:V: WriteHeader / header after the writes; pn: panic at the end), w:LEN.SEED ... (Write calls; wc: io.Copy, wn: io.CopyN, ws: io.WriteString, wf: fmt.Fprintf), fl (Flush if the writer offers it), hj (Hijack).  A view is what the handler saw on
// entry: method|url|X-headers|cl=|te=|oh=(other headers same as incoming)|rd=bytes read|tf=temp
// files on disk when it returned.  w= is what Buffer sent to the ResponseWriter it was given, cl=
// says whether the real client received exactly that, left= temp files remaining afterwards.
package main

import (
	"bufio"
	"bytes"
	"context"
	"errors"
	"fmt"
	"io"
	"log"
	"net"
	"net/http"
	"net/http/httptest"
	"net/url"
	"os"
	"reflect"
	"sort"
	"strconv"
	"strings"
	"sync"
	"syscall"
	"time"

	"github.com/vulcand/oxy/v2/buffer"
	"github.com/vulcand/oxy/v2/cbreaker"
	"github.com/vulcand/oxy/v2/roundrobin"
	"github.com/vulcand/oxy/v2/stream"
	"github.com/vulcand/oxy/v2/trace"
	"github.com/vulcand/oxy/v2/zzverif/hx"
)

const ckP = 72057594037927931 // 2^56 - 5

func block(seed uint64) []byte {
	x := seed % 2147483648
	b := make([]byte, 251)
	for i := range b {
		x = (x*1103515245 + 12345) % 2147483648
		b[i] = byte((x / 65536) % 256)
	}
	return b
}

func expand(n int, seed uint64) []byte {
	b := block(seed)
	out := make([]byte, n)
	for i := range out {
		out[i] = b[i%251]
	}
	return out
}

func showBytes(p []byte) string {
	var h uint64
	for _, c := range p {
		h = (h*256 + uint64(c)) % ckP
	}
	return fmt.Sprintf("%d:%d", len(p), h)
}

func showHeader(h http.Header, onlyX bool) string {
	keys := []string{}
	for k, v := range h {
		if len(v) == 0 || (onlyX && !strings.HasPrefix(k, "X-")) {
			continue
		}
		keys = append(keys, k)
	}
	if len(keys) == 0 {
		return "-"
	}
	sort.Strings(keys)
	parts := make([]string, len(keys))
	for i, k := range keys {
		parts[i] = k + ":" + strings.Join(h[k], ",")
	}
	return strings.Join(parts, ";")
}

func otherHeaders(h http.Header) http.Header {
	o := http.Header{}
	for k, v := range h {
		if !strings.HasPrefix(k, "X-") {
			o[k] = append([]string(nil), v...)
		}
	}
	return o
}

type attempt struct {
	read    int // -1 = all
	how     string // r: ReadAll/ReadFull, rc: io.Copy (WriteTo when offered), rn: io.CopyN, rp: small Read calls
	ops     [][]string
	setURL  string
	respHdr [][2]string
	status  int // -1 none
	writes  [][]byte
	whow    []string // per write: w Write, wc io.Copy, wn io.CopyN, ws io.WriteString, wf fmt.Fprintf
	hijack  bool
	flush   bool
	lateHdr [][2]string
	lateSt  int // -1 none: WriteHeader after the writes
	panics  bool
}

func parseAttempt(s string) attempt {
	a := attempt{read: -1, status: -1, lateSt: -1}
	for _, fld := range strings.Split(s, ",") {
		p := strings.Split(fld, ":")
		switch {
		case fld == "-":
		case fld == "hj":
			a.hijack = true
		case fld == "fl":
			a.flush = true
		case fld == "pn":
			a.panics = true
		case p[0] == "lh" && len(p) == 3:
			a.lateHdr = append(a.lateHdr, [2]string{p[1], p[2]})
		case p[0] == "ls" && len(p) == 2:
			a.lateSt = hx.Atoi(p[1])
		case (p[0] == "r" || p[0] == "rc" || p[0] == "rn" || p[0] == "rp") && len(p) == 2:
			a.how = p[0]
			if p[1] != "all" {
				a.read = hx.Atoi(p[1])
			}
		case (p[0] == "hs" || p[0] == "ha" || p[0] == "hp" || p[0] == "h0" || p[0] == "hl") && len(p) == 3, p[0] == "hd" && len(p) == 2:
			a.ops = append(a.ops, p)
		case p[0] == "u" && len(p) == 2:
			a.setURL = p[1]
		case p[0] == "s" && len(p) == 2:
			a.status = hx.Atoi(p[1])
		case p[0] == "rh" && len(p) == 3:
			a.respHdr = append(a.respHdr, [2]string{p[1], p[2]})
		case (p[0] == "w" || p[0] == "wc" || p[0] == "wn" || p[0] == "ws" || p[0] == "wf") && len(p) == 2:
			a.whow = append(a.whow, p[0])
			ls := strings.Split(p[1], ".")
			if len(ls) != 2 {
				panic("bad write")
			}
			a.writes = append(a.writes, expand(hx.Atoi(ls[0]), uint64(hx.Atoi64(ls[1]))))
		default:
			panic("bad attempt field " + fld)
		}
	}
	return a
}

// exchange is the state of one req op, shared between the client side and the handlers.
type exchange struct {
	atts     []attempt
	inv      int
	views    []string
	inHeader http.Header
	// recorder
	wrote    bool
	status   int
	hdr      http.Header
	body     []byte
	hijacked bool
	panicked bool
	done     chan struct{}
	token    string
	// fr=u0: the request reaches Buffer re-dispatched in-process with net/http's "length unknown" convention for a reader it
	// cannot size (ContentLength 0 together with a non-nil Body), as http.NewRequest builds it around a pipe or bufio reader
	unknown0 bool
}

type scen struct {
	mu     sync.Mutex
	entry  http.Handler // Buffer, or a verbose oxy middleware in front of it
	srv    *httptest.Server
	buf    *buffer.Buffer
	hj     bool
	tmp    string
	oldTmp string
	cur    *exchange
}

type rec struct {
	w  http.ResponseWriter
	ex *exchange
}

func (r *rec) Header() http.Header { return r.w.Header() }

func (r *rec) WriteHeader(c int) {
	if !r.ex.wrote {
		r.ex.wrote = true
		r.ex.status = c
		r.ex.hdr = r.w.Header().Clone()
	}
	r.w.WriteHeader(c)
}

func (r *rec) Write(p []byte) (int, error) {
	if !r.ex.wrote {
		r.ex.wrote = true
		r.ex.status = 200
		r.ex.hdr = r.w.Header().Clone()
	}
	r.ex.body = append(r.ex.body, p...)
	return r.w.Write(p)
}

type recHJ struct{ rec }

func (r *recHJ) Hijack() (net.Conn, *bufio.ReadWriter, error) {
	return r.w.(http.Hijacker).Hijack()
}

func (s *scen) tmpCount() int {
	es, err := os.ReadDir(s.tmp)
	if err != nil {
		return -1
	}
	return len(es)
}

// outer is what the HTTP server calls: it records the incoming request and hands Buffer a recording writer.
func (s *scen) outer(w http.ResponseWriter, r *http.Request) {
	s.mu.Lock()
	ex := s.cur
	s.mu.Unlock()
	// ephemeral ports are reused across processes: a request that is not the one this exchange sent
	// (another harness talking to a backend that used to own this port) is turned away untouched
	if ex == nil || r.Header.Get("Hx-Token") != ex.token {
		w.WriteHeader(http.StatusMisdirectedRequest)
		return
	}
	defer close(ex.done)
	ex.inHeader = r.Header.Clone()
	if ex.unknown0 {
		r.Body = io.NopCloser(hideReader{r.Body})
		r.ContentLength = 0
		r.TransferEncoding = nil
	}
	base := rec{w: w, ex: ex}
	if s.hj {
		s.entry.ServeHTTP(&recHJ{base}, r)
	} else {
		s.entry.ServeHTTP(&base, r)
	}
}

// inner is the protected handler.
func (s *scen) inner(w http.ResponseWriter, r *http.Request) {
	ex := s.cur
	ex.inv++
	a := attempt{read: -1, status: -1, lateSt: -1}
	if ex.inv <= len(ex.atts) {
		a = ex.atts[ex.inv-1]
	}
	same := "same"
	if !reflect.DeepEqual(otherHeaders(r.Header), otherHeaders(ex.inHeader)) {
		same = "diff"
	}
	view := fmt.Sprintf("v=%s|%s|%s|cl=%d|te=%d|oh=%s", r.Method, r.URL.String(), showHeader(r.Header, true), r.ContentLength, len(r.TransferEncoding), same)
	var got []byte
	switch {
	case a.how == "rc":
		// io.Copy prefers the source's WriteTo (io.NopCloser forwards it) over Read
		var buf bytes.Buffer
		if a.read < 0 {
			_, _ = io.Copy(&buf, r.Body)
		} else {
			_, _ = io.Copy(&buf, io.LimitReader(r.Body, int64(a.read)))
		}
		got = buf.Bytes()
	case a.how == "rn" && a.read >= 0:
		var buf bytes.Buffer
		_, _ = io.CopyN(&buf, r.Body, int64(a.read))
		got = buf.Bytes()
	case a.how == "rp":
		chunk := make([]byte, 7)
		for a.read < 0 || len(got) < a.read {
			want := len(chunk)
			if a.read >= 0 && a.read-len(got) < want {
				want = a.read - len(got)
			}
			n, err := r.Body.Read(chunk[:want])
			got = append(got, chunk[:n]...)
			if err != nil {
				break
			}
		}
	case a.read < 0:
		got, _ = io.ReadAll(r.Body)
	default:
		got = make([]byte, a.read)
		n, _ := io.ReadFull(r.Body, got)
		got = got[:n]
	}
	for _, op := range a.ops {
		switch op[0] {
		case "hs":
			r.Header.Set(op[1], op[2])
		case "ha":
			r.Header.Add(op[1], op[2])
		case "hd":
			r.Header.Del(op[1])
		case "hp": // append to the slice in place (reuses spare capacity if the slice has any)
			r.Header[op[1]] = append(r.Header[op[1]], op[2])
		case "h0": // overwrite the first value in place
			if vs := r.Header[op[1]]; len(vs) > 0 {
				vs[0] = op[2]
			}
		case "hl": // overwrite the last value in place
			if vs := r.Header[op[1]]; len(vs) > 0 {
				vs[len(vs)-1] = op[2]
			}
		}
	}
	if a.setURL != "" {
		r.URL.Path = a.setURL
		r.URL.RawPath = ""
		r.URL.RawQuery = ""
		r.URL.ForceQuery = false
	}
	for _, kv := range a.respHdr {
		w.Header().Add(kv[0], kv[1])
	}
	if a.status >= 0 {
		w.WriteHeader(a.status)
	}
	for i, p := range a.writes {
		switch a.whow[i] {
		case "wc": // source without WriteTo: io.Copy uses the writer's ReadFrom when it offers one
			_, _ = io.Copy(w, hideReader{bytes.NewReader(p)})
		case "wn":
			_, _ = io.CopyN(w, hideReader{bytes.NewReader(p)}, int64(len(p)))
		case "ws":
			_, _ = io.WriteString(w, string(p))
		case "wf":
			_, _ = fmt.Fprintf(w, "%s", p)
		default:
			_, _ = w.Write(p)
		}
	}
	for _, kv := range a.lateHdr {
		w.Header().Add(kv[0], kv[1])
	}
	if a.lateSt >= 0 {
		w.WriteHeader(a.lateSt)
	}
	if a.flush {
		if fl, ok := w.(http.Flusher); ok {
			fl.Flush()
		}
	}
	ex.views = append(ex.views, view+"|rd="+showBytes(got)+"|tf="+strconv.Itoa(s.tmpCount()))
	if a.panics {
		ex.panicked = true
		panic(http.ErrAbortHandler)
	}
	if a.hijack {
		if h, ok := w.(http.Hijacker); ok {
			conn, _, err := h.Hijack()
			if err == nil {
				ex.hijacked = true
				_, _ = conn.Write([]byte("HTTP/1.1 299 HJ\r\nContent-Length: 0\r\nConnection: close\r\n\r\n"))
				_ = conn.Close()
			}
		}
	}
}

var tokenSeq int

type origURLKey struct{}


// envClass recognises local-port exhaustion (many harness processes, sockets in TIME_WAIT).
func envClass(err error) string {
	switch {
	case errors.Is(err, syscall.EADDRINUSE):
		return "addr-in-use"
	case errors.Is(err, syscall.EADDRNOTAVAIL):
		return "addr-not-available"
	}
	return ""
}

// dialNoTimeWait dials with a few retries when no local port is available and makes the connection close with
// RST (linger 0): the server has keep-alives off, so every exchange would otherwise leave a socket in TIME_WAIT.
func dialNoTimeWait(ctx context.Context, network, addr string) (net.Conn, error) {
	var d net.Dialer
	var c net.Conn
	var err error
	for try := 0; try < 6; try++ {
		c, err = d.DialContext(ctx, network, addr)
		if err == nil || envClass(err) == "" {
			break
		}
		select {
		case <-ctx.Done():
			return nil, err
		case <-time.After(time.Duration(50*(try+1)) * time.Millisecond):
		}
	}
	if err != nil {
		return nil, err
	}
	if t, ok := c.(*net.TCPConn); ok {
		_ = t.SetLinger(0)
	}
	return c, nil
}

type hideReader struct{ r io.Reader }

func (h hideReader) Read(p []byte) (int, error) { return h.r.Read(p) }

func (s *scen) doReq(f []string) string {
	if len(f) < 6 {
		return "bad-op"
	}
	method, url, framing := f[1], f[2], f[3]
	n, seed := hx.Atoi(f[4]), uint64(hx.Atoi64(f[5]))
	if framing != "cl" && framing != "ch" {
		return "bad-op"
	}
	tokenSeq++
	ex := &exchange{done: make(chan struct{}), token: fmt.Sprintf("%d-%d", os.Getpid(), tokenSeq)}
	for _, t := range f[6:] {
		if strings.HasPrefix(t, "a=") {
			ex.atts = append(ex.atts, parseAttempt(t[2:]))
		}
	}
	if fr, _ := hx.KV(f[6:], "fr"); fr == "u0" {
		if framing != "ch" {
			return "bad-op"
		}
		ex.unknown0 = true
	}
	body := expand(n, seed)
	req, err := http.NewRequest(method, s.srv.URL+url, nil)
	if err != nil {
		return "bad-op"
	}
	if framing == "ch" {
		req.Body = io.NopCloser(hideReader{bytes.NewReader(body)})
		req.ContentLength = -1
	} else if n > 0 {
		req.Body = io.NopCloser(bytes.NewReader(body))
		req.ContentLength = int64(n)
	}
	req.Header.Set("User-Agent", "hx")
	switch ct, _ := hx.KV(f[6:], "ct"); ct {
	case "form":
		req.Header.Set("Content-Type", "application/x-www-form-urlencoded")
	case "multipart":
		req.Header.Set("Content-Type", "multipart/form-data; boundary=hxb")
	}
	req.Header.Set("Hx-Token", ex.token)
	if h, ok := hx.KV(f[6:], "h"); ok && h != "-" {
		for _, kv := range strings.Split(h, ";") {
			p := strings.Split(kv, ":")
			if len(p) != 2 {
				return "bad-op"
			}
			req.Header.Add(p[0], p[1])
		}
	}
	s.mu.Lock()
	s.cur = ex
	s.mu.Unlock()
	client := &http.Client{
		Transport:     &http.Transport{DisableKeepAlives: true, DisableCompression: true, DialContext: dialNoTimeWait},
		Timeout:       4 * time.Second,
		CheckRedirect: func(*http.Request, []*http.Request) error { return http.ErrUseLastResponse },
	}
	resp, err := client.Do(req)
	cl := "ok"
	var cbody []byte
	if err != nil {
		if class := envClass(err); class != "" {
			// the machine ran out of local ports: an environment failure, not something Buffer did
			client.CloseIdleConnections()
			return "env-error " + class
		}
		cl = "ERR"
		if ex.panicked {
			cl = "aborted" // the handler panicked: net/http drops the connection, nothing was written
		}
	} else {
		cbody, err = io.ReadAll(resp.Body)
		resp.Body.Close()
		if err != nil {
			cl = "ERRBODY"
		}
	}
	client.CloseIdleConnections()
	// the server goroutine may still be inside ServeHTTP (deferred closes, a hijacking handler) after the
	// client has its response: wait until Buffer.ServeHTTP has returned
	select {
	case <-ex.done:
	case <-time.After(3 * time.Second):
		return "timeout-server"
	}
	left := s.tmpCount()
	w := "none"
	if ex.wrote {
		w = fmt.Sprintf("%d|%s|%s", ex.status, showHeader(ex.hdr, false), showBytes(ex.body))
	}
	if cl == "ok" {
		switch {
		case ex.panicked:
			cl = fmt.Sprintf("MISMATCH(panic-answered:%d)", resp.StatusCode)
		case ex.hijacked:
			if resp.StatusCode != 299 {
				cl = fmt.Sprintf("MISMATCH(hijack:%d)", resp.StatusCode)
			}
		case !ex.wrote:
			cl = fmt.Sprintf("MISMATCH(nowrite:%d)", resp.StatusCode)
		default:
			wantStatus := ex.status
			if wantStatus >= 100 && wantStatus < 200 {
				wantStatus = 200 // net/http sends 1xx as informational and then the implicit 200
			}
			wantBody := ex.body
			if method == "HEAD" || ex.status == 204 || ex.status == 304 || (ex.status >= 100 && ex.status < 200) {
				wantBody = nil
			}
			if resp.StatusCode != wantStatus {
				cl = fmt.Sprintf("MISMATCH(status:%d)", resp.StatusCode)
			} else if !bytes.Equal(cbody, wantBody) {
				cl = fmt.Sprintf("MISMATCH(body:%s)", showBytes(cbody))
			} else if showHeader(resp.Header, true) != showHeader(ex.hdr, true) {
				cl = fmt.Sprintf("MISMATCH(hdr:%s)", showHeader(resp.Header, true))
			}
		}
	}
	hij := "0"
	if ex.hijacked {
		hij = "1"
	}
	views := ""
	for _, v := range ex.views {
		views += " " + v
	}
	return fmt.Sprintf("inv=%d%s w=%s hij=%s cl=%s left=%d", ex.inv, views, w, hij, cl, left)
}

func (s *scen) Op(f []string) string {
	if s.buf == nil {
		return "no-buffer"
	}
	switch f[0] {
	case "req":
		return s.doReq(f)
	}
	return "bad-op"
}

func (s *scen) Close() {
	if s.srv != nil {
		s.srv.Close()
	}
	if s.tmp != "" {
		os.Setenv("TMPDIR", s.oldTmp)
		os.RemoveAll(s.tmp)
	}
}

func newScenario(cfg []string) (hx.Handler, string) {
	s := &scen{hj: hx.KVInt(cfg, "hj", 1) == 1}
	var opts []buffer.Option
	if v, ok := hx.KV(cfg, "maxreq"); ok {
		opts = append(opts, buffer.MaxRequestBodyBytes(hx.Atoi64(v)))
	}
	if v, ok := hx.KV(cfg, "memreq"); ok {
		opts = append(opts, buffer.MemRequestBodyBytes(hx.Atoi64(v)))
	}
	if v, ok := hx.KV(cfg, "maxresp"); ok {
		opts = append(opts, buffer.MaxResponseBodyBytes(hx.Atoi64(v)))
	}
	if v, ok := hx.KV(cfg, "memresp"); ok {
		opts = append(opts, buffer.MemResponseBodyBytes(hx.Atoi64(v)))
	}
	if v, ok := hx.KV(cfg, "retry"); ok {
		opts = append(opts, buffer.Retry(v))
	}
	if hx.KVInt(cfg, "verbose", 0) == 1 {
		opts = append(opts, buffer.Verbose(true))
	}
	// dn=: an oxy middleware that wraps the writer in utils.ProxyWriter between Buffer and the protected handler
	var next http.Handler = http.HandlerFunc(s.inner)
	switch dn, _ := hx.KV(cfg, "dn"); dn {
	case "trace":
		tr, err := trace.New(next, io.Discard)
		if err != nil {
			panic(err)
		}
		next = tr
	case "cbreaker":
		cb, err := cbreaker.New(next, "NetworkErrorRatio() > 1.5")
		if err != nil {
			panic(err)
		}
		next = cb
	}
	b, err := buffer.New(next, opts...)
	if err != nil {
		return s, "err expr"
	}
	s.buf = b
	s.entry = b
	switch up, _ := hx.KV(cfg, "up"); up {
	case "stream-verbose":
		st, err := stream.New(b, stream.Verbose(true))
		if err != nil {
			panic(err)
		}
		s.entry = st
	case "rr-verbose":
		// the balancer replaces req.URL by the chosen server's URL on its shallow copy: put the client's URL back
		// before Buffer, only the balancer's verbose request dump is of interest here
		restore := http.HandlerFunc(func(w http.ResponseWriter, r *http.Request) {
			if u, ok := r.Context().Value(origURLKey{}).(*url.URL); ok {
				r.URL = u
			}
			b.ServeHTTP(w, r)
		})
		rr, err := roundrobin.New(restore, roundrobin.Verbose(true))
		if err != nil {
			panic(err)
		}
		if err := rr.UpsertServer(&url.URL{Scheme: "http", Host: "backend.invalid"}); err != nil {
			panic(err)
		}
		s.entry = http.HandlerFunc(func(w http.ResponseWriter, r *http.Request) {
			rr.ServeHTTP(w, r.WithContext(context.WithValue(r.Context(), origURLKey{}, r.URL)))
		})
	}
	s.oldTmp = os.Getenv("TMPDIR")
	dir, err := os.MkdirTemp("", "c06-")
	if err != nil {
		panic(err)
	}
	s.tmp = dir
	os.Setenv("TMPDIR", dir)
	s.srv = hx.NewUnstartedServer(http.HandlerFunc(s.outer))
	s.srv.Config.ErrorLog = log.New(io.Discard, "", 0)
	s.srv.Config.SetKeepAlivesEnabled(false)
	s.srv.Start()
	return s, "ok"
}

func main() { hx.Main(newScenario) }
