// Package fx holds the loopback plumbing shared by the forwarder harnesses (c08, c16): the
// op-line byte escaping, a raw TCP backend that records exactly the bytes it was sent and answers
// with scripted bytes, and a raw TCP client that writes request bytes and reads whatever comes back.
// Nothing here touches the code under test.
package fx

import (
	"bufio"
	"bytes"
	"crypto/sha256"
	"encoding/hex"
	"errors"
	"fmt"
	"io"
	"math/rand"
	"net"
	"net/http"
	"sort"
	"strconv"
	"strings"
	"sync"
	"time"
)

// PE escapes raw bytes for an op/output line: printable ASCII except '%', '|' and space is kept,
// every other byte becomes %XX (upper-case hex).  The Lean driver implements the same function.
func PE(s string) string {
	var b strings.Builder
	for i := 0; i < len(s); i++ {
		c := s[i]
		if c > 0x20 && c < 0x7f && c != '%' && c != '|' {
			b.WriteByte(c)
		} else {
			fmt.Fprintf(&b, "%%%02X", c)
		}
	}
	return b.String()
}

// UnPE is the inverse of PE; ok is false on a malformed escape.
func UnPE(s string) (string, bool) {
	var b strings.Builder
	for i := 0; i < len(s); i++ {
		if s[i] != '%' {
			b.WriteByte(s[i])
			continue
		}
		if i+3 > len(s) {
			return "", false
		}
		v, err := strconv.ParseUint(s[i+1:i+3], 16, 8)
		if err != nil {
			return "", false
		}
		b.WriteByte(byte(v))
		i += 2
	}
	return b.String(), true
}

// HV is one header line as seen on the wire.
type HV struct{ Name, Value string }

// ParseHV parses the tokens "<key>=Name:pe(value)" of an op line, in order.
func ParseHV(f []string, key string) ([]HV, bool) {
	var out []HV
	for _, t := range f {
		if !strings.HasPrefix(t, key+"=") {
			continue
		}
		nv := t[len(key)+1:]
		i := strings.IndexByte(nv, ':')
		if i <= 0 {
			return nil, false
		}
		v, ok := UnPE(nv[i+1:])
		if !ok {
			return nil, false
		}
		out = append(out, HV{nv[:i], v})
	}
	return out, true
}

// CanonHeaders prints header lines grouped by name (names sorted, values in wire order):
// "Name:v1|v2 Name2:v".  drop decides which lines are left out.
func CanonHeaders(hs []HV, drop func(HV) bool) string {
	m := map[string][]string{}
	for _, h := range hs {
		if drop != nil && drop(h) {
			continue
		}
		m[h.Name] = append(m[h.Name], PE(h.Value))
	}
	names := make([]string, 0, len(m))
	for k := range m {
		names = append(names, k)
	}
	sort.Strings(names)
	parts := make([]string, 0, len(names))
	for _, k := range names {
		parts = append(parts, k+":"+strings.Join(m[k], "|"))
	}
	return strings.Join(parts, " ")
}

// ClientDrop leaves out what the proxy's own HTTP server adds for its hop to the client: Date, the
// body framing (Content-Length, Transfer-Encoding) and "Connection: close" / "Connection: keep-alive" (the latter
// is what net/http answers to an HTTP/1.0 keep-alive client).
func ClientDrop(h HV) bool {
	switch h.Name {
	case "Date", "Content-Length", "Transfer-Encoding":
		return true
	case "Connection":
		return h.Value == "close" || h.Value == "keep-alive"
	}
	return false
}

// Body is the deterministic body of n bytes for a seed: period 251 (prime, never aligned with buffers).
func Body(seed, n int) []byte {
	blk := make([]byte, 251)
	for j := range blk {
		blk[j] = byte((seed + j*13) & 255)
	}
	out := make([]byte, 0, n+251)
	for len(out) < n {
		out = append(out, blk...)
	}
	return out[:n]
}

// Sum is the canonical body descriptor len:sha256prefix.
func Sum(b []byte) string {
	s := sha256.Sum256(b)
	return fmt.Sprintf("%d:%s", len(b), hex.EncodeToString(s[:6]))
}

// ---------------------------------------------------------------------------------------------
// raw backend

// RawReq is a request exactly as it arrived at the backend.
type RawReq struct {
	Method, Target, Proto string
	Headers               []HV
	Body                  []byte
}

// Host returns the Host header values joined (normally exactly one).
func (r *RawReq) Host() string {
	var v []string
	for _, h := range r.Headers {
		if h.Name == "Host" {
			v = append(v, h.Value)
		}
	}
	return strings.Join(v, "|")
}

func readHead(br *bufio.Reader, raw *bytes.Buffer) (first string, hs []HV, err error) {
	line, err := br.ReadString('\n')
	if err != nil {
		return "", nil, err
	}
	if raw != nil {
		raw.WriteString(line)
	}
	first = strings.TrimRight(line, "\r\n")
	for {
		line, err = br.ReadString('\n')
		if err != nil {
			return "", nil, err
		}
		if raw != nil {
			raw.WriteString(line)
		}
		line = strings.TrimRight(line, "\r\n")
		if line == "" {
			return first, hs, nil
		}
		i := strings.IndexByte(line, ':')
		if i < 0 {
			return "", nil, errors.New("bad header line")
		}
		hs = append(hs, HV{line[:i], strings.Trim(line[i+1:], " \t")})
	}
}

// ReadReq reads one request (head + Content-Length body; a chunked body is read and de-chunked).
func ReadReq(br *bufio.Reader) (*RawReq, error) {
	first, hs, err := readHead(br, nil)
	if err != nil {
		return nil, err
	}
	p := strings.SplitN(first, " ", 3)
	if len(p) != 3 {
		return nil, errors.New("bad request line")
	}
	r := &RawReq{Method: p[0], Target: p[1], Proto: p[2], Headers: hs}
	for _, h := range hs {
		if h.Name == "Content-Length" {
			n, err := strconv.Atoi(h.Value)
			if err != nil {
				return nil, err
			}
			r.Body = make([]byte, n)
			if _, err := io.ReadFull(br, r.Body); err != nil {
				return nil, err
			}
		}
		if h.Name == "Transfer-Encoding" && h.Value == "chunked" {
			b, err := io.ReadAll(httpChunked(br))
			if err != nil {
				return nil, err
			}
			r.Body = b
		}
	}
	return r, nil
}

func httpChunked(br *bufio.Reader) io.Reader {
	// reuse net/http's de-chunker through a synthetic response
	pr, pw := io.Pipe()
	go func() {
		for {
			line, err := br.ReadString('\n')
			if err != nil {
				pw.CloseWithError(err)
				return
			}
			n, err := strconv.ParseUint(strings.TrimSpace(strings.SplitN(line, ";", 2)[0]), 16, 32)
			if err != nil {
				pw.CloseWithError(err)
				return
			}
			if n == 0 {
				for { // trailers up to the empty line
					l, err := br.ReadString('\n')
					if err != nil || strings.TrimRight(l, "\r\n") == "" {
						break
					}
				}
				pw.Close()
				return
			}
			if _, err := io.CopyN(pw, br, int64(n)); err != nil {
				pw.CloseWithError(err)
				return
			}
			br.ReadString('\n')
		}
	}()
	return pr
}

// Backend is a loopback TCP server.  For every request read from a connection the current script is
// called; it returns false to stop serving that connection (the script closes it however it wants).
type Backend struct {
	Ln   net.Listener
	Addr string

	mu     sync.Mutex
	script func(c net.Conn, br *bufio.Reader, r *RawReq) bool
	conns  map[net.Conn]struct{}
	closed bool
}

// Listen retries for a while when the loopback port range is momentarily exhausted.
func Listen() (net.Listener, error) {
	ln, err := net.Listen("tcp", "127.0.0.1:0")
	if err == nil {
		return ln, nil
	}
	// ephemeral range full of TIME_WAIT sockets (many harnesses share the host): take a port below it
	for i := 0; i < 200; i++ {
		port := 10000 + rand.Intn(22000)
		if ln, err = net.Listen("tcp", fmt.Sprintf("127.0.0.1:%d", port)); err == nil {
			return ln, nil
		}
		if i > 100 {
			time.Sleep(20 * time.Millisecond)
		}
	}
	return nil, err
}

func NewBackend() (*Backend, error) {
	ln, err := Listen()
	if err != nil {
		return nil, err
	}
	b := &Backend{Ln: ln, Addr: ln.Addr().String(), conns: map[net.Conn]struct{}{}}
	go b.loop()
	return b, nil
}

func (b *Backend) SetScript(s func(c net.Conn, br *bufio.Reader, r *RawReq) bool) {
	b.mu.Lock()
	b.script = s
	b.mu.Unlock()
}

func (b *Backend) loop() {
	for {
		c, err := b.Ln.Accept()
		if err != nil {
			return
		}
		b.mu.Lock()
		if b.closed {
			b.mu.Unlock()
			c.Close()
			return
		}
		b.conns[c] = struct{}{}
		b.mu.Unlock()
		go func() {
			defer func() {
				b.mu.Lock()
				delete(b.conns, c)
				b.mu.Unlock()
				c.Close()
			}()
			br := bufio.NewReader(c)
			for {
				r, err := ReadReq(br)
				if err != nil {
					return
				}
				b.mu.Lock()
				s := b.script
				b.mu.Unlock()
				if s == nil || !s(c, br, r) {
					return
				}
			}
		}()
	}
}

func (b *Backend) Close() {
	b.mu.Lock()
	b.closed = true
	for c := range b.conns {
		c.Close()
	}
	b.mu.Unlock()
	b.Ln.Close()
}

// Reset closes a TCP connection with RST instead of FIN.
func Reset(c net.Conn) {
	if t, ok := c.(*net.TCPConn); ok {
		t.SetLinger(0)
	}
	c.Close()
}

// ClosedAddr returns a loopback address on which nothing listens: the reserved port 1 (tcpmux). A port obtained
// by listen+close would be handed to a neighbouring harness process within milliseconds.
func ClosedAddr() string { return "127.0.0.1:1" }

// ---------------------------------------------------------------------------------------------
// raw client

// Result is what a client saw on its connection.
type Result struct {
	Head     bool  // a complete (final) response head arrived
	Interim  []int // status codes of 1xx responses seen before it
	Status   int
	Headers  []HV
	Body     []byte
	Complete bool // the body ended the way its framing announced
}

// HeadHook, when set, is called by Do as soon as the final response head has been read, before any body byte is awaited.
var HeadHook func()

// Do writes raw request bytes to addr and reads one response.  afterWrite (optional) runs after the
// request has been written and may close the connection (client going away); in that case Do returns
// an empty Result.
func Do(addr, method string, raw []byte, deadline time.Duration, afterWrite func(c net.Conn) bool) (Result, error) {
	c, err := net.DialTimeout("tcp", addr, deadline)
	for i := 0; err != nil && i < 20; i++ { // EADDRNOTAVAIL under port pressure
		time.Sleep(25 * time.Millisecond)
		c, err = net.DialTimeout("tcp", addr, deadline)
	}
	if err != nil {
		return Result{}, err
	}
	// close with RST: thousands of short client connections must not pile up in TIME_WAIT
	defer Reset(c)
	c.SetDeadline(time.Now().Add(deadline))
	if _, err := c.Write(raw); err != nil {
		return Result{}, err
	}
	if afterWrite != nil && !afterWrite(c) {
		return Result{}, nil
	}
	var res Result
	br := bufio.NewReader(c)
	var headBuf bytes.Buffer
	first, hs, err := readHead(br, &headBuf)
	if err != nil {
		return res, nil // no (complete) head: connection closed / reset
	}
	p := strings.SplitN(first, " ", 3)
	if len(p) >= 2 {
		res.Status, _ = strconv.Atoi(p[1])
	}
	for res.Status >= 100 && res.Status <= 199 && res.Status != 101 {
		// an interim response: remember it and read the next head (the bytes consumed so far are exactly its lines)
		res.Interim = append(res.Interim, res.Status)
		headBuf.Reset()
		if first, hs, err = readHead(br, &headBuf); err != nil {
			return res, nil
		}
		p = strings.SplitN(first, " ", 3)
		res.Status = 0
		if len(p) >= 2 {
			res.Status, _ = strconv.Atoi(p[1])
		}
	}
	res.Head = true
	res.Headers = hs
	if h := HeadHook; h != nil {
		h()
	}
	// body: let net/http interpret the framing of the very same bytes
	full := io.MultiReader(bytes.NewReader(headBuf.Bytes()), br)
	resp, err := http.ReadResponse(bufio.NewReader(full), &http.Request{Method: method})
	if err != nil {
		return res, nil
	}
	body, err := io.ReadAll(resp.Body)
	res.Body = body
	res.Complete = err == nil
	return res, nil
}
