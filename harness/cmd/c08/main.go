// Command c08 drives a real forward.New(passHost) proxy (real net/http server on loopback) with raw
// request bytes and reports what two raw loopback backends received and what the client got back.
//
//	cfg pass=0|1 [up=none|rr-verbose|rb-debug|cb-verbose]
//	    up: what sits in front of the forwarder and installs the backend URL. none: a bare wrapper (req.URL = copy of the
//	    server URL); rr-verbose: a real roundrobin.RoundRobin with Verbose(true); rb-debug: a real Rebalancer with
//	    RebalancerDebug(true) over a RoundRobin; cb-verbose: a real CircuitBreaker with Verbose(true) over a RoundRobin.
//	    The op's be=A|B is realised by making that server the only pool member before the request.
//	req m=<METHOD> v=0|1 t=<pe target> host=<pe host>|host=- peer=<pe RemoteAddr> tls=0|1 be=A|B
//	    [body=<n>:<digest of fx.Body(1,n)>] [form=1] [h=Name:pe(value)]... rs=<status> [rh=Name:pe(value)]...
//	  -> <status> be=<A|B> m=<METHOD> t=<pe target> p=<proto> host=<pe Host> B <backend headers> C <client headers>
//	  -> <status> be=-                       (the proxy answered without reaching a backend)
//
// form=1: a handler of the caller in front of everything calls r.ParseForm() (req.Form != nil when the forwarder runs).
// The caller-chosen backend is installed the way oxy's balancers do it: a wrapping handler replaces
// req.URL by a copy of the server URL before the forwarder runs.  The peer address and TLS state of
// the incoming connection are forged in the same wrapper (req.RemoteAddr, req.TLS).
// X-Forwarded-Server values equal to os.Hostname() are printed as HOSTNAME.
package main

import (
	"bufio"
	"crypto/tls"
	"fmt"
	"io"
	"log"
	"net"
	"net/http"
	"net/http/httptest"
	"net/url"
	"os"
	"strings"
	"sync"
	"time"

	"github.com/vulcand/oxy/v2/cbreaker"
	"github.com/vulcand/oxy/v2/forward"
	"github.com/vulcand/oxy/v2/roundrobin"
	"github.com/vulcand/oxy/v2/utils"
	"github.com/vulcand/oxy/v2/zzverif/cmd/c08/fx"
	"github.com/vulcand/oxy/v2/zzverif/hx"
)

type op struct {
	form bool
	peer string
	tls  bool
	be   string
	rs   int
	rh   []fx.HV
}

type seen struct {
	be string
	r  *fx.RawReq
}

type h struct {
	mu    sync.Mutex
	cur   op
	srv   *httptest.Server
	tr    *http.Transport
	bes   map[string]*fx.Backend
	urls  map[string]*url.URL
	seenC chan seen
	// pool administration of the upstream balancer (nil for up=none)
	upsert func(*url.URL) error
	remove func(*url.URL) error
}

var hostname, _ = os.Hostname()

func newScenario(cfg []string) (hx.Handler, string) {
	s := &h{bes: map[string]*fx.Backend{}, urls: map[string]*url.URL{}, seenC: make(chan seen, 16)}
	for _, name := range []string{"A", "B"} {
		b, err := fx.NewBackend()
		if err != nil {
			return nil, "err " + err.Error()
		}
		name := name
		b.SetScript(func(c net.Conn, _ *bufio.Reader, r *fx.RawReq) bool {
			s.mu.Lock()
			o := s.cur
			s.mu.Unlock()
			s.seenC <- seen{name, r}
			var sb strings.Builder
			fmt.Fprintf(&sb, "HTTP/1.1 %d X\r\n", o.rs)
			for _, hv := range o.rh {
				fmt.Fprintf(&sb, "%s: %s\r\n", hv.Name, hv.Value)
			}
			body := "ok"
			if o.rs == 204 || o.rs == 304 || r.Method == "HEAD" {
				body = ""
			}
			if o.rs != 204 && o.rs != 304 {
				fmt.Fprintf(&sb, "Content-Length: 2\r\n")
			}
			sb.WriteString("\r\n" + body)
			_, err := io.WriteString(c, sb.String())
			return err == nil
		})
		s.bes[name] = b
		s.urls[name] = &url.URL{Scheme: "http", Host: b.Addr}
	}
	pass := hx.KVInt(cfg, "pass", 0) == 1
	fwd := forward.New(pass)
	s.tr = &http.Transport{DisableCompression: true, MaxIdleConnsPerHost: 4, ResponseHeaderTimeout: 4 * time.Second}
	fwd.Transport = s.tr
	up, _ := hx.KV(cfg, "up")
	var next http.Handler // what the peer-forging wrapper hands the request to
	nop := &utils.NoopLogger{}
	switch up {
	case "", "none":
		next = http.HandlerFunc(func(w http.ResponseWriter, r *http.Request) {
			s.mu.Lock()
			o := s.cur
			s.mu.Unlock()
			r.URL = utils.CopyURL(s.urls[o.be])
			fwd.ServeHTTP(w, r)
		})
	case "rr-verbose":
		rr, err := roundrobin.New(fwd, roundrobin.Verbose(true), roundrobin.Logger(nop))
		if err != nil {
			return nil, "err " + err.Error()
		}
		s.upsert = func(u *url.URL) error { return rr.UpsertServer(u) }
		s.remove = rr.RemoveServer
		next = rr
	case "rb-debug":
		rr, err := roundrobin.New(fwd)
		if err != nil {
			return nil, "err " + err.Error()
		}
		rb, err := roundrobin.NewRebalancer(rr, roundrobin.RebalancerDebug(true), roundrobin.RebalancerLogger(nop))
		if err != nil {
			return nil, "err " + err.Error()
		}
		s.upsert = func(u *url.URL) error { return rb.UpsertServer(u) }
		s.remove = rb.RemoveServer
		next = rb
	case "cb-verbose":
		rr, err := roundrobin.New(fwd)
		if err != nil {
			return nil, "err " + err.Error()
		}
		// a condition that never holds (a ratio is at most 1): scripted 502/504 statuses must not trip the breaker
		cb, err := cbreaker.New(rr, "NetworkErrorRatio() > 1.5", cbreaker.Verbose(true), cbreaker.Logger(nop))
		if err != nil {
			return nil, "err " + err.Error()
		}
		s.upsert = func(u *url.URL) error { return rr.UpsertServer(u) }
		s.remove = rr.RemoveServer
		next = cb
	default:
		return nil, "bad-op"
	}
	wrap := http.HandlerFunc(func(w http.ResponseWriter, r *http.Request) {
		s.mu.Lock()
		o := s.cur
		s.mu.Unlock()
		r.RemoteAddr = o.peer
		if o.tls {
			r.TLS = &tls.ConnectionState{}
		}
		if o.form {
			_ = r.ParseForm() // what a user's own middleware does when it looks at a form value
		}
		next.ServeHTTP(w, r)
	})
	s.srv = hx.NewUnstartedServer(wrap)
	if ln, err := fx.Listen(); err == nil {
		s.srv.Listener.Close()
		s.srv.Listener = ln
	}
	s.srv.Config.ErrorLog = log.New(io.Discard, "", 0)
	s.srv.Start()
	return s, "ok"
}

func (s *h) Close() {
	s.srv.CloseClientConnections()
	s.srv.Close()
	s.tr.CloseIdleConnections()
	for _, b := range s.bes {
		b.Close()
	}
}

func (s *h) Op(f []string) string {
	if f[0] != "req" {
		return "bad-op"
	}
	m, _ := hx.KV(f, "m")
	tpe, ok1 := hx.KV(f, "t")
	hostpe, ok2 := hx.KV(f, "host")
	peerpe, ok3 := hx.KV(f, "peer")
	be, _ := hx.KV(f, "be")
	if m == "" || !ok1 || !ok2 || !ok3 || s.urls[be] == nil {
		return "bad-op"
	}
	target, ok := fx.UnPE(tpe)
	peer, okp := fx.UnPE(peerpe)
	hs, okh := fx.ParseHV(f, "h")
	rh, okr := fx.ParseHV(f, "rh")
	if !ok || !okp || !okh || !okr {
		return "bad-op"
	}
	var raw strings.Builder
	fmt.Fprintf(&raw, "%s %s HTTP/1.%d\r\n", m, target, hx.KVInt(f, "v", 1))
	if hostpe != "-" {
		host, ok := fx.UnPE(hostpe)
		if !ok {
			return "bad-op"
		}
		fmt.Fprintf(&raw, "Host: %s\r\n", host)
	}
	for _, hv := range hs {
		fmt.Fprintf(&raw, "%s: %s\r\n", hv.Name, hv.Value)
	}
	n := 0
	if b, ok := hx.KV(f, "body"); ok {
		n = hx.Atoi(strings.SplitN(b, ":", 2)[0])
	}
	if n > 0 {
		fmt.Fprintf(&raw, "Content-Length: %d\r\n", n)
	}
	raw.WriteString("\r\n")
	raw.Write(fx.Body(1, n))

	s.mu.Lock()
	s.cur = op{form: hx.KVInt(f, "form", 0) == 1, peer: peer, tls: hx.KVInt(f, "tls", 0) == 1, be: be, rs: hx.KVInt(f, "rs", 200), rh: rh}
	s.mu.Unlock()
	for len(s.seenC) > 0 {
		<-s.seenC
	}
	if s.upsert != nil { // the caller's choice of backend, expressed through the balancer's pool
		if err := s.upsert(s.urls[be]); err != nil {
			return "err upsert " + err.Error()
		}
		for name, u := range s.urls {
			if name != be {
				_ = s.remove(u)
			}
		}
	}
	res, err := fx.Do(s.srv.Listener.Addr().String(), m, []byte(raw.String()), 4*time.Second, nil)
	if err != nil {
		return "err client " + strings.ReplaceAll(err.Error(), " ", "_")
	}
	if !res.Head {
		return "eof"
	}
	var got *seen
	select {
	case g := <-s.seenC:
		got = &g
	default:
	}
	if got == nil {
		return fmt.Sprintf("%d be=-", res.Status)
	}
	r := got.r
	bh := fx.CanonHeaders(mapServer(r.Headers), func(h fx.HV) bool { return h.Name == "Host" })
	ch := fx.CanonHeaders(res.Headers, fx.ClientDrop)
	out := fmt.Sprintf("%d be=%s m=%s t=%s p=%s host=%s B %s C %s", res.Status, got.be, r.Method, fx.PE(r.Target), r.Proto, fx.PE(s.mapHost(r.Host())), bh, ch)
	if n > 0 {
		out += " body=" + fx.Sum(r.Body)
	}
	return strings.Join(strings.Fields(out), " ")
}

// mapHost prints a backend's own address as @A / @B.
func (s *h) mapHost(v string) string {
	for name, u := range s.urls {
		if v == u.Host {
			return "@" + name
		}
	}
	return v
}

func mapServer(hs []fx.HV) []fx.HV {
	out := make([]fx.HV, len(hs))
	for i, hv := range hs {
		if hv.Name == "X-Forwarded-Server" && hv.Value == hostname {
			hv.Value = "HOSTNAME"
		}
		out[i] = hv
	}
	return out
}

func main() { hx.Main(newScenario) }
