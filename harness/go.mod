module github.com/vulcand/oxy/v2/zzverif

go 1.23.0

require github.com/vulcand/oxy/v2 v2.0.0

require (
	github.com/HdrHistogram/hdrhistogram-go v1.1.2 // indirect
	github.com/segmentio/fasthash v1.0.3 // indirect
)

replace github.com/vulcand/oxy/v2 => /repo
