module github.com/vulcand/oxy/v2/zzverif

go 1.23.0

require github.com/vulcand/oxy/v2 v2.0.0

require (
	github.com/HdrHistogram/hdrhistogram-go v1.1.2 // indirect
	github.com/gravitational/trace v1.1.16-0.20220114165159-14a9a7dd6aaf // indirect
	github.com/jonboulle/clockwork v0.4.0 // indirect
	github.com/mailgun/multibuf v0.1.2 // indirect
	github.com/segmentio/fasthash v1.0.3 // indirect
	github.com/sirupsen/logrus v1.9.3 // indirect
	github.com/vulcand/predicate v1.2.0 // indirect
	golang.org/x/crypto v0.36.0 // indirect
	golang.org/x/net v0.37.0 // indirect
	golang.org/x/sys v0.31.0 // indirect
	golang.org/x/term v0.30.0 // indirect
)

replace github.com/vulcand/oxy/v2 => /repo
