"""C01 — weighted round-robin selection is exactly proportional to the weights."""
import itertools
import math
from functools import reduce

ID = "C01"
HARNESS = "c01"
DRIVER = "c01"
PROPS_MODULE = "OxyModel.Props.C01"
AUDIT = "OxyModel/Audit/C01.lean"
THEOREMS = ["C01.C01_window", "C01.C01_selects_positive", "C01.C01_zero_never", "C01.C01_share",
            "C01.C01_all_zero_error", "C01.C01_empty_error", "C01.C01_change_resets",
            "C01.C01_after_any_history", "C01.C01_concurrent", "C01.C01_upsert_options", "C01.C01_failed_upsert_weight", "C01.C01_nextFrom_eq_next"]
RACE = True
RULE = ("scenario = random history of upsert/remove on 1-8 servers followed by runs of next / pnext; "
        "non-trivial = pool with >= 2 servers and not all weights equal, and a run of >= W consecutive selections")
ASSUMPTIONS = ["weights fit in Go int (generator stays below 2^31)",
               "atomicity of nextServer/UpsertServer/RemoveServer under RoundRobin.mutex is the C09 lock-discipline obligation; concurrent callers are exercised by pnext (thorough: -race build)"]
WEIGHTS = [0, 1, 1, 2, 3, 4, 5, 6, 8, 9, 12, 15, 97, 100, 1000, 4096]


def gen(rng, tier):
    n_scen = {"quick": 300, "thorough": 3000, "search": 400}.get(tier, 300)
    # concurrent callers: many goroutines hammering NextServer on a pool with unequal / zero weights;
    # a selection that is not atomic loses iterator updates and the combined counts leave the window law
    for _ in range({"quick": 24, "thorough": 120, "search": 40}.get(tier, 24)):
        lines = ["cfg rr"]
        ws = rng.choice([[5, 1, 0], [3, 2], [7, 1, 1, 0], [2, 4, 6, 0, 1], [1, 1, 1], [97, 1], [4, 0, 0, 3]])
        for i, w in enumerate(ws):
            lines += ["upsert k%d 1" % i, "upsert k%d %d" % (i, w)]
        for _ in range(rng.randint(2, 4)):
            lines.append("pnext 16 %d" % rng.choice([500, 1500, 3000]))
            lines += ["next"] * (2 * sum(ws))
        yield lines
    for _ in range(n_scen):
        lines = ["cfg rr"]
        nkeys = rng.randint(1, 8)
        keys = ["k%d" % i for i in range(nkeys)]
        style = rng.random()
        if style < 0.15:
            base = rng.choice([1, 2, 3, 6, 50])
            pick = lambda: base * rng.choice([0, 1, 1, 2, 3])
        elif style < 0.3:
            pick = lambda: rng.choice([1, 1, 1, 2])
        elif style < 0.4:
            pick = lambda: rng.choice([0, 0, 0, 5])
        else:
            pick = lambda: rng.choice(WEIGHTS)
        pool = {}
        for _ in range(rng.randint(1, 4)):
            # a burst of pool changes
            for _ in range(rng.randint(1, nkeys + 2)):
                k = rng.choice(keys)
                r = rng.random()
                if r < 0.12:
                    lines.append("remove " + k)
                    pool.pop(k, None)
                elif r < 0.2:
                    lines.append("upsert " + k)
                    pool.setdefault(k, 1)
                elif r < 0.23:
                    lines.append("upsert %s -%d" % (k, rng.randint(1, 3)))
                elif r < 0.29:
                    # several Weight options in one call; sometimes the last one is invalid (the call fails half-way)
                    xs = [pick() for _ in range(rng.randint(1, 3))]
                    if rng.random() < 0.6:
                        xs.append(-rng.randint(1, 3))
                    lines.append("upserts %s %s" % (k, " ".join(map(str, xs))))
                    if k in pool:
                        for x in xs:
                            if x < 0:
                                break
                            pool[k] = x
                    elif all(x >= 0 for x in xs):
                        pool[k] = xs[-1] or 1
                else:
                    w = pick()
                    lines.append("upsert %s %d" % (k, w))
                    pool[k] = w if (k in pool or w != 0) else 1
                if rng.random() < 0.1:
                    lines.append("weight " + rng.choice(keys))
            ws = list(pool.values())
            W = (sum(ws) // reduce(math.gcd, ws, 0)) if any(ws) else 3
            W = min(W, 400)
            if rng.random() < 0.2:
                c = rng.randint(2, 6)
                lines.append("pnext %d %d" % (c, rng.randint(1, max(1, 2 * W // c + 2))))
            k = rng.randint(0, W) + W * rng.choice([1, 1, 2, 3])
            if rng.random() < 0.3:
                # callers that rewrite the URL they were handed; the pool (and later updates of existing servers) must not notice
                lines += [rng.choice(["next", "nextm"]) for _ in range(k)]
                if pool:
                    kk = rng.choice(sorted(pool))
                    w = pick()
                    if rng.random() < 0.3:
                        lines.append("upserts %s %d -1" % (kk, w))  # fails after the new weight was written, mid-rotation
                    else:
                        lines.append("upsert %s %d" % (kk, w))
                    pool[kk] = w
                    ws2 = list(pool.values())
                    W2 = min((sum(ws2) // reduce(math.gcd, ws2, 0)) if any(ws2) else 3, 400)
                    lines += ["next"] * (2 * W2)
            else:
                lines += ["next"] * k
        yield lines


def exhaustive(tier):
    if tier != "thorough":
        return
    for n in range(1, 5):
        for ws in itertools.product(range(0, 7), repeat=n):
            lines = ["cfg rr"]
            # weight 0 for a new server means default weight 1: insert with 1 then update to 0
            for i, w in enumerate(ws):
                if w == 0:
                    lines += ["upsert k%d 1" % i, "upsert k%d 0" % i]
                else:
                    lines.append("upsert k%d %d" % (i, w))
            W = (sum(ws) // reduce(math.gcd, ws, 0)) if any(ws) else 2
            lines += ["next"] * (2 * W + 1)
            yield lines


def _ref_pool_events(ops, outs):
    """replay the administration calls on a reference pool; yield (kind, payload)"""
    pool = {}
    order = []
    run = []
    for l, o in zip(ops, outs):
        f = l.split()
        if f[0] in ("cfg",) or l.startswith("#"):
            continue
        if f[0] in ("next", "nextm"):
            run.append(o)
            continue
        if f[0] == "pnext":
            yield ("pnext", (dict(pool), int(f[1]) * int(f[2]), o, len(run)))
            run_len = int(f[1]) * int(f[2])
            # the iterator advanced by run_len calls: a following window is still a window, keep going
            yield ("run", (dict(pool), run))
            run = []
            continue
        if run:
            yield ("run", (dict(pool), run))
            run = []
        if f[0] == "upsert":
            if len(f) == 3 and f[2].startswith("-"):
                continue
            if o != "ok":
                continue
            if len(f) == 3:
                w = int(f[2])
                pool[f[1]] = w if (f[1] in pool or w != 0) else 1
            else:
                pool.setdefault(f[1], 1)
        elif f[0] == "upserts":
            # UpsertServer with several Weight options: they are applied one by one to a known server (a negative one stops
            # the call with an error, what was applied before it stays); a new server is only added when all succeeded
            xs = [int(x) for x in f[2:]]
            if f[1] in pool:
                for x in xs:
                    if x < 0:
                        break
                    pool[f[1]] = x
            elif o == "ok" and all(x >= 0 for x in xs):
                pool[f[1]] = (xs[-1] if xs else 0) or 1
        elif f[0] == "remove" and o == "ok":
            pool.pop(f[1], None)
    if run:
        yield ("run", (dict(pool), run))


def monitor(ops, outs):
    bad = []
    for kind, payload in _ref_pool_events(ops, outs):
        if kind == "run":
            pool, run = payload
            ws = list(pool.values())
            if not pool:
                if any(o != "err noservers" for o in run):
                    bad.append("empty-pool: selection on an empty pool did not fail: %s" % run[:3])
                continue
            if not any(ws):
                if any(not o.startswith("err") for o in run):
                    bad.append("all-zero: a zero-weight server was selected: %s" % run[:4])
                continue
            g = reduce(math.gcd, ws, 0)
            W = sum(ws) // g
            sel = []
            for o in run:
                if not o.startswith("ok "):
                    bad.append("error: selection failed on a servable pool: %r" % o)
                    break
                sel.append(o[3:])
            else:
                for k in set(sel):
                    if pool.get(k, 0) == 0:
                        bad.append("zero-weight: server %s (weight %s) selected" % (k, pool.get(k)))
                # every window of W consecutive selections
                if len(sel) >= W:
                    cnt = {}
                    for x in sel[:W]:
                        cnt[x] = cnt.get(x, 0) + 1
                    i = 0
                    while True:
                        for k, w in pool.items():
                            if cnt.get(k, 0) != w // g:
                                bad.append("window: offset %d length W=%d server %s chosen %d times, expected %d (weights %s)" % (i, W, k, cnt.get(k, 0), w // g, pool))
                                break
                        if bad or i + W >= len(sel):
                            break
                        cnt[sel[i]] -= 1
                        cnt[sel[i + W]] = cnt.get(sel[i + W], 0) + 1
                        i += 1
        elif kind == "pnext":
            pool, m, o, _ = payload
            ws = list(pool.values())
            if not pool or not any(ws):
                if "ok:" in o:
                    bad.append("pnext: selection on an unservable pool: %s" % o)
                continue
            g = reduce(math.gcd, ws, 0)
            W = sum(ws) // g
            counts = {}
            for t in o.split()[1:]:
                k, v = t.rsplit("=", 1)
                counts[k] = int(v)
            if sum(counts.values()) != m:
                bad.append("pnext: %d calls but %d results" % (m, sum(counts.values())))
            q = m // W
            for k, w in pool.items():
                c = counts.get("ok:" + k, 0)
                if not (q * (w // g) <= c <= (q + 1) * (w // g)):
                    bad.append("pnext: combined selections of concurrent callers: server %s chosen %d times in %d calls, W=%d share=%d" % (k, c, m, W, w // g))
            for k in counts:
                if not k.startswith("ok:") or k[3:] not in pool:
                    bad.append("pnext: unexpected result %s" % k)
        if bad:
            break
    return bad


def nontrivial(ops, outs):
    for kind, payload in _ref_pool_events(ops, outs):
        if kind == "run":
            pool, run = payload
            ws = list(pool.values())
            if len(ws) >= 2 and len(set(ws)) > 1 and any(ws):
                g = reduce(math.gcd, ws, 0)
                if len(run) >= sum(ws) // g:
                    return True
    return False


def describe(ops, outs, hist):
    for l, o in zip(ops, outs):
        f = l.split()
        hist["op:" + f[0]] += 1
        if o.startswith("err"):
            hist["out:" + o.replace(" ", "_")[:24]] += 1
    for kind, payload in _ref_pool_events(ops, outs):
        if kind == "run":
            hist["poolsize:%d" % len(payload[0])] += 1

MANIFEST = {
    "text": ("Proof: Lean 4 theorems C01_window / C01_share / C01_zero_never / C01_selects_positive / C01_after_any_history / C01_concurrent "
             "hold for every weight vector, every window offset, every prior history and every caller interleaving of the model RR.next "
             "(orbit + periodicity argument, no bound on sizes). The model is tied to roundrobin/rr.go by a differential run of the real "
             "RoundRobin and the compiled model on generated op sequences (thorough: all weight vectors n<=4,w<=6). UpsertServer with several "
             "Weight options, incl. the call that fails half-way (weights written, iterator not reset), is modelled (C01_upsert_options, "
             "C01_failed_upsert_weight, C01_nextFrom_eq_next)."),
    "note": ("Trusted: Lean kernel; propext/Classical.choice/Quot.sound; the hand-written model is validated against the code only on the "
             "generated scenarios; each NextServer call is assumed atomic (mutex held for the whole body: C09 lock facts); weights below 2^31. "
             "Partial in one corner: C01_after_any_history covers histories whose pool changes succeed; for the selections after a half-failed "
             "multi-option UpsertServer (pool changed without reset) the window law is checked by the monitor on every run and by a "
             "small-scope sweep, not proved (DESIGN §6 C01)."),
    "technique": "Lean 4 proof (orbit/periodicity induction) over executable model + differential correspondence with roundrobin.RoundRobin",
}
