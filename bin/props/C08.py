"""C08 — the forwarder rewrites the outgoing request as a correct reverse proxy."""
import hashlib
import re

ID = "C08"
HARNESS = "c08"
DRIVER = "c08"
PROPS_MODULE = "OxyModel.Props.C08"
AUDIT = "OxyModel/Audit/C08.lean"
THEOREMS = ["C08.C08_target_roundtrip", "C08.C08_target_roundtrip_absolute", "C08.C08_form_parsed_counterexample", "C08.C08_user_agent", "C08.C08_host", "C08.C08_hop_by_hop_removed", "C08.C08_end_to_end_preserved",
            "C08.C08_resp_hop_by_hop_removed_partial", "C08.C08_resp_standard_hop_removed", "C08.C08_resp_close_counterexample",
            "C08.C08_resp_end_to_end_preserved", "C08.C08_xfwd_survive", "C08.C08_xfwd_filled_iff_absent", "C08.C08_xff_appended"]
RACE = False
JOBS = 8
RULE = ("scenario = one forward.New(pass) proxy behind a real net/http server — directly, or behind a real roundrobin (Verbose), Rebalancer (debug) or "
        "CircuitBreaker (Verbose) that installs the backend URL — and two raw loopback backends; every op is one raw HTTP/1.x "
        "request (random valid RFC 3986 origin-form or absolute-form target, form-like queries with ';' '&' '+' and empty values, header set with hop-by-hop / Connection-named / forwarding / end-to-end "
        "headers, forged peer address form, TLS flag, Host form, chosen backend) plus a scripted backend response; non-trivial = a request "
        "that reached a backend whose target has a pct-escape or a query and whose header set has a Connection header or an upstream-supplied forwarding header")
ASSUMPTIONS = [
    "ASSUMPTION ABOUT THE CALLER: nothing in front of the forwarder has parsed the request's form (req.Form == nil; hypothesis `formParsed = false` of "
    "C08_target_roundtrip / _absolute). No oxy middleware does (a change that makes one do so is reported: seeded C08-r3-1). If the caller's own handler calls "
    "ParseForm/FormValue first, httputil.ReverseProxy runs cleanQueryParams on the outgoing query: one containing ';' or a malformed %-escape is re-encoded "
    "(such pairs dropped, keys sorted, values query-escaped) — documented stdlib behaviour, modelled (Fwd.formStep / FwdURL.cleanQueryParams), witnessed by "
    "C08_form_parsed_counterexample and corpus/C08/form-parsed-upstream.ops. Monitor clause: for an op with form=1 (the scenario itself parsed the form) the backend "
    "must receive path + that cleaning of the client's query; for every other op path and query must be byte-identical",
    "http.Transport writes URL.RequestURI(), Host and the header map as modelled by Fwd.Wire/wireHeader (DisableCompression: the harness transport does not add Accept-Encoding); Go's server-side request parsing; validated end-to-end by the diff, not verified",
    "headers the proxy emits itself for its own hop are not 'forwarded' hop-by-hop headers and are exempted exactly: to the backend `Te: trailers` iff the client's TE has the token trailers, `Connection: Upgrade` + `Upgrade: <client's first Upgrade value>` iff the client's Connection has the token upgrade and Upgrade is non-empty, Content-Length of the body sent; to the client Date, Content-Length/Transfer-Encoding framing and `Connection: close` of the proxy's own server",
    "X-Forwarded-Server is always this proxy's host name (properties.jsonl C08 mechanism 2: 'server name always set'), also when an upstream proxy supplied one",
    "'supplied by an upstream proxy' is read as the code reads it: Header.Get non-empty (first value not the empty string)",
    "IPv6 zones: X-Real-Ip must be the peer IP with the zone stripped (forward/rewrite.go ipv6fix, documented there; the monitor requires it); in X-Forwarded-For the stdlib appends the "
    "peer IP as net.SplitHostPort returns it (zone kept) — the statement only says 'the peer address', so the monitor accepts the appended element with or without the zone while the model and "
    "C08_xff_appended pin the zone-kept form (a change there shows as a correspondence divergence)",
    "User-Agent is written by http.Transport itself (first value only, nothing when empty): proved separately as C08_user_agent; Content-Length and Host are the transport's framing of the request it sends and are excluded from the header theorems",
    "targets the URL model does not cover are answered 'unmodelled' by the driver (never generated), not with a prediction",
    "request targets are ASCII; request bodies are Content-Length framed; response status is never 1xx; '*' and opaque targets, and absolute-form targets with userinfo or a bracketed IP literal as authority, are not modelled",
    "with an absolute-form target the Go server ignores the Host header and uses the target's authority as req.Host (RFC 7230 5.4); the monitor's 'client Host' is that effective host",
    "known finding resp_connection_close: net/http's Transport deletes a backend Connection header that contains 'close' before ReverseProxy reads it (C08_resp_hop_by_hop_removed_partial / C08_resp_close_counterexample)",
]
TRUSTED = ["raw loopback backend / client in /verif/harness/cmd/c08/fx (records and prints the bytes on the wire)"]

XH = ["X-Forwarded-Proto", "X-Forwarded-For", "X-Forwarded-Host", "X-Forwarded-Port", "X-Forwarded-Server", "X-Real-Ip"]
HOP = ["Connection", "Proxy-Connection", "Keep-Alive", "Proxy-Authenticate", "Proxy-Authorization", "Te", "Trailer",
       "Transfer-Encoding", "Upgrade"]
TCHAR = set("!#$%&'*+-.^_`|~0123456789abcdefghijklmnopqrstuvwxyzABCDEFGHIJKLMNOPQRSTUVWXYZ")


def pe(s):
    out = []
    for ch in s:
        c = ord(ch)
        if 0x20 < c < 0x7f and ch not in "%|":
            out.append(ch)
        else:
            out.append("%%%02X" % c)
    return "".join(out)


def unpe(s):
    return re.sub(r"%([0-9A-Fa-f]{2})", lambda m: chr(int(m.group(1), 16)), s)


def canon_key(name):
    if not name or any(c not in TCHAR for c in name):
        return name
    out, up = [], True
    for c in name:
        out.append(c.upper() if up else c.lower())
        up = c == "-"
    return "".join(out)


def body_digest(n):
    blk = bytes(((1 + j * 13) & 255) for j in range(251))
    b = (blk * (n // 251 + 1))[:n]
    return "%d:%s" % (n, hashlib.sha256(b).hexdigest()[:12])


# ------------------------------------------------------------------------------------------------ generator

UNRES = "abcdefghijklmnopqrstuvwxyzABCDEFGHIJKLMNOPQRSTUVWXYZ0123456789-._~"
SUBD = "!$&'()*+,;="
PCT = ["%2F", "%2f", "%20", "%25", "%3F", "%23", "%3B", "%2B", "%E2%82%AC", "%C3%A9", "%00", "%7F", "%FF", "%41", "%7e", "%2E%2E", "%5C"]
SEGS = ["", ".", "..", "a", "b", "index.html", "a;x=1", "a+b", "a%20b", "%2e%2e", "~user", "a:b@c", "*", "$1", "(x)", "a,b", "="]


def gen_path(rng):
    n = rng.randint(1, 6)
    segs = []
    for _ in range(n):
        r = rng.random()
        if r < 0.45:
            segs.append(rng.choice(SEGS))
        else:
            s = []
            for _ in range(rng.randint(1, 8)):
                x = rng.random()
                if x < 0.5:
                    s.append(rng.choice(UNRES))
                elif x < 0.7:
                    s.append(rng.choice(SUBD + ":@"))
                else:
                    s.append(rng.choice(PCT))
            segs.append("".join(s))
    return "/" + "/".join(segs)


def gen_query(rng):
    r = rng.random()
    if r < 0.35:
        return None
    if r < 0.42:
        return ""
    if r < 0.6:
        # form-like queries: ';' and '&' separators, '+', empty names and values
        parts = []
        for _ in range(rng.randint(1, 5)):
            parts.append(rng.choice(["a=1", "b=2", "c=", "=d", "e", "", "x=+", "y=a+b", "z=%20", "q=%26", "k=v;w", "%zz=1", "n=%"]))
        return rng.choice(["&", ";", "&", ";&"]).join(parts)
    s = []
    for _ in range(rng.randint(1, 12)):
        x = rng.random()
        if x < 0.5:
            s.append(rng.choice(UNRES))
        elif x < 0.75:
            s.append(rng.choice(SUBD + ":@/?"))
        elif x < 0.9:
            s.append(rng.choice(PCT))
        else:
            s.append(rng.choice(["%", "%zz", "%4"]))
    return "".join(s)


PEERS4 = ["10.1.2.3:5555", "127.0.0.1:80", "192.168.0.254:65535", "8.8.8.8:1"]
PEERS6 = ["[::1]:4000", "[2001:db8::7]:443", "[fe80::d806:a55d:eb1b:49cc]:64692", "[::ffff:1.2.3.4]:9"]
PEERSZ = ["[fe80::1%eth0]:5555", "[fe80::d806:a55d:eb1b:49cc%vEthernet]:64692", "[fe80::2%1]:80"]
PEERSBAD = ["", "garbage", "1.2.3.4", "[::1]", "::1:80", "[::1]x:80", "[::1:80", "a]b:1"]
HOSTS = ["example.com", "example.com:8080", "example.com:", "[::1]:8443", "[::1]", "EXAMPLE.Com:80", "127.0.0.1:81", "h", "a.b-c.d:443", ""]
E2E = ["X-Test", "Accept", "Cookie", "Authorization", "Cache-Control", "X-Custom-Header", "x-lower", "X-UPPER", "If-None-Match", "X-Foo", "X-Bar", "Accept-Language"]
VALS = ["v1", "a b", "x,y", 'q="1"', "50%", "a|b", "", "tab\tin", "trailers", "close", "1.2.3.4", "https", "8443"]
RESP_E2E = ["X-Resp", "Set-Cookie", "Cache-Control", "Etag", "X-Foo", "Location", "x-resp-lower"]
STATUS = [200, 200, 200, 201, 202, 204, 206, 301, 302, 304, 400, 401, 403, 404, 418, 429, 500, 502, 503, 504, 599]


def conn_tokens(rng, pool):
    toks = []
    for _ in range(rng.randint(1, 4)):
        r = rng.random()
        if r < 0.45 and pool:
            t = rng.choice(pool)
            t = rng.choice([t, t.lower(), t.upper()])
        elif r < 0.65:
            t = rng.choice(XH)
            t = rng.choice([t, t.lower()])
        elif r < 0.85:
            t = rng.choice(["close", "keep-alive", "Keep-Alive", "upgrade", "Upgrade", "TE", "te"])
        else:
            t = rng.choice(["", "x y", "nonexistent", "Connection"])
        toks.append(t)
    sep = rng.choice([",", ", ", " , ", ",\t"])
    return sep.join(toks)


def gen_req(rng, resp_close=False):
    path = gen_path(rng)
    r = rng.random()
    if r < 0.06:
        # outside RFC 3986 but accepted by Go: re-encoded; correspondence only
        i = rng.randint(1, len(path))
        path = path[:i] + rng.choice(['"', "<", ">", "[", "]", "^", "`", "{", "}", "\\", "#"]) + path[i:]
    elif r < 0.09:
        path = path + rng.choice(["%zz", "%4", "%"])  # malformed escape: 400 from the server
    q = gen_query(rng)
    if rng.random() < 0.12:
        # absolute-form request line (RFC 7230 5.3.2): the caller's backend must still be used, path and query kept
        if rng.random() < 0.25 and "%zz" not in path and not path.endswith("%") and not path.endswith("%4"):
            path = ""
        path = rng.choice(["http", "http", "https", "HTTP", "ws", "x+y-1.z"]) + "://" + rng.choice(
            ["other.example", "Other.Example:8080", "o-t.h:", "10.9.8.7:81", "other", ""]) + path
    target = path if q is None else path + "?" + q
    v = 1 if rng.random() < 0.9 else 0
    host = rng.choice(HOSTS)
    hosttok = pe(host)
    if v == 0 and rng.random() < 0.5:
        hosttok, host = "-", ""
    r = rng.random()
    peer = rng.choice(PEERS4) if r < 0.35 else rng.choice(PEERS6) if r < 0.6 else rng.choice(PEERSZ) if r < 0.88 else rng.choice(PEERSBAD)
    m = rng.choice(["GET", "GET", "GET", "POST", "PUT", "DELETE"])
    toks = ["req", "m=" + m, "v=%d" % v, "t=" + pe(target), "host=" + hosttok, "peer=" + pe(peer), "tls=%d" % rng.randint(0, 1),
            "be=" + rng.choice("AB")]
    if m in ("POST", "PUT") and rng.random() < 0.8:
        toks.append("body=" + body_digest(rng.choice([1, 2, 10, 251, 1000, 5000])))
    hs = []
    names = []
    for _ in range(rng.randint(0, 4)):
        n = rng.choice(E2E)
        names.append(n)
        for _ in range(rng.choice([1, 1, 1, 2])):
            hs.append((n, rng.choice(VALS)))
    if rng.random() < 0.5:
        for n in rng.sample(["Keep-Alive", "Proxy-Authorization", "Proxy-Authenticate", "Proxy-Connection", "TE", "Upgrade"], rng.randint(1, 3)):
            val = {"TE": rng.choice(["trailers", "deflate", "trailers, deflate", "Trailers", "gzip;q=0.5,trailers"]),
                   "Upgrade": rng.choice(["websocket", "h2c", ""])}.get(n, rng.choice(VALS))
            hs.append((n, val))
            names.append(n)
    if rng.random() < 0.55:
        for n in rng.sample(XH, rng.randint(1, 3)):
            nn = rng.choice([n, n.lower()])
            for _ in range(rng.choice([1, 1, 2])):
                val = {"X-Forwarded-Proto": rng.choice(["https", "http", "wss", "ws", ""]),
                       "X-Forwarded-Port": rng.choice(["8443", "443", ""]),
                       "X-Forwarded-For": rng.choice(["1.1.1.1", "2.2.2.2, 3.3.3.3", ""]),
                       "X-Real-Ip": rng.choice(["9.9.9.9", ""]),
                       "X-Forwarded-Host": rng.choice(["up.example", ""]),
                       "X-Forwarded-Server": rng.choice(["upstream-proxy", ""])}[n]
                hs.append((nn, val))
    if rng.random() < 0.2:
        hs.append(("User-Agent", rng.choice(["curl/8", "Mozilla/5.0 (X11)"])))
    if rng.random() < 0.6:
        for _ in range(rng.choice([1, 1, 2])):
            hs.append((rng.choice(["Connection", "connection", "CONNECTION"]), conn_tokens(rng, names)))
    rng.shuffle(hs)
    for n, val in hs:
        toks.append("h=%s:%s" % (n, pe(val.strip(" \t"))))
    rs = rng.choice(STATUS)
    toks.append("rs=%d" % rs)
    # a 304 must not carry Content-Type: the proxy's own net/http server strips it (RFC 9110); no body, so no sniffing either
    rh = [("Content-Type", rng.choice(["text/plain", "application/json"]))] if rs != 304 else []
    rnames = []
    for _ in range(rng.randint(0, 3)):
        n = rng.choice(RESP_E2E)
        rnames.append(n)
        for _ in range(rng.choice([1, 1, 2])):
            rh.append((n, rng.choice(VALS)))
    if rng.random() < 0.5:
        for n in rng.sample(["Keep-Alive", "Proxy-Authenticate", "Proxy-Connection", "Te", "Upgrade", "Proxy-Authorization"], rng.randint(1, 3)):
            rh.append((n, rng.choice(["timeout=5", "Basic", "h2c", "x"])))
            rnames.append(n)
    if rng.random() < 0.5:
        t = conn_tokens(rng, rnames)
        # the known finding (Connection: close from the backend) only on request
        t = ", ".join(x for x in re.split(r"\s*,\s*", t) if x.strip().lower() != "close") or "keep-alive"
        if resp_close:
            t = "close, " + t
        rh.append(("Connection", t))
    for n, val in rh:
        toks.append("rh=%s:%s" % (n, pe(val.strip(" \t"))))
    return " ".join(toks)


def gen(rng, tier):
    n_scen = {"quick": 900, "thorough": 6000, "search": 300}.get(tier, 900)
    for _ in range(n_scen):
        lines = ["cfg pass=%d up=%s" % (rng.randint(0, 1), rng.choice(["none", "rr-verbose", "rb-debug", "cb-verbose"]))]
        for _ in range(rng.randint(8, 30)):
            lines.append(gen_req(rng))
        yield lines


# ------------------------------------------------------------------------------------------------ monitor

PCHAR = r"(?:[A-Za-z0-9\-._~!$&'()*+,;=:@]|%[0-9A-Fa-f]{2})"
VALID_TARGET = re.compile(r"^(?:/" + PCHAR + r"*)+(?:\?(?:" + PCHAR + r"|[/?%])*)?$")
# absolute-form: scheme "://" reg-name [":" port] path-abempty ["?" query]; groups: authority, path, ?query
VALID_ABS = re.compile(r"^[A-Za-z][A-Za-z0-9+.\-]*://([A-Za-z0-9.\-]*(?::[0-9]*)?)((?:/" + PCHAR + r"*)*)(\?(?:" + PCHAR + r"|[/?%])*)?$")


def _q_unescape(s):
    out, i = [], 0
    while i < len(s):
        c = s[i]
        if c == "%":
            if i + 2 >= len(s) + 0 and not (i + 2 < len(s)):
                return None
            h = s[i + 1:i + 3]
            if len(h) < 2 or not re.match(r"^[0-9A-Fa-f]{2}$", h):
                return None
            out.append(chr(int(h, 16)))
            i += 3
        else:
            out.append(" " if c == "+" else c)
            i += 1
    return "".join(out)


def _q_escape(s):
    return "".join(c if (c.isascii() and (c.isalnum() or c in "-_.~")) else "+" if c == " " else "%%%02X" % ord(c) for c in s)


def stdlib_clean_query(q):
    """net/http/httputil cleanQueryParams as documented: a query with a ';' or a malformed %-escape is re-encoded — pairs containing ';', empty pairs
    and pairs that do not unescape are dropped, the rest is emitted sorted by key, query-escaped, in order of appearance per key"""
    bad = ";" in q or re.search(r"%(?![0-9A-Fa-f]{2})", q) is not None
    if not bad:
        return q
    m = {}
    for pair in q.split("&"):
        if ";" in pair or pair == "":
            continue
        k, _, v = pair.partition("=")
        k, v = _q_unescape(k), _q_unescape(v)
        if k is None or v is None:
            continue
        m.setdefault(k, []).append(v)
    return "&".join(_q_escape(k) + "=" + _q_escape(v) for k in sorted(m, key=lambda x: x.encode("latin-1")) for v in m[k])


def parse_op(line):
    f = line.split(" ")
    if f[0] != "req":
        return None
    d = {"h": [], "rh": []}
    for t in f[1:]:
        k, _, v = t.partition("=")
        if k in ("h", "rh"):
            n, _, val = v.partition(":")
            d[k].append((canon_key(n), unpe(val)))
        else:
            d[k] = v
    return d


def parse_out(o):
    """-> (status, dict of scalars, backend headers {name:[values]}, client headers) or None"""
    f = o.split(" ")
    if not f or not f[0].isdigit():
        return None
    st = int(f[0])
    sc, bh, ch = {}, {}, {}
    cur = None
    for t in f[1:]:
        if t == "B":
            cur = bh
        elif t == "C":
            cur = ch
        elif cur is None or t.startswith("body="):
            k, _, v = t.partition("=")
            sc[k] = v
        else:
            n, _, v = t.partition(":")
            cur[n] = [unpe(x) for x in v.split("|")]
    return st, sc, bh, ch


def hmap(pairs):
    m = {}
    for n, v in pairs:
        m.setdefault(n, []).append(v)
    return m


def tokens_of(values):
    out = []
    for v in values:
        for t in v.split(","):
            t = t.strip(" \t")
            if t:
                out.append(t)
    return out


def split_host_port(s):
    """reference reading of host:port / [v6]:port / [v6%zone]:port; None if it is not of one of those forms"""
    m = re.match(r"^\[([^\[\]]*)\]:([^:\[\]]*)$", s)
    if m:
        return m.group(1), m.group(2)
    m = re.match(r"^([^:\[\]]*):([^:\[\]]*)$", s)
    if m:
        return m.group(1), m.group(2)
    return None


def monitor(ops, outs):
    bad = []
    passhost = False
    for i, (l, o) in enumerate(zip(ops, outs)):
        if l.startswith("cfg"):
            passhost = "pass=1" in l.split()
            continue
        d = parse_op(l)
        if d is None:
            continue
        target = unpe(d.get("t", ""))
        po = parse_out(o)
        valid = bool(VALID_TARGET.match(target))
        host = "" if d.get("host") == "-" else unpe(d.get("host", ""))
        want_target = target
        mabs = VALID_ABS.match(target)
        if mabs:
            # the origin-form equivalent: path ("/" if empty) and query, byte for byte; the authority of an
            # absolute-form target replaces the Host header (RFC 7230 5.4)
            valid = True
            want_target = (mabs.group(2) or "/") + (mabs.group(3) or "")
        # whatever else the target contains: an absolute-form target's authority is the effective Host
        mauth = re.match(r"^[A-Za-z][A-Za-z0-9+.\-]*://([^/?]*)", target)
        if mauth and mauth.group(1) != "":
            host = mauth.group(1)
        if po is None:
            bad.append("alive: line %d the proxy gave no response (%r)" % (i, o))
            continue
        st, sc, bh, ch = po
        if sc.get("be") == "-":
            if valid:
                bad.append("target: line %d valid target %r was not forwarded (status %d)" % (i, target, st))
            continue
        H = hmap(d["h"])
        # -- request line, backend, host
        if d.get("form") == "1" and "?" in want_target:
            # the scenario's own upstream handler parsed the form: the stdlib cleans the outgoing query (see ASSUMPTIONS)
            wp, _, wq = want_target.partition("?")
            cq = stdlib_clean_query(wq)
            want_target = wp + ("?" + cq if (cq != "" or wq == "") else "")
        if valid and unpe(sc.get("t", "")) != want_target:
            bad.append("target: line %d client sent %r, backend received %r" % (i, target, unpe(sc.get("t", ""))))
        if sc.get("p") != "HTTP/1.1":
            bad.append("proto: line %d backend saw %r" % (i, sc.get("p")))
        if sc.get("be") != d.get("be"):
            bad.append("backend: line %d sent to %r, caller chose %r" % (i, sc.get("be"), d.get("be")))
        bhost = unpe(sc.get("host", ""))
        want_host = host if (passhost and host != "") else "@" + d.get("be", "")
        if bhost != want_host:
            bad.append("host: line %d backend Host %r, expected %r (pass=%s)" % (i, bhost, want_host, passhost))
        if st != int(d.get("rs", "200")):
            bad.append("status: line %d client got %d, backend sent %s" % (i, st, d.get("rs")))
        # -- hop-by-hop towards the backend
        named = set(canon_key(t) for t in tokens_of(H.get("Connection", []))) - set(XH)
        hopset = set(HOP) | named
        te_ok = any(t.lower() == "trailers" for t in tokens_of(H.get("Te", [])))
        up = (H.get("Upgrade") or [""])[0] if any(t.lower() == "upgrade" for t in tokens_of(H.get("Connection", []))) else ""
        for n in sorted(hopset):
            if n not in bh or n in XH:
                continue
            if n == "Te" and te_ok and bh[n] == ["trailers"]:
                continue
            if n == "Connection" and up and bh[n] == ["Upgrade"]:
                continue
            if n == "Upgrade" and up and bh[n] == [up]:
                continue
            if n == "Content-Length" and "body" in d:
                continue
            bad.append("hop-req: line %d hop-by-hop header %s: %r reached the backend" % (i, n, bh[n]))
        # -- end-to-end towards the backend
        own = set(XH) | {"Content-Length", "User-Agent", "Host"}
        for n, vs in H.items():
            if n in hopset or n in own:
                continue
            if bh.get(n) != vs:
                bad.append("e2e-req: line %d end-to-end header %s: client sent %r, backend received %r" % (i, n, vs, bh.get(n)))
        for n in bh:
            if n not in H and n not in own and n not in hopset:
                bad.append("e2e-req: line %d backend received header %s: %r the client never sent" % (i, n, bh[n]))
        if "User-Agent" in H and H["User-Agent"][0] != "" and "User-Agent" not in hopset and bh.get("User-Agent") != H["User-Agent"][:1]:
            bad.append("e2e-req: line %d User-Agent %r became %r" % (i, H["User-Agent"], bh.get("User-Agent")))
        if "body" in d and (bh.get("Content-Length") != [d["body"].split(":")[0]] or sc.get("body") != d["body"]):
            bad.append("e2e-req: line %d body %s arrived as %s (Content-Length %r)" % (i, d["body"], sc.get("body"), bh.get("Content-Length")))
        # -- forwarding headers
        peer = split_host_port(unpe(d.get("peer", "")))
        tls = d.get("tls") == "1"

        def supplied(n):
            return n in H and H[n][0] != ""

        def check(n, want):
            if supplied(n):
                if bh.get(n) != H[n]:
                    bad.append("xfwd: line %d %s supplied upstream as %r but backend received %r" % (i, n, H[n], bh.get(n)))
            elif want is not None and bh.get(n) not in want:
                bad.append("xfwd: line %d %s is %r, the incoming connection says %r" % (i, n, bh.get(n), want))

        check("X-Forwarded-Proto", [["https" if tls else "http"]])
        if peer:
            check("X-Real-Ip", [[peer[0].split("%")[0]]])
        if host != "":
            check("X-Forwarded-Host", [[host]])
        eff = (bh.get("X-Forwarded-Proto") or [""])[0]
        hp = split_host_port(host)
        if hp and hp[1] != "":
            port = hp[1]
        elif eff in ("https", "wss") or tls:
            port = "443"
        else:
            port = "80"
        check("X-Forwarded-Port", [[port]])
        if bh.get("X-Forwarded-Server") != ["HOSTNAME"]:
            bad.append("xfwd: line %d X-Forwarded-Server is %r, not this proxy's host name" % (i, bh.get("X-Forwarded-Server")))
        if peer:
            prior = H.get("X-Forwarded-For", [])
            wants = [", ".join(prior + [ip]) for ip in (peer[0], peer[0].split("%")[0])]
            got = bh.get("X-Forwarded-For")
            if not got or len(got) != 1 or got[0] not in wants:
                bad.append("xff: line %d X-Forwarded-For is %r, expected %r (prior %r + peer %s)" % (i, got, wants[0], prior, peer[0]))
        # -- response direction
        R = hmap(d["rh"])
        rnamed = set(canon_key(t) for t in tokens_of(R.get("Connection", [])))
        rhop = set(HOP) | rnamed
        for n in sorted(rhop):
            if n in ch and any(v in R.get(n, []) for v in ch[n]):
                bad.append("hop-resp: line %d hop-by-hop response header %s: %r reached the client" % (i, n, ch[n]))
        framing = {"Date", "Content-Length", "Transfer-Encoding"}
        for n, vs in R.items():
            if n in rhop or n in framing:
                continue
            if ch.get(n) != vs:
                bad.append("e2e-resp: line %d end-to-end response header %s: backend sent %r, client received %r" % (i, n, vs, ch.get(n)))
        for n in ch:
            if n not in R and n not in framing and n != "Connection":
                bad.append("e2e-resp: line %d client received header %s: %r the backend never sent" % (i, n, ch[n]))
        if len(bad) > 20:
            break
    return bad


def nontrivial(ops, outs):
    for l, o in zip(ops, outs):
        d = parse_op(l)
        if not d or " be=-" in o or not o[:1].isdigit():
            continue
        t = unpe(d.get("t", ""))
        names = [n for n, _ in d["h"]]
        if ("%" in t or "?" in t) and ("Connection" in names or any(n in XH for n in names)):
            return True
    return False


def describe(ops, outs, hist):
    for l, o in zip(ops, outs):
        if l.startswith("cfg"):
            hist["cfg:" + ([t for t in l.split() if t.startswith("up=")] or ["up=none"])[0]] += 1
        d = parse_op(l)
        if not d:
            continue
        hist["op:req"] += 1
        hist["status:" + o.split(" ")[0][:8]] += 1
        t = unpe(d.get("t", ""))
        hist["target:" + ("valid" if VALID_TARGET.match(t) else "absolute" if VALID_ABS.match(t) else "non-rfc")] += 1
        if ";" in t.partition("?")[2]:
            hist["query:semicolon"] += 1
        if "%" in t:
            hist["target:pct"] += 1
        if t.endswith("?"):
            hist["target:empty-query"] += 1
        p = unpe(d.get("peer", ""))
        hist["peer:" + ("zone" if "%" in p else "v6" if p.startswith("[") else "v4" if split_host_port(p) else "bad")] += 1
        names = [n for n, _ in d["h"]]
        if "Connection" in names:
            hist["hdr:connection"] += 1
        if any(n in XH for n in names):
            hist["hdr:upstream-xfwd"] += 1
        if d.get("tls") == "1":
            hist["tls"] += 1
        if " be=-" in o:
            hist["not-forwarded"] += 1


def _resp_close(ops, outs, msgs):
    """every failure is a hop-resp one on an op whose backend Connection header has the token close"""
    if not msgs or not all(m.startswith("hop-resp:") for m in msgs):
        return False
    for m in msgs:
        i = int(m.split()[2])
        d = parse_op(ops[i])
        if not d or not any(t.lower() == "close" for t in tokens_of(hmap(d["rh"]).get("Connection", []))):
            return False
    return True


KNOWN_MATCHERS = {"resp_connection_close": _resp_close}

MANIFEST = {
    "text": ("Proof: Lean 4 theorems over the model Fwd.serve / Fwd.relay of forward.New + the Director-mode path of httputil.ReverseProxy + net/url: "
             "C08_target_roundtrip (every valid RFC 3986 origin-form target, incl. pct-escapes, ';', '+', '//', dot segments, empty query, is sent byte-identical), "
             "C08_target_roundtrip_absolute (absolute-form targets: path-or-'/' and query byte-identical, backend stays the caller's, authority becomes req.Host), "
             "C08_host, C08_hop_by_hop_removed / C08_end_to_end_preserved (header-map algebra, any header set, any Connection tokens), "
             "C08_xfwd_survive / C08_xfwd_filled_iff_absent / C08_xff_appended, and the response direction (C08_resp_*). "
             "The model is tied to the code by a differential run: real proxy behind a real net/http server, raw TCP client and raw recording backends."),
    "note": ("Trusted: Lean kernel; propext/Classical.choice/Quot.sound; the model of http.Transport's request writer and of the Go server's request parser is validated by the "
             "differential run only. Known finding (stdlib): a backend 'Connection: close, X' header is dropped by net/http's Transport before ReverseProxy reads it, so X reaches the client "
             "(C08_resp_hop_by_hop_removed_partial + C08_resp_close_counterexample). Te: trailers / Connection: Upgrade re-emitted by the stdlib for its own hop are exempt."),
    "technique": "Lean 4 proof (list/assoc-list algebra, induction over target bytes) over executable model + differential correspondence on loopback sockets",
}
