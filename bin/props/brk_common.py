"""Shared by the circuit-breaker plugins C05 / C12 / C18: expression generator and printers, scenario
generator (with the oracle-annotation pass through the harness), and the model-independent monitors.

Nothing here calls or mirrors the Lean model: the monitors restate the three property statements over the
implementation's output stream with exact integer / Fraction arithmetic.
"""
import operator
import re
import os
import subprocess
import tempfile
from fractions import Fraction

MS = 10 ** 6
S = 10 ** 9
WINDOW_SLOTS = 10          # memmetrics: counterBuckets
SLOT = S                   # memmetrics: counterResolution
BIN = None                 # harness binary, set by the plugins' pre_check
VERIF = os.path.dirname(os.path.dirname(os.path.dirname(os.path.abspath(__file__))))

# ------------------------------------------------------------------------------------------ expressions
# AST: ("cmp", op, fn, lit) | ("and", a, b) | ("or", a, b) | ("bad", go_text)
# fn : ("ner",) | ("rcr", l, l, l, l) | ("lat", l)          lit: ("i", n, text) | ("f", num, den, text)
OPS = {"eq": "==", "neq": "!=", "lt": "<", "le": "<=", "gt": ">", "ge": ">="}
PYOP = {"eq": operator.eq, "neq": operator.ne, "lt": operator.lt, "le": operator.le, "gt": operator.gt, "ge": operator.ge}
FLOATS = [("0.5", 5, 10), (".5", 5, 10), ("0.50", 50, 100), ("5e-1", 1, 2), ("0.25", 25, 100), ("0.1", 1, 10), ("0.3", 3, 10),
          ("0.0", 0, 10), ("0.", 0, 1), ("1.0", 10, 10), ("0.75", 75, 100), ("0.9", 9, 10), ("0.05", 5, 100), ("1.5", 15, 10),
          ("2.0", 20, 10), ("0.333", 333, 1000), ("0.2", 2, 10), ("0.125", 125, 1000), ("0.6", 6, 10), ("0.4", 4, 10)]
INTS = [0, 1, 2, 5, 10, 20, 50, 100, 250, 1000, 5000]
QUANTS = [("50.0", 500, 10), ("99.0", 990, 10), ("99.9", 999, 10), ("100.0", 1000, 10), ("0.0", 0, 10), ("90.0", 900, 10),
          ("95.", 95, 1), ("75.5", 755, 10), ("150.0", 1500, 10)]
RANGES = [(500, 600), (0, 600), (200, 300), (400, 500), (502, 505), (100, 1000), (0, 0), (300, 200), (504, 505), (200, 201), (500, 504)]
BAD = ["!(NetworkErrorRatio()~>~0.5)", "Unknown()~>~0.5", "NetworkErrorRatio()", "0.5~<~NetworkErrorRatio()",
       "NetworkErrorRatio()~+~0.1~>~0.5", "NetworkErrorRatio()~>~0.5~&&~NetworkErrorRatio()", "NetworkErrorRatio()~>~-0.5",
       "LatencyAtQuantileMS(50.0)~>~\"10\"", "NetworkErrorRatio(1)~>~0.5", "ResponseCodeRatio(500,600,0)~>~0.5"]


def lit_i(n):
    return ("i", n, str(n))


def lit_f(t):
    return ("f", t[1], t[2], t[0])


def gen_atom(rng, illtyped=False):
    k = rng.random()
    op = rng.choice(list(OPS))
    if k < 0.35:
        fn = ("ner",)
        v = lit_f(rng.choice(FLOATS))
        if illtyped:
            v = lit_i(rng.choice([0, 1]))
    elif k < 0.75:
        a, b = rng.choice(RANGES), rng.choice(RANGES)
        args = [lit_i(a[0]), lit_i(a[1]), lit_i(b[0]), lit_i(b[1])]
        v = lit_f(rng.choice(FLOATS))
        if illtyped:
            if rng.random() < 0.5:
                args[rng.randrange(4)] = lit_f(("500.0", 5000, 10))
            else:
                v = lit_i(rng.choice([0, 1, 2]))
        fn = ("rcr",) + tuple(args)
    else:
        q = lit_f(rng.choice(QUANTS))
        v = lit_i(rng.choice(INTS))
        if illtyped:
            if rng.random() < 0.5:
                q = lit_i(rng.choice([50, 99]))
            else:
                v = lit_f(("10.0", 100, 10))
        fn = ("lat", q)
    return ("cmp", op, fn, v)


def gen_expr(rng, depth, ill=None):
    """ill: path marker — exactly one atom is ill-typed when ill == [True]"""
    if depth == 0 or rng.random() < 0.3:
        bad = bool(ill) and ill[0]
        if bad:
            ill[0] = False
        return gen_atom(rng, bad)
    k = rng.choice(["and", "or"])
    a = gen_expr(rng, depth - 1, ill)
    b = gen_expr(rng, depth - 1, ill)
    if rng.random() < 0.5:   # an ill-typed atom may sit left or right
        return (k, a, b)
    return (k, b, a)


def prec(e):
    return {"or": 1, "and": 2}.get(e[0], 3)


def go_lit(l):
    return l[-1]


def go_fn(f):
    if f[0] == "ner":
        return "NetworkErrorRatio()"
    if f[0] == "rcr":
        return "ResponseCodeRatio(%s)" % ",".join(go_lit(x) for x in f[1:])
    return "LatencyAtQuantileMS(%s)" % go_lit(f[1])


def go_expr(e, rng):
    """Go syntax; parentheses keep the tree shape under Go's precedence and left associativity; redundant
    ones and spaces ('~') are sprinkled in"""
    sp = lambda: rng.choice(["", "", "~", "~~"])
    if e[0] == "bad":
        return e[1]
    if e[0] == "cmp":
        f, v = go_fn(e[2]), go_lit(e[3])
        if rng.random() < 0.1:
            f = "(" + f + ")"
        if rng.random() < 0.1:
            v = "(" + v + ")"
        s = f + sp() + OPS[e[1]] + sp() + v
    else:
        l, r = go_expr(e[1], rng), go_expr(e[2], rng)
        if prec(e[1]) < prec(e):
            l = "(" + l + ")"
        if prec(e[2]) <= prec(e):
            r = "(" + sp() + r + sp() + ")"
        s = l + sp() + {"and": "&&", "or": "||"}[e[0]] + sp() + r
    if rng.random() < 0.2:
        s = "(" + s + ")"
    return s


def px_lit(l):
    return "i%d" % l[1] if l[0] == "i" else "f%d/%d" % (l[1], l[2])


def px_expr(e):
    if e[0] == "bad":
        return "bad"
    if e[0] == "cmp":
        f = e[2]
        ft = ["ner"] if f[0] == "ner" else [f[0]] + [px_lit(x) for x in f[1:]]
        return ",".join([e[1]] + ft + [px_lit(e[3])])
    return e[0] + "," + px_expr(e[1]) + "," + px_expr(e[2])


def quantile_texts(e):
    if e[0] == "cmp":
        return [go_lit(e[2][1])] if e[2][0] == "lat" else []
    if e[0] == "bad":
        return []
    return quantile_texts(e[1]) + quantile_texts(e[2])


def parse_px(px):
    """prefix form -> AST with lat occurrences numbered left to right: ("lat", lit, k)"""
    toks = px.split(",")
    pos = [0]
    nlat = [0]

    def lit():
        t = toks[pos[0]]
        pos[0] += 1
        if t[0] == "i":
            return ("i", int(t[1:]))
        a, b = t[1:].split("/")
        return ("f", int(a), int(b))

    def ex():
        t = toks[pos[0]]
        pos[0] += 1
        if t == "bad":
            return ("bad",)
        if t in ("and", "or"):
            a = ex()
            b = ex()
            return (t, a, b)
        f = toks[pos[0]]
        pos[0] += 1
        if f == "ner":
            fn = ("ner",)
        elif f == "rcr":
            fn = ("rcr", lit(), lit(), lit(), lit())
        else:
            fn = ("lat", lit(), nlat[0])
            nlat[0] += 1
        return ("cmp", t, fn, lit())
    return ex()


def well_typed(e):
    if e[0] == "bad":
        return False
    if e[0] == "cmp":
        f, v = e[2], e[3]
        if f[0] == "ner":
            return v[0] == "f"
        if f[0] == "rcr":
            return all(x[0] == "i" for x in f[1:5]) and v[0] == "f"
        return f[1][0] == "f" and v[0] == "i"
    return well_typed(e[1]) and well_typed(e[2])


def fn_value(f, window, orc):
    """the metric a function denotes over the window (list of status codes) — exact"""
    if f[0] == "ner":
        return Fraction(sum(1 for c in window if c in (502, 504)), len(window)) if window else Fraction(0)
    if f[0] == "rcr":
        a0, a1, b0, b1 = (x[1] for x in f[1:5])
        a = sum(1 for c in window if a0 <= c < a1)
        b = sum(1 for c in window if b0 <= c < b1)
        return Fraction(a, b) if b else Fraction(0)
    return orc[f[2]] if f[2] < len(orc) else 0


def lit_value(l):
    return l[1] if l[0] == "i" else Fraction(l[1], l[2])


def eval_expr(e, window, orc, ties=None):
    """standard semantics: comparisons of exact numbers, Python and / or"""
    if e[0] == "cmp":
        x, y = fn_value(e[2], window, orc), lit_value(e[3])
        if ties is not None and e[2][0] != "lat":
            if x == y:
                ties["ratio-tie"] += 1
            elif abs(x - y) * 10 ** 5 <= max(abs(x), abs(y)):
                ties["ratio-near-miss(1e-11..1e-5)"] += 1
            elif abs(x - y) * 2 ** 40 < max(abs(x), abs(y)):
                ties["ratio-too-close"] += 1
        return PYOP[e[1]](x, y)
    if e[0] == "and":
        return eval_expr(e[1], window, orc, ties) and eval_expr(e[2], window, orc, ties)
    return eval_expr(e[1], window, orc, ties) or eval_expr(e[2], window, orc, ties)


# ------------------------------------------------------------------------------------------ reading a run
class Ev:
    __slots__ = ("kind", "t", "id", "code", "orc", "out", "before", "after", "until", "idx", "extra", "syn", "rec_only", "grp", "placed")

    def __init__(self):
        self.rec_only = False
        self.syn = False
        self.grp = None        # op line of the `pburst` this synthetic arrival belongs to
        self.placed = False


def kvget(f, key, default=None):
    for t in f:
        if t.startswith(key + "="):
            return t[len(key) + 1:]
    return default


def read_run(ops, outs):
    """-> (cfg dict | None, [Ev]); before/after = breaker state as printed around each op"""
    cfg = None
    evs = []
    now = 0
    state = "standby"
    parked = None
    for i, (l, o) in enumerate(zip(ops, outs)):
        f = l.split()
        if not f or l.startswith("#"):
            continue
        if f[0] != "cfg" and generic_output(o) and cfg is not None:
            break       # the runner's own line (watchdog, crash, missing output): nothing after it can be judged; left to the diff
        if f[0] == "cfg":
            if o != "ok":
                return None, []
            cfg = {"fb": int(kvget(f, "fb", "0")), "rec": int(kvget(f, "rec", "0")), "cp": int(kvget(f, "cp", "0")),
                   "px": kvget(f, "px", "bad"), "qs": [float(x) for x in (kvget(f, "qs", "") or "").split(",") if x]}
            continue
        if f[0] == "at":
            now = max(now, int(f[1]))
            continue
        if f[0] == "adv":
            now += int(f[1])
            continue
        if o in ("bad-op", "no-scenario", "dead") or f[0] in ("park-warn", "release-fx"):
            continue
        if f[0] == "start" and o == "parked":
            parked = f[1]        # arrived, not decided yet: the decision shows at `unpark` or in front of a completion
            continue
        if f[0] == "start" and o.startswith("unparked "):
            # a second arrival found the first parked and holding the lock: both were decided at this instant, the parked one
            # first; only the final state is printed, and at one instant only the first decision can have moved the state
            g = o.split()
            st = g[4:] if len(g) >= 5 and g[2] == "then" else []
            ok = len(g) >= 5 and g[1] in ("pass", "fallback") and g[3] in ("pass", "fallback") and st and st[0] in ("standby", "tripped", "recovering")
            s0 = state
            if ok:
                state = st[0]
            for who, ans in ((parked, g[1] if ok else "lost"), (f[1], g[3] if ok else "lost")):
                e = Ev()
                e.kind, e.t, e.idx, e.id, e.code, e.orc, e.syn, e.until = "start", now, i, who, None, [], False, None
                e.out = ans + " " + " ".join(st)
                e.before = s0 if who == parked else state
                e.after = state
                e.extra = "" if ok and [x for x in st[1:] if not x.startswith("until=")] == [] else "unreadable:" + o
                evs.append(e)
            parked = None
            continue
        if f[0] == "finish2" and o.startswith("unparked ") and any(t.startswith("adv=") for t in f[5:]):
            # the clock moved on between the two records and the checks (the completions waited for the lock): the event model
            # of this monitor has one instant per completion; nothing from here on is judged, it is left to the diff
            break
        if f[0] == "finish2" and o.startswith("unparked ") and len(f) >= 5:
            # both responses were recorded (no breaker lock needed), then the parked request was decided (it held the lock and its
            # decision cannot move the state here), then the two checkAndSet ran: one evaluation over both records
            g = o.split()
            ok = len(g) >= 6 and g[2] == "done2" and g[1] in ("pass", "fallback") and g[5] in ("standby", "tripped", "recovering")
            e = Ev()
            e.kind, e.t, e.idx, e.id, e.code, e.orc, e.until, e.before, e.after = "start", now, i, parked, None, [], None, state, state
            e.out = (g[1] if ok else "lost") + " " + state
            e.extra = "" if ok else "unreadable:" + o
            evs.append(e)
            parked = None
            e = Ev()
            e.kind, e.t, e.idx, e.id, e.code, e.orc, e.until, e.before, e.after = "finish", now, i, f[1], int(f[2]), [], None, state, state
            e.out, e.extra, e.rec_only = "done %s %s" % (f[2], state), "", True
            evs.append(e)
            f = ["finish", f[3], f[4]] + f[5:]
            o = "done " + " ".join(g[4:]) if ok else o
        if f[0] == "finish" and o.startswith("unparked "):
            # the parked request was decided first (it held the lock), then the completion went on
            g = o.split()
            k = g.index("done") if "done" in g else len(g)
            e = Ev()
            e.kind, e.t, e.idx, e.id, e.code, e.orc, e.syn, e.before = "start", now, i, parked, None, [], False, state
            e.out = " ".join(g[1:k])
            st = g[2:k]
            e.extra, e.until = "", None
            if g[1] in ("pass", "fallback") and st and st[0] in ("standby", "tripped", "recovering"):
                state = st[0]
                u = kvget(st, "until")
                e.until = int(u) if u and u.lstrip("-").isdigit() else None
            else:
                e.extra = "unreadable:" + o
            e.after = state
            evs.append(e)
            parked = None
            o = " ".join(g[k:])
        if f[0] == "pburst" and len(f) == 2:
            # n arrivals at once at one frozen instant: the answers are counted, not ordered.  The synthetic arrivals are
            # listed refusals first (the request that starts a recovery is refused); inside a recovery period
            # `ramp_decisions` orders them as the ramp rule itself would (whatever it cannot place is then flagged)
            g = o.split()
            n = int(f[1])
            m = re.match(r"pburst pass=(\d+) fallback=(\d+) (standby|tripped|recovering)( until=-?\d+)?$", o)
            ok = bool(m) and int(m.group(1)) + int(m.group(2)) == n
            answers = (["fallback"] * int(m.group(2)) + ["pass"] * int(m.group(1))) if ok else []
            s0 = state
            if ok:
                state = m.group(3)
            for j in range(n if ok else 1):
                e = Ev()
                e.kind, e.t, e.idx, e.id, e.code, e.orc, e.until, e.syn = "start", now, i, None, None, [], None, True
                e.grp = i
                e.out = answers[j] if ok else "lost"
                e.before = s0
                e.after = state if j == n - 1 else s0
                e.extra = "" if ok else "unreadable:" + o
                evs.append(e)
            continue
        if f[0] == "burst" and len(f) == 3:
            # n arrivals, the clock advancing after each; the answers are run-length encoded, the state is printed once at
            # the end: the synthetic arrivals carry the state before the burst, the last one the state after it
            g = o.split()
            n, stp = int(f[1]), int(f[2])
            runs = re.findall(r"([a-z])(\d+)", g[1]) if len(g) >= 3 and g[0] == "burst" else []
            answers = [{"p": "pass", "f": "fallback"}.get(c, "lost") for c, k in runs for _ in range(int(k))]
            st = g[2:] if len(g) >= 3 else []
            ok = len(answers) == n and st and st[0] in ("standby", "tripped", "recovering")
            s0 = state
            if ok:
                state = st[0]
            for j in range(n if ok else 1):
                e = Ev()
                e.kind, e.t, e.idx, e.id, e.code, e.orc, e.until, e.syn = "start", now + j * stp, i, None, None, [], None, True
                e.out = answers[j] if ok else "lost"
                e.before = s0
                e.after = state if j == n - 1 else s0
                e.extra = "" if ok and [x for x in st[1:] if not x.startswith("until=")] == [] else "unreadable:" + o
                evs.append(e)
            now += n * stp
            continue
        e = Ev()
        e.syn = False
        e.kind, e.t, e.idx, e.out, e.before = ("start" if f[0] == "unpark" else f[0]), now, i, o, state
        if f[0] == "unpark":
            parked = None
        e.id = f[1] if len(f) > 1 else None
        e.code = int(f[2]) if f[0] == "finish" and len(f) > 2 else None
        q = kvget(f, "q")
        e.orc = [int(x) for x in q.split(",")] if q else []
        g = o.split()
        e.extra = ""
        st = None
        if f[0] in ("start", "unpark") and g and g[0] in ("pass", "fallback"):
            st = g[1:]
        elif f[0] == "finish" and len(g) >= 3 and g[0] == "done":
            st = g[2:]
        elif f[0] == "state":
            st = g
        if st is not None and st and st[0] in ("standby", "tripped", "recovering"):
            state = st[0]
            u = kvget(st, "until")
            e.until = int(u) if u and u.lstrip("-").isdigit() else None
            rest = [x for x in st[1:] if not x.startswith("until=")]
            # the monitors judge what the implementation reported: when the q= on the op line is not what the metrics
            # report (a shrunk or hand-edited scenario; model and implementation then diverge visibly) use the latter
            om = kvget(rest, "oracle-mismatch")
            if om is not None:
                e.orc = [int(x) for x in om.split(",") if x.lstrip("-").isdigit()]
                rest = [x for x in rest if not x.startswith("oracle-mismatch=")]
            e.extra = " ".join(rest)
        elif f[0] in ("start", "unpark", "finish", "state"):
            e.extra = "unreadable:" + o
            e.until = None
        else:
            e.until = None
        e.after = state
        evs.append(e)
    return cfg, evs


def ans_of(e):
    """first word of the answer to an arrival: pass | fallback | lost (answered by something else) | none"""
    t = e.out.split()
    return t[0] if t else "none"


ALLOWED_EDGES = {("standby", "tripped"), ("tripped", "recovering"), ("recovering", "standby"), ("recovering", "tripped")}


# ------------------------------------------------------------------------------------------ monitors
def monitor_c05(ops, outs):
    """shield interval, standby passes, allowed edges — from the property text only"""
    cfg, evs = read_run(ops, outs)
    bad = []
    if cfg is None:
        return bad
    trip_t = None
    for e in evs:
        if e.extra:
            bad.append("output: line %d unexpected output %r" % (e.idx, e.out))
        if e.before != e.after and (e.before, e.after) not in ALLOWED_EDGES and not e.syn:
            bad.append("edge: line %d state moved %s -> %s" % (e.idx, e.before, e.after))
        if e.kind == "start":
            ans = ans_of(e)
            if trip_t is not None and trip_t <= e.t < trip_t + cfg["fb"] and ans in ("pass", "lost"):
                bad.append("shield: line %d request at t=%d answered %r although the breaker tripped at %d and the fallback duration %d has not elapsed"
                           % (e.idx, e.t, ans, trip_t, cfg["fb"]))
            if e.before == "standby" and ans in ("fallback", "lost"):
                bad.append("standby: line %d request at t=%d answered %r while the breaker was in standby" % (e.idx, e.t, ans))
        if e.kind == "finish" and e.after == "tripped" and e.before != "tripped":
            trip_t = e.t
        if len(bad) > 5:
            break
    return bad


def recoveries(cfg, evs):
    """segments of the run from the arrival that starts a recovery to the event that ends it"""
    seg = None
    for e in evs:
        if seg is not None:
            if e.kind == "finish" and e.after == "tripped" and e.before != "tripped":
                seg["end"] = "trip"
                yield seg
                seg = None
                continue
            if e.kind == "start":
                seg["arrivals"].append(e)
                if e.t > seg["t0"] + cfg["rec"]:
                    seg["end"] = "after"
                    yield seg
                    seg = None
                continue
        if seg is None and e.kind == "start" and e.before == "tripped" and e.after == "recovering" and not e.syn:
            seg = {"t0": e.t, "arrivals": [e], "end": None}
    if seg is not None:
        yield seg


def ramp_decisions(cfg, evs):
    """(event, passed-before, refused-before, elapsed) for every arrival inside a recovery period"""
    for seg in recoveries(cfg, evs):
        p = f = 0
        arr = seg["arrivals"]
        for k, e in enumerate(arr):
            if e.t > seg["t0"] + cfg["rec"]:
                break
            if getattr(e, "grp", None) is not None and not getattr(e, "placed", False):
                # the unordered answers of a `pburst`: place them in the order the ramp rule gives
                grp = [x for x in arr[k:] if getattr(x, "grp", None) == e.grp]
                left = {"pass": sum(1 for x in grp if ans_of(x) == "pass"), "fallback": sum(1 for x in grp if ans_of(x) == "fallback")}
                if left["pass"] + left["fallback"] == len(grp):
                    pp, ff, el = p, f, e.t - seg["t0"]
                    for x in grp:
                        L, R = (pp + 1) * 2 * cfg["rec"], el * (pp + ff + 1)
                        want = "pass" if L < R else "fallback" if L > R else ("pass" if left["pass"] >= left["fallback"] else "fallback")
                        if not left[want]:
                            want = "fallback" if want == "pass" else "pass"
                        left[want] -= 1
                        x.out = want
                        x.placed = True
                        if want == "pass":
                            pp += 1
                        else:
                            ff += 1
            yield e, p, f, e.t - seg["t0"], seg
            if ans_of(e) == "pass":
                p += 1
            else:
                f += 1


def monitor_c12(ops, outs):
    cfg, evs = read_run(ops, outs)
    bad = []
    if cfg is None:
        return bad
    rec = cfg["rec"]
    for e, p, f, el, seg in ramp_decisions(cfg, evs):
        ans = ans_of(e)
        if ans == "pass":
            # fraction passed since recovery began, this request included, at this instant
            if (p + 1) * 2 * rec > el * (p + f + 1):
                bad.append("ramp: line %d at %d ns of a %d ns recovery %d of %d requests passed: above 0.5*elapsed/duration"
                           % (e.idx, el, rec, p + 1, p + f + 1))
        elif ans == "fallback":
            # refused only if passing it would bring the fraction to or above the ramp
            if (p + 1) * 2 * rec < el * (p + f + 1):
                bad.append("refused: line %d at %d ns of a %d ns recovery, %d passed %d refused so far: passing would keep the fraction %d/%d below the ramp"
                           % (e.idx, el, rec, p, f, p + 1, p + f + 1))
        elif ans == "lost":
            bad.append("output: line %d %r" % (e.idx, e.out))
        if len(bad) > 5:
            return bad
    for seg in recoveries(cfg, evs):
        if seg["end"] == "after":
            e = seg["arrivals"][-1]
            if ans_of(e) in ("fallback", "lost") or (ans_of(e) == "pass" and e.after != "standby" and not e.syn):
                bad.append("after-recovery: line %d first request after the recovery period (t=%d > %d+%d) answered %r in state %s"
                           % (e.idx, e.t, seg["t0"], rec, ans_of(e), e.after))
    # a re-trip shields the backend anew: the C05 shield clause
    bad += [m for m in monitor_c05(ops, outs) if m.startswith("shield")]
    # during recovery the breaker trips again iff the condition matches again (the C18 decision rule, recovering completions only)
    try:
        expr = parse_px(cfg["px"])
        lat = {e.idx: b for e, b in latency_bounds(cfg, evs)}
        for e, is_eval, verdict, tripped in evaluations(cfg, evs, expr, lat=lat):
            if e.before != "recovering":
                continue
            if (tripped and not is_eval) or (is_eval and verdict is not None and tripped != verdict):
                bad.append("retrip: line %d at t=%d during recovery the condition %s on the responses recorded since the last trip, but the breaker %s"
                           % (e.idx, e.t, "matches" if verdict else "does not match (or is not due for evaluation)",
                              "tripped again" if tripped else "did not trip"))
                break
    except Exception as ex:
        bad.append("monitor-crash retrip %r" % (ex,))
    return bad


def has_lat_eq(e):
    if e[0] == "cmp":
        return e[2][0] == "lat" and e[1] in ("eq", "neq")
    return e[0] != "bad" and (has_lat_eq(e[1]) or has_lat_eq(e[2]))


def verdict_over(expr, window, bounds):
    """the condition over every latency value the hdr buckets allow; None when they do not all agree"""
    if all(lo == hi for lo, hi in bounds):
        return eval_expr(expr, window, [lo for lo, _ in bounds])
    if has_lat_eq(expr) or len(bounds) > 6:
        return None
    import itertools
    vs = set(eval_expr(expr, window, list(c)) for c in itertools.product(*[(lo, hi) for lo, hi in bounds]))
    return vs.pop() if len(vs) == 1 else None


def evaluations(cfg, evs, expr, ties=None, lat=None):
    """every completion with: is it an evaluation instant, the window of codes since the last trip, the verdict
    (lat: per line the independently derived latency bounds; without it the oracle on the op line is used)"""
    next_check = None
    log = []        # (t, code) since the last observed trip
    for e in evs:
        if e.kind != "finish":
            continue
        log.append((e.t, e.code))
        if e.rec_only:
            continue        # recorded only: its checkAndSet ran after the next record (and cannot be a second evaluation)
        is_eval = next_check is None or e.t > next_check
        verdict = None
        if is_eval:
            next_check = e.t + cfg["cp"]
            if e.before != "tripped":
                slot = e.t // SLOT
                window = [c for (u, c) in log if u // SLOT > slot - WINDOW_SLOTS]
                verdict = eval_expr(expr, window, e.orc, ties)
                if lat and lat.get(e.idx):
                    v2 = verdict_over(expr, window, lat[e.idx])
                    if v2 is not None:
                        verdict = v2
        tripped = e.after == "tripped" and e.before != "tripped"
        yield e, is_eval, verdict, tripped
        if tripped:
            log = []


HIST_BUCKETS = 6            # memmetrics: histBuckets
HIST_PERIOD = 10 * S        # memmetrics: histPeriod
HDR_SUB = 8                 # hdrhistogram with 2 significant figures: 256 sub-buckets, unit 1 us
HDR_LIMIT = 1 << 32         # first value (us) a 1 us .. 3.6e9 us histogram cannot index


def hdr_range(v):
    """the values hdrhistogram (2 significant figures) cannot tell from v: [lowest, highest] equivalent"""
    b = max(0, v.bit_length() - HDR_SUB)
    lo = (v >> b) << b
    return lo, lo + (1 << b) - 1


def latency_bounds(cfg, evs):
    """for every completion: per quantile literal the interval (in ms) LatencyAtQuantileMS may report, derived from the
    raw (time, latency) log alone: the latencies recorded since the last trip that are still in the rolling
    histogram (6 sub-histograms, a new one at the first record 10 s or more after the previous roll), the order
    statistic hdrhistogram picks (count = int(q/100*n + 0.5)), and the hdr bucket of that value"""
    started = {}
    buckets = [[] for _ in range(HIST_BUCKETS)]
    idx, last_roll = 0, None
    for e in evs:
        if e.kind == "start" and ans_of(e) == "pass":
            started[e.id] = e.t
        if e.kind != "finish":
            continue
        lat_us = (e.t - started.pop(e.id, e.t)) // 1000
        if last_roll is None or e.t - last_roll >= HIST_PERIOD:
            idx = (idx + 1) % HIST_BUCKETS
            buckets[idx] = []
            last_roll = e.t
        if lat_us < HDR_LIMIT:
            buckets[idx].append(lat_us)
        if e.rec_only:
            continue
        vals = sorted(v for b in buckets for v in b)
        bounds = []
        for q in cfg["qs"]:
            k = int(((min(q, 100.0) / 100) * float(len(vals))) + 0.5)
            if k == 0 or not vals:
                bounds.append((0, 0))
            else:
                lo, hi = hdr_range(vals[min(k, len(vals)) - 1])
                bounds.append((lo // 1000, hi // 1000))
        yield e, bounds
        if e.after == "tripped" and e.before != "tripped":
            buckets = [[] for _ in range(HIST_BUCKETS)]
            idx, last_roll = 0, e.t


def monitor_c18(ops, outs):
    cfg, evs = read_run(ops, outs)
    bad = []
    if cfg is None:
        return bad
    expr = parse_px(cfg["px"])
    # latency quantiles are re-derived from the raw (time, latency) log: those of the responses since the last trip
    lat = {e.idx: b for e, b in latency_bounds(cfg, evs)}
    for e, is_eval, verdict, tripped in evaluations(cfg, evs, expr, lat=lat):
        if tripped and not is_eval:
            bad.append("trip-off-schedule: line %d tripped at t=%d although no evaluation is due before the check period has passed" % (e.idx, e.t))
        elif is_eval and verdict is not None and tripped != verdict:
            bad.append("trip-iff: line %d at t=%d the condition is %s on the responses recorded since the last trip, but the breaker %s"
                       % (e.idx, e.t, verdict, "tripped" if tripped else "did not trip"))
        if is_eval and e.before != "tripped":
            for i, (lo, hi) in enumerate(lat.get(e.idx, [])):
                if i < len(e.orc) and not lo <= e.orc[i] <= hi:
                    bad.append("stale-latency: line %d at t=%d the condition is evaluated with LatencyAtQuantileMS(%s) = %d ms, but over the latencies "
                               "recorded since the last trip that are still in the rolling window it lies in [%d, %d] ms"
                               % (e.idx, e.t, cfg["qs"][i], e.orc[i], lo, hi))
                    break
        if len(bad) > 5:
            return bad
    # side effects: once per transition
    n_trip = n_stand = 0
    for e in evs:
        if e.after != e.before:
            if e.after == "tripped":
                n_trip += 1
            if e.after == "standby":
                n_stand += 1
        if e.kind == "effects" and e.out != "effects none":
            g = e.out.split()
            got_t, got_s = kvget(g, "tripped"), kvget(g, "standby")
            if len(g) != 3 or got_t != str(n_trip) or got_s != str(n_stand):
                bad.append("effects: line %d %r but %d transitions into tripped and %d into standby were observed" % (e.idx, e.out, n_trip, n_stand))
                break
    return bad


# ------------------------------------------------------------------------------------------ generator
DURS = [MS, 2 ** 20, 5 * MS, 2 ** 23, 100 * MS, 2 ** 27, S, 2 ** 30, 3 * S, 10 * S, 2 ** 33, 60 * S, 2 ** 36, 3600 * S]
DAY = 86400 * S
YEAR = 365 * DAY
# days .. decades; at most 130 years: the last arrival of a sweep is at most 1.125 rec after its start and may itself start a
# recovery, whose deadline (now + rec) must stay below 2^63 ns after hx.Base (int64 ns; time.Duration ends at 292 years)
LONG_DURS = [DAY, 7 * DAY, 2 ** 47, 30 * DAY, 2 ** 52, YEAR, 2 ** 55, 3 * YEAR, 10 * YEAR, 2 ** 59, 25 * YEAR, 2 ** 60, 50 * YEAR,
             2 ** 61, 100 * YEAR, 130 * YEAR]
CPS = [0, MS, 10 * MS, 100 * MS, 100 * MS, 100 * MS, S, 2 ** 30, 10 * S]
GOOD = [200, 200, 200, 201, 204, 301, 404]
BADC = [502, 504, 502, 504, 500, 503, 599]


class Builder:
    def __init__(self, rng, fb, rec, cp, expr):
        self.rng, self.fb, self.rec, self.cp = rng, fb, rec, cp
        qs = quantile_texts(expr)
        opt = ""
        if rng.random() < 0.4:
            opt += " fbk=" + rng.choice(["default", "resp", "redir", "custom"])
        if rng.random() < 0.1:
            opt += " verbose=1"
        k = rng.random()
        if k < 0.06:
            opt += " fx=0"
        elif k < 0.3:
            opt += " fx=" + rng.choice(["fail", "failtrip", "failstandby", "slow", "slow"])
        self.lines = ["cfg fb=%d rec=%d cp=%d px=%s go=%s%s%s" % (fb, rec, cp, px_expr(expr), go_expr(expr, rng),
                                                                   " qs=" + ",".join(qs) if qs else "", opt)]
        self.parks = rng.randint(1, 3) if rng.random() < 0.25 else 0
        self.pbursts = 0
        self.now = 0
        self.fl = []
        self.n = 0

    def goto(self, t):
        if t > self.now:
            if self.rng.random() < 0.3:
                self.lines.append("at %d" % t)
            else:
                self.lines.append("adv %d" % (t - self.now))
            self.now = t

    def adv(self, d):
        self.goto(self.now + d)

    def start(self):
        self.n += 1
        i = "r%d" % self.n
        # now and then the client has already gone (cancelled context): the breaker must treat the request like any other
        self.lines.append("start " + i + (" cancelled" if self.rng.random() < 0.06 else ""))
        self.fl.append(i)
        return i

    def finish(self, i, code):
        # now and then the protected handler sends an informational response (103 Early Hints, …) before the final status
        info = " info=%d" % self.rng.choice([103, 103, 100, 102]) if self.rng.random() < 0.08 else ""
        self.lines.append("finish %s %d%s" % (i, code, info))
        if i in self.fl:
            self.fl.remove(i)

    def code(self, mood):
        r = self.rng
        if mood == "good":
            return r.choice(GOOD)
        if mood == "bad":
            return r.choice(BADC)
        return r.choice(GOOD + BADC)

    def step(self):
        r = self.rng
        return r.choice([0, 0, 0, 1, 1000, MS, self.cp // 3 + 1, self.cp + 1, 7 * MS, 50 * MS, 300 * MS, S, 3 * S])

    def traffic(self, n, mood, maxfl=8):
        r = self.rng
        for _ in range(n):
            if r.random() < 0.5:
                self.adv(self.step())
            if self.fl and (len(self.fl) >= maxfl or r.random() < 0.45):
                self.finish(r.choice(self.fl), self.code(mood))
            else:
                self.start()
            if r.random() < 0.04:
                self.lines.append(r.choice(["state", "effects", "release-fx"]))

    def burst(self, mood="bad"):
        """a check is due, then several completions at one instant T: a trip, if any, happens at T"""
        r = self.rng
        self.adv(self.cp + 1 + r.choice([0, 0, MS, 2 * S]))
        k = r.randint(2, 6)
        fresh = [self.start() for _ in range(k)]
        if r.random() < 0.5:
            self.adv(r.choice([1, MS, 20 * MS, 150 * MS, 2 * S]))     # latency of the burst
        t = self.now
        for i in fresh:
            self.finish(i, self.code(mood))
        self.lines.append("state")
        return t

    def probe(self, mood="good", hold=0.2):
        """one request; if it is passed it completes right away (or is held in flight)"""
        i = self.start()
        if self.rng.random() >= hold:
            self.finish(i, self.code(mood))

    def shield_probes(self, t):
        r = self.rng
        fb = self.fb
        offs = sorted(set(x for x in [0, 1, fb // 3, fb // 2, fb - 1] + [r.randrange(fb) for _ in range(r.randint(0, 3)) if fb > 0] if 0 <= x < max(fb, 1)))
        for o in offs:
            self.goto(t + o)
            self.probe()
            if self.parks and r.random() < 0.15:
                self.park_episode("good")
            if self.fl and r.random() < 0.3:     # a request admitted before the trip completes inside the tripped interval
                self.finish(r.choice(self.fl), self.code("mixed"))

    def sweep(self, t, mood):
        """recovery: arrivals on a grid of the recovery period, then its end"""
        r = self.rng
        rec = self.rec
        u0 = t + self.fb + r.choice([0, 0, 1, self.fb // 7, rec // 3 if rec < DAY else 1000])
        self.goto(u0)
        u0 = self.now
        if rec >= 2 and r.random() < (0.6 if rec >= DAY else 0.12):
            # bulk arrivals spread over the ramp (a long recovery sees many requests), in a few chunks with idle gaps
            self.probe(mood)
            n = r.choice([200, 500, 1000, 2000, 5000]) if rec >= DAY else r.choice([50, 200, 500])
            parts = r.randint(1, 4)
            per = max(1, n // parts)
            stp = max(1, rec // (n + parts * per // 3 + 2))
            for _ in range(parts):
                self.bulk(per, stp)
                if self.now < u0 + rec and r.random() < 0.6:
                    self.adv(min(u0 + rec - self.now, stp * r.randint(1, per // 3 + 1)))
                    self.probe(mood)
            if self.now < u0 + rec:
                self.goto(u0 + rec)
                self.bulk(r.randint(1, 3), 0)
            self.adv(r.choice([1, 2, MS]))
            self.probe("good", hold=0)
            self.lines.append("effects")
            return
        g = r.choice([4, 8, 16, 64])
        stp = max(1, rec // g)
        style = r.choice(["burst", "trickle", "gaps", "dense"])
        for k in range(g + 1):
            if u0 + k * stp > u0 + rec:
                break
            self.goto(u0 + k * stp)
            if style == "burst":
                n = r.choice([0, 0, 1, 6, 9])
            elif style == "trickle":
                n = 1
            elif style == "gaps":
                n = 0 if (k // 3) % 2 else r.randint(1, 3)
            else:
                n = r.randint(2, 5)
            for _ in range(n):
                self.probe(mood)
            if k > 0 and self.pbursts < 2 and r.random() < 0.025:
                # several requests arrive at once (each costs the harness one 300 ms rendezvous time-out on the code as it is)
                self.pbursts += 1
                self.lines.append("pburst %d" % r.choice([4, 8, 16]))
            if self.parks and r.random() < 0.3:
                self.park_episode(mood)
            if r.random() < 0.15 and stp > 2:
                self.adv(r.randrange(1, stp))      # off-grid arrival
                self.probe(mood)
        self.goto(u0 + rec)
        if r.random() < 0.7:
            self.probe(mood)
        self.adv(r.choice([1, 1, 2, MS, rec // 2 + 1 if rec < DAY else S]))
        self.probe("good", hold=0)
        self.probe("good")
        self.lines.append("effects")

    def park_episode(self, mood):
        """a request arrives and is parked in the breaker's "is in error state" log call; meanwhile requests admitted earlier
        complete (possibly re-tripping the breaker) and the clock moves; then it is released and decided"""
        r = self.rng
        if self.parks <= 0:
            return
        self.parks -= 1
        others = list(self.fl[-4:])
        self.lines.append("park-warn 1")
        a = self.start()
        self.lines.append("park-warn 0")
        if r.random() < 0.4:
            # a second request arrives while the first is parked (on this code: waits for the lock, both are decided in order)
            self.probe(mood, hold=0.3)
        if r.random() < 0.3:
            self.adv(r.choice([1, MS, self.cp + 1]))
        for i in r.sample(others, min(len(others), r.randint(0, 2))):
            self.finish(i, self.code(r.choice(["bad", "bad", mood])))
        self.adv(r.choice([0, 1, self.cp + 1, self.fb // 5, self.fb // 2, max(self.fb - 1, 0), self.rec // 4 if self.rec < DAY else MS]))
        self.lines.append("unpark " + a)
        if r.random() < 0.7:
            self.finish(a, self.code(mood))

    def bulk(self, n, step):
        self.lines.append("burst %d %d" % (n, step))
        self.now += n * step

    def drain(self):
        for i in list(self.fl):
            if self.rng.random() < 0.7:
                self.finish(i, self.code("good"))


def latency_cycle(rng):
    """slow responses spread over several 10 s histogram slots before the trip, then a complete cycle with fast
    responses and evaluations while the old slots are still inside the 60 s rolling window"""
    q = lit_f(rng.choice([("50.0", 500, 10), ("90.0", 900, 10), ("99.0", 990, 10), ("99.9", 999, 10), ("100.0", 1000, 10), ("75.5", 755, 10)]))
    expr = ("cmp", rng.choice(["gt", "ge"]), ("lat", q), lit_i(rng.choice([50, 100, 250])))
    k = rng.random()
    if k < 0.3:
        expr = ("or", expr, ("cmp", "gt", ("ner",), lit_f(("0.9", 9, 10))))
    elif k < 0.5:
        expr = ("and", ("cmp", "le", ("ner",), lit_f(("0.5", 5, 10))), expr)
    cp = rng.choice([20 * S, 25 * S, 30 * S, 35 * S])
    fb, rec = rng.choice([S, 2 * S, 2 ** 30, 3 * S]), rng.choice([S, 2 * S, 2 ** 30, 3 * S])
    b = Builder(rng, fb, rec, cp, expr)
    fast = lambda: rng.choice([MS, 2 * MS, 5 * MS, 10 * MS])
    slow = lambda: rng.choice([300 * MS, 500 * MS, 640 * MS, 800 * MS, 1234 * MS])

    def serve(lat, code=200):
        i = b.start()
        b.adv(lat)
        b.finish(i, code)
    serve(fast())                                  # first completion: evaluated, schedules the next check at cp
    t = rng.choice([5, 8, 11]) * S
    while t < cp - 2 * S:                          # slow history over >= 3 slots, no evaluation due yet
        b.goto(t)
        for _ in range(rng.randint(1, 4)):
            serve(slow())
        t += rng.choice([5, 10, 11, 12]) * S
    b.goto(cp + rng.choice([1, MS, S]))
    serve(slow())                                  # due: trips on the slow history
    b.lines.append("state")
    t0 = b.now
    b.goto(t0 + fb + rng.choice([0, 1, MS]))
    b.probe("good", hold=0)                        # recovery starts
    b.goto(b.now + rec + rng.choice([1, MS, S]))
    for _ in range(rng.randint(1, 3)):             # standby again: fast responses only
        serve(fast())
    b.goto(max(b.now, t0 + cp) + rng.choice([1, MS, S]))
    for _ in range(rng.randint(1, 3)):             # the next evaluation is due: must not trip on a healthy backend
        serve(fast())
    b.lines += ["state", "effects"]
    if rng.random() < 0.5:                         # and on through the rest of the window
        b.goto(b.now + rng.choice([5, 10, 20, 40]) * S)
        for _ in range(rng.randint(1, 4)):
            serve(rng.choice([fast(), fast(), slow()]))
            b.adv(rng.choice([0, S, 10 * S]))
        b.lines += ["state", "effects"]
    return b.lines


def hist_walk(rng):
    """the latency histogram on its own: a condition over LatencyAtQuantileMS with the quantile literals 0, 50, 90, 99, 99.9, 100 and
    > 100; latencies from sub-millisecond to beyond 2^32 us (about 71.6 min: dropped by the histogram), many completions inside one
    10 s histogram period, gaps of more than 10 s and more than 60 s between completions (one rotation per record however long the
    gap), trips (histogram reset) in between"""
    qs = [("0.0", 0, 10), ("50.0", 500, 10), ("90.0", 900, 10), ("99.0", 990, 10), ("99.9", 999, 10), ("100.0", 1000, 10),
          ("100.5", 1005, 10), ("250.0", 2500, 10), ("1.0", 10, 10), ("33.3", 333, 10), ("50.", 50, 1)]
    thr = [0, 1, 2, 5, 10, 50, 100, 250, 1000, 5000, 60000, 4000000, 4294967]
    expr = None
    for _ in range(rng.randint(1, 4)):
        a = ("cmp", rng.choice(["gt", "gt", "ge", "ge", "lt", "le", "eq", "neq"]), ("lat", lit_f(rng.choice(qs))), lit_i(rng.choice(thr)))
        expr = a if expr is None else (rng.choice(["and", "or"]), expr, a)
    cp = rng.choice([0, MS, 100 * MS, S, 5 * S, 20 * S])
    fb, rec = rng.choice([MS, S, 2 * S]), rng.choice([MS, S, 2 * S])
    b = Builder(rng, fb, rec, cp, expr)
    b.parks = 0
    gaps = [0, 0, 1, 999, 1000, 500000, MS, 7 * MS, 123456789, S, 3 * S, 10 * S - 1, 10 * S, 10 * S + 1, 25 * S, 59 * S, 61 * S, 130 * S, 700 * S]
    for _ in range(rng.randint(30, 90)):
        k = rng.random()
        if k < 0.30:
            b.start()
        elif k < 0.55:
            b.adv(rng.choice(gaps))
        elif k < 0.58:
            b.adv(rng.choice([4294 * S, 4294967296000 - 1, 4294967296000, 4295 * S, 9000 * S]))     # around and beyond 2^32 us
        elif k < 0.85:
            if b.fl:
                b.finish(rng.choice(b.fl), rng.choice([200, 200, 200, 404, 502]))
        elif k < 0.92:
            for _ in range(rng.randint(10, 40)):     # many completions inside one histogram period
                i = b.start()
                b.adv(rng.choice([0, 1, 999, 1000, 250000, MS, 3 * MS, 40 * MS, 150 * MS]))
                b.finish(i, 200)
        else:
            b.adv(fb + rng.choice([0, 1, MS]))       # out of a tripped state, if any
            b.probe("good", hold=0)
            b.adv(rec + 1)
            b.probe("good", hold=0)
            b.lines.append(rng.choice(["state", "effects"]))
    b.drain()
    b.lines += ["state", "effects"]
    return b.lines


def park_retrip(rng):
    """requests that arrive while the breaker is recovering are held in its "is in error state" log call while requests
    admitted earlier fail and re-trip it; they are decided afterwards, inside the new fallback period"""
    thr = lit_f(rng.choice([("0.5", 5, 10), ("0.25", 25, 100), ("0.3", 3, 10), ("0.1", 1, 10)]))
    fn = rng.choice([("ner",), ("rcr", lit_i(500), lit_i(600), lit_i(0), lit_i(600))])
    expr = ("cmp", rng.choice(["gt", "ge"]), fn, thr)
    fb, rec = rng.choice(DURS[2:11]), rng.choice(DURS[2:11])
    cp = rng.choice([0, 1000, MS, 10 * MS])
    b = Builder(rng, fb, rec, cp, expr)
    b.parks = 0
    i = b.start()
    b.adv(cp + 1)
    b.finish(i, rng.choice([502, 504]))            # trips at T
    t = b.now
    for _ in range(rng.randint(1, 3)):
        b.goto(t + fb + rng.choice([0, 1, MS]))
        b.probe("good", hold=0)                    # recovery starts
        u0 = b.now
        b.goto(u0 + rec * rng.choice([5, 6, 7, 8, 9]) // 10)
        held = [b.start() for _ in range(rng.randint(4, 9))]     # some of them are passed and stay in flight
        b.adv(rng.choice([0, 1, cp + 1]))
        b.lines.append("park-warn 1")
        a = b.start()
        b.lines.append("park-warn 0")
        b.adv(cp + 1)
        if rng.random() < 0.5 and len(held) >= 2:
            # two of them complete "at once": both responses are recorded before either checkAndSet gets the lock.  Which of the
            # held requests were passed is not known here: every pair is tried, the first pair in flight does it (the others are
            # `bad-op` on both sides and dropped after the annotation pass)
            import itertools
            pairs = list(itertools.combinations(held, 2))
            rng.shuffle(pairs)
            # half of the time the clock moves on while the two completions wait for the lock (a check that trips then counts
            # the fallback period from the instant it holds the lock, not from the instant the response ended)
            late = (" adv=%d" % rng.choice([fb // 2, fb * 6 // 10, fb + 1, cp + 1])) if rng.random() < 0.5 else ""
            for j1, j2 in pairs[:12]:
                b.lines.append("finish2 %s %d %s %d%s" % (j1, rng.choice([200, 200, 502, 504]), j2, rng.choice([502, 504, 200]), late))
        for j in held:
            b.finish(j, rng.choice([502, 504, 502, 504, 200]))   # the first due failure re-trips
        t = b.now
        b.lines.append("state")
        b.adv(rng.choice([1, fb // 100 + 1, fb // 5, fb // 2, max(fb - 1, 1)]))
        if rng.random() < 0.5:
            b.lines.append("unpark " + a)
            b.finish(a, 200)
        else:
            # parked inside the new fallback window, and a second arrival while it is parked
            b.lines.append("unpark " + a)
            b.lines.append("park-warn 1")
            a2 = b.start()
            b.lines.append("park-warn 0")
            b.probe("good", hold=0)
            b.lines.append("unpark " + a2)
            b.finish(a, 200)
        b.lines += ["state", "effects"]
    return b.lines


def near_literals(p, q):
    """decimal literals at relative distance 1e-11 .. 1e-5 on both sides of p/q (never equal to it)"""
    r = Fraction(p, q)
    out = []
    for k in range(5, 13):
        base = (r * 10 ** k).numerator // (r * 10 ** k).denominator
        for n in (base - 1, base, base + 1, base + 2):
            lit = Fraction(n, 10 ** k)
            if n > 0 and lit != r and Fraction(1, 10 ** 11) <= abs(lit - r) / r <= Fraction(1, 10 ** 5):
                out.append(("%d.%0*d" % (n // 10 ** k, k, n % 10 ** k), n, 10 ** k))
    return out


def near_miss(rng):
    """ratios that come within 1e-11 .. 1e-5 (relative) of the literal without being equal to it: every comparison must still be the
    exact one.  Each completion is an evaluation (tiny check period); a guard keeps the breaker from tripping before the ratio is reached"""
    p, q = rng.choice([(1, 3), (2, 3), (1, 2), (1, 4), (3, 4), (2, 5), (3, 5), (1, 6), (2, 7), (3, 7), (5, 6), (1, 1), (3, 8), (4, 9)])
    text, n, d = rng.choice(near_literals(p, q))
    use_rcr = rng.random() < 0.5
    fn = ("rcr", lit_i(500), lit_i(600), lit_i(0), lit_i(600)) if use_rcr else ("ner",)
    err = [500, 503, 599] if use_rcr else [502, 504]
    atom = ("cmp", rng.choice(list(OPS)), fn, ("f", n, d, text))
    g100 = max(0, p * 100 // q - 3)
    guard = ("cmp", "gt", fn, ("f", g100, 100, "0.%02d" % g100 if g100 < 100 else "1.00"))
    expr = rng.choice([atom, ("and", guard, atom), ("and", guard, atom), ("and", atom, guard),
                       ("or", ("cmp", "gt", fn, lit_f(("2.0", 20, 10))), ("and", guard, atom)),
                       ("and", ("or", atom, ("cmp", "lt", fn, lit_f(("0.0", 0, 10)))), guard)])
    cp = rng.choice([0, 1000, MS])
    fb, rec = rng.choice([MS, 2 ** 20, 5 * MS]), rng.choice([MS, 2 ** 20, 5 * MS])
    b = Builder(rng, fb, rec, cp, expr)
    b.parks = 0
    for _ in range(rng.randint(2, 4)):
        codes = [rng.choice(GOOD[:5])] * (q - p) + [0] * p
        if rng.random() < 0.3:
            rng.shuffle(codes)
        for c in codes:
            i = b.start()
            b.adv(cp + rng.choice([1, 1000, MS]))
            b.finish(i, c or rng.choice(err))
        b.lines.append("state")
        # back to standby (or simply on): sit out fallback and recovery, still inside the 10 s counter window
        b.adv(fb + 1)
        b.probe("good", hold=0)
        b.adv(rec + 1)
        b.probe("good", hold=0)
        b.lines.append("effects")
        b.adv(11 * S)                              # the next round starts with an empty counter window
    return b.lines


def raw_scenario(rng, focus):
    if rng.random() < (0.15 if focus == "C18" else 0.05):
        return latency_cycle(rng)
    if rng.random() < (0.15 if focus == "C18" else 0.03):
        return near_miss(rng)
    if rng.random() < (0.12 if focus == "C18" else 0.04):
        return hist_walk(rng)
    if rng.random() < (0.1 if focus == "C05" else 0.03):
        return park_retrip(rng)
    fb, rec, cp = rng.choice(DURS), rng.choice(DURS), rng.choice(CPS)
    long_rec = rng.random() < (0.2 if focus == "C12" else 0.08)
    if long_rec:
        # one cycle only and a short fallback period: the whole scenario must stay below 2^63 ns after hx.Base
        fb, rec = rng.choice(DURS[:10]), rng.choice(LONG_DURS)
    if rng.random() < 0.02:
        fb = 0
    if rng.random() < 0.02:
        rec = 0
    r = rng.random()
    if r < 0.05:
        expr = ("bad", rng.choice(BAD))
    elif r < 0.13:
        expr = gen_expr(rng, rng.randint(0, 2), [True])
    else:
        expr = gen_expr(rng, rng.choice([0, 1, 1, 2, 3]))
    b = Builder(rng, fb, rec, cp, expr)
    if expr[0] == "bad" or r < 0.13:
        b.traffic(rng.randint(2, 6), "mixed")
        return b.lines
    cycles = rng.randint(1, 4 if focus != "C05" else 3)
    if long_rec:
        cycles = 1
    for _ in range(cycles):
        kind = rng.random()
        if focus == "C05" and kind < 0.35 and not long_rec:
            # long random walk with time steps scaled to the three durations
            for _ in range(rng.randint(20, 80)):
                b.adv(rng.choice([0, 0, 1, cp // 2, cp + 1, fb // 3, fb - 1 if fb else 0, fb, fb + 1, rec // 5, rec, rec + 1, MS, S]))
                if b.fl and (len(b.fl) >= 8 or rng.random() < 0.45):
                    b.finish(rng.choice(b.fl), b.code("mixed"))
                else:
                    b.start()
            continue
        b.traffic(rng.randint(3, 25), rng.choice(["good", "mixed", "mixed", "bad"]))
        t = b.burst(rng.choice(["bad", "bad", "mixed"]))
        if rng.random() < 0.8:
            b.shield_probes(t)
        mood = rng.choice(["good", "good", "mixed", "bad"]) if focus != "C12" else rng.choice(["good", "good", "good", "mixed"])
        b.sweep(t, mood)
        if rng.random() < 0.3:
            b.drain()
    b.lines.append("state")
    b.lines.append("effects")
    return b.lines


def ensure_bin():
    global BIN
    if BIN and os.path.exists(BIN):
        return BIN
    repo = os.environ.get("VERIF_REPO", "/repo")
    d = tempfile.mkdtemp(prefix="brk-h-")
    env = dict(os.environ, GOFLAGS="-mod=mod", GOPROXY="off", GOSUMDB="off", GOTOOLCHAIN="local")
    hd = os.path.join(VERIF, "harness")
    open(os.path.join(d, "go.mod"), "w").write(open(os.path.join(hd, "go.mod")).read().replace("=> /repo", "=> " + repo))
    sums = set(open(os.path.join(repo, "go.sum")).read().splitlines())
    open(os.path.join(d, "go.sum"), "w").write("\n".join(sorted(x for x in sums if x.strip())) + "\n")
    out = os.path.join(d, "h")
    subprocess.run(["go", "build", "-modfile", os.path.join(d, "go.mod"), "-tags", "verif", "-o", out, "./cmd/c05"], cwd=hd, env=env, check=True)
    BIN = out
    return BIN


GENERIC = ("timeout", "dead", "panic", "env-error", "<no", "no-output")
DROPPED_HELPER = ["# dropped: the annotation helper returned no well-formed answer for this scenario", "cfg fb=1 rec=1 cp=1 px=bad go=!"]


def generic_output(o):
    """an output line the runner itself produced (watchdog, crash, missing line): says nothing about the breaker"""
    t = o.split()
    return not t or t[0].startswith(GENERIC) or "quiesce-timeout" in o or "inconclusive" in o


def _annotate_batch(binp, batch, timeout):
    """one helper process over a batch of scenarios -> per scenario (lines, outs) or None when its answer is short / ill-formed"""
    text = "".join("\n".join(s) + "\n" for s in batch)
    try:
        p = subprocess.Popen([binp, "annotate"], stdin=subprocess.PIPE, stdout=subprocess.PIPE, stderr=subprocess.DEVNULL, text=True)
        try:
            got_all = p.communicate(text, timeout=timeout)[0].split("\n")
        except subprocess.TimeoutExpired:
            p.kill()
            p.communicate()
            got_all = []
    except OSError:
        got_all = []
    res, pos = [], 0
    for s in batch:
        got = got_all[pos:pos + len(s)]
        pos += len(s)
        ok = len(got) == len(s)
        lines, outs = [], []
        for raw, g in zip(s, got):
            if raw.startswith("#"):
                lines.append(raw)
                outs.append("#")
                continue
            if "\t" not in g:
                ok = False
                break
            a, o = g.split("\t", 1)
            if generic_output(o) or a.split()[:2] != raw.split()[:2]:
                ok = False
                break
            lines.append(a)
            outs.append(o)
        res.append((lines, outs) if ok else None)
    return res


def annotate(scens):
    """run the raw scenarios through `c05 annotate`: oracle values filled in, outputs alongside.  A scenario whose answer is
    short or ill-formed (helper starved, killed, watchdog) is retried in smaller batches and finally dropped, never raised"""
    if not scens:
        return []
    try:
        binp = ensure_bin()
    except Exception:
        return [(list(DROPPED_HELPER), ["#", "err"]) for _ in scens]
    import concurrent.futures as cf
    jobs = 8
    out = [None] * len(scens)
    todo = list(range(len(scens)))
    for attempt, (size, timeout) in enumerate(((max(1, (len(scens) + jobs - 1) // jobs), 300), (8, 120), (1, 60))):
        if not todo:
            break
        batches = [todo[i:i + size] for i in range(0, len(todo), size)]
        with cf.ThreadPoolExecutor(jobs if attempt == 0 else 4) as ex:
            results = list(ex.map(lambda ids: _annotate_batch(binp, [scens[i] for i in ids], timeout), batches))
        todo = []
        for ids, res in zip(batches, results):
            for i, r in zip(ids, res):
                if r is None:
                    todo.append(i)
                else:
                    out[i] = r
    for i in todo:
        out[i] = (list(DROPPED_HELPER), ["#", "err"])
    return out


def float_ramp(dur, a, d, el):
    """ratio.go, literally, in IEEE doubles"""
    t = (0.5 / float(dur)) * float(el) if dur != 0 else float("nan")
    e = float(a + 1) / float(a + d + 1)
    return e < t


def ambiguous(lines, outs):
    """op-line indices of ramp decisions whose float64 evaluation is not safely the exact one"""
    try:
        return _ambiguous(lines, outs)
    except Exception:
        return [-1]      # unreadable run: treated as not usable (the caller drops the scenario after its retries)


def _ambiguous(lines, outs):
    cfg, evs = read_run(lines, outs)
    idx = []
    if cfg is None:
        return idx
    for e, p, f, el, seg in ramp_decisions(cfg, evs):
        L, R = 2 * cfg["rec"] * (p + 1), el * (p + f + 1)
        exact = L < R
        if float_ramp(cfg["rec"], p, f, el) != exact or (L != R and abs(L - R) * 2 ** 40 < max(L, R)):
            idx.append(e.idx)
    return idx


def in_clock_range(lines):
    """every deadline the breaker can compute (now + fallback/recovery duration) must fit the protocol's int64 ns since hx.Base"""
    now = 0
    for l in lines:
        f = l.split()
        if f[0] == "at":
            now = max(now, int(f[1]))
        elif f[0] == "adv":
            now += int(f[1])
        elif f[0] == "burst":
            now += int(f[1]) * int(f[2])
    c = lines[0].split()
    if now + max(int(kvget(c, "fb", "0")), int(kvget(c, "rec", "0"))) >= 2 ** 63 - 2 ** 56:
        return ["# dropped: the scenario would run past the int64 clock range", "cfg fb=1 rec=1 cp=1 px=bad go=!"]
    return lines


def gen(rng, tier, focus):
    n = {"quick": 260, "thorough": 2600, "search": 300}.get(tier, 260)
    raws = [in_clock_range(raw_scenario(rng, focus)) for _ in range(n)]
    ann = annotate(raws)
    # a `finish` of a request that was answered by the fallback is `bad-op` on both sides: keep only a few
    for k in range(n):
        lines, outs = ann[k]
        keep = [i for i in range(len(lines)) if not (outs[i] == "bad-op" and lines[i].startswith("finish") and rng.random() < 0.95)]
        ann[k] = ([lines[i] for i in keep], [outs[i] for i in keep])
    nudged = [0] * n
    for rnd in range(3):
        redo = []
        for k in range(n):
            lines, outs = ann[k]
            amb = ambiguous(lines, outs)
            if amb and amb[0] < 0:
                ann[k] = (list(DROPPED_HELPER), ["#", "err"])
                continue
            if amb:
                i = amb[0]
                raws[k] = [l for l in lines[:i] if not l.startswith("# nudged")] + ["adv %d" % max(1, int(kvget(lines[0].split(), "rec", "0")) // 10 ** 6)] + lines[i:]
                raws[k] = [x.split(" q=")[0] if x.startswith("finish") else x for x in raws[k]]
                nudged[k] += 1
                redo.append(k)
        if not redo:
            break
        for k, a in zip(redo, annotate([raws[k] for k in redo])):
            ann[k] = a
    for k in range(n):
        lines, outs = ann[k]
        if ambiguous(lines, outs):
            yield ["# dropped: float-ambiguous ramp decision remained after 3 nudges", "cfg fb=1 rec=1 cp=1 px=bad go=!"]
            continue
        yield (["# nudged=%d" % nudged[k]] if nudged[k] else []) + lines


def canon(side, line):
    """a q= that is not what the histogram gives (stale: a shrunk or hand-written scenario; or a broken histogram) is reported by the
    implementation as ` oracle-mismatch=<its values>` and by the model as ` hist-mismatch model=<its values> impl=<q=>`: the two
    lines agree iff the values each side computed agree"""
    if side == "impl":
        return re.sub(r" oracle-mismatch=(\S*)", r" q-differs=\1", line)
    return re.sub(r" hist-mismatch model=(\S*) impl=\S*", r" q-differs=\1", line)


# ------------------------------------------------------------------------------------------ accounting
def describe(ops, outs, hist):
    for l, o in zip(ops, outs):
        if l.startswith("finish") and " info=" in l:
            hist["finish:informational-first"] += 1
        if l.startswith("start ") and l.endswith(" cancelled"):
            hist["start:cancelled-context"] += 1
        if o == "parked":
            hist["park:parked"] += 1
        elif o.startswith("unparked ") and l.startswith("finish2"):
            hist["park:record-record-check-check"] += 1
        elif o.startswith("unparked ") and l.startswith("start"):
            hist["park:decided-before-second-arrival"] += 1
        elif o.startswith("unparked "):
            hist["park:decided-before-completion"] += 1
        elif l.startswith("unpark ") and o != "bad-op":
            hist["park:unparked-explicitly"] += 1
        if l.startswith("cfg "):
            for k in ("fbk", "verbose", "fx"):
                v = kvget(l.split(), k)
                if v:
                    hist["cfg:%s=%s" % (k, v)] += 1
    for l in ops:
        if l.startswith("# nudged="):
            hist["float:nudged-inputs"] += int(l.split("=")[1])
        if l.startswith("# dropped: float"):
            hist["float:dropped-scenarios"] += 1
        if l.startswith("# dropped: the annotation helper"):
            hist["helper:dropped-scenarios"] += 1
        if l.startswith("# dropped: the scenario would run past"):
            hist["clock:dropped-scenarios"] += 1
    cfg, evs = read_run(ops, outs)
    if cfg is None:
        hist["cfg:rejected"] += 1
        return
    for e in evs:
        hist["op:" + e.kind] += 1
        if e.kind == "start":
            hist["answer:%s-in-%s" % (ans_of(e), e.before)] += 1
        if e.before != e.after:
            hist["edge:%s->%s" % (e.before, e.after)] += 1
    for e, p, f, el, seg in ramp_decisions(cfg, evs):
        L, R = 2 * cfg["rec"] * (p + 1), el * (p + f + 1)
        hist["ramp:exact-tie" if L == R else "ramp:decision"] += 1
    try:
        expr = parse_px(cfg["px"])
        for e, is_eval, verdict, tripped in evaluations(cfg, evs, expr, hist):
            if is_eval and verdict is not None:
                hist["eval:%s" % verdict] += 1
            elif is_eval:
                hist["eval:skipped-tripped"] += 1
    except Exception:
        hist["describe-error"] += 1


def facts(ops, outs):
    cfg, evs = read_run(ops, outs)
    d = {"trips": 0, "shielded": 0, "late_done": 0, "ramp_pass": 0, "ramp_refuse": 0, "standby_back": 0, "evals": set()}
    if cfg is None:
        return d
    trip_t = None
    for e in evs:
        if e.kind == "finish" and e.after == "tripped" and e.before != "tripped":
            d["trips"] += 1
            trip_t = e.t
        elif e.kind == "finish" and e.before == "tripped":
            d["late_done"] += 1
        if e.kind == "start" and trip_t is not None and trip_t <= e.t < trip_t + cfg["fb"]:
            d["shielded"] += 1
        if e.before == "recovering" and e.after == "standby":
            d["standby_back"] += 1
    for e, p, f, el, seg in ramp_decisions(cfg, evs):
        d["ramp_pass" if e.out.startswith("pass") else "ramp_refuse"] += 1
    try:
        for e, is_eval, verdict, tripped in evaluations(cfg, evs, parse_px(cfg["px"])):
            if is_eval and verdict is not None:
                d["evals"].add(verdict)
    except Exception:
        pass
    return d
