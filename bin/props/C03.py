"""C03 — a source is never admitted faster than its token-bucket rate allows."""
from props import ratecommon as rc
from props.ratecommon import S

ID = "C03"
HARNESS = "c03"
DRIVER = "c03"
PROPS_MODULE = "OxyModel.Props.C03"
AUDIT = "OxyModel/Audit/C03.lean"
THEOREMS = ["C03.C03_bucket_window", "C03.C03_set_window", "C03.C03_limiter_refines_set",
            "C03.C03_limiter_window", "C03.C03_5x_suffices", "C03.C03_5x_suffices_set",
            "C03.C03_hypothesis_needed", "C03.C03_subsecond_forgets", "C03.C03_5x_needs_avg_le_period"]
RACE = False
JOBS = 8
RULE = ("scenario = one rate set (1-3 periods from 1us to 1h, average 1..10^6, burst inside and outside burst<=5*average) "
        "driven through TokenLimiter.ServeHTTP (1-4 sources within capacity) or a bare TokenBucketSet: bursts at one instant, "
        "sustained stretches around the token interval, idle gaps around burst*tpt and around the entry lifetime; "
        "non-trivial = at least one admitted and one refused request and a history longer than the entry lifetime or >= 20 requests")
ASSUMPTIONS = [
    "request amounts are non-negative and all quantities fit in int64 (generator stays below 2^50 ns)",
    "the clock never steps backwards (frozen clock, only advanced)",
    "'period/average' is read as the code's integer quantum tpt = timePerToken = max(1 ns, floor(period/average)). The exact quotient "
    "period/average is smaller by less than 1 ns, i.e. by a RELATIVE 1/floor(period/average) at most (0.6 % for 1000 ns / 7, up to ~100 % "
    "when average lies in (period/2, period] where tpt = 1 ns), and for average > period[ns] the clamp makes tpt LARGER than the quotient; "
    "every bound and every 'burst x (period/average)' of the statement is claimed with tpt in that place",
    "'burst <= 5 x average suffices for periods >= 1 s' is proved with the extra condition average <= period in ns (at most one token per "
    "ns, tpt not clamped); without it the clause is false of code and model alike (C03_5x_needs_avg_le_period: 1 s, 10^10/s, burst 5*10^10 "
    "admits 10^11 in 11 s, bound 6.1*10^10 + 1)",
    "limiter-level bound (C03_limiter_window) assumes: distinct sources <= capacity, rates fixed (no per-request rate override), "
    "and RefillWithinTTL: burst*timePerToken <= 10*floor(maxPeriod/1s) s for every rate (an idle entry is kept for more than that long "
    "since its last access; sub-second max periods never satisfy it)",
    "TokenLimiter.consumeRates is atomic (whole body under tl.mutex: C09 lock facts)",
]
TRUSTED = ["net/http/httptest request/recorder, time.ParseDuration of X-Retry-In (exact for Duration.String output)"]


def gen(rng, tier):
    n_scen = {"quick": 260, "thorough": 2500, "search": 300}.get(tier, 260)
    long_ops = {"quick": 160, "thorough": 400, "search": 200}.get(tier, 160)
    for k in range(n_scen):
        style = rng.random()
        if style < 0.3:
            rates = rc.pick_rates(rng)
            lines = ["cfg set " + rc.fmt_rates(rates)]
            lines += rc.gen_set_ops(rng, rates, rng.randint(20, long_ops), allow_update=rng.random() < 0.25)
        else:
            rates = rc.pick_rates(rng, "hyp" if style < 0.7 else None)
            nsrc = rng.choice([1, 1, 2, 3, 4])
            cap = nsrc + rng.choice([0, 0, 1, 5])
            sources = ["s%d" % i for i in range(nsrc)]
            # a share without any Capacity option (DefaultCapacity): the limiter must behave exactly as within an explicit capacity
            lines = ["cfg rate %s cap=%s" % (rc.fmt_rates(rates), "default" if rng.random() < 0.25 else str(cap))]
            stock = nsrc > 1 and rng.random() < 0.12     # sources told apart by the stock client.ip extractor
            if stock:
                sources = rc.clientip_sources(rng, nsrc)
                lines[0] += " ext=clientip"
            body = rc.gen_source_ops(rng, rates, sources, rng.randint(20, long_ops),
                                     allow_retry=True, allow_rates=(not stock) and rng.random() < 0.15)
            lines += rc.amount_one(body) if stock else body
        yield lines
    # first contact of a source made by many callers at once (and again after its entry has expired): the callers
    # rendezvous inside the rate extractor, which the limiter calls under its mutex
    for k in range({"quick": 6, "thorough": 40, "search": 10}.get(tier, 6)):
        rates = rc.pick_rates(rng, "hyp", nmax=2)
        b = min(r[2] for r in rates)
        lines = ["cfg rate %s cap=%s" % (rc.fmt_rates(rates), rng.choice(["default", "4"]))]
        t = rng.choice([0, 5, S - 1])
        for j, src in enumerate(rng.sample(["a", "b", "c", "d"], rng.randint(1, 3))):
            g = rng.choice([4, 8, 16])
            lines.append("at %d preq %s 1 %d %d barrier=1" % (t, src, g * rng.randint(1, 3) + b, g))
            lines.append("at %d req %s 1" % (t, src))
            t += rng.choice([0, 1, S])
        t += 100 * max(r[0] for r in rates) + 2 * S          # every entry has expired
        lines.append("at %d preq a 1 %d 8 barrier=1" % (t, 8 + b))
        yield lines
    # a per-request rate set (ExtractRates) with a much longer period than the defaults: the entry must live as long as the
    # set actually in use needs (10 x its longest period + 1 s), not as long as the default rates would
    for k in range({"quick": 6, "thorough": 40, "search": 10}.get(tier, 6)):
        b = rng.choice([2, 3, 5, 10])
        plan = rc.fmt_rates([(rng.choice([60 * S, 600 * S, 3600 * S]), rng.choice([1, b]), b)])
        lines = ["cfg rate %s cap=%s" % (rc.fmt_rates([(S, 1, rng.choice([1, 2]))]), rng.choice(["default", "3"]))]
        t = rng.choice([0, 5, S - 1])
        for src in rng.sample(["a", "b", "c"], rng.randint(1, 2)):
            for _ in range(b + 1):
                lines.append("at %d req %s 1 rates=%s" % (t, src, plan))
            for gap in (11 * S, rng.choice([2 * S, 30 * S]), rng.choice([12 * S, 100 * S])):
                t += gap
                for _ in range(rng.randint(1, b + 1)):
                    lines.append("at %d req %s 1 rates=%s" % (t, src, plan))
        yield lines
    if tier == "thorough":
        # sustained traffic for many entry lifetimes
        for k in range(40):
            rates = rc.pick_rates(rng, "hyp", nmax=2)
            t, lines = 0, ["cfg rate %s cap=2" % rc.fmt_rates(rates)]
            d = max(1, min(rc.tpt(r) for r in rates) // rng.choice([1, 2, 3, 7]))
            for _ in range(20000):
                lines.append("at %d req a 1" % t)
                t += d
            yield lines


def _window_check(name, rates, evs, bad):
    """every sub-interval [i..j] of the admitted stream of one source against every rate:
       sum <= burst + (tj-ti)/tpt + 1  <=>  tpt*sum - (tj-ti) <= tpt*(burst+1)   (integers, exact)"""
    adm = [(e.t, e.amount, e.idx) for e in evs if e.status == "200" and e.amount > 0]
    adm += [(e.t, e.amount * e.counts[0], e.idx) for e in evs if e.status == "preq" and e.amount * e.counts[0] > 0]
    adm.sort(key=lambda x: x[2])
    for (p, a, b) in rates:
        q = rc.tpt((p, a, b))
        pref = 0
        best = None      # min over i of (q*pref_before_i - t_i), with its index
        for (t, n, idx) in adm:
            cand = q * pref - t
            if best is None or cand < best[0]:
                best = (cand, t, idx, pref)
            pref += n
            if (q * pref - t) - best[0] > q * (b + 1):
                tot = pref - best[3]
                bad.append("window: source %r rate %d:%d:%d admitted %d in [%d,%d] (lines %d..%d), bound burst+T/tpt+1 = %d"
                           % (name, p, a, b, tot, best[1], t, best[2], idx, b + (t - best[1]) // q + 1))
                return


def monitor(ops, outs):
    kind, cfg, evs, broken = rc.events(ops, outs)
    bad = []
    if kind not in ("rate", "set"):
        return bad
    if broken:
        return [] if broken[1].startswith("uninterpretable") else ["broken: line %d: %s" % broken]   # a line the parser cannot read is left to the model/impl diff
    rates = rc.parse_rates(cfg[2])
    if kind == "rate" and evs and all(e.rates for e in evs) and len(set(e.rates for e in evs)) == 1 and len(set(e.src for e in evs)) <= rc.cap_of(cfg):
        # every request of the history names the same rate set (one plan handed out by ExtractRates): that set is the
        # token-bucket rate of every source from its first request on, and the statement is about it
        plan = rc.parse_rates(evs[0].rates)
        hyp = rc.refill_within_ttl(plan)
        keep = 10 * (max(r[0] for r in plan) // S) * S
        for s in sorted(set(e.src for e in evs)):
            mine = [e for e in evs if e.src == s]
            if hyp or all(b.t - a.t <= keep for a, b in zip(mine, mine[1:])):
                _window_check(s, plan, mine, bad)
        return bad
    if any(e.rates for e in evs):
        # the configuration changes along the history: only the stretch before the first change is judged
        cut = min(e.idx for e in evs if e.rates)
        evs = [e for e in evs if e.idx < cut]
    if kind == "set":
        _window_check("<set>", rates, evs, bad)
        return bad
    cap = rc.cap_of(cfg)
    srcs = sorted(set(e.src for e in evs))
    if len(srcs) > cap:
        return bad          # outside the guarantee of the statement
    hyp = rc.refill_within_ttl(rates)
    keep = 10 * (max(r[0] for r in rates) // S) * S      # an entry is remembered for more than this long after its last use
    for s in srcs:
        mine = [e for e in evs if e.src == s]
        # outside RefillWithinTTL the bound is still guaranteed for a source that is never idle long enough to be forgotten
        if hyp or all(b.t - a.t <= keep for a, b in zip(mine, mine[1:])):
            _window_check(s, rates, mine, bad)
    return bad


def nontrivial(ops, outs):
    kind, cfg, evs, broken = rc.events(ops, outs)
    if broken or not evs:
        return False
    st = set(e.status for e in evs)
    return "200" in st and ("429" in st) and len(evs) >= 20


def describe(ops, outs, hist):
    kind, cfg, evs, broken = rc.events(ops, outs)
    hist["kind:%s" % kind] += 1
    if kind == "rate":
        rates = rc.parse_rates(cfg[2])
        hist["hyp:%s" % rc.refill_within_ttl(rates)] += 1
        hist["nrates:%d" % len(rates)] += 1
        if evs:
            span = evs[-1].t - evs[0].t
            hist["span>ttl:%s" % (span > rc.ttl_of(rates) * S)] += 1
    for e in evs:
        hist["out:" + e.status] += 1
        if e.retry:
            hist["op:retry"] += 1


MANIFEST = {
    "text": ("Proof: Lean 4 theorems C03_bucket_window / C03_set_window (every history of a token bucket / bucket set with "
             "non-decreasing time stamps, any mix of admitted and refused requests, every sub-interval i<=j: admitted <= burst + "
             "(t_j-t_i)/tpt + 1, all rates at once), C03_limiter_refines_set (within capacity and when every burst refills within the "
             "time an idle entry is kept, each source's decisions equal those of one never-forgotten bucket set), C03_limiter_window, "
             "C03_5x_suffices, over the executable model RL.* of ratelimit/bucket.go, bucketset.go, tokenlimiter.go and TTL.Map of "
             "collections/ttlmap.go; tied to the code by a differential run of TokenLimiter.ServeHTTP / TokenBucketSet and the compiled "
             "model on generated histories."),
    "note": ("Trusted: Lean kernel; propext/Classical.choice/Quot.sound; hand-written model validated on generated scenarios only; "
             "non-negative amounts, no int64 overflow, monotone clock; consumeRates atomic (C09). The limiter-level bound is claimed under "
             "the statement's own conditions (sources <= capacity, burst refills within the entry lifetime: burst*tpt <= 10*floor(maxPeriod/1s) s). "
             "period/average is read as tpt = max(1ns, floor(period/average)) (relative gap to the exact quotient <= 1/floor(period/average)); "
             "'5x average suffices for periods >= 1 s' additionally needs average <= period[ns] (counterexample C03_5x_needs_avg_le_period)."),
    "technique": "Lean 4 proof (potential argument tpt*avail - lastRefresh; simulation limiter/bucket set) over executable model + differential correspondence with ratelimit.TokenLimiter",
}
