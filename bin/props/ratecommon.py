"""Shared pieces of the C03 / C13 / C14 plugins (token-bucket rate limiter; harness/driver c03).

Protocol (see harness/cmd/c03/main.go):
  cfg rate <p:a:b[,p:a:b…]> cap=<n>|cap=default [solo=1]
    at <ns> req <src> <amount> [rates=<…>] [evict=<src>]   -> 200 | 429 <delay_ns> | 500   [solo=<…>]
    retry [extra=<ns>]                                      -> <resp> t=<ns> | noretry
    at <ns> preq <src> <amount> <n> <goroutines>            -> 200=<a> 429=<b> 500=<c>   (concurrent flood at one instant)
    park-reject -> ok   (the next refused request is held in the ErrorHandler before the error is read and answers `parked`)
    unpark      -> <resp of the parked request> | noparked
  cfg set <rates>
    at <ns> consume <amount> -> ok | delay <ns> | err ;  at <ns> update <rates> -> ok ; maxperiod -> <ns>
  cfg ttlmap cap=<n>
    at <ns> set <key> <ttl> [v=<n>] [probe=a,b] [evict=<key>] -> ok len=<n> [gone=…] | err ttl
    at <ns> get <key> -> hit <v> | miss ; len -> <n>
  cfg conn max=<m>
    start <id> <src> | finish <id> [rewrite=<src2>] -> admitted | 429 | released | dup | unknown
"""
S = 10 ** 9


def parse_rates(s):
    out = []
    for t in s.split(","):
        p, a, b = (int(x) for x in t.split(":"))
        out.append((p, a, b))
    # RateSet.Add: a later rate with the same period overrides
    d = {}
    for p, a, b in out:
        d[p] = (p, a, b)
    return list(d.values())


def fmt_rates(rates):
    return ",".join("%d:%d:%d" % r for r in rates)


def tpt(r):
    return max(1, r[0] // r[1])


def ttl_of(rates):
    return 10 * (max(r[0] for r in rates) // S) + 1


def refill_within_ttl(rates):
    """the hypothesis of C03_limiter_window: every burst refills within the time an idle entry is kept"""
    g = 10 * (max(r[0] for r in rates) // S) * S
    return all(r[2] * tpt(r) <= g for r in rates)


def cap_of(cfg):
    """capacity of a `cfg rate` line: cap=<n>, or cap=default / absent = ratelimit.DefaultCapacity"""
    v = kv(cfg, "cap")
    return int(v) if v and v != "default" and int(v) > 0 else 65536


def kv(f, key):
    for t in f:
        if t.startswith(key + "="):
            return t[len(key) + 1:]
    return None


class Ev:
    """one request of a `cfg rate` / `cfg set` scenario as seen on the implementation's output"""
    __slots__ = ("idx", "t", "src", "amount", "status", "delay", "rates", "evict", "solo", "retry", "n", "counts")
    # status: "200" | "429" | "500" | "update" | "preq" (then n = number of requests, counts = (n200, n429, n500))


def events(ops, outs):
    """-> (kind, cfgfields, [Ev]) for rate/set scenarios; other kinds give an empty list.
    Stops at the first line it cannot interpret (panic, timeout, bad-op …) and reports it as `broken`."""
    cfg = None
    evs = []
    broken = None
    now = 0
    last429 = None
    pending = None       # the request parked inside the error handler; its answer comes with `unpark`
    for i, (l, o) in enumerate(zip(ops, outs)):
        if l.startswith("#"):
            continue
        f = l.split()
        if f[0] == "cfg":
            cfg = f if o == "ok" else None      # a rejected configuration starts no scenario
            continue
        if cfg is None or len(cfg) < 2 or cfg[1] not in ("rate", "set"):
            continue
        of = o.split()
        e = Ev()
        e.idx = i
        e.rates = e.evict = e.solo = None
        e.retry = False
        try:
            if f[0] == "at" and f[2] == "req":
                now = max(now, int(f[1]))
                e.t, e.src, e.amount = now, f[3], int(f[4])
                e.rates, e.evict = kv(f, "rates"), kv(f, "evict")
            elif f[0] == "unpark":
                if o == "noparked" or pending is None:
                    continue
                if of[0] not in ("429", "500"):
                    broken = (i, "unexpected output %r" % o)
                    break
                pending.status = of[0]
                pending.delay = int(of[1]) if of[0] == "429" else 0
                if pending.status == "429":
                    last429 = pending
                pending = None
                continue
            elif f[0] == "at" and f[2] == "preq":
                now = max(now, int(f[1]))
                e.t, e.src, e.amount, e.n = now, f[3], int(f[4]), int(f[5])
                e.rates, e.evict = kv(f, "rates"), kv(f, "evict")
                c = (int(kv(of, "200")), int(kv(of, "429")), int(kv(of, "500")))
                if sum(c) != e.n or len(of) != 3:
                    broken = (i, "flood of %d requests answered %r" % (e.n, o))
                    break
                e.status, e.delay, e.counts = "preq", 0, c
                evs.append(e)
                continue
            elif f[0] == "retry":
                if o == "noretry":
                    continue
                e.retry = True
                if o == "parked":
                    # the retry itself was refused while `park-reject` was armed: it is held like any other refusal;
                    # it was issued exactly at the advertised time (+extra)
                    e.t = max(last429.t + last429.delay + int(kv(f, "extra") or 0), 0)
                    now = max(now, e.t)
                    e.src, e.amount, e.rates = last429.src, last429.amount, last429.rates
                    last429 = None
                    e.status, e.delay = None, 0
                    pending = e
                    evs.append(e)
                    continue
                e.t = int(kv(of, "t"))
                now = max(now, e.t)
                e.src, e.amount, e.rates = last429.src, last429.amount, last429.rates
                # the harness must have waited exactly the advertised delay (+extra)
                want = max(last429.t + last429.delay + int(kv(f, "extra") or 0), 0)
                if e.t < want:
                    broken = (i, "retry issued at %d, before advertised %d" % (e.t, want))
                    break
                last429 = None
            elif f[0] == "at" and f[2] == "consume":
                now = max(now, int(f[1]))
                e.t, e.src, e.amount = now, "", int(f[3])
                if o == "ok":
                    of = ["200"]
                elif of[0] == "delay":
                    of = ["429", of[1]]
                elif o == "err":
                    of = ["500"]
            elif f[0] == "at" and f[2] == "update":
                e.t, e.src, e.amount, e.status, e.delay = max(now, int(f[1])), "", 0, "update", 0
                now = e.t
                e.rates = f[3]
                evs.append(e)
                continue
            else:
                continue
            if o == "parked" and not e.retry:
                e.status, e.delay = None, 0
                pending = e
                evs.append(e)
                continue
            if of[0] not in ("200", "429", "500"):
                broken = (i, "unexpected output %r" % o)
                break
            e.status = of[0]
            e.delay = int(of[1]) if of[0] == "429" else 0
            e.solo = kv(of, "solo")
            if e.status == "429":
                last429 = e
        except Exception as ex:  # malformed line: not a monitor matter
            broken = (i, "uninterpretable %r -> %r (%r)" % (l, o, ex))
            break
        evs.append(e)
    evs = [e for e in evs if e.status is not None]
    kind = cfg[1] if cfg and len(cfg) > 1 else None
    return kind, cfg, evs, broken


# ---------------------------------------------------------------- generators

PERIODS_SEC = [S, S, S, 2 * S, 5 * S, 10 * S, 60 * S, 3600 * S]
PERIODS_SUB = [1000, 10 ** 6, 10 ** 7, 10 ** 8, 5 * 10 ** 8, S - 1]
AVERAGES = [1, 1, 2, 3, 5, 7, 10, 60, 100, 1000, 10 ** 6]


def pick_rate(rng, style, period=None):
    if style == "hyp":
        p = period or rng.choice(PERIODS_SEC)
        a = rng.choice(AVERAGES)
        if a > p:
            a = 1
        b = rng.choice([1, a, 5 * a, rng.randint(1, 5 * a), max(1, a // 2)])
    elif style == "big":
        p = period or rng.choice(PERIODS_SEC)
        a = rng.choice(AVERAGES[:8])
        b = rng.choice([5 * a + 1, 6 * a, 11 * a, 50 * a, rng.randint(5 * a + 1, 60 * a)])
    elif style == "sub":
        p = period or rng.choice(PERIODS_SUB)
        a = rng.choice([1, 2, 3, 7, 10, 2000, 10 ** 6])
        b = rng.choice([1, 2, 3, 5, 10, 100])
    else:  # odd quotients / clamp
        p = period or rng.choice([S, 7 * S, 10 ** 6, 1000, 3])
        a = rng.choice([3, 7, 11, 999, 2000, 10 ** 7])
        b = rng.randint(1, 12)
    return (p, a, b)


def pick_rates(rng, style=None, nmax=3):
    style = style or rng.choice(["hyp", "hyp", "hyp", "big", "sub", "odd"])
    n = rng.choice([1, 1, 1, 2, 2, 3][:max(1, 2 * nmax)])
    rates = {}
    for _ in range(n):
        st = style if rng.random() < 0.8 else rng.choice(["hyp", "sub", "odd", "big"])
        r = pick_rate(rng, st)
        rates[r[0]] = r
    return list(rates.values())


def gaps_for(rng, rates):
    """time increments of interest: around token times, burst refill times, entry lifetime, seconds boundaries"""
    g = [0, 0, 0, 1, 10 ** 7]
    ttl = ttl_of(rates)
    for r in rates:
        t = tpt(r)
        g += [t, t - 1 if t > 1 else 1, t + 1, t // 3 + 1, 2 * t - 1, 3 * t,
              r[2] * t, r[2] * t - 1, r[2] * t + 1, r[0], r[0] // 2]
    g += [(ttl - 1) * S, (ttl - 1) * S + 1, ttl * S, ttl * S - 1, ttl * S + 1, S, S - 1, 3600 * S]
    return [x for x in g if 0 <= x < 2 ** 50]


def gen_source_ops(rng, rates, sources, n_ops, allow_retry=True, allow_rates=False, t0=None):
    """a `cfg rate` history for the given sources: bursts, sustained stretches, idle gaps"""
    lines = []
    t = t0 if t0 is not None else rng.choice([0, 0, 123456789, 999999999, 5 * S + 7])
    minb = min(r[2] for r in rates)
    gaps = gaps_for(rng, rates)
    small = [x for x in gaps if x <= max(tpt(r) for r in rates) * 3]
    while len(lines) < n_ops:
        mode = rng.random()
        if mode < 0.3:          # burst at one instant
            k = rng.randint(1, min(minb, 30) + 4)
            step = lambda: 0
        elif mode < 0.75:       # sustained
            k = rng.randint(3, 40)
            d = rng.choice(small)
            step = lambda d=d: d
        else:                   # idle gap then a few
            t += rng.choice(gaps)
            k = rng.randint(1, 4)
            step = lambda: rng.choice(small)
        src = rng.choice(sources)
        for _ in range(k):
            if rng.random() < 0.3:
                src = rng.choice(sources)
            r = rng.random()
            if r < 0.7:
                amt = 1
            elif r < 0.9:
                amt = rng.randint(0, minb + 2)
            else:
                amt = rng.choice([0, minb, minb + 1, max(x[2] for x in rates), max(x[2] for x in rates) + 1])
            extra = ""
            if allow_rates and rng.random() < 0.05:
                extra = " rates=" + fmt_rates(pick_rates(rng))
            lines.append("at %d req %s %d%s" % (t, src, amt, extra))
            if allow_retry and rng.random() < 0.12:
                lines.append("retry" + rng.choice(["", "", " extra=1", " extra=%d" % rng.choice(gaps)]))
            t += step()
    return lines


def gen_set_ops(rng, rates, n_ops, allow_update=False):
    lines = []
    t = rng.choice([0, 0, 17, S])
    minb = min(r[2] for r in rates)
    gaps = gaps_for(rng, rates)
    small = [x for x in gaps if x <= max(tpt(r) for r in rates) * 3]
    while len(lines) < n_ops:
        mode = rng.random()
        if mode < 0.3:
            k, d = rng.randint(1, min(minb, 30) + 4), 0
        elif mode < 0.8:
            k, d = rng.randint(3, 40), rng.choice(small)
        else:
            t += rng.choice(gaps)
            k, d = rng.randint(1, 3), rng.choice(small)
        for _ in range(k):
            r = rng.random()
            amt = 1 if r < 0.7 else rng.randint(0, minb + 2) if r < 0.92 else max(x[2] for x in rates) + rng.randint(0, 1)
            lines.append("at %d consume %d" % (t, amt))
            t += d
        if allow_update and rng.random() < 0.1:
            lines.append("at %d update %s" % (t, fmt_rates(pick_rates(rng))))
            lines.append("maxperiod")
    return lines


PEER_IPS = ["10.0.0.1", "10.0.0.2", "2001:db8::1", "2001:db8::2", "fe80::1%eth0", "fe80::1%eth1", "::1", "::ffff:10.0.0.1"]


def clientip_sources(rng, n):
    """n peers for `cfg rate … ext=clientip`: each one address text, with a port (brackets for IPv6) or bare, fixed for the scenario"""
    out = []
    for ip in rng.sample(PEER_IPS, n):
        if rng.random() < 0.3:
            out.append(ip)
        else:
            port = rng.choice([80, 4000, 65535])
            out.append("[%s]:%d" % (ip, port) if ":" in ip else "%s:%d" % (ip, port))
    return out


def amount_one(lines):
    """the stock extractors always yield amount 1"""
    return [" ".join(l.split()[:4] + ["1"] + l.split()[5:]) if l.split()[2:3] == ["req"] else l for l in lines]
