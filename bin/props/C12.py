"""C12 — circuit-breaker recovery re-admits traffic along a bounded linear ramp."""
from props import brk_common as B

ID = "C12"
HARNESS = "c05"
DRIVER = "c05"
PROPS_MODULE = "OxyModel.Props.C12"
AUDIT = "OxyModel/Audit/C12.lean"
THEOREMS = ["C12.C12_ramp_bound", "C12.C12_refuse_only_if", "C12.C12_pass_only_below", "C12.C12_first_after_is_standby", "C12.C12_retrip", "C12.C12_retrip_fused"]
RACE = False
JOBS = 8
RULE = ("scenario = trip, then arrivals swept over the recovery period on grids of 1/4..1/64 of its length (bursts, trickles, idle gaps, dense, "
        "off-grid), outcome codes of re-admitted requests good/mixed/bad, then the end of the period (t0+rec exactly, +1 ns, later); recovery "
        "durations 1 ms..1 h incl. powers of two (exact float ties) and 0, and in a fifth of the scenarios days..130 years (2^47..2^61 ns incl.) with bulk arrivals (`burst n step` = n arrivals with the clock advancing after each, 200..5000 per ramp) so that products like 2*(allowed+1)*duration pass 2^63; non-trivial = a recovery with at least one passed and one refused "
        "request and a return to standby or a re-trip. Float: every ramp decision of the run is re-computed in IEEE doubles as ratio.go "
        "does and exactly; inputs where the two differ or lie within 2^-40 relative are nudged by rec/10^6 ns (count: histogram "
        "float:nudged-inputs), exact ties are kept (ramp:exact-tie)")
ASSUMPTIONS = ["float64 rounding in targetRatio/computeRatio is not modelled: the model decides e < t exactly; inputs closer than 2^-40 relative "
               "(other than exact ties on which the double computation is exact) are excluded by the generator and counted",
               "time stamps never decrease; durations fit in int64 ns and 2*dur*(allowed+1) in 2^63 is irrelevant to the model (unbounded Nat)",
               "the model's atomic steps are arrive (activateFallback under CircuitBreaker.m), record (metrics.Record, under RTMetrics' own locks, NOT under c.m) and check (checkAndSet under c.m); the theorems hold for every interleaving of these steps (C09 lock facts: each is atomic). The correspondence run realises: whole completions (record;check back to back), arrivals parked inside the lock, and through `finish2` the schedule Record_1 Record_2 <decision> checkAndSet checkAndSet (both responses recorded before either check); other finer schedules (e.g. the clock advancing between a request's Record and its checkAndSet) are not exercised and rest on the theorems plus the C09 lock discipline"]
TRUSTED = ["recovery start and state are observed through CircuitBreaker.String() after every op"]
MANIFEST = {
    "text": ("Proof: Lean 4 theorems C12_ramp_bound (passed*2*dur <= elapsed*(passed+refused) at every instant of every recovery period, counted "
             "on the observed answers, any arrival pattern), C12_refuse_only_if / C12_pass_only_below (a request is refused iff passing it would "
             "reach the ramp), C12_first_after_is_standby, C12_retrip (re-trip on a true condition, then the C05 shield) about CB.RC.allow / "
             "CB.arrive; tied to ratio.go / cbreaker.go by a differential run of the real CircuitBreaker and the compiled model."),
    "note": ("Reading of the statement: the request that starts the recovery (always refused: elapsed 0) is counted among the requests 'since recovery "
             "began', as the code's counters do (denied starts at 1); under the other reading (excluding it) the code would exceed the ramp, e.g. 0 passed / 2 "
             "refused at 0.7*dur passes the next request (1/3 < 0.35) and 1 of the 2 later requests has passed. Theorems and monitor both use the inclusive "
             "count. Trusted: Lean kernel; standard axioms; model validated on generated scenarios only; float64 ramp comparison modelled by exact "
             "integer cross-multiplication (dyadic ties included, sub-2^-40 gaps excluded and counted); atomic steps (C09); monotone clock."),
    "technique": "Lean 4 proof (segment invariant of the recovery period) + differential correspondence with cbreaker.CircuitBreaker",
}


def pre_check(check):
    B.BIN = check.bin_h


def gen(rng, tier):
    return B.gen(rng, tier, "C12")


def canon(side, line):
    return B.canon(side, line)


def monitor(ops, outs):
    return B.monitor_c12(ops, outs)


def nontrivial(ops, outs):
    d = B.facts(ops, outs)
    return d["ramp_pass"] >= 1 and d["ramp_refuse"] >= 1 and (d["standby_back"] >= 1 or d["trips"] >= 2)


def describe(ops, outs, hist):
    B.describe(ops, outs, hist)
