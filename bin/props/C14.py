"""C14 — limiter decisions for one source are independent of all other sources."""
import itertools
import random

from props import ratecommon as rc
from props.ratecommon import S

ID = "C14"
HARNESS = "c03"
DRIVER = "c03"
PROPS_MODULE = "OxyModel.Props.C14"
AUDIT = "OxyModel/Audit/C14.lean"
THEOREMS = ["C14.C14_rate_noninterference", "C14.C14_rate_noninterference_new", "C14.C14_evict_others_unchanged",
            "C14.C14_evict_others_unchanged_rates", "C14.C14_rate_noninterference_rates",
            "C14.C14_within_capacity_no_eviction", "C14.C14_evict_min_only", "C14.C14_evict_min_only_rel", "C14.C14_heap_consistent",
            "C14.C14_heap_pop_isMin", "C14.C14_evicted_restarts", "C14.C14_conn_noninterference"]
RACE = False
JOBS = 8
RULE = ("scenario = interleaved history of 2-6 sources through one TokenLimiter (capacity below / at / above the number of sources, or no Capacity option at all = DefaultCapacity) with, "
        "next to it, one private TokenLimiter per source fed only that source's requests (solo=1; a source named as eviction victim "
        "restarts its private limiter), also with per-request rate sets drawn from a few shared plans (one *RateSet object per plan, "
        "sources moved between plans while others use them); or interleaved starts/finishes through one ConnLimiter whose protected handler may rewrite the "
        "request's source header to another source with an open connection before returning, source tokens up to 300 bytes sharing long prefixes; plus (post_check) bare TTLMap histories "
        "with equal expiries whose eviction choice is read back from the implementation and checked legal by the model; "
        "non-trivial = >= 2 sources, both a 200 and a refusal, and (over-capacity scenarios) at least one eviction")
ASSUMPTIONS = [
    "container/heap + priority_queue.go are modelled (Model/Heap.lean: up/down/Push/Pop/Remove, Update = Remove+Push, index = position) and "
    "proved to keep the heap order and to hand out a minimal element (C14_heap_pop_isMin); map and heap are proved consistent in every reachable "
    "state (C14_heap_consistent), so C14_evict_min_only has no hypothesis on the victim. The model's heap is tied to the code differentially: "
    "the driver follows its own heap, so every eviction of the run — including ties among equal expiries — must match the implementation's",
    "the solo comparison through TokenLimiter is only generated when the minimal expiry is unique (the harness cannot read the tracked keys and "
    "needs evict= to restart the victim's private limiter); tied evictions are exercised without solo and on collections.TTLMap directly",
    "request amounts non-negative, monotone clock, consumeRates / acquire / release atomic under their mutex (C09)",
    "connection limiter: C04's model ConnLimit and its theorem conn_noninterference are cited; its sub-history `project` is state dependent "
    "(coincides with the static per-source filter when ids are not reused while in flight, which the harness guarantees; no lemma states it)",
]
TRUSTED = ["the per-source private limiters of the harness (solo=1) are fresh TokenLimiter instances with the same configuration"]


def _main_str(e):
    return e.status + (":%d" % e.delay if e.status == "429" else "")


# ---------------------------------------------------------------- generators

def _within(rng, n_ops):
    rates = rc.pick_rates(rng)
    nsrc = rng.randint(2, 6)
    cap = nsrc + rng.choice([0, 0, 1, 3])
    sources = ["s%d" % i for i in range(nsrc)]
    return (["cfg rate %s cap=%s solo=1" % (rc.fmt_rates(rates), "default" if rng.random() < 0.3 else str(cap))]
            + rc.gen_source_ops(rng, rates, sources, n_ops, allow_retry=False, allow_rates=False))


PEER_IPS = ["10.0.0.1", "10.0.0.2", "2001:db8::1", "2001:db8::2", "fe80::1%eth0", "fe80::1%eth1", "::1", "::ffff:10.0.0.1"]


def _clientip(rng, n_ops):
    """within capacity, sources told apart by the stock client.ip extractor: every source is one peer address, written either
    with a port (brackets for IPv6) or bare, and always the same way within the scenario (so the text of the address is the
    source also for the monitor); amounts are 1 (the stock extractor's)"""
    rates = rc.pick_rates(rng)
    nsrc = rng.randint(2, 5)
    ips = rng.sample(PEER_IPS, nsrc)
    def addr(ip):
        if rng.random() < 0.3:
            return ip
        port = rng.choice([80, 4000, 65535])
        return "[%s]:%d" % (ip, port) if ":" in ip else "%s:%d" % (ip, port)
    sources = [addr(ip) for ip in ips]
    lines = rc.gen_source_ops(rng, rates, sources, n_ops, allow_retry=False, allow_rates=False)
    # the stock extractor always yields amount 1
    lines = [" ".join(l.split()[:4] + ["1"] + l.split()[5:]) for l in lines]
    return ["cfg rate %s cap=%s solo=1 ext=clientip" % (rc.fmt_rates(rates), "default" if rng.random() < 0.3 else str(nsrc + rng.choice([0, 1, 3])))] + lines


def _plans(rng, n_ops):
    """within capacity, per-request rate sets drawn from a few shared plans (the harness hands out one *RateSet object per
    plan): sources are moved between plans while other sources use them; often a source's first request on a plan directly
    follows another source's request on that plan"""
    period = rng.choice([S, S, 2 * S, 10 * S, 10 ** 8])
    plans = [""]
    for b in rng.sample([1, 2, 3, 5, 8], rng.randint(2, 3)):
        pl = [(period, rng.choice([1, 1, 2]), b)]
        if rng.random() < 0.3:
            pl.append((60 * period, 30, rng.choice([3, 10])))
        plans.append(rc.fmt_rates(pl))
    default = [(period, 1, rng.choice([1, 2, 4]))]
    nsrc = rng.randint(2, 4)
    sources = ["s%d" % i for i in range(nsrc)]
    lines = ["cfg rate %s cap=%s solo=1" % (rc.fmt_rates(default), "default" if rng.random() < 0.3 else str(nsrc + rng.choice([0, 1])))]
    plan = {s: rng.choice(plans) for s in sources}
    t = rng.choice([0, 5, S - 1])
    prev_plan = None
    while len(lines) < n_ops:
        src = rng.choice(sources)
        r = rng.random()
        if r < 0.25 and prev_plan is not None and plan[src] != prev_plan:
            plan[src] = prev_plan            # switch to the plan the previous request (any source) ran on
        elif r < 0.35:
            plan[src] = rng.choice(plans)
        for _ in range(rng.choice([1, 1, 2, 3])):
            amt = rng.choice([1, 1, 1, 2, 0, 3])
            lines.append("at %d req %s %d%s" % (t, src, amt, " rates=" + plan[src] if plan[src] else ""))
            t += rng.choice([0, 0, 0, 1, period // 4, period, period + 1])
        prev_plan = plan[src]
    return lines


def _over(rng, n_ops, rates=None, cap=None, nsrc=None):
    """more sources than capacity; every eviction has a unique entry nearest to expiry (else the op is redirected to a tracked source)"""
    rates = rates or rc.pick_rates(rng, rng.choice(["hyp", "hyp", "sub", "big"]))
    ttl = rc.ttl_of(rates)
    cap = cap or rng.randint(1, 4)
    nsrc = nsrc or cap + rng.randint(1, 3)
    sources = ["s%d" % i for i in range(nsrc)]
    minb = min(r[2] for r in rates)
    gaps = [0, 0, 1, S, S, 2 * S, S + 1, 999999999, ttl * S, (ttl - 1) * S, 3 * S] + [rc.tpt(r) for r in rates]
    gaps = [g for g in gaps if g < 2 ** 45]
    lines = ["cfg rate %s cap=%d solo=1" % (rc.fmt_rates(rates), cap)]
    tracked = {}
    t = rng.choice([0, 999999999, 5 * S])
    for _ in range(n_ops):
        t += rng.choice(gaps)
        src = rng.choice(sources)
        sec = t // S
        if src in tracked and tracked[src] <= sec:
            del tracked[src]
        evict = None
        if src not in tracked and len(tracked) >= cap:
            m = min(tracked.values())
            cands = [k for k, v in tracked.items() if v == m]
            if len(cands) > 1:
                src = rng.choice(sorted(tracked))
                if tracked[src] <= sec:
                    del tracked[src]
            else:
                evict = cands[0]
                del tracked[evict]
        tracked[src] = sec + ttl
        r = rng.random()
        amt = 1 if r < 0.6 else rng.randint(0, minb + 1)
        lines.append("at %d req %s %d%s" % (t, src, amt, " evict=" + evict if evict else ""))
    return lines


def _over_ties(rng, n_ops):
    """more sources than capacity, many equal expiries, no solo column: which entry is forgotten is decided by the heap, and
    the model carries the same heap"""
    rates = rc.pick_rates(rng, rng.choice(["hyp", "hyp", "sub"]))
    cap = rng.randint(1, 5)
    nsrc = cap + rng.randint(1, 4)
    ttl = rc.ttl_of(rates)
    lines = ["cfg rate %s cap=%d" % (rc.fmt_rates(rates), cap)]
    t = 0
    for _ in range(n_ops):
        t += rng.choice([0, 0, 0, 1, S // 3, S, 2 * S, ttl * S, (ttl - 1) * S])
        lines.append("at %d req s%d %d" % (t, rng.randrange(nsrc), rng.choice([0, 1, 1, 2])))
    return lines


def _conn(rng, n_ops):
    """interleaved starts / finishes; a finishing handler often rewrites the header the extractor reads to the token of
    ANOTHER source that has a connection open (what proxy middlewares do to requests) — the release must still be booked
    on the source captured before acquire"""
    mx = rng.choice([1, 1, 2, 3])
    nsrc = rng.randint(2, 4)
    if rng.random() < 0.4:
        # long source tokens (65-300 bytes) sharing long prefixes, some differing only in the last byte
        plen = rng.choice([63, 64, 64, 65, 100, 128, 255, 290])
        pre = rng.choice(["p", "ab", "10.0.0."]) * plen
        pre = pre[:plen]
        names = [pre + "x", pre + "y", pre + "x" * rng.randint(2, 10), pre, pre[:-1] + "q" + "z" * rng.randint(0, 5)]
        rng.shuffle(names)
        names = names[:nsrc]
    else:
        names = ["c%d" % i for i in range(nsrc)]
    lines = ["cfg conn max=%d" % mx]
    live = {}          # id -> src, admitted according to the source's own history
    nid = 0
    for _ in range(n_ops):
        if live and rng.random() < 0.45:
            i = rng.choice(sorted(live))
            src = live.pop(i)
            others = sorted(set(x for x in live.values() if x != src))
            if others and rng.random() < 0.6:
                o = rng.choice(others)
                lines.append("finish %s rewrite=%s" % (i, o))
                if rng.random() < 0.7:      # the other source tries at once: its own count decides
                    nid += 1
                    lines.append("start r%d %s" % (nid, o))
                    if sum(1 for x in live.values() if x == o) < mx:
                        live["r%d" % nid] = o
            elif rng.random() < 0.1:
                lines.append("finish %s rewrite=nobody" % i)
            else:
                lines.append("finish %s" % i)
        else:
            nid += 1
            src = rng.choice(names)
            lines.append("start r%d %s" % (nid, src))
            if sum(1 for x in live.values() if x == src) < mx:
                live["r%d" % nid] = src
            elif rng.random() < 0.3:
                lines.append("finish r%d" % nid)       # refused: answers unknown
    return lines


def gen(rng, tier):
    n_scen = {"quick": 240, "thorough": 2000, "search": 300}.get(tier, 240)
    n_ops = {"quick": 90, "thorough": 200, "search": 120}.get(tier, 90)
    for k in range(n_scen):
        style = rng.random()
        if style < 0.07:
            yield _clientip(rng, rng.randint(20, n_ops))
        elif style < 0.25:
            yield _within(rng, rng.randint(20, n_ops))
        elif style < 0.4:
            yield _plans(rng, rng.randint(12, n_ops))
        elif style < 0.7:
            yield _over(rng, rng.randint(20, n_ops))
        elif style < 0.85:
            yield _over_ties(rng, rng.randint(20, n_ops))
        else:
            yield _conn(rng, rng.randint(10, 60))


def exhaustive(tier):
    if tier != "thorough":
        return
    # every interleaving of 3 sources x 3 requests, capacity 1..3; one second per request so that expiries are distinct
    base = ["a"] * 3 + ["b"] * 3 + ["c"] * 3
    seen = set()
    for perm in itertools.permutations(base):
        if perm in seen:
            continue
        seen.add(perm)
    for cap in (1, 2, 3):
        for perm in sorted(seen):
            lines = ["cfg rate %d:1:2 cap=%d solo=1" % (S, cap)]
            tracked = {}
            t = 0
            for src in perm:
                t += S
                sec = t // S
                if src in tracked and tracked[src] <= sec:
                    del tracked[src]
                ev = None
                if src not in tracked and len(tracked) >= cap:
                    m = min(tracked.values())
                    c = [k for k, v in tracked.items() if v == m]
                    if len(c) > 1:
                        break
                    ev = c[0]
                    del tracked[ev]
                tracked[src] = sec + 11
                lines.append("at %d req %s 2%s" % (t, src, " evict=" + ev if ev else ""))
            else:
                yield lines


# ---------------------------------------------------------------- monitors

def _monitor_rate(ops, outs):
    kind, cfg, evs, broken = rc.events(ops, outs)
    if broken:
        return [] if broken[1].startswith("uninterpretable") else ["broken: line %d: %s" % broken]   # a line the parser cannot read is left to the model/impl diff
    if not evs or evs[0].solo is None:
        return []
    if any(e.retry for e in evs):
        return []
    rates = rc.parse_rates(cfg[2])
    ttl = rc.ttl_of(rates)
    cap = rc.cap_of(cfg)
    bad = []
    if len(set(e.src for e in evs)) <= cap and not any(e.evict for e in evs):
        # within capacity nothing is ever forgotten to make room: every decision must equal the solo one, whatever
        # rate sets the requests carry
        for e in evs:
            if e.solo != _main_str(e):
                bad.append("interference: line %d source %s amount %d at %d%s was answered %s in the shared limiter but %s when its "
                           "requests are issued alone (sources within capacity)"
                           % (e.idx, e.src, e.amount, e.t, " rates=" + e.rates if e.rates else "", _main_str(e), e.solo))
                if len(bad) >= 3:
                    break
        return bad
    if any(e.rates for e in evs):
        return []
    tracked = {}
    for e in evs:
        sec = e.t // S
        if e.src in tracked and tracked[e.src] <= sec:
            del tracked[e.src]
        if e.src not in tracked and len(tracked) >= cap:
            m = min(tracked.values())
            cands = sorted(k for k, v in tracked.items() if v == m)
            if e.evict is None or e.evict not in tracked:
                return bad      # annotation inconsistent (hand-made or shrunk scenario): the solo column cannot be judged further
            if tracked[e.evict] != m:
                return bad
            if len(cands) > 1:
                return bad      # the implementation may legally forget any of cands: decisions are no longer predictable from here
            del tracked[e.evict]
        elif e.evict is not None:
            return bad
        tracked[e.src] = sec + ttl
        if e.solo != _main_str(e):
            bad.append("interference: line %d source %s amount %d at %d was answered %s in the shared limiter but %s when its requests "
                       "are issued alone%s" % (e.idx, e.src, e.amount, e.t, _main_str(e), e.solo,
                                               "" if len(set(x.src for x in evs)) > cap else " (sources within capacity)"))
            if len(bad) >= 3:
                break
    return bad


def _monitor_conn(ops, outs):
    cfgline = [l for l in ops if l.startswith("cfg")][0].split()
    mx = int(rc.kv(cfgline, "max"))
    bad = []
    inflight = {}          # id -> src (admitted, not finished)
    for i, (l, o) in enumerate(zip(ops, outs)):
        f = l.split()
        if f[0] == "start":
            if f[1] in inflight:
                continue
            own = sum(1 for s in inflight.values() if s == f[2])
            want = "admitted" if own < mx else "429"
            if o != want:
                bad.append("interference: line %d start of %s (source %s, %d own connections in flight, limit %d) answered %s, "
                           "its own history says %s" % (i, f[1], f[2], own, mx, o, want))
            if o == "admitted":
                inflight[f[1]] = f[2]
        elif f[0] == "finish":
            if f[1] in inflight:
                if o != "released":
                    bad.append("line %d finish of an in-flight request answered %s" % (i, o))
                del inflight[f[1]]
        if len(bad) >= 3:
            break
    return bad


def _monitor_ttl(ops, outs):
    cfgline = [l for l in ops if l.startswith("cfg")][0].split()
    cap = int(rc.kv(cfgline, "cap") or 0)
    bad = []
    tracked = {}
    now = 0
    for i, (l, o) in enumerate(zip(ops, outs)):
        f = l.split()
        of = o.split()
        if f[0] != "at":
            if f[0] == "len" and o != str(len(tracked)):
                bad.append("ttlmap: line %d Len() = %s, %d keys should be tracked" % (i, o, len(tracked)))
            continue
        now = max(now, int(f[1]))
        sec = now // S
        if f[2] == "get":
            k = f[3]
            live = k in tracked and tracked[k] > sec
            if k in tracked and not live:
                del tracked[k]
            if (of[0] == "hit") != live:
                bad.append("ttlmap: line %d get %s answered %s, entry is %s" % (i, k, o, "live" if live else "absent/expired"))
        elif f[2] == "set":
            if of[0] != "ok":
                continue
            k, ttl = f[3], int(f[4])
            evicting = k not in tracked and len(tracked) >= cap and len(tracked) > 0
            before = dict(tracked)
            probes = [p for p in (rc.kv(f, "probe") or "").split(",") if p]
            gone = [p for p in (rc.kv(of, "gone") or "").split(",") if p]
            if evicting:
                m = min(before.values())
                vanished = [p for p in gone if p in before and before[p] > sec and p != k]
                if set(before) <= set(probes):
                    if len(vanished) > 1:
                        bad.append("evict: line %d more than one live entry was forgotten: %s" % (i, vanished))
                    elif len(vanished) == 1 and before[vanished[0]] != m:
                        bad.append("evict: line %d forgot %s (expiry %d) although %s expire(s) earlier (%d)"
                                   % (i, vanished[0], before[vanished[0]], sorted(x for x, v in before.items() if v == m), m))
                    elif len(vanished) == 0 and m > sec:
                        bad.append("evict: line %d the map was full and nothing was forgotten" % i)
                    exp_len = len(before)
                else:
                    return bad
                if int(rc.kv(of, "len")) != exp_len:
                    bad.append("evict: line %d Len() = %s after an insertion into a full map of %d" % (i, rc.kv(of, "len"), len(before)))
            tracked[k] = sec + ttl
            if evicting:
                for p in gone:
                    if p != k:
                        tracked.pop(p, None)
                # an un-probed victim cannot be identified: handled by the return above
            else:
                for p in probes:
                    if p in tracked and tracked[p] <= sec and p != k:
                        del tracked[p]
                want = sorted(p for p in probes if p not in tracked)
                if sorted(gone) != want:
                    bad.append("ttlmap: line %d probes report %s missing, expected %s" % (i, gone, want))
        if len(bad) >= 3:
            break
    return bad


def monitor(ops, outs):
    cfg = [l for l in ops if l.split() and l.split()[0] == "cfg"]
    if not cfg:
        return []
    kind = cfg[0].split()[1] if len(cfg[0].split()) > 1 else ""
    if kind == "rate":
        return _monitor_rate(ops, outs)
    if kind == "conn":
        return _monitor_conn(ops, outs)
    if kind == "ttlmap":
        return _monitor_ttl(ops, outs)
    return []


def nontrivial(ops, outs):
    cfg = [l for l in ops if l.split() and l.split()[0] == "cfg"]
    if not cfg:
        return False
    kind = cfg[0].split()[1]
    if kind == "rate":
        _, c, evs, broken = rc.events(ops, outs)
        st = set(e.status for e in evs)
        return not broken and len(set(e.src for e in evs)) >= 2 and "200" in st and len(st) >= 2
    if kind == "conn":
        return "429" in outs and "admitted" in outs
    if kind == "ttlmap":
        return any("evict=" in l for l in ops)
    return False


def describe(ops, outs, hist):
    cfg = [l for l in ops if l.split() and l.split()[0] == "cfg"]
    if not cfg:
        return
    kind = cfg[0].split()[1]
    hist["kind:" + kind] += 1
    if kind == "rate":
        _, c, evs, _ = rc.events(ops, outs)
        cap = rc.cap_of(c)
        n = len(set(e.src for e in evs))
        hist["sources-vs-cap:%s" % ("below" if n < cap else "at" if n == cap else "above")] += 1
        for e in evs:
            hist["out:" + e.status] += 1
            if e.evict:
                hist["evictions"] += 1
    else:
        for l, o in zip(ops, outs):
            if not l.startswith("cfg"):
                hist["%s:%s" % (kind, o.split()[0] if o.split() else "")] += 1


# ---------------------------------------------------------------- TTL map with tied expiries (two passes)

def _tie_scenario(rng):
    cap = rng.randint(1, 5)
    nkeys = cap + rng.randint(1, 4)
    keys = ["k%d" % i for i in range(nkeys)]
    lines = ["cfg ttlmap cap=%d" % cap]
    t = rng.choice([0, 500000000])
    known = []
    for _ in range(rng.randint(6, 40)):
        r = rng.random()
        if r < 0.25:
            t += rng.choice([1, 1000, S, 2 * S])
        k = rng.choice(keys)
        if r < 0.85 or not known:
            ttl = rng.choice([100, 100, 100, 101, 200])
            lines.append("at %d set %s %d v=%d probe=%s" % (t, k, ttl, rng.randint(0, 9), ",".join(x for x in known if x != k)))
            if k not in known:
                known.append(k)
        elif r < 0.95:
            lines.append("at %d get %s" % (t, k))
        else:
            lines.append("len")
    return lines


def post_check(chk):
    """bare TTLMap with equal expiries: pass 1 runs the implementation alone and reads the forgotten key off the probes,
    pass 2 feeds that choice to the model (`evict=`), which checks it is a legal victim and follows it."""
    from vlib.core import Scenario
    rng = random.Random(chk.seed * 7919 + 14)
    n = {"quick": 150, "thorough": 1500}.get(chk.tier, 150)
    raw = [_tie_scenario(rng) for _ in range(n)]
    text = "".join("\n".join(s) + "\n" for s in raw)
    out, err, code = chk._run_side(chk.bin_h, [], text, 120)
    pos = 0
    scens = []
    for lines in raw:
        impl = out[pos:pos + len(lines)]
        pos += len(lines)
        if len(impl) < len(lines):
            break
        cap = int(rc.kv(lines[0].split(), "cap"))
        tracked = set()
        new = [lines[0]]
        for l, o in zip(lines[1:], impl[1:]):
            f = l.split()
            if f[0] == "at" and f[2] == "set" and o.startswith("ok"):
                k = f[3]
                gone = [p for p in (rc.kv(o.split(), "gone") or "").split(",") if p]
                if k not in tracked and len(tracked) >= cap and tracked:
                    v = [p for p in gone if p in tracked]
                    if len(v) == 1:
                        l += " evict=" + v[0]
                for p in gone:
                    tracked.discard(p)
                tracked.add(k)
            new.append(l)
        scens.append(Scenario(new, "ttl-tie:%d" % len(scens)))
    chk.run_parallel(scens)
    diverged, failing = chk.judge(scens)
    for s, msgs in failing[:2]:
        chk.report_monitor_failure(s, msgs)
    if diverged:
        s, d = diverged[0]
        p = chk.report_divergence(s, d, bool(chk.violations))
        if not chk.violations:
            chk.violations.append((p, "no-failing-input-found"))
    chk.extra["ttl_tie_scenarios"] = len(scens)
    chk.extra["ttl_tie_divergent"] = len(diverged)
    chk.extra["ttl_tied_evictions"] = sum(1 for s in scens for l in s.lines if "evict=" in l)


shrinkable = True

MANIFEST = {
    "text": ("Proof: Lean 4 theorems over the executable models of ratelimit/tokenlimiter.go + collections/ttlmap.go (RL.Limiter, TTL.Map) "
             "and connlimit/connlimit.go (ConnLimit): C14_evict_others_unchanged / C14_rate_noninterference (for every interleaving, every "
             "capacity and every choice of eviction victims, the decisions for a source that is not itself evicted equal those of its "
             "requests issued alone; within capacity nothing is evicted), C14_evict_min_only (over capacity, for every legal choice of the "
             "heap, exactly the entry of minimal expiry is forgotten, it starts afresh, every other entry is untouched), "
             "C14_conn_noninterference (cites C04's model). Tied to the code by running the real TokenLimiter next to one private "
             "TokenLimiter per source, the real ConnLimiter, and the real TTLMap with tied expiries, against the compiled model."),
    "note": ("Trusted: Lean kernel; propext/Classical.choice/Quot.sound; hand-written models (limiter, TTL map, container/heap as used by "
             "priority_queue.go) validated on generated scenarios only — the heap is modelled and proved to yield a minimal entry, its fidelity "
             "to container/heap (incl. tie-breaking) is differential; atomicity of the critical sections is C09's."),
    "technique": "Lean 4 proof (per-source simulation through the TTL map; relational eviction step) over executable model + differential correspondence with ratelimit.TokenLimiter, collections.TTLMap, connlimit.ConnLimiter",
}
