"""C06 — Buffer hands the handler the exact request, identically on every attempt."""
from props import bufcommon as B

ID = "C06"
HARNESS = "c06"
DRIVER = "c06"
PROPS_MODULE = "OxyModel.Props.C06"
AUDIT = "OxyModel/Audit/C06.lean"
THEOREMS = ["C06.C06_body_exact", "C06.C06_attempts_identical", "C06.C06_headers_exact"]
RACE = False
JOBS = 8
RULE = ("scenario = one Buffer (random memory/maximum thresholds, retry expression) behind a real HTTP server, 2-7 client requests "
        "(declared or chunked bodies of length 0, threshold±1, random, up to 300 KB quick / 3 MB thorough) each with a scripted handler "
        "per attempt (reads none/part/all of the body, mutates headers and URL of its copy); non-trivial = a non-empty body seen by >= 2 attempts "
        "or a body at/above the memory threshold")
ASSUMPTIONS = ["declared Content-Length equals the body actually sent (a real net/http client)",
               "the handler script does not change the Method field of its request copy",
               "store model of sharing: an Add (append) by the handler is a new backing array (an append into spare capacity is invisible through other slice headers); which levels copyRequest allocates fresh (URL object, map, every value slice) is read off utils.CopyURL / CopyHeaders and validated by the correspondence runs with in-place mutating handlers",
               "net/http server/client framing (chunked decoding, Content-Length) is the real stdlib, not modelled",
               "body lengths fit in Go int64"]
TRUSTED = ["multibuf.New / multiReaderSeek modelled (memory/max clamping, spill, maxReader), validated by correspondence, not verified"]


def gen(rng, tier):
    return B.gen_scenarios(rng, tier, "C06")


monitor = B.monitor_c06
describe = B.describe


def nontrivial(ops, outs):
    for kind, cfg, req, o in B.exchanges(ops, outs):
        if kind != "req":
            continue
        out = B.Out(o)
        if not out.ok:
            continue
        mem = cfg.memreq if cfg.memreq else B.DEFAULT_MEM
        if req.len > 0 and (out.inv >= 2 or req.len >= mem):
            return True
    return False


MANIFEST = {
    "text": ("Proof: Lean 4 theorems C06_body_exact / C06_attempts_identical / C06_headers_exact about the model Buf.serve (buffer.go ServeHTTP + multibuf.New + "
             "copyRequest + the retry loop): for every body, framing, thresholds, retry expression and handler script, every invocation sees the "
             "request's bytes from offset 0 (its read prefix), ContentLength = body length, empty TransferEncoding, and the same method/URL/headers. "
             "The model is tied to the code by differential runs of the real Buffer behind a real HTTP server against the compiled model."),
    "note": ("Trusted: Lean kernel; propext/Classical.choice/Quot.sound; hand-written model validated only on generated scenarios; "
             "header/URL isolation is proved over an explicit store (fresh URL object, map and value slices per copy; handler writes through its references), the allocation structure itself is validated against the code by in-place mutating handlers in the correspondence; stdlib framing not modelled."),
    "technique": "Lean 4 proof (loop invariants: reader offset 0 at every attempt entry; frame invariant of the reference store across handler writes) over executable model + differential correspondence with buffer.Buffer over real HTTP",
}
