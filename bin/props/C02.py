"""C02 — traffic is routed only to current pool members (balancer and rebalancer)."""
import itertools
import math
from functools import reduce

ID = "C02"
HARNESS = "c02"
DRIVER = "c02"
PROPS_MODULE = "OxyModel.Props.C02"
AUDIT = "OxyModel/Audit/C02.lean"
THEOREMS = ["C02.C02_refines_set", "C02.C02_refines_set_rebalancer", "C02.C02_selected_is_member",
            "C02.C02_removed_never_selected", "C02.C02_added_within_rotation", "C02.C02_failed_add_noop", "C02.C02_remove_unknown_noop",
            "C02.C02_empty_is_error", "C02.C02_zero_is_error_partial", "C02.C02_zero_is_error_counterexample",
            "C02.C02_handout_fresh", "C02.C02_any_rewrite_is_modelled", "C02.C02_downstream_mutation_noop"]
RACE = True
RULE = ("scenario = random history of upsert/update/remove (repeated adds, unknown removes, negative weights) over 3-6 URL strings "
        "drawn from an alphabet in which distinct strings share a (scheme,host,path) key, through a RoundRobin or a Rebalancer over a "
        "RoundRobin, sticky or not, interleaved with NextServer calls and real ServeHTTP requests whose downstream handler may rewrite "
        "req.URL; non-trivial = at least one successful remove, one repeated upsert of an existing key and one forwarded request")
ASSUMPTIONS = ["url.Parse(u.String()) gives back scheme/host/path of u for the URL alphabet used (sticky cookie round trip through net/url)",
               "every administration / selection call is one atomic step (RoundRobin.mutex / Rebalancer.mtx held for the whole body: C09 lock facts); "
               "racing administration calls are therefore interleavings of the modelled steps",
               "weights fit in Go int"]
TRUSTED = ["scripted Meter of harness/cmd/c02 (Rating/IsReady set by the scenario)"]

SCHEMES = ["http", "https"]
HOSTS = ["h1", "h2", "h1:8080", "App-1.Example"]    # hosts are compared as written (sameURL), also mixed-case ones
PATHS = ["-", "/", "/a"]
USERS = ["", "", "bob", "al"]
QUERIES = ["", "", "x=1", "y=2"]
WEIGHTS = [0, 0, 1, 1, 2, 3, 5, 8]


def _url(rng, keys):
    s, h, p = rng.choice(keys)
    t = "%s %s %s" % (s, h, p)
    u = rng.choice(USERS)
    q = rng.choice(QUERIES)
    if u:
        t += " user=" + u
    if q:
        t += " query=" + q
    return t


def gen(rng, tier):
    n_scen = {"quick": 400, "thorough": 4000, "search": 500}.get(tier, 400)
    allkeys = [(s, h, p) for s in SCHEMES for h in HOSTS for p in PATHS]
    for _ in range(n_scen):
        via = rng.choice(["rr", "rb"])
        sticky = rng.random() < 0.5
        cfg = "cfg via=%s" % via
        if sticky:
            cfg += " sticky=1" + rng.choice(["", "", " codec=hash", " codec=aes"])
        adjusting = via == "rb" and rng.random() < 0.5
        if via == "rb":
            cfg += " backoff=%d ready=%d" % (rng.choice([1, 1000, 10 ** 9]), 1 if adjusting else rng.choice([0, 1]))
        lines = [cfg]
        # keys that differ in one component only are likely
        base = rng.choice(allkeys)
        keys = [base]
        for _ in range(rng.randint(1, 4)):
            k = list(rng.choice(keys))
            i = rng.randrange(3)
            k[i] = rng.choice([SCHEMES, HOSTS, PATHS][i])
            keys.append(tuple(k))
        present = set()
        for _ in range(rng.randint(6, 40)):
            r = rng.random()
            if r < 0.30:
                u = _url(rng, keys)
                x = rng.random()
                if x < 0.55:
                    u += " w=%d" % rng.choice(WEIGHTS)
                elif x < 0.62:
                    u += " w=-%d" % rng.randint(1, 3)
                lines.append("upsert " + u)
                lines.append("servers")
            elif r < 0.42:
                k = rng.choice(keys if rng.random() < 0.8 else allkeys)
                lines.append("remove %s %s %s" % k)
                lines.append("servers")
            elif r < 0.47:
                lines.append("weight %s %s %s" % rng.choice(keys))
            elif r < 0.49:
                lines += ["race %d %d" % (rng.randint(0, 40), rng.randint(0, 40)), "servers"]
            elif r < 0.52 and via == "rb":
                # an add whose meter factory fails: rolled back, the server must stay absent
                u = _url(rng, keys if rng.random() < 0.8 else allkeys)
                if rng.random() < 0.5:
                    u += " w=%d" % rng.choice(WEIGHTS)
                lines += ["upsert " + u + " meterfail=1", "servers", "weights"]
                lines += ["next"] * rng.randint(1, 5)
                lines += ["serve"] * rng.randint(0, 2)
            elif r < 0.60 and via == "rb":
                # a removal issued while a request's weight adjustment is being applied: make one server an
                # outlier (or let weights converge back), all meters ready, clock past the back-off
                for k in keys:
                    lines.append("ready %s %s %s 1" % k)
                bad = rng.choice(keys)
                for k in keys:
                    lines.append("rate %s %s %s %d/16" % (k + ((8 if k == bad else 0) if rng.random() < 0.8 else 0,)))
                lines.append("adv %d" % (10 ** 9 + 1))
                victim = rng.choice(keys if rng.random() < 0.9 else allkeys)
                lines += ["%s %s %s %s" % ((rng.choice(["serve-remove", "remove-serve"]),) + victim), "servers", "weights"]
                lines += ["next"] * rng.randint(2, 6)
                lines += ["serve"] * rng.randint(0, 3)
                if rng.random() < 0.5:
                    lines += ["remove %s %s %s" % victim, "servers"]
            elif r < 0.62:
                lines += ["next"] * rng.randint(1, 12)
            elif r < 0.67 and via == "rb":
                k = rng.choice(keys)
                if rng.random() < 0.8:
                    lines.append("rate %s %s %s %d/%d" % (k + (rng.choice([0, 0, 1, 3, 8, 16]), 16)))
                else:
                    lines.append("ready %s %s %s %d" % (k + (rng.randint(0, 1),)))
                lines.append("adv %d" % rng.choice([0, 1, 2, 1001, 10 ** 9 + 1]))
            else:
                for _ in range(rng.randint(1, 6)):
                    t = "serve"
                    if rng.random() < (0.6 if sticky else 0.15):
                        t += " cookie=%s,%s,%s" % rng.choice(keys if rng.random() < 0.85 else allkeys)
                    if rng.random() < 0.5:
                        t += " mutate=" + rng.choice(["host", "path", "scheme", "all"])
                    lines.append(t)
                    if "mutate" in t or rng.random() < 0.2:
                        lines.append("servers")
                if via == "rb":
                    lines.append("weights")
        if rng.random() < 0.15:
            # rounds of concurrent adds of one (mostly new) server, then its removal: it must be listed once,
            # and be gone and never selected after one remove
            for _ in range(rng.randint(20, 30)):
                k = rng.choice(allkeys)
                u = "%s %s %s" % k
                t = "pupsert %d %s" % (rng.randint(8, 16), u)
                if rng.random() < 0.3:
                    t += " user=" + rng.choice(["bob", "al"])
                if rng.random() < 0.5:
                    t += " w=%d" % rng.choice([1, 2, 3, -1])
                lines += [t, "servers", "next", "remove " + u, "servers"]
                lines += ["next"] * rng.randint(1, 3)
                if rng.random() < 0.3:
                    lines.append("remove " + u)
        lines.append("servers")
        lines += ["next"] * rng.randint(0, 8)
        yield lines


def exhaustive(tier):
    """thorough: all histories of <= 4 administration calls over 3 URL strings (two of which share a key), via rr and rb,
    each followed by the observers"""
    if tier != "thorough":
        return
    urls = ["http h1 /", "http h1 / user=bob", "http h2 /"]
    admin = []
    for u in urls:
        admin.append("upsert " + u)
        admin.append("upsert " + u + " w=0")
        admin.append("upsert " + u + " w=2")
    for u in ("http h1 /", "http h2 /"):
        admin.append("remove " + u)
    for via in ("rr", "rb"):
        for n in range(1, 5):
            for hist in itertools.product(admin, repeat=n):
                lines = ["cfg via=%s sticky=1" % via]
                for a in hist:
                    lines += [a, "servers"]
                lines += ["next", "next", "next", "serve cookie=http,h1,/ mutate=host", "servers", "serve mutate=path", "servers"]
                yield lines


def _key(f):
    return (f[0], f[1], "" if f[2] == "-" else f[2])


def _ustr(f):
    user = query = ""
    for t in f[3:]:
        if t.startswith("user="):
            user = t[5:]
        elif t.startswith("query="):
            query = t[6:]
    k = _key(f)
    return "%s|%s|%s|%s|%s" % (k[0], user, k[1], k[2], query)


def _w(f):
    for t in f[3:]:
        if t.startswith("w="):
            return int(t[2:])
    return None


class Ref:
    """reference set kept by the orchestrator: key -> [stored url string (first insertion), configured weight]"""

    def __init__(self, cfg):
        self.via = "rr"
        self.sticky = False
        for t in cfg[1:]:
            if t.startswith("via="):
                self.via = t[4:]
            if t == "sticky=1":
                self.sticky = True
        self.pool = {}
        self.order = []

    def strs(self):
        return sorted(v[0] for v in self.pool.values())


def walk(ops, outs):
    """yield (ref, fields, out, info) after having applied the op to the reference"""
    ref = None
    for l, o in zip(ops, outs):
        if l.startswith("#"):
            continue
        f = l.split()
        if f[0] == "cfg":
            ref = Ref(f)
            continue
        if ref is None:
            continue
        if f[0] == "serve-remove" and len(f) == 4 and " ; " in o:
            # a request, then (atomically after it) the removal that was issued while it adjusted weights
            a, b = o.split(" ; ", 1)
            yield ref, ["serve"], a, {}
            k = _key(f[1:])
            info = {"known": k in ref.pool, "raced": True}
            if b == "ok":
                ref.pool.pop(k, None)
            yield ref, ["remove"] + f[1:], b, info
            continue
        if f[0] == "pupsert" and len(f) >= 5 and o.startswith("pupsert "):
            # n goroutines upsert the same URL at once = n sequential upserts
            n = int(f[1])
            cnt = dict(t.split("=") for t in o.split()[1:])
            g = ["upsert"] + f[2:]
            w = _w(g[1:])
            if w is not None and w < 0:
                oo = "err negweight" if int(cnt.get("negweight", 0)) == n else "err pupsert:" + o.replace(" ", "_")
            else:
                oo = "ok" if int(cnt.get("ok", 0)) == n else "err pupsert:" + o.replace(" ", "_")
            k = _key(g[1:])
            for i in range(n):
                info = {"known": k in ref.pool, "meterfail": False}
                if w is not None and w < 0:
                    info["neg"] = True
                elif oo == "ok":
                    if k in ref.pool:
                        if w is not None:
                            ref.pool[k][1] = w
                    else:
                        ref.pool[k] = [_ustr(g[1:]), w if w else 1]
                yield ref, g, oo, info
            yield ref, ["iter-reset"], "", {}     # the harness's holder server is removed at the end
            continue
        if f[0] == "remove-serve" and len(f) == 4 and " ; " in o:
            # a removal, then (atomically after it) the request that was issued while it was in progress
            a, b = o.split(" ; ", 1)
            k = _key(f[1:])
            info = {"known": k in ref.pool, "raced": True}
            if a == "ok":
                ref.pool.pop(k, None)
            yield ref, ["remove"] + f[1:], a, info
            yield ref, ["serve"], b, {"raced": True}
            yield ref, ["iter-reset"], "", {}
            continue
        info = {}
        if f[0] == "upsert" and len(f) >= 4:
            k = _key(f[1:])
            w = _w(f[1:])
            info["known"] = k in ref.pool
            # the rebalancer creates a meter only for a server it has no record of
            info["meterfail"] = "meterfail=1" in f[4:] and ref.via == "rb" and k not in ref.pool and not (w is not None and w < 0)
            if w is not None and w < 0:
                info["neg"] = True
            elif o == "ok":
                if k in ref.pool:
                    if w is not None:
                        ref.pool[k][1] = w
                else:
                    ref.pool[k] = [_ustr(f[1:]), w if w else 1]
        elif f[0] == "remove" and len(f) == 4:
            k = _key(f[1:])
            info["known"] = k in ref.pool
            if o == "ok":
                ref.pool.pop(k, None)
        yield ref, f, o, info


def monitor(ops, outs):
    bad = []
    run = []          # keys selected by consecutive rotation selections under an unchanged weight vector
    run_ok = False    # the reference knows the effective weights of the current run
    eff = {}
    for ref, f, o, info in walk(ops, outs):
        op = f[0]
        members = ref.strs()
        stuck = False
        if o == "bad-op":
            continue            # ill-formed line: rejected by the protocol, not an operation
        if op == "upsert":
            if info.get("neg"):
                if o == "ok":
                    bad.append("upsert: a negative weight was accepted")
            elif info.get("meterfail"):
                if o != "err meter":
                    bad.append("upsert: the meter factory failed but the add answered %s" % o)
                run = []        # the rolled-back insert reset the iterator
            elif o != "ok":
                bad.append("upsert: add/update of %s failed: %s" % (" ".join(f[1:4]), o))
        elif op == "remove":
            if info["known"] and o != "ok":
                bad.append("remove: removing a member failed: %s" % o)
            if not info["known"] and o == "ok":
                bad.append("remove-unknown: removing a server that is not a member succeeded")
        elif op == "servers":
            got = o.split()[1:] if o.startswith("servers") else None
            if got != members:
                bad.append("membership: Servers()=%s but the add/update/remove calls so far define %s" % (got, members))
        elif op == "weight" and ref.via == "rr":
            k = _key(f[1:])
            exp = str(ref.pool[k][1]) if k in ref.pool else "none"
            if o != exp:
                bad.append("membership: ServerWeight(%s)=%s, configured %s" % (k, o, exp))
        elif op == "race":
            if o != "race ok":
                bad.append("race: administration calls racing with requests: %s" % o)
        elif op in ("next", "serve"):
            ws = [v[1] for v in ref.pool.values()]
            if op == "serve" and ref.sticky:
                for t in f[1:]:
                    if t.startswith("cookie="):
                        c = t[7:].split(",")
                        if len(c) == 3 and _key(c) in ref.pool:
                            stuck = True
            okp = "ok " if op == "next" else "200 "
            if o.startswith(okp):
                parts = o.split()
                url = parts[1]
                if url == "member":
                    pass            # raced request: the harness reports only that it went to a current member
                elif url not in members:
                    bad.append("non-member: %s routed to %s which is not in the pool %s" % (op, url, members))
                if op == "serve" and (len(parts) < 3 or parts[2] != "fresh"):
                    bad.append("alias: the request handed downstream carries the pool's own URL object (%s)" % o)
                if not ws:
                    bad.append("empty-pool: a request was forwarded although the pool is empty: %s" % o)
                elif not any(ws):
                    if stuck:
                        bad.append("zero-sticky: every server has weight 0 but the sticky request was forwarded: %s" % o)
                    else:
                        bad.append("all-zero: every server has weight 0 but %s selected %s" % (op, url))
            else:
                if ws and any(ws) and not o.startswith("bad-op"):
                    bad.append("error: %s failed (%s) on a pool with a positive weight %s" % (op, o, members))
                if stuck and ws:
                    # pinned requests are forwarded; an error here is a lost member
                    bad.append("sticky-lost: cookie names a member but the request failed: %s" % o)
        # ---- added server is selected within one full rotation -------------------------------------------------
        if op == "iter-reset":
            run = []
        elif (op in ("upsert", "remove") and o == "ok") or op == "race":
            run, run_ok = [], True       # every successful change resets the iterator (and, behind the rebalancer, the weights)
            eff = {v[0]: v[1] for v in ref.pool.values()}
        elif op == "weights":
            run, run_ok = [], o.startswith("weights")
            eff = {}
            for t in o.split()[1:]:
                u, w = t.rsplit("=", 1)
                eff[u] = int(w)
        elif op == "serve":
            if ref.via == "rb":
                run, run_ok = [], False      # the rebalancer may have re-weighted
            elif stuck:
                pass                         # pinned request: no rotation step
            elif o.startswith("200 ") and o.split()[1] != "member":
                run.append(o.split()[1])
        elif op == "next" and o.startswith("ok "):
            run.append(o.split()[1])
        if run_ok and run and any(eff.values()):
            ws = list(eff.values())
            W = sum(ws) // reduce(math.gcd, ws, 0)
            if len(run) >= W:
                win = set(run[-W:])
                for u, w in eff.items():
                    if w > 0 and u not in win:
                        bad.append("rotation: %s (weight %d) was not selected in %d consecutive selections (one full rotation of %s)" % (u, w, W, eff))
                        break
        if any(not m.startswith("zero-sticky:") for m in bad):
            break               # (the recorded finding does not end the scenario: anything after it is still judged)
    return bad[:20]


def nontrivial(ops, outs):
    rem = rep = fwd = False
    for ref, f, o, info in walk(ops, outs):
        if f[0] == "remove" and o == "ok":
            rem = True
        if f[0] == "upsert" and o == "ok" and info.get("known"):
            rep = True
        if f[0] == "serve" and o.startswith("200"):
            fwd = True
    return rem and rep and fwd


def describe(ops, outs, hist):
    for ref, f, o, info in walk(ops, outs):
        hist["op:" + f[0]] += 1
        hist["via:" + ref.via] += 0
        if f[0] == "remove" and o != "bad-op":
            hist["remove:" + ("known" if info.get("known") else "unknown")] += 1
        if f[0] == "upsert":
            hist["upsert:" + ("neg" if info.get("neg") else "existing" if info.get("known") else "new")] += 1
        if info.get("raced"):
            hist["serve-remove"] += 1
        if f[0] == "serve":
            hist["serve:" + o.split()[0] + (":mutate" if "mutate=" in " ".join(f) else "")] += 1
        if o.startswith("err") or o.startswith("500"):
            hist["out:" + o.replace(" ", "_")[:24]] += 1


def _sticky_zero(ops, outs, msgs):
    return bool(msgs) and all(m.startswith("zero-sticky:") for m in msgs)


KNOWN_MATCHERS = {"sticky_zero_weight": _sticky_zero}

MANIFEST = {
    "text": ("Proof: Lean 4 theorems C02_refines_set / C02_refines_set_rebalancer (after every prefix of every history of add/update/remove, "
             "requests, ratings and clock steps, membership and configured weight of the model pool equal the fold of the administration calls), "
             "C02_removed_never_selected, C02_added_within_rotation (from C01_window), C02_remove_unknown_noop, C02_empty_is_error, "
             "C02_handout_fresh / C02_downstream_mutation_noop (the object handed downstream is never one of the pool's) hold for the model "
             "RB.Sys of roundrobin/rr.go + rebalancer.go with an explicit object heap. The model is tied to the code by a differential run of the "
             "real RoundRobin / Rebalancer (real ServeHTTP, URL-rewriting downstream handler) and the compiled model; a model-independent monitor "
             "keeps a reference set after every operation."),
    "note": ("Trusted: Lean kernel; propext/Classical.choice/Quot.sound; hand-written model validated against the code only on generated scenarios "
             "(thorough: all histories of <= 4 administration calls over 3 URL strings, via both front ends); atomicity of each call is the C09 "
             "lock-discipline obligation; the all-zero-weight clause is proved for requests not pinned by a sticky cookie (C02_zero_is_error_partial), "
             "a pinned request to a zero-weight member is forwarded by the code (C02_zero_is_error_counterexample)."),
    "technique": "Lean 4 proof (refinement invariant over all histories, heap model for aliasing) + differential correspondence with roundrobin.RoundRobin / Rebalancer",
}
