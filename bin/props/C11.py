"""C11 — sticky sessions pin and degrade gracefully."""
import re

ID = "C11"
HARNESS = "c11"
DRIVER = "c11"
PROPS_MODULE = "OxyModel.Props.C11"
AUDIT = "OxyModel/Audit/C11.lean"
THEOREMS = ["C11.C11_url_roundtrip", "C11.C11_cookie_wire", "C11.C11_roundtrip_raw_partial", "C11.C11_raw_counterexample",
            "C11.C11_roundtrip_hash", "C11.C11_roundtrip_aes", "C11.C11_roundtrip_fallback", "C11.C11_roundtrip_codec",
            "C11.C11_roundtrip", "C11.C11_key_rotation", "C11.C11_pinned_regardless_of_rotation", "C11.C11_never_outside_pool",
            "C11.C11_served_in_pool", "C11.C11_stale", "C11.C11_stale_none", "C11.C11_stale_rebalanced", "C11.C11_no_steal_raw", "C11.C11_absent_or_malformed", "C11.C11_forged", "C11.C11_expired",
            "C11.C11_degrades", "C11.C11_fresh_cookie_pins", "C11.C11_pool_invariant", "C11.C11_rebalancer_admin", "Sticky.symCipher_ideal"]
RACE = False
MAX_REPORTS = 1000
RULE = ("scenario = one balancer (rr or rebalancer) with a sticky session of a random codec (raw / hash / aes+ttl / fallback chains, "
        "depth <= 2), 2-6 generated server URLs (userinfo, query, escaped path, port, IPv6, awkward bytes), then 12-45 operations: "
        "requests carrying no cookie, an earlier Set-Cookie value (@k), a tampered one, or a crafted one; pool changes; codec changes; "
        "clock advances. non-trivial = at least one request pinned by a cookie and at least one degraded request that got a fresh cookie")
ASSUMPTIONS = [
    "net/url Parse/String and net/http cookie sanitising are modelled (Model/StickyURL.lean, Model/Sticky.lean) and validated by the differential run, not verified",
    "AES-GCM is an ideal AEAD (Cipher.Ideal is a hypothesis of the theorems); authenticity is stated up to Cipher.same (two cookie strings no key tells apart): base64.RawURLEncoding.DecodeString is not strict, so strings differing only in unused trailing bits are the same cookie",
    "the FNV-1a hash is collision-free on the pool (hypothesis of Good / Unfound)",
    "fallback chains: the no-steal conjunct of Good (.fallback from to) - `from` does not claim the value minted by `to` for another server - is discharged for AES->AES (C11_key_rotation) and for from=raw over ':'-free values (C11_no_steal_raw); it stays an explicit hypothesis for from=hash (no collision across salts/codecs) and for from=AES over a non-AES `to` (the value is not an encoding of a minted cookie)",
    "URL round trip is proved for scheme://[user[:pw]@]host|[ip-literal][:port][/path][?query] (C11_url_roundtrip); IPv6 zones, fragments, opaque and scheme-less URLs keep RoundTrip as a decidable hypothesis",
    "the rebalancer variant runs with healthy backends only (weights never re-rated); its administration (own records, reset() re-registering them, servers registered on the wrapped balancer directly) is modelled (Sticky.RB) and reduces to upserts/removes of the wrapped balancer (C11_rebalancer_admin); its sticky path is the same machine as the bare balancer's",
    "the client echoes the name=value pair of the Set-Cookie line verbatim",
    "int64 overflow of a forged expiry (|exp| near 2^63) is unmodelled; generator stays below 10^12",
]
TRUSTED = ["token table of the harness: AES cookies are opened with the configured key and reported as aes.<keyid>.<plaintext>; "
           "crafted tokens are sealed with real AES-GCM by the harness"]

KEEP = set(b"abcdefghijklmnopqrstuvwxyzABCDEFGHIJKLMNOPQRSTUVWXYZ0123456789-._~:/@?=&[]")


def esc(b):
    if isinstance(b, str):
        b = b.encode("latin-1")
    return "".join(chr(c) if c in KEEP else "%%%02X" % c for c in b)


def unesc(s):
    out = bytearray()
    i = 0
    while i < len(s):
        if s[i] == "%":
            out.append(int(s[i + 1:i + 3], 16))
            i += 3
        else:
            out.append(ord(s[i]))
            i += 1
    return bytes(out)


def dropped_by_cookie_sanitising(b):
    """bytes that net/http's sanitizeCookieValue removes from a cookie value"""
    return [c for c in b if not (0x20 <= c < 0x7f) or c in b'";\\']


# ------------------------------------------------------------------ generator

SCHEMES = ["http", "http", "http", "https", "HTTP", "h2c", "a+b.c-d"]
USERS = ["", "", "", "", "user@", "user:pw@", "u%40x:p%3Aw@", ":pw@", "u:@", "a!$&'()*+,=b@"]
USERS_AWK = ["u;v:p;q@", "u;@"]
HOSTS = ["h1", "h2", "h3", "a.example.com", "10.0.0.1", "[::1]", "[fe80::1%25eth0]", "H1", "h,1", "h1:80", "h1:8080", "h2:", "[::1]:443",
         "x_y", "h(1)"]
HOSTS_AWK = ["h;1", "h\"1", "h<1>"]
PATHS = ["/files%2Fv1", "/files/v1", "/%41b", "/Ab", "/a%2fb", "/p%7cq", "", "/", "/p", "/p1", "/px", "/a b", "/a%20b", "/p|q", "/p,q", "/%7Cx", "/a%2Fb", "/%C3%A9", "/p:q@r", "/a/b/c", "/p%3Fq", "/p%23q",
         "/a+b", "/%2525", "/p=1&q=2", "/~u/", "//double", "/p'q", "/(x)", "/[x]", "/a%5Bb", "/tr%C3"]
PATHS_AWK = ["/p;x", "/p;", "/a\"b", "/a\\b", "/p;x,y z", "/\xe9"]
QUERIES = ["", "", "", "?q=1", "?a=1|2", "?a b", "?a,b", "?|9999999999", "?x=%41", "?", "?a|5", "?q=1&r=2", "?a=1|1577836803", "?u=http://x/y"]
QUERIES_AWK = ["?x;y", "?a=\"b\"", "?a\\b", "?\xff"]
FRAGS = ["", "", "", "", "", "#frag", "#a%20b", "#a b"]
BAD_URLS = ["http://h 1/p", "http://h1:8x/p", "http://h1/%zz", "http://[::1/p", "http://u^v@h1/p", ":nope", "http://h1/\x01", "http://h%41/p",
            "http://u@v@h1/%", "1http:/x:y"]
ODD_URLS = ["mailto:x@y", "//h1/p", "/just/path", "rel/path", "http:/omit/host", "http:", "*", "", "http://", "http://h1?", "http:///p", "x:y:z",
            "http://@h1/p", "HTTP://u@/p"]

SALTS = ["", "s1", "salt%202", "%7C", "pepper"]
TTLS = [0, 0, 1, 1500000000, 2000000000, 5000000000, 60000000000]


def gen_url(rng, awkward):
    u = rng.random()
    if u < 0.04:
        return rng.choice(ODD_URLS)
    if u < 0.07:
        return rng.choice(BAD_URLS)
    users, hosts, paths, queries = USERS, HOSTS, PATHS, QUERIES
    if awkward:
        users, hosts, paths, queries = USERS + USERS_AWK, HOSTS + HOSTS_AWK, PATHS + PATHS_AWK * 3, QUERIES + QUERIES_AWK * 2
    return rng.choice(SCHEMES) + "://" + rng.choice(users) + rng.choice(hosts) + rng.choice(paths) + rng.choice(queries) + rng.choice(FRAGS)


def respell(rng, path):
    """another spelling of the same decoded path: %2F <-> /, a letter or digit as %XX, hex digits in the other case"""
    for _ in range(4):
        k = rng.random()
        if k < 0.3 and re.search(r"%2[Ff]", path):
            return re.sub(r"%2[Ff]", "/", path, count=1)
        if k < 0.55:
            m = list(re.finditer(r"%[0-9A-Fa-f]{2}", path))
            if m:
                e = rng.choice(m)
                t = e.group(0).lower() if e.group(0) != e.group(0).lower() else e.group(0).upper()
                if t != e.group(0):
                    return path[:e.start()] + t + path[e.end():]
        # positions of plain letters/digits/slashes that are not part of an escape
        pos = [i for i, c in enumerate(path) if (c.isalnum() and c.isascii() or (c == "/" and i > 0)) and not (i >= 1 and path[i - 1] == "%") and not (i >= 2 and path[i - 2] == "%")]
        if pos:
            i = rng.choice(pos)
            return path[:i] + ("%%%02X" if rng.random() < 0.5 else "%%%02x") % ord(path[i]) + path[i + 1:]
    return path


def sibling(rng, leaf):
    """a codec of the same kind with another salt / another key: a foreign balancer's"""
    if leaf.startswith("hash:"):
        return "hash:" + rng.choice([x for x in SALTS + ["other"] if "hash:" + x != leaf])
    if leaf.startswith("aes:"):
        k = int(leaf.split(":")[1])
        return "aes:%d:%s" % (rng.choice([x for x in (1, 2, 3, 4) if x != k]), leaf.split(":")[2])
    return rng.choice(["hash:s1", "aes:1:0"])


def gen_codec(rng, depth=2):
    r = rng.random()
    if depth > 0 and r < 0.3:
        return "fb(%s,%s)" % (gen_codec(rng, depth - 1), gen_codec(rng, depth - 1))
    r = rng.random()
    if r < 0.3:
        return "raw"
    if r < 0.6:
        return "hash:" + rng.choice(SALTS)
    return "aes:%d:%d" % (rng.choice([1, 1, 2, 3]), rng.choice(TTLS))


def leaves(spec):
    return re.findall(r"raw|hash:[^,()]*|aes:\d+:\d+", spec)


def minter(spec):
    return leaves(spec)[-1]


def gen_scenario(rng, awkward, n_ops):
    codec = gen_codec(rng)
    lbk = rng.choice(["rr", "rr", "rb"])
    # behind a rebalancer some servers are registered on the wrapped balancer directly
    mixed = lbk == "rb" and rng.random() < 0.4
    inner = lambda: "-inner" if (mixed and rng.random() < 0.45) else ""
    lines = ["cfg lb=%s codec=%s%s%s%s%s" % (lbk, codec, " via=srv" if rng.random() < 0.1 else "",
                                             " opts=1" if rng.random() < 0.25 else "",
                                             " name=" + rng.choice(["sid", "x-aff_1", "A.b%7Cc"]) if rng.random() < 0.12 else "",
                                             " verbose=1" if rng.random() < 0.25 else "")]
    if rng.random() < 0.3:
        # the handler behind the balancer completes req.URL in place, as a reverse-proxy director does: the pool must not notice
        lines[0] += " director=1"
    urls = []
    while len(urls) < rng.randint(2, 6):
        u = gen_url(rng, awkward)
        if rng.random() < 0.2 and urls:
            # same key, other userinfo/query: an update, not a second member
            base = rng.choice(urls)
            m = re.match(r"^([A-Za-z0-9+.-]+://)(?:[^/@]*@)?([^/?#]*)([^?#]*)", base)
            if m and rng.random() < 0.5:
                u = m.group(1) + rng.choice(USERS) + m.group(2) + m.group(3) + rng.choice(QUERIES)
            elif m and m.group(3):
                # same scheme, host and DECODED path, other escaping: still the same server
                u = m.group(1) + rng.choice(USERS[:6]) + m.group(2) + respell(rng, m.group(3)) + rng.choice(QUERIES[:5])
        urls.append(u)
    for u in urls:
        w = rng.choice(["", "", " 1", " 2", " 3", " 5", " 0"])
        lines.append("upsert%s " % inner() + esc(u) + w)
    if mixed or rng.random() < 0.5:
        lines.append("servers")
    now = 0

    def replace_member():
        """rolling replacement: a member leaves and another one joins back to back - the pool keeps its size - and the
        very next requests carry a cookie naming the one that left and a cookie naming the one that joined"""
        a = rng.choice(urls)
        c = gen_url(rng, awkward)
        m = minter(codec)
        lines.append("mint %s %s" % (m, esc(a)))
        lines.append("req cookie=@1")
        chg = ["remove%s " % inner() + esc(a), "upsert%s " % inner() + esc(c) + rng.choice(["", " 2"])]
        if rng.random() < 0.3:
            chg.reverse()
        lines.extend(chg)
        if mixed or rng.random() < 0.3:
            lines.append("servers")
        lines.append("req cookie=@1")
        lines.append("mint %s %s" % (m, esc(c)))
        lines.append("req cookie=@1")
        if rng.random() < 0.5:
            lines.append("req cookie=@%d" % rng.choice([2, 3]))
        urls.append(c)

    def mint():
        k = rng.random()
        spec = sibling(rng, minter(codec)) if k < 0.45 else minter(codec) if k < 0.65 else gen_codec(rng, 1)
        lines.append("mint %s %s" % (spec, esc(rng.choice(urls))))
        if rng.random() < 0.75:
            lines.append("req cookie=@1")

    if rng.random() < 0.15:
        mint()      # the foreign balancer is the first to see the server
    for _ in range(n_ops):
        r = rng.random()
        if r < 0.07:
            mint()
        elif r < 0.12:
            replace_member()
        elif r < 0.62:
            c = rng.random()
            if c < 0.2:
                lines.append("req cookie=none")
            elif c < 0.66:
                lines.append("req cookie=@%d" % rng.choice([1, 1, 1, 2, 2, 3, 4, 6]))
            elif c < 0.82:
                t = rng.choice(["trunc:%d" % rng.choice([1, 1, 2, 3, 5, 9, 40]), "flip:%d:%d" % (rng.randint(0, 60), rng.randint(0, 7)),
                                "hex", "upper", "pct"])
                lines.append("req cookie=@%d t=%s" % (rng.choice([1, 1, 2, 3]), t))
            else:
                u = rng.choice(urls)
                k = rng.random()
                if k < 0.2:
                    v = u
                elif k < 0.3:
                    v = '"' + u + '"'
                elif k < 0.4:
                    v = rng.choice(["", "garbage", "%zz", "x=1; aff=" + u, "aff=" + u, u + "; sid=" + u, " " + u + " ", "a\x01b", "forged", "aes.1", "aes.1.", "0",
                                    "http://h1/p; other=1", "aes.x.y", "aes.01.abc"])
                else:
                    exp = rng.choice(["", "", "|%d" % (1577836800 + now // 10**9 + rng.choice([-5, 0, 1, 3, 100])), "|abc", "|-5", "|", "|+99999999999", "|1e9",
                                      "|99999999999999999999", "|1577836800|1577836900"])
                    v = "aes.%d.%s" % (rng.choice([1, 1, 2, 3, 9]), esc(u + exp))
                lines.append("req cookie=raw:" + esc(v))
        elif r < 0.78:
            u = rng.choice(urls)
            p = rng.random()
            if p < 0.4:
                lines.append("remove%s " % inner() + esc(u))
            elif p < 0.5:
                nu = gen_url(rng, awkward)
                urls.append(nu)
                lines.append("upsert%s " % inner() + esc(nu))
                if mixed and rng.random() < 0.6:
                    # a cookie naming the new member straight away
                    lines += ["servers", "mint %s %s" % (minter(codec), esc(nu)), "req cookie=@1"]
            else:
                lines.append("upsert%s " % inner() + esc(u) + rng.choice(["", " 1", " 4", " 0", " 2"]))
            if mixed or rng.random() < 0.35:
                lines.append("servers")
        elif r < 0.84:
            q = rng.random()
            if q < 0.35:
                codec = "fb(%s,%s)" % (codec, gen_codec(rng, 0)) if codec.count("fb(") < 2 else gen_codec(rng)
            elif q < 0.5:
                codec = "fb(%s,%s)" % (gen_codec(rng, 0), codec) if codec.count("fb(") < 2 else gen_codec(rng)
            else:
                codec = gen_codec(rng)
            lines.append("codec " + codec)
        else:
            now += rng.choice([1, 500000000, 999999999, 1000000000, 1500000000, 2000000000, 3000000000, 10000000000, 61000000000])
            lines.append("adv %d" % now)
        if rng.random() < 0.15:
            lines.append("req cookie=@1")
    return lines


def gen(rng, tier):
    n_scen = {"quick": 2000, "thorough": 60000, "search": 1500}.get(tier, 2000)
    for i in range(n_scen):
        yield gen_scenario(rng, awkward=(i % 8 == 7), n_ops=rng.randint(12, 45))
    # malformed stream
    for i in range(n_scen // 50):
        lines = gen_scenario(rng, False, 10)
        for _ in range(3):
            lines.insert(rng.randint(1, len(lines)), rng.choice(["upsert-inner", "remove-inner a b", "mint", "mint raw", "mint fb(raw http://h1/", "mint hash:x http://h%201/", "req", "req cookie=@0", "req cookie=@x", "upsert", "upsert http://h1 x", "codec fb(raw", "codec",
                                                                 "adv x", "frob", "req cookie=@1 t=flip:1:9", "req cookie=@1 t=zap", "req cookie=raw:%z", "remove a b",
                                                                 "codec aes::5", "codec hash:%4"]))
        yield lines


def exhaustive(tier):
    """every codec shape of depth <= 1 against a fixed set of awkward-but-valid servers (thorough only)"""
    if tier != "thorough":
        return
    base = ["raw", "hash:", "hash:s1", "aes:1:0", "aes:1:2000000000", "aes:2:0"]
    specs = base + ["fb(%s,%s)" % (a, b) for a in base for b in base]
    servers = ["http://u:p@h1:8080/a%20b?q=1|2", "https://[::1]:443/p|q#f", "http://h1/p", "http://h1/p1?a b", "HTTP://h,1/%7Cx?|9999999999"]
    for spec in specs:
        lines = ["cfg lb=rr codec=" + spec]
        lines += ["upsert " + esc(u) for u in servers] + ["servers"]
        for _ in servers:
            lines += ["req cookie=none", "req cookie=@1", "req cookie=@1 t=trunc:1"]
        lines += ["req cookie=@%d" % k for k in range(1, len(servers) + 1)]
        lines += ["adv 1999999999", "req cookie=@1", "adv 2000000000", "req cookie=@2", "adv 3000000001", "req cookie=@3", "req cookie=@1"]
        lines += ["remove " + esc(servers[0]), "servers", "req cookie=@5", "req cookie=@1", "req cookie=@1"]
        yield lines


# ------------------------------------------------------------------ monitor (model-independent)

BASE_UNIX_NS = 1577836800 * 10**9
REQ = re.compile(r"^(served|rejected) (\S*) set=(\S+)$")


def family(leaf):
    """which secret a leaf codec's values depend on: raw | hash:<salt> | aes:<key>"""
    return "aes:" + leaf.split(":")[1] if leaf.startswith("aes:") else leaf


def analyse(ops, outs):
    """walk one scenario; return (records, stats). A record is (kind, detail-dict)."""
    recs = []
    stats = {"pinned": 0, "degraded": 0, "req": 0}
    codec = None
    pool = {}      # member URL string -> (weight, key), derived from the upsert/remove calls; None = unknown
    now = 0
    jar = []       # dicts: server, leaf (minting leaf spec), t (mint time), sealed
    # servers registered on the wrapped balancer directly, next to ones registered through the rebalancer (whose reset()
    # re-registers its own records): membership is then what the wrapped balancer lists after each change
    listing = any(l.split()[:1] and l.split()[0] in ("upsert-inner", "remove-inner") for l in ops)
    for l, o in zip(ops, outs):
        if l.startswith("#"):
            continue
        f = l.split()
        if not f:
            continue
        if f[0] == "cfg":
            m = re.search(r"codec=(\S+)", l)
            codec = m.group(1) if (m and o == "ok") else None
            pool, jar, now = {}, [], 0
            continue
        if codec is None or o == "bad-op":
            continue
        if f[0] == "servers":
            # Servers() as the implementation lists it: NOT used as the truth about membership (the truth is what the
            # administration calls did, below) - only when those are unknown
            if (pool is None or listing) and o.startswith("servers"):
                pool = {}
                for t in o.split()[1:]:
                    u, w, key = t.rsplit(",", 2)
                    pool[u] = (int(w), key)
        elif f[0] == "codec" and o == "ok":
            codec = f[1]
        elif f[0] == "adv" and o == "ok":
            now = max(now, int(f[1]))
        elif f[0] == "mint" and o.startswith("minted "):
            t = o.split(" ")
            if len(t) == 3 and t[1] != "none":
                u, key = t[2].rsplit(",", 1)
                jar.append({"server": u, "key": key, "leaf": minter(f[1]), "t": now, "foreign": True})
        elif listing and f[0] in ("upsert", "remove", "upsert-inner", "remove-inner"):
            if o.startswith("ok"):
                pool = None
        elif f[0] == "upsert" and o.startswith("ok"):
            # membership follows from the administration calls themselves: a successful upsert of a new identity adds
            # a member (the URL as given), of a known identity only changes its weight
            t = o.split(" ")
            if len(t) == 2 and t[1].count(",") >= 2 and pool is not None:
                u, w, key = t[1].rsplit(",", 2)
                old = [x for x, (_, k) in pool.items() if k == key]
                if old:
                    pool[old[0]] = (int(w), key)
                else:
                    pool[u] = (int(w), key)
            else:
                pool = None
        elif f[0] == "remove" and o.startswith("ok"):
            t = o.split(" ")
            if len(t) == 2 and pool is not None:
                for x in [x for x, (_, k) in pool.items() if k == t[1]]:
                    del pool[x]
            else:
                pool = None
        elif f[0] == "req":
            if o.startswith("env-error "):
                # the host had no local port for the client connection: the request never reached the balancer
                continue
            m = REQ.match(o)
            if not m:
                recs.append(("bad-output", {"op": l, "out": o}))
                continue
            stats["req"] += 1
            verdict, served, setc = m.group(1), m.group(2), m.group(3)
            args = dict(t.split("=", 1) for t in f[1:] if "=" in t)
            ck = args.get("cookie", "none")
            tam = args.get("t")
            entry = None
            if ck.startswith("@"):
                k = int(ck[1:])
                if k <= len(jar):
                    entry = jar[len(jar) - k]
            if tam and (tam.startswith("trunc:0") and tam == "trunc:0"):
                tam = None
            # classify what the statement demands for this request
            must_pin = None      # server string
            surely_bad = False
            cur_leaves = leaves(codec)
            if ck == "none" or (ck.startswith("@") and entry is None):
                surely_bad = True
            elif entry is not None and pool is not None and entry["key"] is not None:
                leaf = entry["leaf"]
                aes = leaf.startswith("aes:")
                if family(leaf) not in set(family(x) for x in cur_leaves):
                    # minted by a codec this balancer does not have (another salt, another key, another encoding):
                    # for this balancer the value is a forgery
                    surely_bad = True
                if tam:
                    if aes:
                        surely_bad = True      # a sealed value that was altered in any way is a forgery
                else:
                    member = [u for u, (_, key) in pool.items() if key == entry["key"]]
                    if entry["server"] in member:
                        member = [entry["server"]]      # the very server the cookie was issued for
                    in_pool = bool(member)
                    if aes:
                        key, ttl = leaf.split(":")[1], int(leaf.split(":")[2])
                        same_key = [x for x in cur_leaves if x.startswith("aes:%s:" % key)]
                        if not same_key:
                            surely_bad = True  # minted under a key the session no longer knows
                        if ttl > 0:
                            exp_floor = (BASE_UNIX_NS + entry["t"] + ttl) // 10**9 * 10**9
                            if BASE_UNIX_NS + now > BASE_UNIX_NS + entry["t"] + ttl and all(int(x.split(":")[2]) > 0 for x in same_key):
                                surely_bad = True   # expired
                            live = BASE_UNIX_NS + now <= exp_floor
                        else:
                            live = True
                        if leaf in cur_leaves and live and in_pool:
                            must_pin = member[0]
                    else:
                        if leaf in cur_leaves and in_pool:
                            must_pin = member[0]
                    if not in_pool and not surely_bad:
                        # names a server that left the pool
                        surely_bad = "stale"
            servable = pool is not None and any(w > 0 for w, _ in pool.values())
            rawdrop = bool(entry and entry["leaf"] == "raw" and dropped_by_cookie_sanitising(unesc(entry["server"])))
            tag = "raw-sanitised: " if rawdrop else ""
            if verdict == "served":
                if pool is not None and served not in pool:
                    recs.append(("outside-pool", {"msg": "outside-pool: request %r routed to %s which is not among the current members %s" % (l, served, list(pool))}))
                if must_pin is not None and served != must_pin:
                    recs.append(("raw-sanitised" if rawdrop else "unpinned",
                                 {"server": entry["server"], "leaf": entry["leaf"],
                                  "msg": "%sunpinned: cookie issued for %s by codec %s (session codec now %s) was routed to %s while its server %s is in the pool" % (
                                      tag, entry["server"], entry["leaf"], codec, served, must_pin)}))
                if surely_bad and setc == "none":
                    recs.append(("raw-sanitised" if (rawdrop and surely_bad == "stale") else "no-fresh-cookie",
                                 {"server": entry["server"] if entry else "", "leaf": entry["leaf"] if entry else "",
                                  "msg": "%sno-fresh-cookie: request %r carries an %s cookie, was routed to %s and received no fresh cookie" % (
                                      tag if surely_bad == "stale" else "", l, "absent/forged/expired/foreign-key" if surely_bad is True else "stale", served)}))
                if setc != "none" and pool is not None and pool.get(served, (1, ""))[0] == 0:
                    recs.append(("zero-weight", {"msg": "zero-weight: request %r was balanced to %s whose weight is 0" % (l, served)}))
                if setc == "none":
                    if ck == "none":
                        pass
                    stats["pinned"] += 1
                else:
                    stats["degraded"] += 1
                    jar.append({"server": served, "key": pool[served][1] if (pool is not None and served in pool) else None, "leaf": minter(codec), "t": now})
            else:
                if must_pin is not None:
                    recs.append(("raw-sanitised" if rawdrop else "unpinned",
                                 {"server": entry["server"], "leaf": entry["leaf"],
                                  "msg": "%sunpinned: cookie issued for %s was rejected (%s) while the server is in the pool" % (tag, entry["server"], served)}))
                elif servable:
                    recs.append(("rejected", {"msg": "rejected: request %r was rejected (%s) although the pool %s has a server of positive weight" % (l, served, pool)}))
                if setc != "none":
                    recs.append(("rejected", {"msg": "rejected: a rejected request received a cookie"}))
    return recs, stats


def monitor(ops, outs):
    recs, _ = analyse(ops, outs)
    real = [r[1]["msg"] if "msg" in r[1] else "bad-output: %r" % (r[1],) for r in recs if r[0] != "raw-sanitised"]
    known = [r[1]["msg"] for r in recs if r[0] == "raw-sanitised"]
    return real + known


def nontrivial(ops, outs):
    _, st = analyse(ops, outs)
    return st["pinned"] > 0 and st["degraded"] > 0


def describe(ops, outs, hist):
    for l, o in zip(ops, outs):
        f = l.split()
        if not f:
            continue
        hist["op:" + f[0]] += 1
        if f[0] == "cfg":
            for x in set(re.findall(r"raw|hash|aes|fb", l)):
                hist["codec:" + x] += 1
            hist["lb:" + ("rb" if "lb=rb" in l else "rr")] += 1
        elif f[0] == "req":
            ck = [t for t in f if t.startswith("cookie=")]
            kind = "none"
            if ck:
                v = ck[0][7:]
                kind = "jar" if v.startswith("@") else "crafted" if v.startswith("raw:") else "none"
            if any(t.startswith("t=") for t in f):
                kind += "+tamper"
            hist["cookie:" + kind] += 1
            hist["out:" + o.split(" ")[0] + ("+set" if "set=v:" in o else "")] += 1
        elif o.startswith("err") or o == "bad-op":
            hist["out:" + o.replace(" ", "_")[:20]] += 1


def _raw_cookie_sanitised(ops, outs, msgs):
    """known finding: RawValue + http.SetCookie. Matches only if EVERY complaint is about a cookie minted by the raw codec
    for a server whose URL string contains a byte that net/http's cookie sanitising drops."""
    recs, _ = analyse(ops, outs)
    if not recs:
        return False
    for kind, d in recs:
        if kind != "raw-sanitised":
            return False
        if d.get("leaf") != "raw" or not dropped_by_cookie_sanitising(unesc(d.get("server", ""))):
            return False
    return True


KNOWN_MATCHERS = {"raw-cookie-sanitised": _raw_cookie_sanitised}

MANIFEST = {
    "text": ("Proof: Lean 4 theorems over an executable model of stickysessions.go / stickycookie/*.go / the sticky paths of rr.go and rebalancer.go, "
             "including a transcription of net/url Parse/String and of net/http's cookie sanitising: C11_roundtrip (every codec and fallback chain pins the "
             "cookie it mints, hypotheses explicit: URL round trip, hash collision-freedom on the pool, ideal AEAD, non-expiry, value survives the cookie wire), "
             "C11_url_roundtrip and C11_cookie_wire discharge two of those hypotheses for whole classes, C11_pinned_regardless_of_rotation, "
             "C11_never_outside_pool / C11_served_in_pool, C11_degrades with C11_absent_or_malformed / C11_forged / C11_expired / C11_stale_none (composed: C11_stale_rebalanced) + C11_fresh_cookie_pins, C11_pool_invariant. C11_raw_counterexample proves the recorded "
             "known finding (RawValue cookie of a URL containing ';' does not survive http.SetCookie). The model is tied to the code by a differential run of the "
             "real StickySession + RoundRobin/Rebalancer through net/http against the compiled model on generated scenarios."),
    "note": ("Trusted: Lean kernel; propext/Classical.choice/Quot.sound; net/url and net/http cookie code is modelled and validated only by the differential run; "
             "ideal-AEAD (authenticity up to base64 non-strictness, Cipher.same) and hash collision-freedom are hypotheses; the no-steal condition of fallback chains is discharged for AES->AES and raw->* and is a hypothesis for hash->* and AES->non-AES; URL round trip proved for absolute URLs with userinfo, port, IP-literal host, any path bytes and query (hypothesis only for zones/fragments/opaque URLs); rebalancer exercised with healthy backends only. Known finding (open): RawValue cookies lose "
             "bytes such as ';' in http.SetCookie, so such a server is not pinned (C11_roundtrip_raw_partial excludes it, C11_raw_counterexample proves it)."),
    "technique": "Lean 4 proof over executable model (codecs as data, AEAD/hash as hypotheses) + differential correspondence through net/http with the real sticky session",
}
