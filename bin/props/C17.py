"""C17 — rolling-window counters report between the last (N-1)·r and the last N·r of increments."""

ID = "C17"
HARNESS = "c17"
DRIVER = "c17"
PROPS_MODULE = "OxyModel.Props.C17"
AUDIT = "OxyModel/Audit/C17.lean"
THEOREMS = ["C17.C17_constructor", "C17.C17_exact", "C17.C17_lower", "C17.C17_upper", "C17.C17_ages_out",
            "C17.C17_ratio", "C17.C17_ratio_empty", "C17.C17_clone_independent"]
RACE = False
JOBS = 8
RULE = ("scenario = one RollingCounter (optionally with a Clone() snapshot used next to it) or RatioCounter (n 1-12, r from 1s/1.5s/2s/2.5s/3s/7s/10s/60s and odd ns values) driven by "
        "inc/count/reset (inca/incb/ratio/ready) at non-decreasing clock readings: bursts, sub-resolution steps, steps of exactly "
        "k*r and k*r+-1, multi-window gaps; non-trivial = some read returns a value strictly between 0 and the sum of all "
        "increments since the last reset (part of the history has aged out, part is still counted)")
ASSUMPTIONS = ["time stamps never decrease (the harness only advances the frozen clock; a wall clock stepping backwards is unmodelled)",
               "every clock reading is at least one window after 1970-01-01 (UnixNano() >= 0; the harness clock starts at 2020-01-01)",
               "Go int / int64 / time.Duration do not overflow (counts, n*r and UnixNano stay far below 2^63)",
               "bounds C17_lower / C17_upper are stated for non-negative increments (Inc accepts negative ints; C17_exact covers them)",
               "each Inc/Count/Reset call is one atomic step: RollingCounter has no lock of its own, callers serialise (C09)"]
TRUSTED = ["Ratio() is a float64: the harness prints a/(a+b) from CountA/CountB and checks Ratio() == float64(a)/float64(a+b) bit-exactly"]

S = 1000000000
RES = [S, 3 * S // 2, 2 * S, 5 * S // 2, 3 * S, 7 * S, 10 * S, 60 * S, 1000000007, 1234567891, 2718281828, 59999999999]


def _steps(rng, n, r):
    """a clock step: burst / sub-resolution / around multiples of r / around the window / multi-window gap"""
    k = rng.random()
    if k < 0.28:
        return 0
    if k < 0.62:
        return rng.randint(1, r - 1) if rng.random() < 0.6 else rng.randint(1, max(1, r // 8))
    if k < 0.76:
        return rng.choice([r - 1, r, r + 1, r // 2, 1])
    if k < 0.88:
        m = rng.randint(1, n + 1)
        return m * r + rng.choice([-1, 0, 0, 1, rng.randint(0, r - 1)])
    if k < 0.97:
        return rng.choice([(n - 1) * r - 1, (n - 1) * r, (n - 1) * r + 1, n * r - 1, n * r, n * r + 1, n * r - r // 2]) if n > 1 or rng.random() < 0.5 else rng.choice([r - 1, r, r + 1])
    return rng.randint(1, 4) * n * r + rng.randint(0, n * r)


def _scenario(rng, n, r, ratio, length, neg=False, admin=False, duo=False):
    lines = ["cfg n=%d r=%d%s" % (n, r, " ratio" if ratio else "")]
    t = rng.choice([0, 0, rng.randint(0, 3 * r), rng.randint(0, r - 1)])
    vals = [1, 1, 1, 2, 3, 5, 10, 0, 1000]
    if neg:
        vals = vals + [-1, -2, -7]
    quiet = False
    for _ in range(length):
        t += max(0, _steps(rng, n, r))
        # phases: mostly increments / mostly reads (so that idle periods are observed at many distances)
        if rng.random() < 0.08:
            quiet = not quiet
        k = rng.random()
        pinc = 0.15 if quiet else 0.55
        if ratio:
            if k < pinc:
                lines.append("at %d %s %d" % (t, rng.choice(["inca", "incb", "incb"]), rng.choice(vals)))
            elif k < 0.90:
                lines.append("at %d ratio" % t)
            elif k < 0.97:
                lines.append("at %d ready" % t)
            elif k < 0.985:
                lines.append("reset")
            else:
                lines.append("at %d window" % t)
        elif duo and rng.random() < 0.45:
            # a snapshot (Clone) lives next to the counter: interleave snapshot reads / increments with
            # increments and reads of the live counter, across slot boundaries
            k2 = rng.random()
            if k2 < 0.18:
                lines.append("at %d snap" % t)
            elif k2 < 0.70:
                lines.append("at %d scount" % t)
                if rng.random() < 0.7:
                    lines.append("at %d count" % t)
            elif k2 < 0.88:
                lines.append("at %d sinc %d" % (t, rng.choice(vals)))
                if rng.random() < 0.5:
                    lines.append("at %d count" % t)
            elif k2 < 0.94:
                lines.append("at %d scounted" % t)
            elif k2 < 0.97:
                lines.append("at %d sreset" % t)
            else:
                lines.append("at %d count" % t)
        else:
            if k < pinc:
                lines.append("at %d inc %d" % (t, rng.choice(vals)))
            elif k < 0.90:
                lines.append("at %d count" % t)
            elif k < 0.95:
                lines.append("at %d counted" % t)
            elif k < 0.965:
                lines.append("reset")
            elif k < 0.975:
                lines.append("at %d window" % t)
            elif admin and k < 0.99:
                lines.append("at %d %s" % (t, rng.choice(["clone", "clone", "append"])))
            else:
                lines.append("at %d count" % t)
    return lines


def gen(rng, tier):
    n_scen, length = {"quick": (1500, 90), "thorough": (12000, 260), "search": (800, 90)}.get(tier, (1500, 90))
    for i in range(n_scen):
        if rng.random() < 0.03:
            # what the constructor rejects
            bad = rng.choice(["n=0 r=%d" % S, "n=-3 r=%d" % S, "n=5 r=999999999", "n=5 r=0", "n=0 r=0", "n=2 r=-1000000000", "n=1 r=1"])
            yield ["cfg " + bad + rng.choice(["", " ratio"]), "at 5 count"]
            continue
        n = rng.randint(1, 12)
        r = rng.choice(RES)
        yield _scenario(rng, n, r, ratio=rng.random() < 0.3, length=rng.randint(length // 3, length),
                        neg=rng.random() < 0.1, admin=rng.random() < 0.1, duo=rng.random() < 0.3)


def exhaustive(tier):
    """thorough: every n <= 12 x every resolution: one increment at an offset inside a slot, then a read at every
    half-resolution up to two windows later (each read on a fresh counter prefix, so reads do not help each other),
    plus a dense staircase of increments."""
    if tier != "thorough":
        return
    for n in range(1, 13):
        for r in RES:
            for off in (0, r // 3, r - 1):
                lines = ["cfg n=%d r=%d" % (n, r), "at %d inc 1" % off]
                for h in range(0, 2 * n + 4):
                    for d in (0, r // 2 - 1):
                        lines.append("at %d count" % (off + h * (r // 2) + d))
                yield lines
            # staircase: one increment of 2^k-ish weight per half slot, then reads while it drains
            lines = ["cfg n=%d r=%d" % (n, r)]
            t = 7
            for k in range(2 * n + 3):
                lines.append("at %d inc %d" % (t, k + 1))
                lines.append("at %d count" % t)
                t += r // 2 + (k % 3)
            for k in range(2 * n + 3):
                lines.append("at %d count" % t)
                t += r // 2
            yield lines
            # Clone(): snapshot after one increment, live counter keeps counting in later slots, then the
            # snapshot is read / incremented and the live counter read again (both must be unaffected)
            if n >= 2:
                for use in ("scount", "sinc 5"):
                    lines = ["cfg n=%d r=%d" % (n, r), "at 0 inc 1", "at 0 snap"]
                    for k in range(1, n):
                        lines.append("at %d inc %d" % (k * r, 10 ** min(k, 6)))
                    t = (n - 1) * r
                    lines += ["at %d count" % t, "at %d %s" % (t, use), "at %d count" % t, "at %d scount" % t,
                              "at %d count" % (t + r), "at %d scount" % (t + r)]
                    yield lines
            # sparse reads only at the end: a single read after a gap g must see exactly the right tail
            for g in (0, (n - 1) * r, n * r - 1, n * r, (n + 1) * r):
                lines = ["cfg n=%d r=%d ratio" % (n, r), "at 0 inca 3", "at 1 incb 4", "at %d inca 1" % (r + 1), "at %d ratio" % (r + 1 + g)]
                yield lines


# ------------------------------------------------------------------------------------------------ monitors

def _cfg(line):
    n = r = None
    for t in line.split():
        if t.startswith("n="):
            n = int(t[2:])
        elif t.startswith("r="):
            r = int(t[2:])
    return (10 if n is None else n), (S if r is None else r), ("ratio" in line.split())


def _bounds(log, now, n, r):
    """(lower, upper): everything within the last (n-1)*r (inclusive) / everything within the last n*r (exclusive)"""
    lo = sum(v for (u, v) in log if now - u <= (n - 1) * r)
    hi = sum(v for (u, v) in log if now - u < n * r)
    return lo, hi


def _walk(ops, outs):
    """yield ('read', now, n, r, result, log, sound, who) for counters (who = 'live' | 'snapshot') and
    ('ratio', now, n, r, out, logA, logB, sound) for ratio counters; 'sound' = the raw log of that object is complete
    and all its increments are non-negative.  A snapshot (op `snap` = Clone()) starts with a copy of the live
    counter's log and from then on has its own: nothing done to one object may show in the other."""
    n = r = None
    ratio = False
    now = 0
    logs = {"a": [], "b": [], "s": None}
    sound = {"a": True, "s": True}
    alive = False
    for l, o in zip(ops, outs):
        f = l.split()
        if not f or l.startswith("#"):
            continue
        if f[0] == "cfg":
            n, r, ratio = _cfg(l)
            now = 0
            logs = {"a": [], "b": [], "s": None}
            sound = {"a": True, "s": True}
            alive = (o == "ok")
            yield ("cfg", n, r, o)
            continue
        if not alive:
            continue
        if f[0] == "at":
            if len(f) < 3:
                continue
            now = max(now, int(f[1]))
            f = f[2:]
        op = f[0]
        if o in ("timeout", "dead") or o.startswith("panic"):
            yield ("crash", now, l, o)
            alive = False
            continue
        if op in ("inc", "inca", "incb") and len(f) == 2:
            v = int(f[1])
            if v < 0:
                sound["a"] = False
            logs["b" if op == "incb" else "a"].append((now, v))
        elif op == "reset":
            logs["a"], logs["b"] = [], []
            sound["a"] = True
        elif op == "append":
            sound["a"] = False       # adds Count() of a clone: amount not visible on the op line
        elif op == "count" and not ratio:
            yield ("read", now, n, r, o, list(logs["a"]), sound["a"], "live")
        elif op == "ratio" and ratio:
            yield ("ratio", now, n, r, o, list(logs["a"]), list(logs["b"]), sound["a"])
        elif op == "snap" and not ratio:
            logs["s"] = list(logs["a"])
            sound["s"] = sound["a"]
        elif op in ("sinc", "scount", "sreset", "scounted") and not ratio:
            if logs["s"] is None:
                if o != "none":
                    yield ("crash", now, l, o)
                continue
            if op == "sinc" and len(f) == 2:
                v = int(f[1])
                if v < 0:
                    sound["s"] = False
                logs["s"].append((now, v))
            elif op == "sreset":
                logs["s"] = []
                sound["s"] = True
            elif op == "scount":
                yield ("read", now, n, r, o, list(logs["s"]), sound["s"], "snapshot")


def monitor(ops, outs):
    bad = []
    for ev in _walk(ops, outs):
        if ev[0] == "cfg":
            _, n, r, o = ev
            want = "err buckets" if n <= 0 else ("err resolution" if r < S else "ok")
            if o != want:
                bad.append("constructor: NewCounter(buckets=%d, resolution=%dns) answered %r, expected %r" % (n, r, o, want))
        elif ev[0] == "crash":
            bad.append("crash: %r at clock %d -> %s" % (ev[2], ev[1], ev[3]))
        elif ev[0] == "read":
            _, now, n, r, o, log, sound, who = ev
            try:
                c = int(o)
            except ValueError:
                bad.append("read: Count() of the %s counter produced %r" % (who, o))
                continue
            if not sound:
                continue
            lo, hi = _bounds(log, now, n, r)
            if c < lo:
                bad.append("lower: %s counter Count()=%d at clock %d but its increments within the last (N-1)*r=%dns sum to %d (n=%d r=%d): recent events lost" % (who, c, now, (n - 1) * r, lo, n, r))
            elif c > hi:
                bad.append("upper: %s counter Count()=%d at clock %d but its increments within the last N*r=%dns sum to %d (n=%d r=%d): old events not aged out" % (who, c, now, n * r, hi, n, r))
        elif ev[0] == "ratio":
            _, now, n, r, o, la, lb, sound = ev
            f = o.split()
            if len(f) != 1:
                bad.append("ratio: Ratio() is not a/(a+b) of its own counters at clock %d: %r" % (now, o))
                continue
            try:
                num, den = [int(x) for x in f[0].split("/")]
            except ValueError:
                bad.append("ratio: produced %r" % o)
                continue
            if not sound:
                continue
            loa, hia = _bounds(la, now, n, r)
            lob, hib = _bounds(lb, now, n, r)
            if (num, den) == (0, 0):
                # "0 when empty": a + b = 0, so nothing recent may exist
                if loa + lob > 0:
                    bad.append("ratio-empty: Ratio() says empty at clock %d but %d recent increments exist (n=%d r=%d)" % (now, loa + lob, n, r))
                continue
            a, b = num, den - num
            if den == 0 or not (loa <= a <= hia) or not (lob <= b <= hib):
                bad.append("ratio-window: Ratio()=%d/%d at clock %d but a must be in [%d,%d] and b in [%d,%d] (n=%d r=%d)" % (num, den, now, loa, hia, lob, hib, n, r))
        if bad:
            break
    return bad


def nontrivial(ops, outs):
    for ev in _walk(ops, outs):
        if ev[0] == "read" and ev[6]:
            try:
                c = int(ev[4])
            except ValueError:
                continue
            if 0 < c < sum(v for _, v in ev[5]):
                return True
        elif ev[0] == "ratio" and ev[7] and "/" in ev[4]:
            try:
                den = int(ev[4].split()[0].split("/")[1])
            except ValueError:
                continue
            if 0 < den < sum(v for _, v in ev[5]) + sum(v for _, v in ev[6]):
                return True
    return False


def describe(ops, outs, hist):
    n = r = None
    for l, o in zip(ops, outs):
        f = l.split()
        if not f or l.startswith("#"):
            continue
        if f[0] == "cfg":
            n, r, ratio = _cfg(l)
            hist["cfg:" + ("ratio" if ratio else "counter") + ":" + o.replace(" ", "_")] += 1
            hist["n=%d" % n] += 1
            hist["r=%d" % r] += 1
            continue
        if f[0] == "at" and len(f) >= 3:
            f = f[2:]
        hist["op:" + f[0]] += 1
    for ev in _walk(ops, outs):
        if ev[0] == "read" and ev[6]:
            lo, hi = _bounds(ev[5], ev[1], ev[2], ev[3])
            total = sum(v for _, v in ev[5])
            hist["read-of:" + ev[7]] += 1
            hist["read:" + ("empty-log" if not ev[5] else "all-in" if lo == total else "all-out" if hi == 0 else
                            "bounds-differ" if lo != hi else "partial")] += 1


KNOWN_MATCHERS = {}

MANIFEST = {
    "text": ("Proof: Lean 4 theorems C17_exact (a read = the increments of the last n slots, any sign), C17_lower / C17_upper (>= everything "
             "within the last (n-1)*r, <= everything within the last n*r, non-negative increments), C17_ages_out, C17_ratio / C17_ratio_empty "
             "(a/(a+b) of the window sums, 0 when empty) and C17_constructor hold for every history of increments, reads, resets and idle "
             "gaps with non-decreasing clock, every n >= 1 and every resolution >= 1s in ns (representation invariant: bucket (k-off) mod n "
             "holds exactly the increments of slot k for the last n slots). The model RCnt.inc/count/reset/Ratio.* is tied to "
             "memmetrics/counter.go and ratio.go by a differential run of the real counters under the frozen clock against the compiled "
             "model, with a model-independent monitor recomputing both bounds from the raw increment log."),
    "note": ("Trusted: Lean kernel; propext/Classical.choice/Quot.sound; the hand-written model is validated against the code only on the "
             "generated scenarios; clock readings non-decreasing and after 1970 + one window; no int64 overflow; Ratio() float checked "
             "bit-exactly against a/(a+b) in the harness; callers serialise access (C09)."),
    "technique": "Lean 4 proof (bucket/slot representation invariant over all histories) over executable model + differential correspondence with memmetrics.RollingCounter/RatioCounter",
}
