"""C16 — the forwarder relays responses faithfully and maps failures to gateway errors (partial)."""
import hashlib
import re

ID = "C16"
HARNESS = "c16"
DRIVER = "c16"
PROPS_MODULE = "OxyModel.Props.C16"
AUDIT = "OxyModel/Audit/C16.lean"
THEOREMS = ["C16.C16_classify_total", "C16.C16_classify_kinds", "C16.C16_failure_modes", "C16.C16_relay_identity",
            "C16.C16_listener_paired", "C16.C16_listener_sequence", "C16.C16_abort_after_head", "C16.C16_complete_transfer"]
RACE = True
JOBS = 8
BATCH_TIMEOUT = 400
RULE = ("scenario = one forward.New proxy (StateListener around it, real net/http server, transport with ResponseHeaderTimeout) and a scripted raw "
        "loopback backend, in 2/3 of the scenarios with a real pass-through oxy middleware (CircuitBreaker that cannot trip, Tracer, Rebalancer, verbose RoundRobin) between the listener and the forwarder; "
        "ops: a backend response, optionally preceded by 1xx interim responses (also 2-6 concurrent ones) (status, header set, body size 0..1MiB (thorough 8MiB), Content-Length / chunked / close-delimited framing, "
        "write-size and flush pattern, header sets up to 64 KiB (thorough 300 KiB) as one long value, a few, or hundreds of short ones; half of the scenarios keep the transport forward.New chose), a failure mode (refused, RST or FIN before the head, garbage, header timeout, client cancellation), an abort "
        "after the head, or a StateListener around a returning / panicking handler; non-trivial = at least one failure or abort op and one response "
        "with a body >= 4096 bytes or chunked framing")
ASSUMPTIONS = [
    "PARTIAL: which Go error value http.Transport.RoundTrip returns for each socket failure is stdlib behaviour: the table Fwd.FailMode.kind "
    "(refused, RST-before-head -> *net.OpError; FIN-before-head -> wraps io.EOF; ResponseHeaderTimeout -> net.Error with Timeout(); client gone -> "
    "context.Canceled; malformed response -> plain error) is assumed in the model and exercised against real sockets on every run, not verified",
    "PARTIAL: byte-identity of the streamed body for every size / chunking / flush pattern, absence of hangs and crashes, are properties of "
    "httputil.ReverseProxy.copyResponse and net/http; exercised (digest of the bytes the client received vs digest of the bytes sent), not verified",
    "the proxy's own net/http server adds Date, Content-Length / Transfer-Encoding framing and Connection: close/keep-alive for its hop to the client; "
    "these are left out of the comparison; a 304 carries no Content-Type (the server strips it)",
    "final statuses are never 1xx; interim 102/103 responses before the final head are generated (the final status/headers/body must be unaffected; that the interim ones are passed on is "
    "checked by the correspondence only); 101 (protocol switch), response trailers, HEAD and HTTP/2 backends are outside the generated scope",
    "an upstream pass-through middleware (up=cb|trace|rb|rr-verbose) must change nothing: the model ignores it (relayOutcome as is)",
    "client-side observation of a body: 'aborted' = read error or bytes missing against the declared framing; 'short' = framing ended cleanly but below the scripted total (chunked: "
    "terminal chunk seen early) — a violation; otherwise length+digest",
    "loopback sockets only; no wall-clock assertion other than 'an op finishes within the 5 s watchdog'; the response-header timeout is 120 ms in stall scenarios",
    "'backend cannot be reached -> 502' is proved and exercised for refused connections and for RST/FIN before the head; a backend that is unreachable by *timing out* "
    "(black-holed dial, net.Error with Timeout()) is classified 504 by utils.StdHandler like every timeout (ErrKind.netTimeout) — outside the quantifier's list, not exercised",
    "failures after the response head (abort / reset during body copy) are modelled by Fwd.relayOutcome (head relayed, transfer incomplete, handler panics with ErrAbortHandler) and proved in "
    "C16_abort_after_head; that the stdlib really panics there is exercised by the abort ops, not verified",
    "listener pairing is proved per call and for sequential composition (C16_listener_paired / _sequence); for concurrent requests (presp) per-request pairing follows from the per-call theorem "
    "because StateListener.ServeHTTP shares no state between calls — no interleaving semantics is modelled, the run checks k connected / k disconnected",
    "C16_relay_identity's status/body clauses are a record-update identity of the model; byte identity of streamed bodies is checked by digests only",
    "backend Connection headers never contain 'close' here (that is C08's known finding resp_connection_close)",
]
TRUSTED = ["raw loopback backend / client in /verif/harness/cmd/c08/fx", "status recorder and outermost done-signal wrapper in /verif/harness/cmd/c16"]

HOP = ["Connection", "Proxy-Connection", "Keep-Alive", "Proxy-Authenticate", "Proxy-Authorization", "Te", "Trailer",
       "Transfer-Encoding", "Upgrade"]
TCHAR = set("!#$%&'*+-.^_`|~0123456789abcdefghijklmnopqrstuvwxyzABCDEFGHIJKLMNOPQRSTUVWXYZ")
EXPECT = {"refused": 502, "reset-before": 502, "close-before": 502, "stall": 504, "client-cancel": 499, "garbage": 500}


def pe(s):
    return "".join(ch if (0x20 < ord(ch) < 0x7f and ch not in "%|") else "%%%02X" % ord(ch) for ch in s)


def unpe(s):
    return re.sub(r"%([0-9A-Fa-f]{2})", lambda m: chr(int(m.group(1), 16)), s)


def canon_key(name):
    if not name or any(c not in TCHAR for c in name):
        return name
    out, up = [], True
    for c in name:
        out.append(c.upper() if up else c.lower())
        up = c == "-"
    return "".join(out)


_DIG = {}


def digest(seed, n):
    k = (seed & 255, n)
    if k not in _DIG:
        blk = bytes(((seed + j * 13) & 255) for j in range(251))
        _DIG[k] = "%d:%s" % (n, hashlib.sha256((blk * (n // 251 + 1))[:n]).hexdigest()[:12])
    return _DIG[k]


SIZES = [0, 0, 1, 2, 100, 251, 1000, 4095, 4096, 4097, 8192, 32767, 32768, 32769, 65536, 100000, 1 << 20]
STATUS = [200, 200, 200, 201, 202, 203, 204, 206, 226, 300, 301, 302, 304, 307, 400, 401, 403, 404, 409, 418, 429, 451, 500, 501, 502, 503, 504, 599]
E2E = ["X-E2e", "Set-Cookie", "Cache-Control", "Etag", "Location", "x-lower-resp", "Content-Language", "Vary", "X-Foo"]
VALS = ["v1", "a b", "x,y", 'q="1"', "50%", "a|b", "", "max-age=0", "tab\tin"]


LONGCHARS = "abcdefghijklmnopqrstuvwxyzABCDEFGHIJKLMNOPQRSTUVWXYZ0123456789=;-_./ ,"


def long_value(rng, n):
    off = rng.randint(0, len(LONGCHARS) - 1)
    v = ((LONGCHARS[off:] + LONGCHARS[:off]) * (n // len(LONGCHARS) + 1))[:n]
    return v.strip(" ") or "x"


def big_headers(rng, tier):
    """a large response head: many headers and/or long single values; totals straddle 4/8/10/16/64 KiB, thorough up to a few hundred KiB"""
    totals = [3000, 4096, 8000, 9500, 10240, 10800, 12000, 16384, 20000, 40000, 65536]
    if tier == "thorough":
        totals += [100000, 200000, 300000]
    total = rng.choice(totals)
    out = []
    style = rng.random()
    if style < 0.4:      # one long value (Set-Cookie / CSP like)
        out.append((rng.choice(["Set-Cookie", "Content-Security-Policy", "Link", "X-Long"]), long_value(rng, total)))
    elif style < 0.7:    # a few long values
        k = rng.randint(2, 6)
        for i in range(k):
            out.append((rng.choice(["Set-Cookie", "Link", "X-Long-%d" % i]), long_value(rng, max(1, total // k))))
    else:                # many short headers
        per = rng.choice([20, 60, 200])
        for i in range(max(1, total // (per + 12))):
            out.append(("X-Many-%d" % i, long_value(rng, per)))
    return out


def gen_resp(rng, tier):
    s = rng.choice(STATUS)
    seed = rng.randint(0, 255)
    if s in (204, 304):
        n, mode = 0, "none"
    else:
        n = rng.choice(SIZES) if rng.random() < 0.7 else rng.randint(0, 70000)
        if tier == "thorough" and rng.random() < 0.01:
            n = rng.choice([3 << 20, 8 << 20])
        mode = rng.choice(["cl", "cl", "chunked", "chunked", "close"])
    toks = ["resp", "s=%d" % s, "d=" + digest(seed, n), "seed=%d" % seed, "mode=" + mode]
    if n > 0 and rng.random() < 0.7:
        pieces, left = [], n
        for _ in range(rng.randint(1, 12)):
            if left <= 0:
                break
            k = rng.choice([1, 2, 7, 100, 1000, 4095, 4096, 4097, 16384, 32768, 40000, left])
            k = max(1, min(k, left))
            pieces.append(k)
            left -= k
        toks.append("chunks=" + ",".join(map(str, pieces)))
        if rng.random() < 0.3:
            toks.append("slow=1")
    if n > 0 and mode in ("chunked", "close") and rng.random() < 0.15:
        toks.append("hold=1")   # a stream that is silent after its head (SSE, long poll): the head must be relayed on its own
    rh = [] if s == 304 else [("Content-Type", rng.choice(["text/plain", "application/octet-stream", "text/event-stream"]))]
    names = []
    for _ in range(rng.randint(0, 4)):
        nm = rng.choice(E2E)
        names.append(nm)
        for _ in range(rng.choice([1, 1, 2])):
            rh.append((nm, rng.choice(VALS)))
    if rng.random() < 0.5:
        for nm in rng.sample(["Keep-Alive", "Proxy-Authenticate", "Proxy-Connection", "Te", "Upgrade", "Proxy-Authorization"], rng.randint(1, 3)):
            rh.append((nm, rng.choice(["timeout=5", "Basic", "h2c", "x"])))
            names.append(nm)
    if rng.random() < 0.4:
        t = []
        for _ in range(rng.randint(1, 3)):
            x = rng.choice(names) if names and rng.random() < 0.7 else rng.choice(["keep-alive", "X-Nope", "", "upgrade"])
            t.append(rng.choice([x, x.lower(), x.upper()]))
        t = [x for x in t if x.lower() != "close"]
        rh.append(("Connection", rng.choice([",", ", "]).join(t)))
    if rng.random() < 0.12:
        rh += big_headers(rng, tier)
    if rng.random() < 0.15:
        # interim responses (103 Early Hints, 102 Processing) before the final head
        toks.append("pre=" + rng.choice(["103", "103", "102", "103,103", "103,102"]))
    rng.shuffle(rh)
    for nm, v in rh:
        toks.append("rh=%s:%s" % (nm, pe(v.strip(" \t"))))
    return " ".join(toks)


# what sits between the StateListener and the forwarder: nothing, or a real oxy middleware that never intervenes
UPS = ["none", "none", "cb", "trace", "rb", "rr-verbose"]


def gen_presp(rng):
    k = rng.randint(2, 6)
    n = rng.choice([1000, 40000, 100000, 200000, 300000])
    seed = rng.randint(0, 200)
    digs = [digest(seed + i, n).split(":")[1] for i in range(k)]
    return "presp c=%d s=%d d=%d:%s seed=%d mode=%s" % (k, rng.choice([200, 200, 404]), n, "/".join(digs), seed, rng.choice(["cl", "chunked"]))


def gen_abort(rng):
    n = rng.choice([10, 1000, 5000, 40000, 100000, 300000])
    sent = rng.choice([0, 1, n // 2, n - 1])
    mode = rng.choice(["cl", "chunked"])
    toks = ["abort", "s=%d" % rng.choice([200, 206, 404, 500]), "n=%d" % n, "sent=%d" % sent, "seed=%d" % rng.randint(0, 255), "mode=" + mode,
            "rh=Content-Type:text/plain"]
    if sent > 1 and rng.random() < 0.5:
        toks.append("chunks=%d" % rng.randint(1, sent))
    return " ".join(toks)


def gen(rng, tier):
    n_scen = {"quick": 800, "thorough": 4000, "search": 200}.get(tier, 800)
    for k in range(n_scen):
        if k % 6 == 5:
            # short response-header timeout: only ops whose outcome does not depend on the backend answering in time
            lines = ["cfg rht=120 tr=%s up=%s" % (rng.choice(["own", "keep"]), rng.choice(UPS))]
            for _ in range(rng.randint(3, 8)):
                r = rng.random()
                if r < 0.4:
                    lines.append("fail stall")
                elif r < 0.8:
                    lines.append("fail " + rng.choice(["refused", "reset-before", "close-before", "garbage"]))
                else:
                    lines.append("listener " + rng.choice(["ret", "panic", "abort", "retarget", "mutate"]))
        else:
            # tr=keep: the RoundTripper forward.New chose is kept (what a caller gets who configures nothing)
            lines = ["cfg rht=3000 tr=%s up=%s" % (rng.choice(["own", "keep"]), rng.choice(UPS))]
            for _ in range(rng.randint(6, 24)):
                r = rng.random()
                if r < 0.07:
                    lines.append(gen_presp(rng))
                elif r < 0.6:
                    lines.append(gen_resp(rng, tier))
                elif r < 0.8:
                    lines.append("fail " + rng.choice(["refused", "reset-before", "close-before", "garbage", "client-cancel"]))
                elif r < 0.9:
                    lines.append(gen_abort(rng))
                else:
                    lines.append("listener " + rng.choice(["ret", "panic", "abort", "retarget", "mutate"]))
        yield lines


def exhaustive(tier):
    if tier != "thorough":
        return
    # every failure mode / listener outcome followed by every other one, on one proxy (state must not leak between requests)
    for up in ["cb", "trace", "rb", "rr-verbose"]:
        yield ["cfg rht=3000 tr=own up=" + up, "abort s=200 n=100000 sent=50000 seed=1 mode=chunked chunks=1000 rh=Content-Type:text/plain",
               "abort s=200 n=5000 sent=100 seed=1 mode=cl rh=Content-Type:text/plain",
               "resp s=404 d=%s seed=9 mode=cl pre=103 rh=Content-Type:text/plain" % digest(9, 5000), "listener abort", "listener panic", "fail close-before"]
    kinds = ["fail refused", "fail reset-before", "fail close-before", "fail garbage", "fail client-cancel", "listener ret", "listener panic",
             "listener abort", "listener retarget", "abort s=200 n=5000 sent=100 seed=1 mode=cl rh=Content-Type:text/plain",
             "resp s=200 d=%s seed=9 mode=chunked chunks=1,4096 rh=Content-Type:text/plain" % digest(9, 10000)]
    for a in kinds:
        for b in kinds:
            yield ["cfg rht=3000", a, b, kinds[-1]]


# ------------------------------------------------------------------------------------------------ monitor

def tokens_of(values):
    out = []
    for v in values:
        for t in v.split(","):
            t = t.strip(" \t")
            if t:
                out.append(t)
    return out


def parse_out(o):
    f = o.split(" ")
    head = None
    if f and f[0].startswith("head="):
        head, f = f[0][5:], f[1:] or [""]
    d = {"first": f[0], "H": {}, "ev": None, "rec": None, "body": None, "head": head}
    inh = False
    for t in f[1:]:
        if t == "H":
            inh = True
        elif t.startswith("ev="):
            d["ev"] = [x for x in t[3:].split(",") if x]
            inh = False
        elif t.startswith("rec="):
            d["rec"] = t[4:]
            inh = False
        elif t.startswith("body=") and not inh:
            d["body"] = t[5:]
        elif inh:
            n, _, v = t.partition(":")
            d["H"][n] = [unpe(x) for x in v.split("|")]
    return d


def monitor(ops, outs):
    bad = []
    for i, (l, o) in enumerate(zip(ops, outs)):
        f = l.split(" ")
        if f[0] in ("cfg",) or l.startswith("#"):
            continue
        if f[0] == "presp":
            kv = dict(t.split("=", 1) for t in f[1:] if "=" in t)
            n, digs = kv["d"].split(":")
            want = ["%s:%s:%s" % (kv["s"], n, x) for x in digs.split("/")]
            got = o.split(" ")
            if got[:-1] != want:
                for j, (a, b) in enumerate(zip(got[:-1] + ["<missing>"] * len(want), want)):
                    if a != b:
                        bad.append("body: line %d concurrent client %d of %s was sent %s but received %s" % (i, j, kv["c"], b, a))
                        break
            if got[-1] != "evc=%s/%s" % (kv["c"], kv["c"]):
                bad.append("paired: line %d %s concurrent requests: connected/disconnected counts %s" % (i, kv["c"], got[-1]))
            continue
        if f[0] not in ("resp", "fail", "abort", "listener"):
            continue
        if o in ("timeout", "dead") or o.startswith("panic") or o.startswith("err client") or "HANDLER-STILL-RUNNING" in o or o.startswith("<no output"):
            bad.append("alive: line %d %r: the proxy hung or crashed (%s)" % (i, l[:60], o[:80]))
            if o in ("timeout", "dead"):
                break
            continue
        d = parse_out(o)
        if d["ev"] != ["connected", "disconnected"]:
            bad.append("paired: line %d %r: listener events %r, expected one 'connected' followed by exactly one 'disconnected'" % (i, l[:60], d["ev"]))
        if f[0] == "resp":
            kv = dict(t.split("=", 1) for t in f[1:] if "=" in t and not t.startswith("rh="))
            if d["first"] != kv["s"]:
                bad.append("status: line %d backend answered %s, client got %s" % (i, kv["s"], d["first"]))
            if kv.get("hold") == "1" and d["head"] != "early":
                bad.append("stream: line %d the backend sent the head of a stream of undeclared length and then stayed silent: the client "
                           "did not get status and headers until body data followed (head=%s)" % (i, d["head"]))
            if d["rec"] != kv["s"]:
                bad.append("status: line %d backend answered %s, proxy recorded %s" % (i, kv["s"], d["rec"]))
            if d["body"] != kv["d"]:
                bad.append("body: line %d backend sent %s (mode %s chunks %s), client received %s" % (i, kv["d"], kv.get("mode"), kv.get("chunks", "-"), d["body"]))
            R = {}
            for t in f[1:]:
                if t.startswith("rh="):
                    n, _, v = t[3:].partition(":")
                    R.setdefault(canon_key(n), []).append(unpe(v))
            hop = set(HOP) | set(canon_key(t) for t in tokens_of(R.get("Connection", [])))
            for n in sorted(hop):
                if n in d["H"] and any(v in R.get(n, []) for v in d["H"][n]):
                    bad.append("hop: line %d hop-by-hop response header %s: %r reached the client" % (i, n, d["H"][n]))
            for n, vs in R.items():
                if n not in hop and d["H"].get(n) != vs:
                    bad.append("e2e: line %d end-to-end response header %s: backend sent %r, client received %r" % (i, n, vs, d["H"].get(n)))
            for n in d["H"]:
                if n not in R and n != "Connection":
                    bad.append("e2e: line %d client received header %s: %r the backend never sent" % (i, n, d["H"][n]))
        elif f[0] == "fail":
            want = EXPECT.get(f[1])
            if want is None:
                continue
            if f[1] == "client-cancel":
                if d["rec"] != "499":
                    bad.append("errmap: line %d client went away: recorded %s, expected 499" % (i, d["rec"]))
            else:
                if d["first"] != str(want) or d["rec"] != str(want):
                    bad.append("errmap: line %d failure %s: client got %s (recorded %s), expected %d" % (i, f[1], d["first"], d["rec"], want))
        elif f[0] == "abort":
            if d["first"] == "short":
                g = o.split(" ")
                bad.append("body: line %d backend died after %s of %s body bytes but the client's response ended cleanly (status %s, %s bytes, no read error): a truncated body passed off as complete" % (
                    i, dict(t.split("=", 1) for t in f[1:] if "=" in t).get("sent"), dict(t.split("=", 1) for t in f[1:] if "=" in t).get("n"), g[1], g[2]))
            elif d["first"] != "aborted":
                bad.append("body: line %d backend died after %s of %s body bytes but the client was handed a complete response (%s)" % (
                    i, dict(t.split("=", 1) for t in f[1:] if "=" in t).get("sent"), dict(t.split("=", 1) for t in f[1:] if "=" in t).get("n"), o[:60]))
        if len(bad) > 20:
            break
    return bad


def nontrivial(ops, outs):
    fail = any(l.startswith("fail ") or l.startswith("abort ") for l in ops)
    big = False
    for l in ops:
        if l.startswith("resp "):
            m = re.search(r" d=(\d+):", l)
            if (m and int(m.group(1)) >= 4096) or "mode=chunked" in l:
                big = True
    return fail and (big or any(l == "fail stall" for l in ops))


def describe(ops, outs, hist):
    for l, o in zip(ops, outs):
        f = l.split(" ")
        if f[0] == "cfg":
            hist["cfg:" + (f[2] if len(f) > 2 else "tr=own")] += 1
            hist["cfg:" + (f[3] if len(f) > 3 else "up=none")] += 1
        if f[0] == "resp" and " pre=" in l:
            hist["resp:with-1xx"] += 1
        if f[0] == "fail":
            hist["fail:" + f[1]] += 1
            hist["fail-status:" + o.split(" ")[0]] += 1
        elif f[0] == "resp":
            hist["op:resp"] += 1
            m = re.search(r" mode=(\w+)", l)
            hist["mode:" + (m.group(1) if m else "?")] += 1
            m = re.search(r" d=(\d+):", l)
            n = int(m.group(1)) if m else 0
            hl = sum(len(t) for t in f if t.startswith("rh="))
            hist["head:" + ("<1k" if hl < 1024 else "<10k" if hl < 10240 else "<64k" if hl < 65536 else ">=64k")] += 1
            hist["size:" + ("0" if n == 0 else "<4k" if n < 4096 else "<64k" if n < 65536 else "<1M" if n < (1 << 20) else ">=1M")] += 1
        elif f[0] in ("abort", "listener"):
            hist["op:" + " ".join(f[:2]) if f[0] == "listener" else "op:abort"] += 1


MANIFEST = {
    "text": ("Proof (partial): Lean 4 theorems C16_classify_total / C16_classify_kinds / C16_failure_modes (utils.StdHandler's error->status decision, exhaustive, "
             "with the precedence of the Go type tests), C16_relay_identity (status, body descriptor and end-to-end headers unchanged, hop-by-hop removed) and "
             "C16_listener_paired / C16_listener_sequence (StateListener over a model of call/defer/panic: for every handler outcome, panic included, events = "
             "[connected, disconnected]). Tied to the code by a differential run against a real proxy with scripted raw backends on loopback."),
    "note": ("Partial: which error value the stdlib produces for which socket failure, byte-identity of the streamed body and the absence of hangs/crashes are "
             "stdlib behaviour — assumed in the model (Fwd.FailMode.kind), exercised on every run (digests, 5 s watchdog), not verified. Trusted: Lean kernel; "
             "propext/Classical.choice/Quot.sound; harness, driver glue, generator, monitors."),
    "technique": "Lean 4 proof (finite case analysis, small-step defer/panic model) + differential correspondence with fault injection on loopback sockets",
}
