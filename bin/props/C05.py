"""C05 — a tripped circuit breaker shields the backend."""
from props import brk_common as B

ID = "C05"
HARNESS = "c05"
DRIVER = "c05"
PROPS_MODULE = "OxyModel.Props.C05"
AUDIT = "OxyModel/Audit/C05.lean"
THEOREMS = ["C05.C05_tripped_shields", "C05.C05_tripped_shields_all", "C05.C05_standby_passes", "C05.C05_standby_until_trip", "C05.C05_edges", "C05.C05_tripped_until"]
RACE = True
JOBS = 8
RULE = ("scenario = a real cbreaker.New(next, <generated condition>, Fallback/Recovery/CheckPeriod from 1 ms..1 h incl. powers of two and 0) "
        "driven by interleaved start/finish of up to 8 overlapping requests, random response codes and clock advances, failure bursts, "
        "probes across the tripped interval (T, T+1, .., T+fb-1, T+fb) and recovery sweeps; 10% park/re-trip scenarios: a request is parked inside "
        "the breaker's 'is in error state' Warn (Logger option; on this code it holds c.m, probed via String()), requests admitted earlier fail and "
        "re-trip, the parked request is decided afterwards (model: the arrive step happens at the decision); options Logger/Verbose/"
        "Fallback (custom, default, ResponseFallback, RedirectFallback)/OnTripped+OnStandby (or none) are drawn per scenario; 6% of the requests carry an already cancelled context; "
        "non-trivial = at least one observed trip, a request arriving inside the shielded interval, and a request admitted before the "
        "trip completing after it")
ASSUMPTIONS = ["time stamps never decrease (frozen clock only advances); wall-clock steps backwards are not modelled",
               "the model's atomic steps are arrive (activateFallback under CircuitBreaker.m), record (metrics.Record, under RTMetrics' own locks, NOT under c.m) and check (checkAndSet under c.m); the theorems hold for every interleaving of these steps (C09 lock facts: each is atomic). The correspondence run realises: whole completions (record;check back to back), arrivals parked inside the lock, and through `finish2` the schedule Record_1 Record_2 <decision> checkAndSet checkAndSet (both responses recorded before either check); other finer schedules (e.g. the clock advancing between a request's Record and its checkAndSet) are not exercised and rest on the theorems plus the C09 lock discipline; thorough tier builds with -race",
               "durations are non-negative and fit in int64 ns; String() is read only at quiescent points"]
TRUSTED = ["cbreaker state is observed through CircuitBreaker.String() (state, until) after every op"]
MANIFEST = {
    "text": ("Proof: Lean 4 theorems C05_tripped_shields (every arrival in [T, T+fallbackDuration) after the latest trip gets the fallback, for "
             "every interleaving of arrivals and completions, any codes, any clock advances, any configuration, from every breaker state), "
             "C05_standby_passes / C05_standby_until_trip, C05_edges (only standby->tripped->recovering->standby|tripped), C05_tripped_until, "
             "about the executable model CB.arrive/CB.complete; the model is tied to cbreaker.go by a differential run of the real "
             "CircuitBreaker (real predicate parser, real RTMetrics) and the compiled model on generated interleavings."),
    "note": ("Trusted: Lean kernel; propext/Classical.choice/Quot.sound; hand-written model validated against the code on the generated scenarios only; "
             "each activateFallback/checkAndSet is one atomic step (C09); latency quantiles are computed by the model's own histogram (Model/Hist.lean, see C18) up to the float "
             "rounding of the percentile count; monotone clock."),
    "technique": "Lean 4 proof (trace induction over an executable state machine) + differential correspondence with cbreaker.CircuitBreaker",
}


def pre_check(check):
    B.BIN = check.bin_h


def gen(rng, tier):
    return B.gen(rng, tier, "C05")


def canon(side, line):
    return B.canon(side, line)


def monitor(ops, outs):
    return B.monitor_c05(ops, outs)


def nontrivial(ops, outs):
    d = B.facts(ops, outs)
    return d["trips"] >= 1 and d["shielded"] >= 1 and d["late_done"] >= 1


def describe(ops, outs, hist):
    B.describe(ops, outs, hist)
