"""C19 — source extractors identify the source exactly."""
import itertools
import re

ID = "C19"
HARNESS = "c19"
DRIVER = "c19"
PROPS_MODULE = "OxyModel.Props.C19"
AUDIT = "OxyModel/Audit/C19.lean"
THEOREMS = ["C19.C19_client_ip", "C19.C19_client_ip_general", "C19.C19_same_token_iff_same_address",
            "C19.C19_host", "C19.C19_host_ignores_url", "C19.C19_header", "C19.C19_header_value", "C19.C19_header_absent",
            "C19.C19_amount_one", "C19.C19_unsupported_refused", "C19.C19_split_exact",
            "C19.C19_malformed_is_error"]
RACE = False
RULE = ("scenario = one NewExtractor variable (client.ip, request.host, request.header.<name>, or an unsupported/garbled one) "
        "followed by 10-60 forged requests: RemoteAddr = JoinHostPort of IPv4 / IPv6 / IPv6%zone peers with a decimal port, plus a "
        "malformed stream (no port, empty, only colons, empty host, unbalanced/misplaced brackets, extra colons, odd bytes, random "
        "edits of valid addresses), Host strings with req.URL.Host set independently (backend address behind a balancer, absolute-form authority, or absent), header lines with case variants, duplicates and invalid names; thorough additionally "
        "enumerates every RemoteAddr of length <= 6 over the alphabet {1 a : [ ] %}; non-trivial = at least two different outputs "
        "and at least one non-empty token")
ASSUMPTIONS = [
    "RemoteAddr of a served request is net.JoinHostPort(ip.String()+zone, port) with the canonical textual IP (net/http sets it from TCPAddr.String()); textual equality of IPs is address equality",
    "a Go string is modelled as its byte sequence; net.SplitHostPort / net.JoinHostPort / textproto.CanonicalMIMEHeaderKey / http.Header.Get are modelled from the Go 1.23 sources and validated by the correspondence (incl. exhaustive short strings), not verified",
    "header lines reach the extractor through Header.Add in arrival order (what the server's MIME reader does); multi-valued headers yield the first value",
]
TRUSTED = ["%XX escaping of odd bytes, implemented identically in the Go harness, the Lean driver and this plugin"]

SAFE = set(b"abcdefghijklmnopqrstuvwxyzABCDEFGHIJKLMNOPQRSTUVWXYZ0123456789.:_-[]")


def esc(b):
    return "".join(chr(c) if c in SAFE else "%%%02X" % c for c in b)


def unesc(s):
    out = bytearray()
    i = 0
    while i < len(s):
        if s[i] == "%":
            out.append(int(s[i + 1:i + 3], 16))
            i += 3
        else:
            out.append(ord(s[i]))
            i += 1
    return bytes(out)


# ------------------------------------------------------------------------------------------ generation
def _ipv4(rng):
    return ".".join(str(rng.choice([0, 1, 9, 10, 127, 192, 255, rng.randint(0, 255)])) for _ in range(4))


def _ipv6(rng):
    k = rng.random()
    if k < 0.15:
        return rng.choice(["::1", "::", "::ffff:10.0.0.1", "fe80::1", "2001:db8::8a2e:370:7334", "64:ff9b::192.0.2.33"])
    n = rng.randint(1, 7)
    groups = ["%x" % rng.choice([0, 1, 0xdb8, 0xffff, rng.randint(0, 0xffff)]) for _ in range(n)]
    if rng.random() < 0.3:
        groups = [g.upper() for g in groups]
    if n == 7 and rng.random() < 0.5:
        return ":".join(groups + ["%x" % rng.randint(0, 0xffff)])
    j = rng.randint(0, n)
    s = ":".join(groups[:j]) + "::" + ":".join(groups[j:])
    return s


def _zone(rng):
    return rng.choice(["eth0", "lo", "1", "en0", "wlan-1", "br_0", "Ethernet 2", "vlan.10", "eth0%x", "\xe9th".encode("latin-1").decode("latin-1")])


def _peer(rng):
    k = rng.random()
    if k < 0.4:
        return _ipv4(rng)
    if k < 0.75:
        return _ipv6(rng)
    return _ipv6(rng) + "%" + _zone(rng)


def _join(ip, port):
    return ("[%s]:%s" % (ip, port)) if ":" in ip else "%s:%s" % (ip, port)


MALFORMED = ["", ":", "::", ":80", "[]:80", "[]", "[", "]", "[:", "]:", "[]:", "1.2.3.4", "::1", "fe80::1%eth0", "[::1", "::1]:80",
             "[::1]", "[::1]80", "[::1]:", "[::1]:80:90", "1.2.3.4:80:90", "[::1]x:80", "[::1]::80", "a[b:1", "a]b:1", "[a[b]:1",
             "[ab]]:1", "[[::1]]:80", "[::1]:[80]", "[::1]:8]0", "1.2.3.4:8[0", "host", "host:", " :80", "1.2.3.4 :80", "%:80",
             "\x00:1", "\xff\xfe:80", "[::1%]:80", "[%eth0]:80", "[::1]:80 ", "::ffff:1.2.3.4:80", "[1.2.3.4]:80", "1.2.3.4]:80"]


def _mutate(rng, s):
    b = list(s)
    for _ in range(rng.randint(1, 2)):
        k = rng.random()
        pos = rng.randint(0, len(b))
        if k < 0.4 and b:
            del b[min(pos, len(b) - 1)]
        elif k < 0.8:
            b.insert(pos, rng.choice(":[]%. 1a"))
        elif b:
            b[min(pos, len(b) - 1)] = rng.choice(":[]%")
    return "".join(b)


def _addr(rng):
    k = rng.random()
    if k < 0.55:
        return _join(_peer(rng), str(rng.choice([0, 1, 80, 443, 8080, 65535, rng.randint(1024, 65535)])))
    if k < 0.8:
        return rng.choice(MALFORMED)
    return _mutate(rng, _join(_peer(rng), str(rng.randint(1, 65535))))


HNAMES = ["X-Real-Ip", "x-real-ip", "X-REAL-IP", "x-Real-iP", "Authorization", "X-Api-Key", "x_api_key", "X", "a-", "-a", "A--b",
          "x y", "X Y", "x:y", "\xe9", "Host", "1-2", "x-Real-ip ", "X.Foo~", "x.foo~"]
VARS_BAD = ["", "client", "client.ip ", "Client.ip", "client.IP", "clientip", "client.ipx", "request.host.", "request.hostx", "Request.host",
            "request.header.", "request.header", "request.headers.X", "Request.header.X", "request.Header.X", "request.url", " ", "client.ip\x00",
            "request.header", "header.X", "request.", "request.header.."]


def _b(s):
    return s.encode("latin-1")


def gen(rng, tier):
    n_scen = {"quick": 700, "thorough": 6000, "search": 700}.get(tier, 700)
    for _ in range(n_scen):
        k = rng.random()
        if k < 0.5:
            var = "client.ip"
        elif k < 0.6:
            var = "request.host"
        elif k < 0.85:
            var = "request.header." + rng.choice(HNAMES)
        else:
            var = rng.choice(VARS_BAD) if rng.random() < 0.8 else _mutate(rng, rng.choice(["client.ip", "request.host", "request.header.X"]))
        lines = ["cfg var=" + esc(_b(var))]
        peers = [_peer(rng) for _ in range(rng.randint(1, 4))]
        for _ in range(rng.randint(1, 3) if k >= 0.85 else rng.randint(10, 60)):
            toks = ["x"]
            if rng.random() < 0.95:
                a = _addr(rng) if rng.random() < 0.7 else _join(rng.choice(peers), str(rng.randint(1, 65535)))
                toks.append("addr=" + esc(_b(a)))
            if rng.random() < 0.8:
                hst = rng.choice(["example.com", "Example.COM:8080", "", "[::1]:80", "a b", "h\x00", _ipv4(rng), "xn--bcher-kva.example"])
                toks.append("host=" + esc(_b(hst)))
            if rng.random() < 0.5:
                # req.URL.Host varied independently of Host: a backend address (request seen behind a balancer), the same host, an absolute-form authority
                uh = rng.choice(["10.1.1.1:8080", "backend-1.internal:9000", "[fd00::7]:8080", "example.com", "Example.COM:8080", _ipv4(rng) + ":80", "other.example"])
                toks.append("urlhost=" + esc(_b(uh)))
            for _ in range(rng.choice([0, 0, 1, 1, 2, 3, 5])):
                n = rng.choice(HNAMES)
                if var.startswith("request.header.") and rng.random() < 0.5:
                    base = var[len("request.header."):]
                    n = rng.choice([base, base.lower(), base.upper(), base.title(), base + "x"])
                v = rng.choice(["", "v", "10.0.0.%d" % rng.randint(0, 3), "a b=c", "tok\xff", "k%d" % rng.randint(0, 3)])
                toks.append("h=%s=%s" % (esc(_b(n)), esc(_b(v))))
            tail = toks[1:]
            rng.shuffle(tail)
            lines.append(" ".join(["x"] + tail))
        yield lines


def exhaustive(tier):
    if tier != "thorough":
        return
    alpha = "1a:[]%"
    batch = ["cfg var=client.ip"]
    for n in range(0, 7):
        for t in itertools.product(alpha, repeat=n):
            batch.append("x addr=" + esc(_b("".join(t))))
            if len(batch) > 400:
                yield batch
                batch = ["cfg var=client.ip"]
    if len(batch) > 1:
        yield batch


# ------------------------------------------------------------------------------------------ monitor
_V4 = re.compile(rb"^[0-9.]+$")
_V6 = re.compile(rb"^[0-9a-fA-F:.]*:[0-9a-fA-F:.]*$")
_PORT = re.compile(rb"^[0-9]*$")
_TOKEN = re.compile(rb"^[0-9A-Za-z!#$%&'*+\-.^_`|~]*$")


def _wellformed(addr):
    """(ip) if addr is JoinHostPort(ip, port) with ip of IPv4 / IPv6 / IPv6%zone shape and a decimal port, else None"""
    if addr.startswith(b"["):
        m = re.match(rb"^\[([^\[\]]*)\]:([^:\[\]]*)$", addr, re.S)
        if not m or not _PORT.match(m.group(2)):
            return None
        ip = m.group(1)
        if _V6.match(ip):
            return ip
        if b"%" in ip:
            a, z = ip.rsplit(b"%", 1)
            if _V6.match(a) and z:
                return ip
        return None
    if b":" not in addr:
        return None
    ip, port = addr.rsplit(b":", 1)
    if _V4.match(ip) and _PORT.match(port):
        return ip
    return None


def _canon(name):
    if not _TOKEN.match(name):
        return name
    out = bytearray()
    up = True
    for c in name:
        ch = bytes([c])
        ch = ch.upper() if up else ch.lower()
        out += ch
        up = ch == b"-"
    return bytes(out)


def _parse(l):
    addr = host = b""
    hdrs = []
    for t in l.split()[1:]:
        if t.startswith("addr="):
            addr = unesc(t[5:])
        elif t.startswith("host="):
            host = unesc(t[5:])
        elif t.startswith("h="):
            n, v = t[2:].split("=", 1)
            hdrs.append((unesc(n), unesc(v)))
    return addr, host, hdrs


def _walk(ops, outs):
    bad = []
    var = None
    ok_cfg = False
    seen = {}
    stats = {"outs": set(), "nonempty": 0, "wf": 0, "malformed": 0}
    for l, o in zip(ops, outs):
        f = l.split()
        if not f or l.startswith("#"):
            continue
        if f[0] == "cfg":
            try:
                var = unesc(f[1][4:]) if len(f) > 1 and f[1].startswith("var=") else b""
            except ValueError:
                var, ok_cfg = None, False
                continue
            supported = var in (b"client.ip", b"request.host") or (var.startswith(b"request.header.") and len(var) > len(b"request.header."))
            ok_cfg = o == "ok"
            seen = {}
            if supported and o != "ok":
                bad.append("refused: NewExtractor(%r) failed: %s" % (var, o))
            if not supported and not o.startswith("err"):
                bad.append("accepted: NewExtractor(%r) did not fail: %s" % (var, o))
            continue
        if f[0] != "x" or not ok_cfg or o in ("bad-op", "no-scenario"):
            continue
        stats["outs"].add(o)
        try:
            addr, host, hdrs = _parse(l)
        except ValueError:
            continue
        tok = amt = None
        m = re.match(r"^ok tok=(\S*) amt=(-?\d+)$", o)
        if m:
            tok, amt = unesc(m.group(1)), int(m.group(2))
            if tok:
                stats["nonempty"] += 1
            if amt != 1:
                bad.append("amount: a request counted as %d units (%s)" % (amt, l))
        elif o != "err":
            bad.append("output: %r" % o)
        if var == b"client.ip":
            ip = _wellformed(addr)
            if ip is None:
                stats["malformed"] += 1
                continue
            stats["wf"] += 1
            if tok != ip:
                bad.append("client-ip: RemoteAddr %r (peer %r) gives %s" % (addr, ip, "token %r" % tok if tok is not None else "an error"))
            for ip2, tok2 in seen.items():
                if (ip2 == ip) != (tok2 == tok):
                    bad.append("same-token: peers %r and %r get tokens %r and %r" % (ip2, ip, tok2, tok))
                    break
            seen[ip] = tok
        elif var == b"request.host":
            if tok != host:
                bad.append("host: Host %r gives %r" % (host, tok))
        elif var is not None and var.startswith(b"request.header."):
            name = var[len(b"request.header."):]
            want = b""
            for n, v in hdrs:
                if _canon(n) == _canon(name):
                    want = v
                    break
            if tok != want:
                bad.append("header: header %r of %r gives %r, expected %r" % (name, hdrs, tok, want))
        if len(bad) > 5:
            break
    return bad, stats


def monitor(ops, outs):
    return _walk(ops, outs)[0]


def nontrivial(ops, outs):
    st = _walk(ops, outs)[1]
    return len(st["outs"]) >= 2 and st["nonempty"] > 0


def describe(ops, outs, hist):
    var = ""
    for l, o in zip(ops, outs):
        f = l.split()
        if not f or l.startswith("#"):
            continue
        if f[0] == "cfg":
            var = f[1][4:] if len(f) > 1 else ""
            kind = var if var in ("client.ip", "request.host") else ("request.header.*" if var.startswith("request.header.") and o == "ok" else "other")
            hist["cfg:%s:%s" % (kind, o.replace(" ", "_"))] += 1
            continue
        hist["op:x"] += 1
        if var == "client.ip":
            try:
                a = _parse(l)[0]
            except ValueError:
                continue
            shape = "malformed"
            ip = _wellformed(a)
            if ip is not None:
                shape = "ipv6zone" if b"%" in ip else ("ipv6" if b":" in ip else "ipv4")
            hist["addr:%s:%s" % (shape, o.split()[0])] += 1


MANIFEST = {
    "text": ("Proof: Lean 4 theorems over the executable model of utils/source.go with net.SplitHostPort / JoinHostPort modelled from the Go sources: "
             "C19_client_ip (every IPv4 / IPv6 / IPv6%zone peer text and decimal port: extract(JoinHostPort ip port) = (ip, 1)), C19_client_ip_general "
             "(any non-empty bracket-free host), C19_same_token_iff_same_address, C19_host, C19_header (+ _value/_absent: Header.Get semantics with canonical "
             "names), C19_amount_one, C19_unsupported_refused (NewExtractor succeeds exactly on client.ip, request.host, request.header.<non-empty>), "
             "C19_split_exact (exact set of addresses SplitHostPort accepts) and C19_malformed_is_error (error exactly for empty / ':port' / '[]:port', every "
             "other rejected address passed through as is). All strings, no length bound. Tie: real utils.NewExtractor + Extract on forged requests vs the "
             "compiled model on generated valid and malformed inputs; thorough: all RemoteAddr strings of length <= 6 over {1 a : [ ] %}."),
    "note": ("Trusted: Lean kernel; propext/Classical.choice/Quot.sound; stdlib pieces (net.SplitHostPort, textproto canonical header keys) are modelled and "
             "validated by the correspondence, not verified; RemoteAddr is assumed to be what net/http produces (JoinHostPort of the canonical IP text). "
             "Malformed RemoteAddr values are outside the statement: the current code passes most of them through unchanged as the token (recorded by "
             "C19_malformed_is_error), the monitor does not judge them."),
    "technique": "Lean 4 proof (list lemmas on first/last index, exact inverse of JoinHostPort) over executable model + differential correspondence with utils.NewExtractor/Extract",
}
