"""C07 — the client gets exactly one response: the final attempt's, after bounded retries."""
from props import bufcommon as B

ID = "C07"
HARNESS = "c06"
DRIVER = "c06"
PROPS_MODULE = "OxyModel.Props.C07"
AUDIT = "OxyModel/Audit/C07.lean"
THEOREMS = ["C07.C07_final_only", "C07.C07_implicit_200", "C07.C07_empty_body_empty", "C07.C07_once_without_predicate",
            "C07.C07_retry_iff_predicate", "C07.C07_eval_standard", "C07.C07_at_most_11",
            "C07.C07_body_dropped_kinds", "C07.C07_panic_nothing_written"]
RACE = False
JOBS = 8
RULE = ("scenario = one Buffer with a retry expression generated from the grammar (printed in Go syntax with redundant parentheses for the real parser, "
        "in prefix form for the model), 2-7 requests with up to 12 scripted attempts (status none/1xx/2xx/3xx/4xx/5xx, response headers, 0-4 writes incl. empty); "
        "non-trivial = at least one retry happened, or the final attempt had no explicit status or an empty body")
ASSUMPTIONS = ["the response code an expression sees for an attempt that neither chose a status nor wrote is 0 (threshold.go: 'returns 0 if there was no response code'), although the client then receives 200",
               "a final response for HEAD / 1xx / 204 / 304 / 'Content-Length: 0' / non-zero Grpc-Status carries no body (expectBody)",
               "recorded, not flagged: bufferWriter.WriteHeader overwrites the captured status whenever it is called, so a WriteHeader after the first Write (net/http would ignore it) decides the delivered status, and headers added after the first Write are delivered (script fields ls: / lh:); codes are in 100..599",
               "recorded, not flagged (C07_body_dropped_kinds): besides HEAD/1xx/204/304 the final body is withheld for a response header 'Content-Length: 0' and for 'Grpc-Status' other than ''/'0', although net/http itself would deliver those bytes",
               "a handler panic leaves ServeHTTP with nothing written (C07_panic_nothing_written); the client outcome is canonicalised as cl=aborted",
               "what net/http does with the ResponseWriter calls (1xx informational, implicit Content-Length) is checked by the harness (cl=ok), not modelled"]
TRUSTED = ["vulcand/predicate parser + go/parser are inside the tie (expressions go through them), not modelled"]


def gen(rng, tier):
    return B.gen_scenarios(rng, tier, "C07")


monitor = B.monitor_c07
describe = B.describe


def nontrivial(ops, outs):
    for kind, cfg, req, o in B.exchanges(ops, outs):
        if kind != "req":
            continue
        out = B.Out(o)
        if out.ok and (out.inv >= 2 or (out.inv == 1 and (req.att(1).status is None or req.att(1).total() == 0))):
            return True
    return False


MANIFEST = {
    "text": ("Proof: Lean 4 theorems C07_final_only, C07_implicit_200, C07_empty_body_empty, C07_once_without_predicate, C07_retry_iff_predicate, "
             "C07_eval_standard (the Go combinators and/or/eq/neq/lt/gt/le/ge agree with an independently written standard denotation for every expression), "
             "C07_at_most_11, about the model Buf.serve for every request, thresholds, expression and handler script. Tied to buffer.go/threshold.go by "
             "differential runs through the real parser and a real HTTP server/client."),
    "note": ("Trusted: Lean kernel; propext/Classical.choice/Quot.sound; hand-written model validated on generated scenarios; an attempt that produced nothing "
             "is seen by the expression as code 0; predicate/go parser exercised, not modelled."),
    "technique": "Lean 4 proof (structural induction on expressions; loop induction with attempt+fuel invariant) + differential correspondence with buffer.Buffer over real HTTP",
}
