"""C09 — data-race freedom / lock discipline of every middleware (partial by nature).

Tie to the source = (1) the translator /verif/harness/locks regenerates the lock facts from the tree under
test on every run and the discipline theorem C09_discipline is re-checked by the Lean kernel on them,
(2) a `-race` stress of every middleware (and a stack) with exact totals looks for a concrete failing
schedule, (3) the Lean checker (driver drv_c09) and an independent Go evaluation are diffed on the
generated table and on mutated tables.
"""
import fcntl
import filecmp
import json
import os
import re
import shutil
import subprocess
import time

ID = "C09"
HARNESS = "c09"
DRIVER = "c09"
PROPS_MODULE = "OxyModel.Props.C09"
AUDIT = "OxyModel/Audit/C09.lean"
THEOREMS = ["C09.C09_lockset_sound", "C09.C09_no_race", "C09.C09_no_lost_update", "C09.C09_no_lost_update_general",
            "C09.C09_discipline", "C09.C09_updates_atomic", "C09.C09_no_lost_update_facts",
            "C09.C09_race_free_partial", "C09.C09_race_free_instances_partial"]
RACE = True
shrinkable = False
BATCH_TIMEOUT = 120
RULE = ("obligations: lock facts regenerated from the source by /verif/harness/locks, C09_discipline re-checked on them; "
        "scenario = a fact table (the generated one, tables mutated from it by dropping a lock / weakening a mode / deleting a "
        "site, and random tables) with one verdict line per variable, Lean checker vs independent Go evaluation; non-trivial = "
        "table with a write fact and at least one disciplined and (for mutated tables) one undisciplined variable; plus the "
        "-race stress of 11 middleware set-ups from 16 goroutines with exact totals")
ASSUMPTIONS = [
    "the translator: every access of a real execution is one of the emitted sites and the thread holds the locks listed there (Lean: Conforms / ConformsI facts es); a write at a site classified as one-statement read-modify-write is preceded by that statement's load with none of the site's locks released in between (Lean: ConformsU facts es)",
    "no-lost-update is proved from the facts only for counter variables (all write sites one-statement read-modify-writes); variables that are also reset by plain stores (RollingCounter.values, ConnLimiter.connections) are covered by 'no split update site in the table' and the exact stress totals",
    "split-update detection is syntactic and per call chain: a stored value data-dependent (through locals) on a load of the same variable in another critical section, or a plain store not preceded in its own critical section by a look at the variable that was looked at in an earlier section; a function called inside the statement of a read-modify-write is assumed not to release the caller's lock",
    "Go memory model for sync.Mutex/RWMutex = the step semantics of Model/Locks.lean",
    "abstraction: one lock class / one variable per (type, field); helper objects are named by the owner path that reaches them; distinct instances do not share helper objects",
    "objects allocated in the current call chain are thread-local until stored into a field, map or slice",
    "user-supplied objects (io.Writer of the Tracer, extractors, handlers, loggers, meters, side effects, factory functions) are concurrency safe and return unshared objects; loggers format their arguments synchronously or not at all",
    "configuration setters listed in harness/locks/exceptions.json are called before the handler is published",
    "package-level variables (roundrobin.defaultWeight via SetDefaultWeight) and closures never called from repository code (see closures_not_reached) are outside the analysis",
    "pre-emption inside critical sections is exercised only by the -race stress, bounded iterations",
]
TRUSTED = ["C09 translator /verif/harness/locks (go/parser + go/types with the stock source importer; no third-party code): lockset walk, context-sensitive call graph, owner naming, immutability classification",
           "exception list /verif/harness/locks/exceptions.json (printed in the evidence)",
           "Go race detector and the stress harness /verif/harness/cmd/c09/stress.go"]

VERIF = os.path.dirname(os.path.dirname(os.path.dirname(os.path.abspath(__file__))))
LEAN = os.path.join(VERIF, "lean")
LOCKS = os.path.join(VERIF, "harness", "locks")
COMMITTED = os.path.join(LEAN, "OxyModel", "Generated", "LockFacts.lean")
MINI_FILES = ["lakefile.toml", "lean-toolchain", "lake-manifest.json", "OxyModel/Model/Locks.lean", "OxyModel/Props/C09.lean"]

STATE = {"json": None, "bad_vars": []}

STRESS = ["rr", "rebalancer", "cbreaker", "cbreaker-string", "ratelimit", "connlimit", "trace", "rtmetrics", "ttlmap", "stack", "sticky"]


def _run(cmd, **kw):
    return subprocess.run(cmd, stdout=subprocess.PIPE, stderr=subprocess.STDOUT, text=True, **kw)


# ---------------------------------------------------------------------------------------------- translator
def _translate(check):
    from vlib import core
    exe = os.path.join(check.work, "locks")
    r = _run(["go", "build", "-o", exe, "."], cwd=LOCKS, env=core.GOENV)
    if r.returncode != 0:
        return None, "translator does not build: " + r.stdout[-400:]
    js = os.path.join(check.work, "facts.json")
    lf = os.path.join(check.work, "LockFacts.lean")
    r = _run([exe, "-repo", core.REPO, "-exceptions", os.path.join(LOCKS, "exceptions.json"), "-json", js, "-lean", lf], cwd=core.REPO, env=core.GOENV)
    if r.returncode != 0 or not os.path.exists(js):
        return None, "translator failed on %s: %s" % (core.REPO, r.stdout[-600:])
    d = json.load(open(js))
    d["_stdout"] = r.stdout
    d["_lean"] = lf
    return d, ""


def _lean_check(check, lean_file):
    """compile C09_discipline over the regenerated table in a private copy of the lake project"""
    mini = os.path.join(check.work, "mini")
    shutil.rmtree(mini, ignore_errors=True)
    for rel in MINI_FILES:
        os.makedirs(os.path.dirname(os.path.join(mini, rel)), exist_ok=True)
        shutil.copy(os.path.join(LEAN, rel), os.path.join(mini, rel))
    shutil.copytree(os.path.join(LEAN, "OxyModel", "Proofs", "Locks"), os.path.join(mini, "OxyModel", "Proofs", "Locks"))
    os.makedirs(os.path.join(mini, "OxyModel", "Generated"), exist_ok=True)
    shutil.copy(lean_file, os.path.join(mini, "OxyModel", "Generated", "LockFacts.lean"))
    r = _run(["lake", "build", PROPS_MODULE], cwd=mini)
    errs = [l for l in r.stdout.splitlines() if "error" in l.lower()]
    return r.returncode == 0, "\n".join(errs)[:600]


def _install(lean_file):
    """refresh the committed table (only for the real /repo, only when the new table passes)"""
    with open(os.path.join(LEAN, ".check.lock"), "w") as lk:
        fcntl.flock(lk, fcntl.LOCK_EX)
        backup = open(COMMITTED).read() if os.path.exists(COMMITTED) else None
        shutil.copy(lean_file, COMMITTED)
        r = _run(["lake", "build", PROPS_MODULE], cwd=LEAN)
        if r.returncode != 0 and backup is not None:
            with open(COMMITTED, "w") as f:
                f.write(backup)
            _run(["lake", "build", PROPS_MODULE], cwd=LEAN)
            return False
    return True


# ---------------------------------------------------------------------------------------------- stress
def _stress(check, names, iters, seconds):
    """one process per sub-test, in parallel; returns {name: (status, line, report)}"""
    logdir = os.path.join(check.work, "race")
    os.makedirs(logdir, exist_ok=True)
    procs = {}
    for n in names:
        for f in os.listdir(logdir):
            if f.startswith(n + "."):
                os.remove(os.path.join(logdir, f))
        env = dict(os.environ, GORACE="halt_on_error=1 log_path=%s" % os.path.join(logdir, n))
        procs[n] = subprocess.Popen([check.bin_h, "stress", "-only", n, "-iters", str(iters), "-seconds", str(seconds)],
                                    stdout=subprocess.PIPE, stderr=subprocess.STDOUT, text=True, env=env, cwd=check.work)
    res = {}
    for n, p in procs.items():
        try:
            out, _ = p.communicate(timeout=seconds * 3 + 60)
        except subprocess.TimeoutExpired:
            p.kill()
            out, _ = p.communicate()
            res[n] = ("hang", "stress %s HANG (no result within %ds)" % (n, seconds * 3 + 60), out[-2000:])
            continue
        report = ""
        for f in sorted(os.listdir(logdir)):
            if f.startswith(n + "."):
                report += open(os.path.join(logdir, f)).read()
        line = next((l for l in out.splitlines() if l.startswith("stress ")), "")
        if "DATA RACE" in report or "DATA RACE" in out:
            res[n] = ("race", line or "stress %s RACE" % n, report or out)
        elif p.returncode != 0 or " ok " not in line + " ":
            res[n] = ("wrong", line or "stress %s FAILED rc=%s" % (n, p.returncode), out[-3000:])
        else:
            res[n] = ("ok", line, "")
    return res


def _race_summary(report):
    """the innermost repository frame of the two conflicting accesses of the first race,
    e.g. 'Write … setState cbreaker.go:207 / Previous read … String cbreaker.go:185'"""
    out = []
    lines = report.splitlines()
    for i, l in enumerate(lines):
        m = re.match(r"\s*((Previous )?(read|write|Read|Write|atomic \w+)) at ", l)
        if not m:
            continue
        k = i + 1
        pick = None
        while k + 1 < len(lines) and lines[k].strip():
            fn, loc = lines[k].strip(), lines[k + 1].strip().split(" ")[0]
            if pick is None:
                pick = (fn, loc)
            if "/go-1." not in loc and "/usr/lib/go" not in loc and not fn.startswith("runtime."):
                pick = (fn, loc)
                break
            k += 2
        if pick:
            out.append("%s %s %s" % (m.group(1), pick[0], pick[1]))
        if len(out) == 2:
            break
    return " / ".join(out)


# ---------------------------------------------------------------------------------------------- hooks
def pre_check(check):
    from vlib import core
    t0 = time.time()
    d, err = _translate(check)
    if d is None:
        check.obligations.append(("C09.translator", False, err))
        p = check.write_replay("translator", "# obligation: the C09 translator could not extract lock facts from %s\n# %s\n" % (core.REPO, err.replace("\n", "\n# ")))
        check.violations.append((p, "no-failing-input-found"))
        return
    STATE["json"] = d
    bad = [v for v in d["vars"] if not v["ok"]]
    split = [v for v in d["vars"] if v.get("split")]
    STATE["bad_vars"] = bad
    check.extra.update({
        "lock_facts": len(d["facts"]), "shared_variables": len(d["vars"]), "lock_classes": d["lock_classes"],
        "entry_points": len(d["entries"]), "immutable_fields": len(d["immutable_fields"]),
        "thread_local_accesses_skipped": d["thread_local_accesses_skipped"],
        "exceptions": ["%s %s: %s%s" % (e["kind"], e["name"], e["reason"], "" if e.get("used") else " (unused)") for e in d["exceptions"]],
        "excepted_facts": len(d.get("excepted_facts") or []),
        "closures_not_reached": len(d.get("closures_not_reached") or []),
        "translator_type_errors": len(d.get("type_errors") or []),
        "translator_s": round(time.time() - t0, 1),
    })
    if d.get("type_errors"):
        check.obligations.append(("C09.translator-typecheck", False, "; ".join(d["type_errors"][:5])))
    if check.tier == "thorough":
        # the translator on its synthetic module (fields named ok… / bad… with known verdicts)
        r = _run(["go", "test", "-count=1", "."], cwd=LOCKS, env=core.GOENV)
        check.obligations.append(("C09.translator-selftest (harness/locks/testdata)", r.returncode == 0, r.stdout[-300:]))
        if r.returncode != 0:
            p = check.write_replay("translator-selftest", "# obligation: the C09 translator fails its own synthetic test\n# " + r.stdout[-1500:].replace("\n", "\n# ") + "\n")
            check.violations.append((p, "no-failing-input-found"))
    # --- the discipline theorem on the regenerated table
    same = os.path.exists(COMMITTED) and filecmp.cmp(d["_lean"], COMMITTED, shallow=False)
    if same:
        lean_ok, lean_err = True, "regenerated table identical to the compiled one"
    else:
        lean_ok, lean_err = _lean_check(check, d["_lean"])
        if lean_ok and core.REPO == "/repo":
            _install(d["_lean"])
    check.extra["facts_changed_since_last_build"] = not same
    for v in d["vars"]:
        if not v["ok"]:
            check.obligations.append(("C09.C09_discipline[%s]" % v["name"], False, "no fixed lock; best candidate %s fails at: %s" % (v["lock"] or "-", "; ".join(v["bad"][:6]))))
    for v in split:
        check.obligations.append(("C09.C09_updates_atomic[%s]" % v["name"], False, "; ".join(v["split"][:4])))
    check.obligations.append(("C09.C09_discipline + C09_updates_atomic on regenerated facts (%d facts, %d variables, %d counter variables)" % (
        len(d["facts"]), len(d["vars"]), len([v for v in d["vars"] if v.get("counter")])), lean_ok and not bad and not split, lean_err))
    if lean_ok != (not bad and not split):
        check.obligations.append(("C09.translator-verdict-vs-lean", False, "Go verdict undisciplined=%d split=%d but Lean build ok=%s: %s" % (len(bad), len(split), lean_ok, lean_err)))
    discipline_ok = lean_ok and not bad and not split
    check.extra["counter_variables"] = [v["name"] for v in d["vars"] if v.get("counter")]
    check.extra["write_sites_by_kind"] = {k: len([f for f in d["facts"] if f["kind"] == n]) for k, n in (("read-modify-write", 1), ("plain-store", 2), ("split-update", 3))}

    # --- -race stress: look for a concrete failing schedule
    if not check.build_harness(race=True):
        return
    quick = check.tier != "thorough"
    iters, secs = (3000, 12) if quick else (60000, 90)
    rounds = 1 if discipline_ok else 3
    found = {}
    lines = []
    total_iters = 0
    names = list(STRESS)
    for rnd in range(rounds):
        res = _stress(check, names, iters, secs if discipline_ok else max(secs, 30))
        for n, (st, line, rep) in res.items():
            if st == "ok":
                lines.append(line)
                m = re.findall(r"(?:requests|records|ops)=(\d+)", line)
                total_iters += sum(int(x) for x in m)
            elif n not in found:
                found[n] = (st, line, rep)
        if found:
            break
    check.extra["stress"] = sorted(set(lines))[:20]
    check.extra["stress_operations"] = total_iters
    check.extra["stress_goroutines"] = 16
    check.extra["stress_race_build"] = True
    check.hist["stress:subtests-ok"] += len([l for l in lines])
    hdr_disc = ""
    if not discipline_ok:
        hdr_disc = "# obligation: theorem C09.C09_discipline no longer checks on the facts regenerated from %s\n" % core.REPO
        for v in bad:
            hdr_disc += "# undisciplined variable %s (best candidate lock %s):\n" % (v["name"], v["lock"] or "-")
            for b in v["bad"][:12]:
                hdr_disc += "#     %s\n" % b
        for v in split:
            hdr_disc += "# theorem C09.C09_updates_atomic: variable %s has an update that is not one critical section:\n" % v["name"]
            for b in v["split"][:8]:
                hdr_disc += "#     %s\n" % b
        if lean_err and not bad and not split:
            hdr_disc += "# lean: %s\n" % lean_err.replace("\n", "\n# ")
    for n, (st, line, rep) in sorted(found.items()):
        what = {"race": "data race reported by the Go race detector", "wrong": "wrong total (lost update / lost request)", "hang": "stress run did not finish"}[st]
        summary = _race_summary(rep) if st == "race" else line
        check.obligations.append(("C09.stress[%s]" % n, False, (what + ": " + summary)[:300]))
        txt = "# property C09 violated by the implementation: %s in sub-test %s\n# %s\n" % (what, n, summary)
        txt += "# failing schedule found by: %s stress -only %s -iters %d   (built with go build -race, GORACE=halt_on_error=1)\n" % ("harness/cmd/c09", n, iters)
        txt += hdr_disc
        txt += "# ---- report\n" + "".join("# " + l + "\n" for l in (line + "\n" + rep).splitlines()[:160])
        p = check.write_replay("race-" + n, txt)
        check.violations.append((p, ""))
    if not found:
        check.obligations.append(("C09.stress: %d sub-tests race-free with exact totals" % len(names), True, "%d operations from 16 goroutines under -race" % total_iters))
    if not discipline_ok and not found:
        site = bad[0]["bad"][0] if bad and bad[0]["bad"] else (split[0]["split"][0] if split else "?")
        txt = hdr_disc + "# the -race stress (%d rounds, %d operations) found no failing schedule (no-failing-input-found)\n" % (rounds, total_iters)
        txt += "# first access that lost its lock: %s\n" % site
        p = check.write_replay("discipline", txt)
        thm = "C09.C09_discipline" if bad or not split else "C09.C09_updates_atomic"
        check.violations.append((p, "no-failing-input-found theorem=%s site=%s" % (thm, site.split(" in ")[0].replace(" ", ":"))))


# ---------------------------------------------------------------------------------------------- scenarios
def _table_lines(facts, var_id, lock_id):
    out = []
    for f in facts:
        ls = ",".join("%d:%s" % (lock_id[l[0]], l[1]) for l in (f["locks"] or [])) or "-"
        out.append("fact %d %s %s %s" % (var_id[f["var"]], "ruwx"[f.get("kind", 2 if f["write"] else 0)], ls, f["site"].replace(" ", "_")))
    return out


def gen(rng, tier):
    d = STATE["json"]
    n_mut = {"quick": 120, "thorough": 1200, "search": 200}.get(tier, 120)
    if d:
        var_id = {v["name"]: v["id"] for v in d["vars"]}
        lock_id = {n: i for i, n in enumerate(d["lock_classes"])}
        base = _table_lines(d["facts"], var_id, lock_id)
        verdicts = ["verdict %d" % v["id"] for v in d["vars"]]
        counters = ["counter %d" % v["id"] for v in d["vars"]]
        yield ["# real", "cfg facts"] + base + verdicts + ["verdict %d" % len(d["vars"]), "all", "updates"] + counters + ["count"]
        for _ in range(n_mut):
            lines = list(base)
            for _ in range(rng.randint(1, 3)):
                i = rng.randrange(len(lines))
                f = lines[i].split()
                r = rng.random()
                if r < 0.4 and f[3] != "-":      # drop one lock
                    ls = f[3].split(",")
                    ls.pop(rng.randrange(len(ls)))
                    f[3] = ",".join(ls) or "-"
                elif r < 0.7 and f[3] != "-":    # weaken / strengthen one mode
                    ls = f[3].split(",")
                    j = rng.randrange(len(ls))
                    a, m = ls[j].split(":")
                    ls[j] = a + ":" + ("R" if m == "W" else "W")
                    f[3] = ",".join(ls)
                elif r < 0.85:                   # another kind of access
                    f[2] = rng.choice([k for k in "ruwx" if k != f[2]])
                else:                            # the site disappears
                    lines.pop(i)
                    continue
                lines[i] = " ".join(f)
            rng_v = rng.sample(range(len(d["vars"])), min(12, len(d["vars"])))
            yield ["# mutated", "cfg facts"] + lines + ["verdict %d" % v for v in rng_v] + ["counter %d" % v for v in rng_v[:4]] + ["all", "updates", "count"]
    for _ in range(n_mut):
        nv, nl = rng.randint(1, 5), rng.randint(1, 4)
        lines = ["# random", "cfg facts"]
        for _ in range(rng.randint(1, 14)):
            ls = []
            for l in range(nl):
                if rng.random() < 0.6:
                    ls.append("%d:%s" % (l, rng.choice("RWW")))
            rng.shuffle(ls)
            lines.append("fact %d %s %s s%d" % (rng.randrange(nv), rng.choice("rrwuux"), ",".join(ls) or "-", rng.randrange(99)))
            if rng.random() < 0.2:
                lines.append("verdict %d" % rng.randrange(nv + 1))
        lines += ["verdict %d" % v for v in range(nv + 1)] + ["counter %d" % v for v in range(nv + 1)] + ["all", "updates", "count"]
        if rng.random() < 0.05:
            lines.append(rng.choice(["fact 1 q - s", "verdict", "fact -1 r - s", "frob", "fact 1 r 2:Q s", "counter", "updates now"]))
        yield lines


def _ref_verdict(facts, v):
    """independent restatement: one fixed lock at every access of v, exclusive at every write; smallest such lock"""
    fs = [f for f in facts if f[0] == v]
    if not fs:
        return "novar"
    cands = sorted(set(l for f in fs for l in f[2]))
    for l in cands:
        if all(l in f[2] and (f[2][l] or not f[1]) for f in fs):
            return "disciplined %d" % l
    return "undisciplined"


def monitor(ops, outs):
    """the statement of the discipline, recomputed from the raw fact lines (model independent); for the real
    table additionally: the implementation-side verdicts must be the translator's own"""
    msgs = []
    facts = []
    real = bool(ops) and ops[0].startswith("# real")
    d = STATE["json"]
    for l, o in zip(ops, outs):
        f = l.split()
        if not f or f[0].startswith("#") or f[0] == "cfg":
            continue
        if f[0] == "fact" and o == "ok":
            locks = {}
            if f[3] != "-":
                for p in f[3].split(","):
                    a, m = p.split(":")
                    locks[int(a)] = locks.get(int(a), False) or m == "W"
            facts.append((int(f[1]), f[2] != "r", locks, f[2]))
        elif f[0] == "verdict" and len(f) == 2 and o != "bad-op":
            want = _ref_verdict(facts, int(f[1]))
            if o != want:
                msgs.append("verdict-mismatch var %s: harness says %r, the discipline recomputed from the fact lines says %r" % (f[1], o, want))
            if real and d and int(f[1]) < len(d["vars"]):
                v = d["vars"][int(f[1])]
                tv = ("disciplined %d" % d["lock_classes"].index(v["lock"])) if v["ok"] else "undisciplined"
                if o != tv:
                    msgs.append("translator-verdict-mismatch var %s (%s): table says %r, translator said %r" % (f[1], v["name"], o, tv))
        elif f[0] == "updates" and o != "bad-op":
            vs = sorted(set(x[0] for x in facts if x[3] == "x"))
            want = "updates-atomic" if not vs else "split " + " ".join(map(str, vs))
            if o != want:
                msgs.append("updates-mismatch: harness says %r, recomputed %r" % (o, want))
            if real and d and (o == "updates-atomic") != (not any(v.get("split") for v in d["vars"])):
                msgs.append("translator-updates-mismatch: table says %r, translator lists split updates for %s" % (o, [v["name"] for v in d["vars"] if v.get("split")]))
        elif f[0] == "counter" and len(f) == 2 and o != "bad-op":
            fs = [x for x in facts if x[0] == int(f[1])]
            want = "novar" if not fs else ("counter" if all((not x[1]) or x[3] == "u" for x in fs) else "not-counter")
            if o != want:
                msgs.append("counter-mismatch var %s: harness says %r, recomputed %r" % (f[1], o, want))
        elif f[0] == "all" and o != "bad-op":
            vs = sorted(set(x[0] for x in facts))
            badv = [v for v in vs if _ref_verdict(facts, v) == "undisciplined"]
            want = "all-disciplined" if not badv else "undisciplined " + " ".join(map(str, badv))
            if o != want:
                msgs.append("all-mismatch: harness says %r, recomputed %r" % (o, want))
    return msgs


def nontrivial(ops, outs):
    has_w = any(l.startswith("fact ") and l.split()[2] in "uwx" for l in ops)
    disc = any(o.startswith("disciplined") for o in outs)
    und = any(o == "undisciplined" for o in outs)
    if ops and ops[0].startswith("# real"):
        return has_w and disc
    return has_w and disc and und


def describe(ops, outs, hist):
    kind = ops[0][2:] if ops and ops[0].startswith("# ") else "other"
    hist["table:" + kind] += 1
    for l, o in zip(ops, outs):
        f = l.split()
        if f and f[0] == "verdict":
            hist["verdict:" + o.split()[0]] += 1
        elif f and f[0] == "fact":
            hist["fact:" + {"r": "read", "u": "rmw", "w": "store", "x": "split"}.get(f[2] if len(f) > 2 else "", "other")] += 1
        if o == "bad-op":
            hist["bad-op"] += 1


KNOWN_MATCHERS = {}

MANIFEST = {
    "text": ("Proof (partial by nature): Lean 4 theorems C09_lockset_sound / C09_no_race (for EVERY execution admitted by the RW-lock "
             "semantics, any number of threads and locks: if every access to v holds one fixed lock, exclusively for writes, two "
             "conflicting accesses by different threads are separated by a release by the first and a later acquire by the second, "
             "hence ordered by happens-before), C09_no_lost_update (increments under the exclusive lock sum exactly in every "
             "interleaving), and C09_discipline: the lock facts REGENERATED from /repo's Go sources on every run (412 access sites, "
             "56 shared variables, 9 lock classes; translator harness/locks, go/types) satisfy that discipline, checked by a "
             "kernel-evaluated Boolean checker with a soundness lemma. C09_race_free_partial combines them for executions that "
             "conform to the facts."),
    "note": ("Partial: a pure model cannot exhibit a data race. Trusted: the translator's computation of held locks per access site "
             "(lockset walk, context-sensitive call graph, owner naming of lock-less helper objects, immutability classification, 9 "
             "justified exceptions printed in the evidence), Go's memory model for sync as the step semantics, Lean kernel. "
             "Pre-emption inside critical sections is only exercised: -race stress of rr, rebalancer, cbreaker (incl. String()), "
             "ratelimit, connlimit, trace, RTMetrics, TTLMap and a full stack from 16 goroutines with exact totals; a race report or "
             "wrong total is the concrete failing schedule. Package-level variables and closures never called from repository code "
             "are outside the analysis."),
    "technique": "Lean 4 proof of lockset soundness over an RW-lock semantics + lock facts regenerated from source by a go/types translator + kernel-evaluated discipline checker + -race stress",
}
