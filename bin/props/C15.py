"""C15 — Buffer enforces its size limits and leaves no temporary files behind."""
from props import bufcommon as B

ID = "C15"
HARNESS = "c06"
DRIVER = "c06"
PROPS_MODULE = "OxyModel.Props.C15"
AUDIT = "OxyModel/Audit/C15.lean"
THEOREMS = ["C15.C15_request_over_limit_413_no_invoke", "C15.C15_within_limit_reaches_handler", "C15.C15_response_over_limit_no_bytes", "C15.C15_no_temp_left",
            "C15.C15_spills_beyond_threshold"]
RACE = False
JOBS = 8
RULE = ("scenario = one Buffer with request/response memory thresholds and maxima in every relation (below, equal, above, 0 = unlimited, absent), "
        "2-7 requests with sizes around both, declared and chunked, write chunkings that cross the memory threshold before the maximum, all methods/statuses, "
        "retries, hijacks; TMPDIR is a fresh directory per scenario, counted inside the handler and after the exchange; "
        "non-trivial = a request or response crossed a threshold or a maximum")
ASSUMPTIONS = ["over-limit request bodies stay below 256 KB in the generator so that net/http drains them and the client reliably reads the 413",
               "the request spill file is unlinked by multibuf.New right after creation (modelled as created+removed); only directory entries are counted, not descriptors",
               "a panicking handler (http.ErrAbortHandler) is modelled and exercised: only the deferred closes run, the ledger theorem covers it, tmp files are counted after net/http has recovered"]
TRUSTED = ["multibuf.writerOnce (init/mem/file/calledRead, initFile, Reader, Close) modelled, validated by correspondence, not verified"]


def gen(rng, tier):
    return B.gen_scenarios(rng, tier, "C15")


monitor = B.monitor_c15
describe = B.describe


def nontrivial(ops, outs):
    for kind, cfg, req, o in B.exchanges(ops, outs):
        if kind != "req":
            continue
        out = B.Out(o)
        if not out.ok:
            continue
        if out.status in (413,) or any(v["tf"] > 0 for v in out.views) or any(B.resp_over(cfg, req.att(k + 1)) for k in range(out.inv)):
            return True
    return False


MANIFEST = {
    "text": ("Proof: Lean 4 theorems C15_request_over_limit_413_no_invoke (declared and discovered), C15_response_over_limit_no_bytes, "
             "C15_no_temp_left (files created = files removed on every path of Buf.serve: success, error, over limit, retries, bodiless kinds, hijack; "
             "for every threshold/maximum relation incl. 0 and absent) and C15_spills_beyond_threshold, about the model of buffer.go + multibuf writerOnce. "
             "Tied to the code by differential runs over real HTTP with the temp directory counted during and after every exchange."),
    "note": ("Trusted: Lean kernel; propext/Classical.choice/Quot.sound; hand-written model of multibuf validated on generated scenarios only; "
             "directory entries counted, not file descriptors."),
    "technique": "Lean 4 proof (per-writer invariant onDisk ⇒ cleanup reachable; induction over the deferred closes) + differential correspondence with buffer.Buffer over real HTTP",
}
