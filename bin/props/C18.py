"""C18 — the breaker trips exactly when its condition holds, and side effects fire once."""
from props import brk_common as B

ID = "C18"
HARNESS = "c05"
DRIVER = "c05"
PROPS_MODULE = "OxyModel.Props.C18"
AUDIT = "OxyModel/Audit/C18.lean"
THEOREMS = ["C18.C18_env_values", "C18.C18_window", "C18.C18_window_fused", "C18.C18_eval_standard", "C18.C18_eval_standard_general", "C18.C18_trips_iff", "C18.C18_trips_iff_fused", "C18.C18_trip_clears_metrics", "C18.C18_effects_once",
            "C18.C18_hist_counts", "C18.C18_hist_class", "C18.C18_quantile_rank", "C18.C18_quantile_count", "C18.C18_quantile_rank_rolling",
            "C18.C18_rolling_window", "C18.C18_rolling_recent", "C18.C18_rolling_window_60s_counterexample", "C18.C18_latency_oracle_refines"]
RACE = True
JOBS = 8
RULE = ("scenario = a condition generated from the grammar (&&/|| nesting to depth 3, six comparisons, NetworkErrorRatio / ResponseCodeRatio / "
        "LatencyAtQuantileMS, int and float literals in several spellings, redundant parentheses), printed in Go syntax for the real predicate "
        "parser and in prefix form for the model; 8% ill-typed and 5% otherwise rejected conditions (New must fail on both sides); response "
        "code / latency sequences with clock advances, check periods 0..10 s, completions overlapping a trip, 1-4 trip/recover cycles, "
        "OnTripped/OnStandby executions counted after quiescence; 12% histogram walks (conditions over LatencyAtQuantileMS with the quantile literals 0, 1, 33.3, 50, 90, 99, 99.9, 100, 100.5, 250; latencies from 0 to beyond 2^32 us, which the histogram drops; tens of completions inside one 10 s histogram period; gaps of 10 s - 1 ns .. 700 s and > 71 min between completions; trips in between); 15% latency cycles (slow responses over >= 3 ten-second histogram slots, trip, full cycle with fast responses, evaluations inside the 60 s rolling window); non-trivial = evaluations with both outcomes in one scenario. "
        "15% near-miss scenarios: the ratio reaches p/q exactly while the literal lies 1e-11..1e-5 (relative) beside it, all six comparisons, "
        "alone and inside and/or nests with a guard (histogram ratio-near-miss). Float: ratios are exact integer pairs; literals are decimals that either equal an attainable ratio or stay >= 1e-11 relative away from it (counts < 10^4), so a ratio either equals the literal "
        "(float division and literal round identically: ratio-tie) or differs by > 2^-40 relative (ratio-too-close must be 0)")
ASSUMPTIONS = ["LatencyAtQuantileMS is computed by the model itself (Model/Hist.lean: hdrhistogram RecordValues / Merge / ValueAtPercentile, the rolling "
               "histogram of memmetrics, recordLatency in microseconds, the result in whole milliseconds; C18_hist_counts, C18_hist_class, "
               "C18_quantile_rank(_rolling), C18_rolling_window, C18_rolling_recent, C18_latency_oracle_refines) except for ONE float step, "
               "countAtPercentile = int64(q/100*float64(total)+0.5): the driver computes it in IEEE doubles (same operations, same order), the "
               "theorems use the exact rational floor(q*total/100 + 1/2) (C18_quantile_count); that the two agree is assumed, not modelled (they are known to "
               "differ at some exact half-integer ties, e.g. q = 33.3 with total = 500: the doubles give 166, the real number 167). The q= "
               "values on the op lines are the implementation's (a shadow memmetrics.RTMetrics fed the same (code, latency) at the same frozen "
               "instants and reset at every observed trip; the harness re-checks them on every run): the driver decides with its own values and "
               "prints hist-mismatch when they differ from q= (a divergence). The monitor trusts neither: from the raw (time, latency) log it re-derives the latencies recorded since the last trip that are still in the "
               "rolling histogram (6 sub-histograms, rolled at the first record >= 10 s after the previous roll), the order statistic "
               "int(q/100*n+0.5) and its hdrhistogram bucket (2 significant figures), judges trip decisions with that value and flags "
               "stale-latency when the value a decision used lies outside the bucket",
               "C18_window composes the breaker with the C17 counter invariant (Proofs/Counter: RCnt.Inv, count_exact) for clock readings "
               "after 1970-01-01 + 10 s; the monitor recomputes the same window from the raw log independently",
               "side effects: the model counts launches of SideEffect.Exec, one per transition; the outcome of Exec (nil or error, only logged by the "
               "code) is not modelled and must not change the count: the harness registers succeeding and failing (act, then return an error) effects, "
               "OnTripped and OnStandby independently, with a Logger that formats every message",
               "the model's atomic steps are arrive (activateFallback under CircuitBreaker.m), record (metrics.Record, under RTMetrics' own locks, NOT under c.m) and check (checkAndSet under c.m); the theorems hold for every interleaving of these steps (C09 lock facts: each is atomic). The correspondence run realises: whole completions (record;check back to back), arrivals parked inside the lock, and through `finish2` the schedule Record_1 Record_2 <decision> checkAndSet checkAndSet (both responses recorded before either check); other finer schedules (e.g. the clock advancing between a request's Record and its checkAndSet) are not exercised and rest on the theorems plus the C09 lock discipline",
               "float64 rounding of ratios is not modelled (see RULE); time stamps never decrease"]
TRUSTED = ["go/parser + vulcand/predicate are inside the tie (the Go side parses the Go-syntax text), the Python printer of the two forms is trusted",
           "side effects are counted once no goroutine launched by the breaker is left (runtime.NumGoroutine quiescence)"]
MANIFEST = {
    "text": ("Proof: Lean 4 theorems C18_trips_iff (a completion trips iff an evaluation is due, the breaker is not tripped, and the condition is "
             "true in its standard reading over the metrics holding the response), C18_window (the metric values are counts over the responses recorded since the last trip within the window, every trace), C18_eval_standard (for every well-typed expression the "
             "Go-style evaluator = comparisons over Q and Z with and/or), C18_env_values, C18_trip_clears_metrics, C18_effects_once (#onTripped = "
             "#entries into tripped = #tripping completions, #onStandby = #entries into standby, any number of cycles); tied to cbreaker.go, "
             "predicates.go, roundtrip.go by a differential run with generated conditions through the real parser."),
    "note": ("Trusted: Lean kernel; standard axioms; model validated on generated scenarios only; latency histogram (hdrhistogram + rolling window) modelled and proved (C18_hist_*, C18_quantile_*, C18_rolling_*, C18_latency_oracle_refines) except the float rounding of the percentile count; "
             "C18_window (metrics = responses since the last trip in the last ten 1 s slots) builds on the C17 counter invariant; float ratios "
             "compared exactly; atomic steps (C09)."),
    "technique": "Lean 4 proof (evaluator vs denotational semantics; state-machine invariants) + differential correspondence with cbreaker.CircuitBreaker",
}


def pre_check(check):
    B.BIN = check.bin_h


def gen(rng, tier):
    return B.gen(rng, tier, "C18")


def canon(side, line):
    return B.canon(side, line)


def monitor(ops, outs):
    return B.monitor_c18(ops, outs)


def nontrivial(ops, outs):
    d = B.facts(ops, outs)
    return d["evals"] == {True, False}


def describe(ops, outs, hist):
    B.describe(ops, outs, hist)
