"""C20 — middleware stacks are transparent when not intervening and decisive when they do."""
import itertools
import zlib

ID = "C20"
HARNESS = "c20"
DRIVER = "c20"
PROPS_MODULE = "OxyModel.Props.C20"
AUDIT = "OxyModel/Audit/C20.lean"
THEOREMS = ["C20.C20_expectBody_false_iff", "C20.C20_buffer_drops_body_kinds", "C20.C20_retry_stateful_link",
            "C20.C20_transparent", "C20.C20_decorate_only_cookies", "C20.C20_decisive_at", "C20.C20_decisive",
            "C20.C20_status_table", "C20.C20_response_limit", "C20.C20_abort_restores", "C20.C20_abort_state",
            "C20.C20_failed_hijack_relayed", "C20.C20_info_implicit_final_counterexample", "C20.C20_retry_documented",
            "C20.C20_link_connlimit", "C20.C20_link_ratelimit", "C20.C20_link_breaker", "C20.C20_link_balancer",
            "C20.C20_link_buffer", "C20.C20_link_decision", "C20.C20_transparent_composed", "C20.C20_decisive_composed",
            "C20.C20_pw_transparent", "C20.C20_pw_depth_irrelevant", "C20.C20_pw_records", "C20.C20_pw_capabilities",
            "C20.C20_pw_status_is_wire_status", "C20.C20_pw_status_disorderly_counterexample", "C20.C20_pw_caps_link", "C20.C20_pw_wire_exact"]
RACE = False
JOBS = 12
BATCH_TIMEOUT = 600
RULE = ("scenario = one real stack (stream/trace/connlimit/ratelimit/cbreaker/roundrobin/rebalancer/buffer, any order, repeats allowed, "
        "depth 0-5; thorough: every ordered subset of depth <= 4) built from the real packages behind a real httptest server, one layer "
        "optionally driven to its limit (parked request / consumed burst / tripped breaker / empty pool / request over the buffer maximum), "
        "a scripted handler (status or none, headers, body chunks, flush point, hijack) and 1-5 requests against the same stack instance, "
        "some of which the handler leaves by panic(http.ErrAbortHandler) (connlimit maxima are exactly what sequential requests need, so a slot "
        "that is not given back shows on the next request); "
        "non-trivial = depth >= 2 and (a layer intervenes, or the handler flushes or hijacks)")
ASSUMPTIONS = [
    "net/http's own response writing, chunking, Content-Type sniffing of the error bodies and Hijack/Flush of *http.response are stdlib behaviour: exercised by every scenario (depth-0 stacks are the bare handler), not proved",
    "the per-layer decision whether to intervene is one number / flag in the stack model (Stack.eff, tripped, maxReq vs body length); the link theorems C20_link_* prove that it is the decision of the per-layer models of C04 / C03-C13 / C05 / C01-C02 / C15 (abstraction functions commuting with acquire/release, consumeRates at a frozen instant with amount 1, activateFallback, NextServer, checkLimit), within: unit extractor amounts, a frozen clock for the rate limiter, breaker states outside the recovery ramp (standby, or tripped with the fallback period running), requests without sticky cookie",
    "a handler leaving by panic(http.ErrAbortHandler): what the client sees of that exchange is not compared (canonicalised as `aborted`), only that the handler ran once and what later requests get",
    "handlers that send 1xx informational responses also set their final status explicitly: outside this domain the unchanged code is NOT transparent (Buffer drops the body, theorem C20_info_implicit_final_counterexample) and the generator stays inside it",
    "a Buffer swallows 1xx responses and Flush by design; a front writer without Hijack/Flush (cfg front=) cannot be given these capabilities by the stack: the monitor demands them only where the front offers them",
    "a retrying buffer sees the same handler behaviour on every attempt of one request (the script is fixed per scenario); retry predicates other than IsNetworkError() && Attempts() <= 2 are C07",
    "Verbose/Debug/Logger options (layer option /v) are modelled as having no effect on the request/response path",
    "connection and rate limits are per source and sources do not interact (that independence is C14): the driver keeps one model state per source (op token src=), the theorems speak about the state of the request's source",
    "handlers do not write a body with 204/304 and set Content-Length only as `0` with an empty body (net/http itself refuses the body otherwise); requests are GET/POST and carry no sticky cookie (HEAD: net/http sends no body whatever a handler writes)",
    "documented Buffer behaviour, not a transparency violation: a Buffer relays no body for responses its expectBody rejects -- a non-empty Grpc-Status other than 0 (gRPC support), Content-Length: 0, 1xx/204/304; the model has every branch (C20_buffer_drops_body_kinds), C20_transparent carries the hypothesis bodyDomain, the generator emits these shapes and the monitor expects the empty body for exactly them when a buffer is in the stack",
    "flush=1 means the flushed bytes were read by the client while the handler was still running (negative answer only after 1 s and 500 executed polls)",
    "an HTTP exchange that hits the 25 s client timeout is repeated once as a fresh request (machine-wide stalls during memory exhaustion by unrelated processes were observed); a reproducible hang still fails",
]
TRUSTED = ["mailgun/multibuf (buffering of bodies) as used by buffer.Buffer: modelled only through its size limits"]

KINDS = ["stream", "trace", "connlimit", "ratelimit", "cbreaker", "roundrobin", "rebalancer", "buffer"]
STATEFUL = {"connlimit", "ratelimit", "cbreaker", "roundrobin", "rebalancer"}
STATUSES = ["none", "none", "200", "201", "202", "203", "206", "400", "401", "403", "404", "409", "418", "429", "500", "502", "503", "504"]
EXTRA_HDRS = ["Grpc-Status=0", "Grpc-Status=5", "Grpc-Status=13", "Grpc-Message=oops",
              "X-A=1", "X-A=2", "X-Verif-Long=" + "v" * 90, "Set-Cookie=hc=1", "Set-Cookie=sk000000000=mine", "Cache-Control=no-store", "Location=/x",
              "Retry-After=7", "X-Retry-In=9s", "Etag=abc", "X-Forwarded-For=10.0.0.1", "Vary=Accept"]
CHUNKS = [0, 1, 5, 12, 100, 1000, 2048, 4096, 5000]
SKIP_HDR = {"Date", "Content-Length", "Transfer-Encoding", "Connection"}


# ---------------------------------------------------------------- scenario syntax
def parse_layer(tok):
    p = tok.split("/")
    l = {"kind": p[0], "sticky": False, "fb": "", "q": 0, "r": 0, "p": 1000, "retry": False, "verbose": False}
    for o in p[1:]:
        if o == "s":
            l["sticky"] = True
        elif o == "fr":
            l["fb"] = "r"
        elif o == "frp":
            l["fb"] = "rp"
        elif o == "t":
            l["retry"] = True
        elif o == "v":
            l["verbose"] = True
        elif o[0] == "f":
            l["fb"] = o[1:]
        elif o[0] == "q":
            l["q"] = int(o[1:])
        elif o[0] == "r":
            l["r"] = int(o[1:])
        elif o[0] == "p":
            l["p"] = int(o[1:])
    return l


def parse_cfg(line):
    kv = dict(t.split("=", 1) for t in line.split()[1:] if "=" in t)
    sv = kv.get("stack", "-")
    stack = [] if sv in ("-", "") else [parse_layer(t) for t in sv.split(",")]
    iv = kv.get("intervene", "none")
    iv = None if iv == "none" else int(iv)
    sc = {"status": None, "hdrs": [], "chunks": [], "flush": 0, "hijack": False, "info": [], "early": False,
          "front": kv.get("front", "real")}
    for part in kv.get("h", "").split(";"):
        k, _, v = part.partition(":")
        if k == "status":
            sc["status"] = None if v == "none" else int(v)
        elif k == "hdr" and v:
            sc["hdrs"] = [tuple(x.split("=", 1)) for x in v.split(",")]
        elif k == "body" and v:
            sc["chunks"] = [int(x) for x in v.split(",")]
        elif k == "flush":
            sc["flush"] = int(v)
        elif k == "hijack":
            sc["hijack"] = v == "1"
        elif k == "early":
            sc["early"] = v == "1"
        elif k == "info" and v:
            sc["info"] = [int(x) for x in v.split(",")]
    return stack, iv, sc


def body_bytes(chunks):
    return b"".join(bytes((37 * i + 11 * j + 7) % 251 for j in range(n)) for i, n in enumerate(chunks))


def documented_status(l):
    k = l["kind"]
    if k in ("connlimit", "ratelimit"):
        return 429
    if k == "cbreaker":
        return 503 if l["fb"] == "" else (302 if l["fb"] in ("r", "rp") else int(l["fb"]))
    if k in ("roundrobin", "rebalancer"):
        return 500
    if k == "buffer":
        return 413
    return None


REFUSAL_LEN = {"connlimit": 26, "ratelimit": 29, "roundrobin": 21, "rebalancer": 21, "buffer": 24}


def refusal_len(lay):
    if lay["kind"] == "cbreaker":
        return 19 if lay["fb"] == "" else (5 if lay["fb"] in ("r", "rp") else 7)
    return REFUSAL_LEN[lay["kind"]]


def expected_course(stack, iv, sc, tokens, src, blen, abort, hij):
    """What the statement expects of one request, layer by layer from the outside (independent of the Lean model).
    Limits are per source: the parked and the priming request belong to the default source "src"; a limiter driven to
    1-per-period/burst-1 gives every other source exactly one token (frozen clock: no refill), and an admitted request takes its
    token even when a later layer refuses or the handler fails.  A buffer with Retry("IsNetworkError() && Attempts() <= 2")
    repeats everything inside it while the answer it sees is 502/504 (attempts 1 and 2) -- each repetition meets the limiters in
    the state the previous one left, so a later attempt may be refused (that refusal, not being a network error, is final).
    A hijacked or aborted attempt ends the request; a response over a buffer's MaxResponseBodyBytes becomes a 500.
    Returns kind in handler|hijacked|aborted|refused|overflow, the status the innermost answer carries, body length, the layer
    that refused, and how often the handler ran."""
    grpc = next((v for k, v in sc["hdrs"] if k == "Grpc-Status"), "")
    clen = next((v for k, v in sc["hdrs"] if k == "Content-Length"), "")
    hstatus = sc["status"] if sc["status"] is not None else 200
    total = sum(sc["chunks"])

    def run(i):
        if i == len(stack):
            if abort:
                return {"kind": "aborted", "status": 0, "len": 0, "invoked": 1}
            if hij:
                return {"kind": "hijacked", "status": hstatus, "len": total, "invoked": 1}
            return {"kind": "handler", "status": hstatus, "len": total, "invoked": 1}
        lay = stack[i]
        k = lay["kind"]
        refused = False
        if k == "buffer":
            refused = lay["q"] > 0 and blen > lay["q"]
        elif iv == i and k == "connlimit":
            refused = src == "src"
        elif iv == i and k == "ratelimit":
            if tokens.get(src, 1) == 0:
                refused = True
            else:
                tokens[src] = tokens.get(src, 1) - 1
        elif iv == i and k in STATEFUL:
            refused = True
        if refused:
            return {"kind": "refused", "layer": i, "status": documented_status(lay), "len": refusal_len(lay), "invoked": 0}
        if k != "buffer":
            return run(i + 1)
        ran = 0
        attempt = 1
        while True:
            r = run(i + 1)
            ran += r["invoked"]
            r = dict(r, invoked=ran)
            if r["kind"] in ("aborted", "hijacked"):
                return r
            if 0 < lay["r"] < r["len"]:
                return {"kind": "overflow", "status": 500, "len": 21, "invoked": ran}
            if lay["retry"] and attempt <= 2 and r["status"] in (502, 504):
                attempt += 1
                continue
            if r["kind"] == "handler" and (grpc not in ("", "0") or clen == "0" or hstatus in (204, 304)):
                r["len"] = 0  # documented: expectBody is false, the buffer relays no body
            return r

    return run(0)


# ---------------------------------------------------------------- monitor (model-independent restatement of C20)
# ---------------------------------------------------------------- ProxyWriter nests (`cfg pw …`, Model/Writer.lean)
PW_CODES = [0, 100, 101, 102, 103, 199, 200, 201, 204, 304, 404, 500, 502, 503, 999]


def is_pw(ops):
    for l in ops:
        if l.startswith("cfg"):
            return l.split()[1:2] == ["pw"]
    return False


def monitor_pw(ops, outs):
    """model-independent restatement of C20_pw_transparent / C20_pw_records / C20_pw_capabilities on the implementation's lines"""
    bad = []
    depth = base = None
    seen, code, length = [], 0, 0
    for l, o in zip(ops, outs):
        f = l.split()
        if not f or l.startswith("#"):
            continue
        if f[0] == "cfg":
            kv = dict(t.split("=", 1) for t in f[2:])
            depth, base = int(kv["depth"]), kv["base"].replace("-", "")
            seen, code, length = [], 0, 0
            if o != "ok":
                bad.append("setup: %s" % o)
                return bad
            continue
        ok = True
        if f[0] == "wh":
            code = int(f[1])
            seen.append("wh:%d" % code)
        elif f[0] == "w":
            b = [] if f[1] == "-" else [int(x) for x in f[1].split(",")]
            length += len(b)
            seen.append("w:%d:%d" % (len(b), sum(b)))
        elif f[0] == "flush":
            if "f" in base:
                seen.append("fl")
            ok = depth > 0 or "f" in base
        elif f[0] == "hijack":
            if "h" in base:
                seen.append("hj")
            ok = "h" in base
        else:
            continue
        want = "r=%d seen=%s sc=%s len=%s" % (ok, ",".join(seen) or "-", ",".join([str(code or 200)] * depth) or "-", ",".join([str(length)] * depth) or "-")
        if o != want:
            bad.append("ProxyWriter nest of depth %d over a base writer with {%s}: after `%s` the writer chain is not transparent "
                       "(wrapped writer must have received exactly the handler's calls, StatusCode() the last WriteHeader code, GetLength() "
                       "the bytes written): got `%s`, expected `%s`" % (depth, base, l, o, want))
            return bad
    return bad


def pw_call(rng):
    k = rng.random()
    if k < 0.3:
        return "wh %d" % rng.choice(PW_CODES)
    if k < 0.7:
        n = rng.choice([0, 0, 1, 2, 3, 8])
        return "w " + (",".join(str(rng.choice([0, 1, 7, 65, 255])) for _ in range(n)) or "-")
    return "flush" if k < 0.9 else "hijack"


def gen_pw(rng, n):
    for _ in range(n):
        yield ["cfg pw depth=%d base=%s" % (rng.choice([0, 1, 1, 2, 2, 3, 5]), rng.choice(["fh", "f", "h", "-"]))] + [pw_call(rng) for _ in range(rng.randint(1, 10))]


def monitor(ops, outs):
    if is_pw(ops):
        return monitor_pw(ops, outs)
    bad = []
    stack = iv = sc = None
    for l, o in zip(ops, outs):
        f = l.split()
        if not f or l.startswith("#"):
            continue
        if f[0] == "cfg":
            stack, iv, sc = parse_cfg(l)
            tokens = {"src": 0}  # rate tokens left per source at the limiter driven to its limit (burst 1; the priming request took src's)
            if o.startswith("env-error") or o.startswith("panic hx: no loopback"):
                return bad  # the host ran out of ports: says nothing about the code (core still reports the divergence from the model)
            if o != "ok":
                bad.append("setup: the stack could not be built or driven to its limit: %s" % o)
                return bad
            continue
        if f[0] != "req" or stack is None:
            continue
        blen = 0
        abort = False
        src = "src"
        for t in f[1:]:
            if t.startswith("body="):
                blen = int(t[5:])
            if t == "abort=1":
                abort = True
            if t.startswith("src="):
                src = t[4:]
        front_hijack = sc["front"] in ("real", "noflush")
        front_flush = sc["front"] in ("real", "nohijack")
        hij = sc["hijack"] and front_hijack and not abort  # the attempt can only succeed where the front offers Hijack
        total = sum(sc["chunks"])
        exp = expected_course(stack, iv, sc, tokens, src, blen, abort, hij)
        if o.startswith("env-error"):
            continue
        if exp["kind"] == "aborted":
            if o != "aborted invoked=%d" % exp["invoked"]:
                bad.append("transparent: no layer has a reason to intervene for source %s: the aborting handler must run %d time(s), got: %s" % (src, exp["invoked"], o[:70]))
            continue
        if o.startswith("aborted "):
            bad.append("decisive: layer %d (%s) intervenes for source %s but the (aborting) handler was invoked: %s" % (exp.get("layer", -1), exp["kind"], src, o))
            continue
        if not o.startswith("status="):
            bad.append("no-response: %r did not produce one complete response: %s" % (l, o))
            continue
        kv = dict(t.split("=", 1) for t in o.split())
        status, invoked = int(kv["status"]), int(kv["invoked"])
        hdrs = [] if kv["hdr"] == "-" else [tuple(x.split(":", 1)) for x in kv["hdr"].split("|")]
        if exp["kind"] == "refused":
            o_idx = exp["layer"]
            if invoked != exp["invoked"]:
                bad.append("decisive: layer %d (%s) intervenes for source %s: the handler must have run %d time(s) (earlier attempts of a retrying buffer only), it ran %d times" % (o_idx, stack[o_idx]["kind"], src, exp["invoked"], invoked))
            want = documented_status(stack[o_idx])
            if status != want:
                bad.append("decisive: layer %d (%s) intervenes, documented status %s, client got %d" % (o_idx, stack[o_idx]["kind"], want, status))
            if stack[o_idx]["kind"] == "ratelimit" and not any(k == "X-Retry-In" for k, _ in hdrs):
                bad.append("decisive: rate-limit refusal without X-Retry-In")
            if stack[o_idx]["kind"] == "cbreaker" and stack[o_idx]["fb"] in ("r", "rp"):
                # PreservePath appends the path of the URL the breaker sees: the client's /p, or the (empty) path of the
                # server URL once a balancer in front of it has re-targeted the request
                behind_lb = any(l["kind"] in ("roundrobin", "rebalancer") for l in stack[:o_idx])
                loc = "http://fallback.verif/x" + ("/p" if stack[o_idx]["fb"] == "rp" and not behind_lb else "")
                if [v for k, v in hdrs if k == "Location"] != [loc]:
                    bad.append("decisive: redirect fallback must answer Location: %s, client got %s" % (loc, [v for k, v in hdrs if k == "Location"]))
            continue
        if exp["kind"] == "overflow":
            # a response over some buffer's MaxResponseBodyBytes: not a non-intervening configuration (C15); only the run count is judged
            if invoked != exp["invoked"]:
                bad.append("transparent: handler invoked %d times, expected %d" % (invoked, exp["invoked"]))
            continue
        # ---- transparent: the handler's own response reaches the client
        want_inv = exp["invoked"]
        if invoked != want_inv:
            bad.append("transparent: no layer has a reason to intervene but the handler was invoked %d times, expected %d (stack %s, handler status %s)" % (invoked, want_inv, [x["kind"] + ("/t" if x["retry"] else "") for x in stack], sc["status"]))
            continue
        want_status = sc["status"] if sc["status"] is not None else 200
        if status != want_status:
            bad.append("transparent: handler status %d, client got %d" % (want_status, status))
        bb = body_bytes(sc["chunks"])
        # documented Buffer behaviour (expectBody): no body is relayed for a non-empty Grpc-Status other than "0" or Content-Length: 0
        grpc = next((v for k, v in sc["hdrs"] if k == "Grpc-Status"), "")
        clen = next((v for k, v in sc["hdrs"] if k == "Content-Length"), "")
        if has_buffer_early(stack) and not hij and (grpc not in ("", "0") or clen == "0"):
            bb = b""
        want_body = "%d:%08x" % (len(bb), zlib.adler32(bb) & 0xffffffff)
        if kv["body"] != want_body:
            if known_shape(stack, sc) and not hij:
                bad.append("info-implicit-final: handler sent 1xx %s and then its body without a final WriteHeader behind a Buffer: body %s, client got %s" % (sc["info"], want_body, kv["body"]))
            else:
                bad.append("transparent: handler body %s, client got %s" % (want_body, kv["body"]))
        want_h = [(k, v) for k, v in sc["hdrs"] if k not in SKIP_HDR] + [("X-Req-Len", str(blen)), ("X-Req-Cred", "Bearer-c20/Basic-c20p/c20")]
        cookies = ["sk%s=http://b0;_Path=/" % ("0" * (9 - min(i, 9))) for i, lay in enumerate(stack) if lay["sticky"] and lay["kind"] in ("roundrobin", "rebalancer")]
        keys = sorted(set(k for k, _ in want_h) | set(k for k, _ in hdrs))
        for k in keys:
            w = [v for kk, v in want_h if kk == k]
            g = [v for kk, v in hdrs if kk == k]
            extra = g[:len(g) - len(w)] if len(w) else g
            if len(g) < len(w) or (len(w) and g[len(g) - len(w):] != w):
                bad.append("transparent: handler header %s=%s not relayed unchanged, client got %s" % (k, w, g))
                continue
            if hij and extra:
                bad.append("transparent: header %s=%s appeared on a hijacked connection" % (k, extra))
            for v in extra:
                if not (k == "Set-Cookie" and v in cookies and extra.count(v) == 1):
                    bad.append("transparent: a layer added the undocumented header %s: %s" % (k, v))
        # ... and every sticky balancer of a passing stack contributes exactly its affinity cookie (the request carries none), in stack
        # order, in front of the handler's own Set-Cookie values
        if not hij:
            g = [v for kk, v in hdrs if kk == "Set-Cookie"]
            w = [v for kk, v in want_h if kk == "Set-Cookie"]
            if g != cookies + w and not any(m.startswith("transparent: handler header Set-Cookie") or "undocumented header Set-Cookie" in m for m in bad):
                bad.append("transparent: Set-Cookie values %s, expected the sticky cookies %s followed by the handler's %s" % (g, cookies, w))
        has_buffer = any(lay["kind"] == "buffer" for lay in stack)
        if front_hijack and kv["hi"] != "1":
            bad.append("capability: the handler's ResponseWriter is not an http.Hijacker")
        if hij and kv["hijack"] != "1":
            bad.append("capability: Hijack failed inside the stack %s" % [x["kind"] for x in stack])
        if sc["hijack"] and not front_hijack and kv["hijack"] == "1":
            bad.append("capability: Hijack succeeded although the front writer cannot be hijacked")
        if front_flush and not has_buffer and kv["fi"] != "1":
            bad.append("capability: the handler's ResponseWriter is not an http.Flusher (no buffer in the stack)")
        wants_flush = sc["early"] or 1 <= sc["flush"] <= len(sc["chunks"])
        if not hij and wants_flush and front_flush and not has_buffer and kv["flush"] != "1":
            bad.append("capability: Flush did not reach the client while the handler was running (no buffer in the stack %s, early=%s)" % ([x["kind"] for x in stack], sc["early"]))
        if not hij and not has_buffer and kv.get("info", "-") != (",".join(map(str, sc["info"])) or "-"):
            bad.append("transparent: informational responses %s, client saw %s" % (sc["info"], kv.get("info")))
    return bad


def has_buffer_early(stack):
    return any(lay["kind"] == "buffer" for lay in stack)


def known_shape(stack, sc):
    """exactly the recorded finding buffer_1xx_implicit_final: a buffer in the stack, 1xx sent, no final WriteHeader, non-empty body"""
    return (any(lay["kind"] == "buffer" for lay in stack) and bool(sc["info"]) and sc["status"] is None and sum(sc["chunks"]) > 0)


def _match_buffer_1xx(ops, outs, msgs):
    cfgs = [l for l in ops if l.split() and l.split()[0] == "cfg"]
    if not cfgs or not msgs:
        return False
    for l in cfgs:
        stack, iv, sc = parse_cfg(l)
        if not known_shape(stack, sc):
            return False
    return all(m.startswith("info-implicit-final:") for m in msgs)


KNOWN_MATCHERS = {"buffer_1xx_implicit_final": _match_buffer_1xx}
# every distinct kind of monitor message is reported once (core dedups on the first word); the recorded finding must not crowd out others
MAX_REPORTS = 100000


def nontrivial(ops, outs):
    if is_pw(ops):
        return len(ops) >= 4 and not ops[0].endswith("depth=0") and any(l.startswith("w") for l in ops[1:]) and any(l in ("flush", "hijack") for l in ops[1:])
    for l in ops:
        if l.startswith("cfg"):
            stack, iv, sc = parse_cfg(l)
            return len(stack) >= 2 and (iv is not None or sc["hijack"] or sc["flush"] > 0 or sc["early"] or sc["info"] or any(x["q"] for x in stack))
    return False


def describe(ops, outs, hist):
    if is_pw(ops):
        hist["pw:scenario"] += 1
        hist["pw:%s" % ops[0].split()[2]] += 1
        for l in ops[1:]:
            hist["pw-op:" + ("w-empty" if l == "w -" else l.split()[0])] += 1
            if l.startswith("wh "):
                hist["pw-code:%s" % ("1xx" if 100 <= int(l[3:]) <= 199 else "0" if l == "wh 0" else "final")] += 1
        return
    stack = None
    for l, o in zip(ops, outs):
        f = l.split()
        if f[0] == "cfg":
            stack, iv, sc = parse_cfg(l)
            hist["depth:%d" % len(stack)] += 1
            hist["intervene:%s" % ("none" if iv is None else stack[iv]["kind"])] += 1
            for x in stack:
                hist["layer:" + x["kind"]] += 1
            if sc["hijack"]:
                hist["script:hijack"] += 1
            if sc["flush"]:
                hist["script:flush"] += 1
            if sc["early"]:
                hist["script:early-flush"] += 1
            if sc["info"]:
                hist["script:1xx"] += 1
            hist["front:" + sc["front"]] += 1
            for x in stack:
                if x["kind"] == "ratelimit":
                    hist["ratelimit-period-ms:%d" % x["p"]] += 1
        elif f[0] == "req":
            hist["op:req"] += 1
            if "abort=1" in f:
                hist["op:req-abort"] += 1
            if o.startswith("status="):
                kv = dict(t.split("=", 1) for t in o.split())
                hist["out:status=%s" % kv["status"]] += 1
                hist["out:invoked=%s" % kv["invoked"]] += 1
                hist["out:flush=%s" % kv["flush"]] += 1
                hist["out:hijack=%s" % kv["hijack"]] += 1
            else:
                hist["out:" + o.split()[0]] += 1


# ---------------------------------------------------------------- generators
def layer_token(rng, kind, force_q=False):
    t = kind
    if rng.random() < 0.2:
        t += "/v"
    if kind == "buffer" and rng.random() < 0.3:
        t += "/t"
    if kind == "trace" and rng.random() < 0.3:
        t += "/wf"  # the trace sink fails on every write: a fault in the tracer's environment, not a reason to touch the response
    if kind in ("roundrobin", "rebalancer") and rng.random() < 0.45:
        t += "/s"
    if kind == "cbreaker":
        r = rng.random()
        if r < 0.3:
            t += "/f" + rng.choice(["418", "429", "200", "500", "503", "502", "504"])
        elif r < 0.45:
            t += "/fr" if r < 0.38 else "/frp"
    if kind == "ratelimit" and rng.random() < 0.6:
        t += "/p" + rng.choice(["1", "10", "50", "99", "100", "101", "1500", "2500", "60000", "90000", "3600000"])
    if kind == "buffer":
        if force_q or rng.random() < 0.35:
            t += "/q" + rng.choice(["8", "16", "64"])
        if rng.random() < 0.15:
            t += "/r" + rng.choice(["10", "64", "5000", "100000"])
        if rng.random() < 0.4:
            t += "/m" + rng.choice(["4", "32", "1024"])
    return t


def script(rng, flush=None, hijack=None):
    status = rng.choice(STATUSES + ["204", "304"])
    if status in ("204", "304"):
        chunks = []
    else:
        chunks = [rng.choice(CHUNKS) for _ in range(rng.choice([0, 1, 1, 2, 2, 3, 4]))]
        if rng.random() < 0.03:
            chunks.append(70000)
    # net/http itself deletes Content-Type from a 304 (also for the bare handler); every other response sets one so that nothing is sniffed
    hd = [] if status == "304" else ["Content-Type=" + rng.choice(["text/verif", "text/verif", "application/json", "text/html"])]
    hd += rng.sample(EXTRA_HDRS, rng.choice([0, 1, 1, 2, 3]))
    if not chunks and rng.random() < 0.15:
        hd.append("Content-Length=0")
    # the flush point lies within the first 2000 body bytes: beyond net/http's own buffers bytes reach the client without any
    # Flush, and "delivered while the handler runs" would no longer be attributable to the Flush call
    ok_points = [k for k in range(1, len(chunks) + 1) if sum(chunks[:k]) <= 2000]
    if flush is None:
        flush = rng.choice(ok_points) if ok_points and rng.random() < 0.55 else 0
    elif flush:
        if not ok_points:
            chunks = [rng.choice(CHUNKS[1:5])] + chunks
            ok_points = [1]
        flush = rng.choice(ok_points)
    if hijack is None:
        hijack = rng.random() < 0.3
    out = "status:%s;hdr:%s;body:%s;flush:%d;hijack:%d" % (status, ",".join(hd), ",".join(map(str, chunks)), flush, 1 if hijack else 0)
    # 1xx informational responses only together with an explicit final status (C20_info_implicit_final_counterexample)
    if status != "none" and rng.random() < 0.18:
        out += ";info:" + ",".join(rng.choice(["103", "103", "102"]) for _ in range(rng.choice([1, 1, 2])))
    if rng.random() < 0.25:
        out += ";early:1"
    return out


def reqs(rng, toks, iv):
    out = []
    qs = [int(o[1:]) for t in toks for o in t.split("/")[1:] if o[0] == "q"]
    for _ in range(rng.choice([1, 1, 2, 3])):
        r = rng.random()
        if iv is not None and toks[iv].startswith("buffer") and qs:
            q = parse_layer(toks[iv])["q"]
            out.append("req body=%d" % (q + rng.choice([1, 1, 7, 500])))
        elif r < 0.45:
            out.append("req")
        elif qs and r < 0.8:
            q = rng.choice(qs)
            out.append("req body=%d" % max(1, q + rng.choice([-3, 0, 0, 1])))
        else:
            out.append("req body=%d" % rng.choice([1, 7, 8, 16, 40, 100, 5000]))
    if iv is not None and toks[iv].split("/")[0] in ("ratelimit", "connlimit") or rng.random() < 0.1:
        # limits are per source: other sources start fresh, and must not disturb the source that is at its limit
        out = out + [rng.choice(out)] if len(out) < 2 else out
        for k in range(len(out)):
            if rng.random() < 0.5:
                out[k] += " src=" + rng.choice(["B", "B", "C"])
        out.append(out[0].split(" src=")[0])
    if rng.random() < 0.4:
        # aborted request(s) somewhere before the last request: what follows must be served as if nothing had happened
        for _ in range(rng.choice([1, 1, 2])):
            k = rng.randrange(len(out))
            out.insert(k, out[k] + " abort=1")
    return out


# a quick check against a tree that differs from the validated one widens the random generation but skips the
# 8-minute exhaustive enumeration of the thorough tier
ESCALATED_TIER = "escalated"


def gen(rng, tier):
    n_scen = {"quick": 1200, "thorough": 6000, "search": 600, "escalated": 4000}.get(tier, 1200)
    yield from gen_pw(rng, n_scen // 2)
    for _ in range(n_scen):
        depth = rng.choice([0, 1, 1, 2, 2, 3, 3, 3, 4, 4, 5])
        kinds = [rng.choice(KINDS) for _ in range(depth)]
        iv = None
        if depth and rng.random() < 0.55:
            iv = rng.randrange(depth)
        toks = [layer_token(rng, k, force_q=(iv == i)) for i, k in enumerate(kinds)]
        front = rng.choice(["nohijack", "noflush", "plain"]) if rng.random() < 0.25 else None
        lines = ["cfg stack=%s intervene=%s %sh=%s" % (",".join(toks) or "-", "none" if iv is None else iv,
                                                       "front=%s " % front if front else "", script(rng))]
        if iv is None and "buffer" in kinds and front is None and rng.random() < 0.02:
            # the recorded open finding buffer_1xx_implicit_final (matched, not an alarm)
            lines = ["cfg stack=%s intervene=none h=status:none;hdr:Content-Type=text/verif;body:5,3;flush:0;hijack:0;info:103" % ",".join(toks)]
        lines += reqs(rng, toks, iv)
        yield lines


FIXED_FLUSH = "status:201;hdr:Content-Type=text/verif,X-A=1,Set-Cookie=hc=1;body:5,7;flush:1;hijack:0;info:103"
FIXED_EARLY = "status:none;hdr:Content-Type=text/verif;body:3;flush:0;hijack:0;early:1"
FIXED_RETRY = "status:%s;hdr:Content-Type=text/verif;body:4;flush:0;hijack:0"
FIXED_FAILHIJACK = "status:501;hdr:Content-Type=text/verif,X-A=1;body:4;flush:0;hijack:1"
FIXED_HIJACK = "status:none;hdr:Content-Type=text/verif,X-A=1,X-A=2;body:3,2000;flush:0;hijack:1"


def exhaustive(tier):
    if tier != "thorough":
        return
    alpha = ["wh 103", "wh 200", "wh 502", "wh 0", "w -", "w 1,2", "flush", "hijack"]
    for d in (0, 1, 2, 3):
        for b in ("fh", "f", "h", "-"):
            for n in range(1, 5):
                for seq in itertools.product(alpha, repeat=n):
                    yield ["cfg pw depth=%d base=%s" % (d, b)] + list(seq)
    for d in range(0, 5):
        for kinds in itertools.permutations(KINDS, d):
            toks = [k + ("/s" if k in ("roundrobin", "rebalancer") else "") + ("/q16/t" if k == "buffer" else "")
                    + ("/v" if (d + len(k)) % 2 else "") for k in kinds]
            sv = ",".join(toks) or "-"
            yield ["cfg stack=%s intervene=none h=%s" % (sv, FIXED_FLUSH), "req", "req body=16"]
            yield ["cfg stack=%s intervene=none h=%s" % (sv, FIXED_EARLY), "req"]
            if "buffer" in kinds:
                yield ["cfg stack=%s intervene=none h=%s" % (sv, FIXED_RETRY % ("502", "503", "504")[d % 3]), "req", "req body=2"]
            yield ["cfg stack=%s intervene=none front=%s h=%s" % (sv, ("nohijack", "plain")[d % 2], FIXED_FAILHIJACK), "req"]
            yield ["cfg stack=%s intervene=none h=%s" % (sv, FIXED_HIJACK), "req body=9 abort=1", "req body=9", "req abort=1", "req abort=1", "req"]
            for i, k in enumerate(kinds):
                if k == "buffer":
                    yield ["cfg stack=%s intervene=%d h=%s" % (sv, i, FIXED_FLUSH), "req body=17"]
                elif k == "connlimit":
                    yield ["cfg stack=%s intervene=%d h=%s" % (sv, i, FIXED_FLUSH), "req", "req body=3 src=B", "req body=3"]
                elif k == "ratelimit":
                    yield ["cfg stack=%s intervene=%d h=%s" % (sv, i, FIXED_HIJACK), "req abort=1", "req src=B", "req body=3", "req src=B", "req src=C abort=1", "req"]
                else:
                    yield ["cfg stack=%s intervene=%d h=%s" % (sv, i, FIXED_HIJACK), "req abort=1", "req body=3"]


def post_check(chk):
    if chk.tier == "thorough":
        chk.extra["exhaustive"] = True
        chk.extra["exhaustive_scope"] = "all ordered subsets of the 8 layers of depth <= 4 (2081 stacks) x {no intervention (flush script, hijack script), each layer intervening}"


MANIFEST = {
    "text": ("Proof: Lean 4 theorems C20_transparent (every stack whose layers all pass: exactly one invocation, response = handler's response plus "
             "only the sticky cookies, hijack works, flush works unless a buffer is in the stack), C20_decisive / C20_decisive_at (the outermost "
             "intervening layer's response reaches the client, zero invocations), C20_status_table, C20_response_limit, C20_retry_documented (502/504 behind "
             "retrying buffers: 3^k runs; linked to the stateful loop by C20_retry_stateful_link), C20_abort_restores, C20_failed_hijack_relayed and "
             "C20_buffer_drops_body_kinds (exactly which responses a Buffer relays without body), by induction over the "
             "stack (any order, depth, repetition; any handler script). The model Stack.serveStack is tied to the code by running real stacks of the "
             "real middlewares behind a real HTTP server (thorough: all ordered subsets of depth <= 4) against the compiled model. The writer that "
             "trace / cbreaker / Rebalancer hand inward (utils.ProxyWriter) is modelled call by call (Model/Writer.lean): C20_pw_transparent, "
             "C20_pw_depth_irrelevant, C20_pw_records, C20_pw_capabilities, C20_pw_status_is_wire_status (+ counterexample outside the orderly domain), "
             "tied by cfg pw scenarios that drive real nested ProxyWriters over a recording writer (thorough: all call sequences of length <= 4)."),
    "note": ("Partial: (1) the byte-level relay -- net/http's response writing, Flush and Hijack are exercised on every scenario, not proved; (2) each "
             "layer's decision to intervene is one number / flag of the model, linked to the per-layer models of C01-C05/C13/C15 by C20_link_connlimit, "
             "C20_link_ratelimit, C20_link_breaker, C20_link_balancer, C20_link_buffer (summarised by C20_link_decision; C20_transparent_composed and "
             "C20_decisive_composed state transparency / decisiveness in terms of those models' own decisions), for unit amounts, a frozen instant and "
             "breaker states outside the recovery ramp; (3) C20_transparent holds on explicit "
             "domains: infoDomain (1xx only with an explicit final status behind a Buffer -- outside it the code drops the body: open known finding "
             "buffer_1xx_implicit_final, C20_info_implicit_final_counterexample) and bodyDomain (responses Buffer.expectBody keeps; the others lose "
             "their body by documented design); (4) C20_abort_restores assumes no retrying buffer and >= 2 rate tokens, C20_retry_stateful_link no rate "
             "limiter in the stack; a retrying buffer is modelled with the same handler behaviour on every attempt. Trusted: Lean kernel; propext/Classical.choice/Quot.sound; "
             "the hand-written model is validated against the code on the generated stacks only."),
    "technique": "Lean 4 proof (induction over the layer list) over executable model + differential correspondence with real middleware stacks over HTTP",
}
