"""Shared by C06 / C07 / C15 (Buffer): scenario generator, op/output parsing, retry-expression ASTs,
and the three model-independent monitors.  Nothing here calls or mirrors the Lean model: the monitors
restate the property texts over (what was sent, what the handler script does, what came out)."""
import functools

CK_P = 72057594037927931  # 2^56 - 5
DEFAULT_MEM = 1048576
STATUSES = [200, 201, 204, 301, 304, 400, 404, 500, 502, 503, 504, 100, 103]
METHODS = ["GET", "POST", "PUT", "PATCH", "DELETE", "HEAD"]


# ---------------------------------------------------------------- bodies
@functools.lru_cache(maxsize=4096)
def _block(seed):
    x = seed % 2147483648
    out = bytearray()
    for _ in range(251):
        x = (x * 1103515245 + 12345) % 2147483648
        out.append((x // 65536) % 256)
    return bytes(out)


@functools.lru_cache(maxsize=256)
def expand(n, seed):
    b = _block(seed)
    return (b * (n // 251 + 1))[:n]


def show_bytes(p):
    return "%d:%d" % (len(p), int.from_bytes(p, "big") % CK_P if p else 0)


# ---------------------------------------------------------------- retry expressions
# AST: ("and",a,b) ("or",a,b) ("neterr",) ("att",cmp,n) ("code",cmp,n) ("meq",s) ("mneq",s)
CMPS = {"eq": "==", "neq": "!=", "lt": "<", "gt": ">", "le": "<=", "ge": ">="}


MAXINT = 9223372036854775807
EXTREME = [0, 1, 2147483646, 2147483647, 2147483648, 4294967295, 4294967296, MAXINT - 1, MAXINT, MAXINT, MAXINT]


def gen_expr(rng, depth):
    r = rng.random()
    if depth > 0 and r < 0.55:
        return (rng.choice(["and", "or"]), gen_expr(rng, depth - 1), gen_expr(rng, depth - 1))
    r = rng.random()
    if rng.random() < 0.12:
        # literals at the edges of Go's int (64 bit here) and of int32; the expression is read over unbounded integers
        return (rng.choice(["att", "code"]), rng.choice(list(CMPS)), rng.choice(EXTREME))
    if r < 0.4:
        return ("att", rng.choice(list(CMPS)), rng.choice([0, 1, 2, 2, 3, 3, 4, 5, 9, 10, 11, 12, 30]))
    if r < 0.75:
        c = rng.choice(STATUSES + [0, 200, 500, 502, 503])
        return ("code", rng.choice(list(CMPS)), max(0, c + rng.choice([0, 0, 0, -1, 1])))
    if r < 0.87:
        return ("neterr",)
    return (rng.choice(["meq", "mneq"]), rng.choice(METHODS))


def polish(e):
    if e[0] in ("and", "or"):
        return e[0] + "," + polish(e[1]) + "," + polish(e[2])
    return ",".join(str(x) for x in e)


def go_syntax(e, rng, parent=None, right=False):
    def par(s, need):
        if need or rng.random() < 0.2:
            s = "(" + s + ")"
            if rng.random() < 0.1:
                s = "(" + s + ")"
        return s
    k = e[0]
    if k in ("and", "or"):
        s = go_syntax(e[1], rng, k, False) + ("&&" if k == "and" else "||") + go_syntax(e[2], rng, k, True)
        need = (parent == "and" and k == "or") or (parent == k and right and rng.random() < 0.5)
        return par(s, need)
    if k == "neterr":
        return par("IsNetworkError()", False)
    if k in ("att", "code"):
        fn = "Attempts()" if k == "att" else "ResponseCode()"
        if rng.random() < 0.1:
            fn = "(" + fn + ")"
        lit = str(e[2]) if rng.random() > 0.1 else "(" + str(e[2]) + ")"
        return par(fn + CMPS[e[1]] + lit, False)
    return par('RequestMethod()%s"%s"' % ("==" if k == "meq" else "!=", e[1]), False)


def eval_expr(e, attempt, code, method):
    """ordinary Boolean / ordering semantics"""
    k = e[0]
    if k == "and":
        return eval_expr(e[1], attempt, code, method) and eval_expr(e[2], attempt, code, method)
    if k == "or":
        return eval_expr(e[1], attempt, code, method) or eval_expr(e[2], attempt, code, method)
    if k == "neterr":
        return code in (502, 504)
    if k in ("att", "code"):
        x = attempt if k == "att" else code
        v = e[2]
        return {"eq": x == v, "neq": x != v, "lt": x < v, "gt": x > v, "le": x <= v, "ge": x >= v}[e[1]]
    if k == "meq":
        return method == e[1]
    return method != e[1]


def parse_polish(s):
    toks = s.split(",")

    def rec(i):
        t = toks[i]
        if t in ("and", "or"):
            a, i = rec(i + 1)
            b, i = rec(i)
            return (t, a, b), i
        if t == "neterr":
            return (t,), i + 1
        if t in ("att", "code"):
            v = int(toks[i + 2])
            if toks[i + 1] not in CMPS or not 0 <= v <= MAXINT or not toks[i + 2].isdigit():
                raise ValueError("literal")  # strconv.Atoi range; a leading '-' is a unary operator the grammar lacks
            return (t, toks[i + 1], v), i + 3
        if t in ("meq", "mneq"):
            return (t, toks[i + 1]), i + 2
        raise ValueError(t)
    e, i = rec(0)
    if i != len(toks):
        raise ValueError("trailing")
    return e


INVALID = [("Attempts()<=9223372036854775808", "att,le,9223372036854775808"), ("ResponseCode()>=18446744073709551616", "code,ge,18446744073709551616"),
           ("Attempts()>=-1", "att,ge,-1"), ("Attempts()>-9223372036854775808", "att,gt,-9223372036854775808"),
           ("!IsNetworkError()", "bad"), ('RequestMethod()<"A"', "bad"), ("Attempts()==-1", "bad"), ("2<Attempts()", "bad"),
           ("Foo()", "bad"), ("Attempts()==2.5", "bad"), ("Attempts()", "bad")]


# ---------------------------------------------------------------- parsing ops and outputs
def kv(tokens, key):
    for t in tokens:
        if t.startswith(key + "="):
            return t[len(key) + 1:]
    return None


class Cfg:
    def __init__(self, line):
        f = line.split()
        g = lambda k: (int(kv(f, k)) if kv(f, k) is not None else None)
        self.maxreq, self.memreq, self.maxresp, self.memresp = g("maxreq"), g("memreq"), g("maxresp"), g("memresp")
        self.hj = (kv(f, "hj") or "1") == "1"
        rx = kv(f, "rx")
        self.has_retry = rx is not None
        self.expr = None
        if rx is not None:
            try:
                self.expr = parse_polish(rx)
            except Exception:
                self.expr = None

    def valid(self):
        return (not self.has_retry) or self.expr is not None


class Attempt:
    def __init__(self, s="-"):
        self.read = None
        self.ops, self.url, self.status, self.rh, self.writes, self.hj = [], None, None, [], [], False
        self.late_status, self.panic = None, False
        for fld in s.split(","):
            p = fld.split(":")
            if fld == "-":
                pass
            elif fld == "hj":
                self.hj = True
            elif fld == "pn":
                self.panic = True
            elif p[0] == "lh":  # response header added after the writes: still part of what the attempt produced
                self.rh.append((p[1], p[2]))
            elif p[0] == "ls":  # WriteHeader after the writes
                self.late_status = int(p[1])
            elif fld == "fl":
                pass  # Flush attempt: the buffering writer offers no Flusher, nothing may reach the client early
            elif p[0] in ("r", "rc", "rn", "rp"):  # how the handler reads (ReadAll/ReadFull, io.Copy, io.CopyN, small Reads)
                self.read = None if p[1] == "all" else int(p[1])
            elif p[0] in ("hs", "ha", "hd", "hp", "h0", "hl"):
                self.ops.append(p)
            elif p[0] == "u":
                self.url = p[1]
            elif p[0] == "s":
                self.status = int(p[1])
            elif p[0] == "rh":
                self.rh.append((p[1], p[2]))
            elif p[0] in ("w", "wc", "wn", "ws", "wf"):  # how the handler writes: Write, io.Copy, io.CopyN, io.WriteString, fmt.Fprintf
                l, s2 = p[1].split(".")
                if int(l) == 0 and p[0] in ("wc", "wn"):
                    continue  # io.Copy / io.CopyN of an empty source: no call reaches a writer without ReadFrom
                self.writes.append((int(l), int(s2)))

    def total(self):
        return sum(l for l, _ in self.writes)

    def data(self):
        return b"".join(expand(l, s) for l, s in self.writes)

    def code_seen(self):
        """response code of this attempt as an expression sees it: the chosen status, else 200 once the handler
        wrote, else 0 ('returns 0 if there was no response code', threshold.go)"""
        if self.late_status is not None:
            return self.late_status  # the captured status is the last one chosen (bufferWriter.WriteHeader overwrites)
        if self.status is not None and self.status != 0:
            return self.status
        return 200 if self.writes else 0

    def rh_get(self, k):
        for a, b in self.rh:
            if a == k:
                return b
        return ""

    def final_status(self):
        return self.code_seen() or 200

    def body_allowed(self, method):
        c = self.final_status()
        if method == "HEAD" or 100 <= c < 200 or c in (204, 304):
            return False
        if self.rh_get("Content-Length") == "0":
            return False
        if self.rh_get("Grpc-Status") not in ("", "0"):
            return False
        return True


class Req:
    def __init__(self, line):
        f = line.split()
        self.method, self.url, self.chunked = f[1], f[2], f[3] == "ch"
        self.len, self.seed = int(f[4]), int(f[5])
        h = kv(f[6:], "h")
        self.headers = {}
        if h and h != "-":
            for x in h.split(";"):
                k, v = x.split(":")
                self.headers.setdefault(k, []).append(v)
        self.atts = [Attempt(t[2:]) for t in f[6:] if t.startswith("a=")]

    def att(self, k):
        return self.atts[k - 1] if k <= len(self.atts) else Attempt()

    def body(self):
        return expand(self.len, self.seed)


def show_hdr(h):
    ks = sorted(k for k in h if h[k])
    return ";".join("%s:%s" % (k, ",".join(h[k])) for k in ks) if ks else "-"


class Out:
    """parsed output line of a req op (None fields when the line is not of the expected shape)"""

    def __init__(self, line):
        self.ok = False
        self.raw = line
        try:
            f = line.split()
            self.inv = int(kv(f, "inv"))
            self.views = []
            for t in f:
                if t.startswith("v="):
                    p = t[2:].split("|")
                    self.views.append({"method": p[0], "url": p[1], "hdr": p[2], "cl": int(p[3][3:]), "te": int(p[4][3:]),
                                       "oh": p[5][3:], "rd": p[6][3:], "tf": int(p[7][3:])})
            w = kv(f, "w")
            if w == "none":
                self.status, self.hdr, self.body = None, None, None
            else:
                p = w.split("|")
                self.status, self.hdr, self.body = int(p[0]), p[1], p[2]
            self.hij = kv(f, "hij") == "1"
            self.cl = kv(f, "cl")
            self.left = int(kv(f, "left"))
            self.ok = True
        except Exception:
            pass


def exchanges(ops, outs):
    cfg = None
    for l, o in zip(ops, outs):
        f = l.split()
        if not f or l.startswith("#"):
            continue
        if f[0] == "cfg":
            cfg = Cfg(l)
            yield ("cfg", cfg, l, o)
        elif f[0] == "req" and cfg is not None:
            yield ("req", cfg, Req(l), o)


def eff_over_request(cfg, req):
    return cfg.maxreq is not None and cfg.maxreq > 0 and req.len > cfg.maxreq


def resp_over(cfg, a):
    return cfg.maxresp is not None and cfg.maxresp > 0 and a.total() > cfg.maxresp


def expected_invocations(cfg, req):
    """(n, how) by the property text: once without a condition; again after each attempt for which the expression is
    true; never more than 11.  An effective hijack or an over-limit response ends the exchange."""
    k = 1
    while True:
        a = req.att(k)
        if a.panic:
            return k, "panic"
        if a.hj and cfg.hj:
            return k, "hijack"
        if resp_over(cfg, a):
            return k, "over"
        if cfg.expr is None or k >= 11:
            return k, "final"
        if not eval_expr(cfg.expr, k, a.code_seen(), req.method):
            return k, "final"
        k += 1


# ---------------------------------------------------------------- monitors
def monitor_c06(ops, outs):
    bad = []
    for kind, cfg, req, o in exchanges(ops, outs):
        if kind == "cfg":
            continue
        if not cfg.valid():
            continue
        out = Out(o)
        if o.startswith("env-error"):
            continue  # the harness could not get a local port: not an observation of Buffer (the diff still reports it)
        if not out.ok:
            bad.append("malformed: no well-formed result for %r: %r" % (" ".join(ops[0].split()[:3]), o[:80]))
            continue
        body = req.body()
        if not eff_over_request(cfg, req) and out.inv == 0:
            bad.append("unserved: a %d-byte body within the maximum (%s) never reached the handler (status %s)" % (req.len, cfg.maxreq, out.status))
            return bad
        for i, v in enumerate(out.views):
            k = i + 1
            a = req.att(k)
            want = body if a.read is None else body[:a.read]
            if v["rd"] != show_bytes(want):
                bad.append("body: attempt %d read %s, the request body's first %s bytes are %s" % (k, v["rd"], "all" if a.read is None else a.read, show_bytes(want)))
            if v["cl"] != req.len:
                bad.append("length: attempt %d saw ContentLength %d, body has %d bytes" % (k, v["cl"], req.len))
            if v["te"] != 0:
                bad.append("framing: attempt %d saw a transfer-encoding" % k)
            if v["method"] != req.method:
                bad.append("method: attempt %d saw %s, sent %s" % (k, v["method"], req.method))
            if v["url"] != req.url:
                bad.append("url: attempt %d saw %s, sent %s" % (k, v["url"], req.url))
            if v["hdr"] != show_hdr(req.headers) or v["oh"] != "same":
                bad.append("headers: attempt %d saw %s (other headers %s), sent %s" % (k, v["hdr"], v["oh"], show_hdr(req.headers)))
            if bad:
                return bad
    return bad


def monitor_c07(ops, outs):
    bad = []
    for kind, cfg, req, o in exchanges(ops, outs):
        if kind == "cfg" or not cfg.valid():
            continue
        out = Out(o)
        if o.startswith("env-error"):
            continue  # the harness could not get a local port: not an observation of Buffer (the diff still reports it)
        if not out.ok:
            bad.append("malformed: no well-formed result: %r" % o[:80])
            continue
        if out.inv > 11:
            bad.append("bound: handler invoked %d times" % out.inv)
        if eff_over_request(cfg, req):
            continue  # C15's clause
        n, how = expected_invocations(cfg, req)
        if out.inv != n:
            bad.append("count: handler invoked %d times, the retry condition %s gives %d" % (out.inv, "absent" if cfg.expr is None else polish(cfg.expr), n))
        elif how == "final":
            a = req.att(n)
            st = a.final_status()
            hdr = {}
            for k, v in a.rh:
                hdr.setdefault(k, []).append(v)
            data = a.data() if a.body_allowed(req.method) else b""
            if out.status != st:
                bad.append("status: client got %s, final attempt %d produced %s" % (out.status, n, "no explicit status (200)" if a.status is None and a.late_status is None else st))
            elif out.body != show_bytes(data):
                bad.append("body: client got %s, final attempt %d produced %s" % (out.body, n, show_bytes(data)))
            elif out.hdr != show_hdr(hdr):
                bad.append("headers: client got %s, final attempt %d produced %s" % (out.hdr, n, show_hdr(hdr)))
            elif out.cl != "ok":
                bad.append("client: the real client did not receive the response that was written: %s" % out.cl)
        elif how == "panic":
            if out.status is not None or out.cl != "aborted":
                bad.append("panic: the last handler invocation panicked, yet something reached the client: w=%s cl=%s" % (out.status, out.cl))
        elif how == "hijack":
            if out.status is not None or out.cl != "ok":
                bad.append("hijack: something was written besides the hijacker's own response: w=%s cl=%s" % (out.status, out.cl))
        if bad:
            return bad
    return bad


# http.StatusText for every 4xx / 5xx code net/http knows, plus oxy's 499: what the default error handlers write as the body
ERR_TEXT = {k: v.encode() for k, v in {
    400: "Bad Request", 401: "Unauthorized", 402: "Payment Required", 403: "Forbidden", 404: "Not Found", 405: "Method Not Allowed",
    406: "Not Acceptable", 407: "Proxy Authentication Required", 408: "Request Timeout", 409: "Conflict", 410: "Gone",
    411: "Length Required", 412: "Precondition Failed", 413: "Request Entity Too Large", 414: "Request URI Too Long",
    415: "Unsupported Media Type", 416: "Requested Range Not Satisfiable", 417: "Expectation Failed", 418: "I'm a teapot",
    421: "Misdirected Request", 422: "Unprocessable Entity", 423: "Locked", 424: "Failed Dependency", 425: "Too Early",
    426: "Upgrade Required", 428: "Precondition Required", 429: "Too Many Requests", 431: "Request Header Fields Too Large",
    451: "Unavailable For Legal Reasons", 499: "Client Closed Request", 500: "Internal Server Error", 501: "Not Implemented",
    502: "Bad Gateway", 503: "Service Unavailable", 504: "Gateway Timeout", 505: "HTTP Version Not Supported",
    506: "Variant Also Negotiates", 507: "Insufficient Storage", 508: "Loop Detected", 510: "Not Extended",
    511: "Network Authentication Required"}.items()}


def monitor_c15(ops, outs):
    bad = []
    for kind, cfg, req, o in exchanges(ops, outs):
        if kind == "cfg" or not cfg.valid():
            continue
        out = Out(o)
        if o.startswith("env-error"):
            continue  # the harness could not get a local port: not an observation of Buffer (the diff still reports it)
        if not out.ok:
            bad.append("malformed: no well-formed result: %r" % o[:80])
            continue
        if out.left != 0:
            bad.append("tempfile: %d temporary file(s) left after the exchange" % out.left)
        if not eff_over_request(cfg, req) and out.inv == 0:
            # zero or a negative maximum means unlimited: a body within the maximum is not refused
            bad.append("request-limit-eager: body %d within max %s (%s) answered %s without reaching the handler" % (
                req.len, "unlimited" if not cfg.maxreq or cfg.maxreq <= 0 else cfg.maxreq, "chunked" if req.chunked else "declared", out.status))
        elif eff_over_request(cfg, req):
            if out.status != 413 or out.inv != 0 or out.cl != "ok":
                bad.append("request-limit: body %d > max %d (%s) answered %s with %d handler invocation(s), client %s" % (
                    req.len, cfg.maxreq, "chunked" if req.chunked else "declared", out.status, out.inv, out.cl))
        else:
            n, how = expected_invocations(cfg, req)
            if how == "over" and out.inv == n:
                a = req.att(n)
                data = a.data()
                blen = int(out.body.split(":")[0]) if out.body else 0
                leaked = blen > 0 and out.body == show_bytes(data[:blen])
                # "none of its bytes reach the client": the body (recorded at the writer and, cl=ok, received byte for byte
                # by the real client) is exactly the error handler's text for that status, nothing appended or prepended
                if out.status in ERR_TEXT and out.body != show_bytes(ERR_TEXT[out.status]):
                    leaked = True
                elif out.status not in ERR_TEXT and blen > 0:
                    leaked = True  # an error status net/http has no text for, with a body: cannot be the error handler's text
                if out.status is None or out.status < 400 or leaked or out.cl != "ok":
                    bad.append("response-limit: response of %d bytes > max %d delivered as status %s body %s client %s" % (a.total(), cfg.maxresp, out.status, out.body, out.cl))
            # spill: an accepted response larger than the memory threshold sits in a temporary file while the handler returns
            mem = cfg.memresp if cfg.memresp else DEFAULT_MEM
            for i, v in enumerate(out.views):
                a = req.att(i + 1)
                if not resp_over(cfg, a) and a.total() > mem and v["tf"] < 1:
                    bad.append("spill: attempt %d buffered %d bytes with memory threshold %d and no temporary file" % (i + 1, a.total(), mem))
        if bad:
            return bad
    return bad


# ---------------------------------------------------------------- generator
def _pick_size(rng, marks, hi):
    r = rng.random()
    if r < 0.55 and marks:
        return max(0, rng.choice(marks) + rng.choice([-1, 0, 0, 1]))
    if r < 0.65:
        return 0
    if r < 0.75:
        return rng.randint(1, 8)
    return rng.randint(0, hi)


def gen_cfg(rng, focus, tier):
    t = []
    memreq = rng.choice([None, None, 0, 1, 2, 16, 100, 512, 1000, 4096])
    m = memreq if memreq else None
    maxreq = rng.choice([None, None, None, 0] + ([m - 1, m, m + 1, 2 * m, 3 * m + 1] if m else [1, 10, 1000, 5000]))
    if maxreq is not None and maxreq < 0:
        maxreq = 0
    memresp = rng.choice([None, None, 0, 1, 2, 16, 100, 600, 1000, 4096])
    m2 = memresp if memresp else None
    maxresp = rng.choice([None, None, None, 0] + ([m2 - 1, m2, m2 + 1, 2 * m2, 3 * m2 + 1] if m2 else [1, 10, 1000, 3000]))
    if maxresp is not None and maxresp < 0:
        maxresp = 0
    for k, v in (("maxreq", maxreq), ("memreq", memreq), ("maxresp", maxresp), ("memresp", memresp)):
        if v is not None:
            t.append("%s=%d" % (k, v))
    p_retry = {"C06": 0.75, "C07": 0.85, "C15": 0.6}[focus]
    expr = None
    if rng.random() < p_retry:
        if rng.random() < 0.03:
            g, p = rng.choice(INVALID)
            t += ["retry=" + g, "rx=" + p]
            return "cfg " + " ".join(t), None, False
        if focus == "C06" and rng.random() < 0.5:
            expr = ("att", "lt", rng.choice([2, 3, 4, 6, 11, 30]))  # failing attempts that are retried
            if rng.random() < 0.5:
                expr = ("and", expr, ("code", "ge", 500))
        else:
            expr = gen_expr(rng, rng.choice([0, 1, 1, 2, 2, 3]))
        t += ["retry=" + go_syntax(expr, rng), "rx=" + polish(expr)]
    if rng.random() < 0.15:
        t.append("hj=0")
    r = rng.random()
    if r < 0.12:
        t.append("verbose=1")
    elif r < 0.2:
        t.append("up=" + rng.choice(["stream-verbose", "rr-verbose"]))
    if rng.random() < 0.15:
        # a ProxyWriter-wrapping middleware between Buffer and the handler: every call of the handler (an empty Write, a 1xx,
        # a late WriteHeader) must reach the buffer's writer unchanged (C20_pw_transparent)
        t.append("dn=" + rng.choice(["trace", "cbreaker"]))
    return "cfg " + " ".join(t), dict(maxreq=maxreq, memreq=memreq, maxresp=maxresp, memresp=memresp, expr=expr), True


def gen_attempt(rng, c, reqlen, focus, will_retry_bias, hkeys=()):
    f = []
    r = rng.random()
    if r < 0.45:
        f.append(rng.choice(["r", "r", "rc", "rc", "rp"]) + ":all")
    elif r < 0.6:
        f.append("r:0")
    elif r < 0.9:
        f.append("%s:%d" % (rng.choice(["r", "r", "rc", "rn", "rp"]), rng.randint(0, max(1, reqlen))))
    else:
        f.append("%s:%d" % (rng.choice(["r", "rc", "rn", "rp"]), reqlen + rng.randint(1, 50)))
    for _ in range(rng.choice([0, 0, 1, 1, 2]) if focus == "C06" else rng.choice([0, 0, 0, 1])):
        k = rng.choice(["X-A", "X-B", "X-C", "X-N", "User-Agent", "Accept"])
        op = rng.choice(["hs", "ha", "hd", "hp", "h0", "hl"])
        if op in ("h0", "hl") and rng.random() < 0.8:
            k = rng.choice(list(hkeys) + ["User-Agent"])  # in-place edits need a value that exists
        f.append("%s:%s" % (op, k) if op == "hd" else "%s:%s:m%d" % (op, k, rng.randint(0, 9)))
    if rng.random() < (0.3 if focus == "C06" else 0.08):
        f.append("u:/mut%d" % rng.randint(0, 9))
    for _ in range(rng.choice([0, 0, 1, 2])):
        f.append("rh:%s:r%d" % (rng.choice(["X-R", "X-S", "X-T"]), rng.randint(0, 9)))
    r = rng.random()
    if r < 0.06:
        f.append("rh:Content-Length:0")
    elif r < 0.1:
        f.append("rh:Grpc-Status:%d" % rng.choice([0, 1, 14]))
    r = rng.random()
    if r < 0.3:
        pass
    elif r < 0.3 + will_retry_bias:
        f.append("s:%d" % rng.choice([500, 502, 503, 504, 404]))
    else:
        f.append("s:%d" % rng.choice(STATUSES))
    mem = c["memresp"] if c["memresp"] else None
    mx = c["maxresp"] if c["maxresp"] else None
    marks = [x for x in (mem, mx) if x]
    if mem and mx and mx > mem:
        marks.append(mx - mem)
    nw = rng.choice([0, 1, 1, 2, 3, 4]) if focus != "C15" else rng.choice([0, 1, 2, 3, 4, 5])
    tot = 0
    for _ in range(nw):
        if marks and rng.random() < 0.35:
            l = max(0, rng.choice(marks) - tot + rng.choice([-1, 0, 1]))  # land on a threshold cumulatively
        else:
            l = _pick_size(rng, marks, 700)
        tot += l
        # io.Copy/io.CopyN move at most 32 KiB per Write and make no call at all for 0 bytes: only where one call = one Write
        how = rng.choice(["w", "w", "w", "wc", "wc", "wn", "ws", "wf"]) if 0 < l <= 30000 else rng.choice(["w", "w", "ws", "wf"])
        if rng.random() < 0.04:
            tot -= l
            l, how = 0, rng.choice(["wc", "wn"])  # copying an empty source (an upstream body that turned out empty) after / before real writes
        f.append("%s:%d.%d" % (how, l, rng.randint(0, 99999)))
    if rng.random() < 0.05:
        f.append("lh:%s:l%d" % (rng.choice(["X-R", "X-L"]), rng.randint(0, 9)))
    if rng.random() < 0.05:
        f.append("ls:%d" % rng.choice(STATUSES))
    if rng.random() < 0.05:
        f.append("fl")
    if rng.random() < 0.03:
        f.append("pn")
    if rng.random() < 0.04:
        f.append("hj")
    return ",".join(f)


def gen_scenarios(rng, tier, focus):
    n_scen = {"quick": 2500, "thorough": 20000, "search": 400}.get(tier, 2500)
    big_left = {"quick": 30, "thorough": 200, "search": 6}.get(tier, 30)
    huge_left = 24 if tier == "thorough" else 0
    for _ in range(n_scen):
        cfg, c, valid = gen_cfg(rng, focus, tier)
        lines = [cfg]
        if not valid:
            lines.append("req GET /p cl 0 0 a=-")
            yield lines
            continue
        mem = c["memreq"] if c["memreq"] else None
        mx = c["maxreq"] if c["maxreq"] else None
        marks = [x for x in (mem, mx) if x]
        for _ in range(rng.randint(2, 7)):
            method = rng.choice(METHODS + ["POST", "PUT", "GET"])
            # the client's request target: escaped slashes and other percent-escapes (RawPath), a bare trailing '?'
            # (ForceQuery), empty and odd queries (RawQuery); the handler must see exactly this target
            url = ("/p%d" % rng.randint(0, 99)
                   + rng.choice(["", "", "/seg", "/a/b", "/a%2Fb/meta", "/sp%20ace", "/%41bc", "/x;v=1", "/a+b", "/a%2fb%3Fc", "/dot/../up", "//dbl"])
                   + rng.choice(["", "", "?x=1", "?x=1&y=%d" % rng.randint(0, 9), "?", "?x=", "?a;b", "?q=a+b%20c", "?x=%2F&y=%3F", "?&"]))
            ln = _pick_size(rng, marks, 3000)
            r = rng.random()
            if huge_left and r < 0.02 and not mx:
                ln = rng.choice([1048575, 1048576, 1048577, 3000000])
                huge_left -= 1
            elif big_left and r < 0.05 and (not mx or mx >= 300000):
                ln = rng.randint(60000, 300000)
                big_left -= 1
            hs = []
            for _ in range(rng.choice([0, 1, 2, 3])):
                hs.append("%s:v%d" % (rng.choice(["X-A", "X-B", "X-C", "X-D"]), rng.randint(0, 99)))
            toks = ["req", method, url, rng.choice(["cl", "ch"]), str(ln), str(rng.randint(0, 99999))]
            if toks[3] == "ch" and rng.random() < 0.12:
                toks.append("fr=u0")  # re-dispatched in-process with the "length unknown" convention: ContentLength 0, non-nil body
            if hs:
                toks.append("h=" + ";".join(hs))
            if method in ("POST", "PUT", "PATCH") and rng.random() < 0.3:
                toks.append("ct=" + rng.choice(["form", "form", "form", "multipart"]))
            natt = rng.choice([1, 2, 3, 4, 12]) if c["expr"] is not None else rng.choice([1, 1, 2])
            bias = rng.choice([0.0, 0.3, 0.6]) if c["expr"] is not None else 0.0
            for _ in range(natt):
                toks.append("a=" + gen_attempt(rng, c, ln, focus, bias, [h.split(":")[0] for h in hs]))
            lines.append(" ".join(toks))
        yield lines


def describe(ops, outs, hist):
    for kind, cfg, req, o in exchanges(ops, outs):
        if kind == "cfg":
            hist["cfg:" + ("retry" if cfg.expr is not None else "invalid-expr" if cfg.has_retry else "no-retry")] += 1
            continue
        out = Out(o)
        if not out.ok:
            hist["out:malformed"] += 1
            continue
        hist["op:req"] += 1
        hist["framing:" + ("chunked" if req.chunked else "declared")] += 1
        hist["inv:%d" % out.inv] += 1
        hist["status:%s" % out.status] += 1
        mem = cfg.memreq if cfg.memreq else DEFAULT_MEM
        if cfg.maxreq and 0 < cfg.maxreq < mem:
            mem = cfg.maxreq
        hist["reqbody:" + ("empty" if req.len == 0 else "spilled" if req.len >= mem else "memory")] += 1
        if any(v["tf"] > 0 for v in out.views):
            hist["resp:spilled"] += 1
        if out.hij:
            hist["resp:hijacked"] += 1
        if out.cl == "aborted":
            hist["resp:handler-panic"] += 1
