"""C04 — per-source concurrency never exceeds the limit; every admitted request returns its slot."""

import re

ID = "C04"
HARNESS = "c04"
DRIVER = "c04"
PROPS_MODULE = "OxyModel.Props.C04"
AUDIT = "OxyModel/Audit/C04.lean"
THEOREMS = ["C04.C04_inflight_le_max", "C04.C04_reject_iff_full", "C04.C04_slots_exact", "C04.C04_rejection_holds_nothing",
            "C04.C04_release_on_every_exit", "C04.C04_quiescent_restores_max"]
RACE = True
JOBS = 12
RULE = ("scenario = deterministic interleaving of start/finish(normal | panic with a string, an error, http.ErrAbortHandler or a runtime error) events of up to 40 requests from 1-4 sources "
        "against limits -1..5 (handlers block on channels), built-in header extractor (configured header name and the name the client sends "
        "spelled independently: canonical, lower, upper, mixed case) or the stock client.ip extractor (IPv4 / IPv6 / zoned IPv6 peers, RemoteAddr = "
        "JoinHostPort(ip, port) with another port for every connection) with connlimit's Verbose / Logger / ErrorHandler options switched on "
        "and off from the cfg line, or a custom extractor with amounts "
        "0..3/-1 and extractor errors, usually followed by a drain and max+1 fresh arrivals; a third of the scenarios use a parking "
        "ErrorHandler (slowreject=1: rejections stay in progress until finished); a quarter are burst scenarios: rounds of pstart = "
        "8-16 simultaneous arrivals of one source lined up by a barrier inside the extractor, limit 1-3; thorough additionally enumerates "
        "every maximal interleaving of <= 6 requests over <= 2 sources with limit 0..2 (up to the symmetry that the limiter "
        "cannot see request ids: a finish ends the oldest running request of the chosen source; exits all-normal, all-panic "
        "or alternating), and with the parking ErrorHandler every such interleaving of <= 5 requests including the ends of the "
        "rejections; non-trivial = at least one 429/rejecting, one release and one admission after a release")
ASSUMPTIONS = [
    "acquire and release are atomic (each runs entirely under ConnLimiter.mutex): C09 lock-discipline obligation; the thorough tier runs the harness under -race",
    "counters fit in int64",
    "the bound on the number of running requests needs extractor amounts >= 1 (theorem hypothesis; amount 0 or negative is never limited by the code — exercised and agreed with the model, not a property violation because the built-in extractors always return 1, C19)",
    "a panic inside the protected handler is recovered by the caller of ServeHTTP (net/http does so per connection)",
]
TRUSTED = ["pstart: the spin barrier makes simultaneous arrivals likely to overlap inside acquire, it cannot force a particular schedule (a check-then-act race in acquire is found with high probability per burst, not with certainty)",
           "harness handler that blocks on channels realises the chosen interleaving (start returns only after the request is inside the handler or has been answered)"]


# ------------------------------------------------------------------------------------------ generation
HNAMES = ["X-Src", "X-Client-Id", "Authorization", "X-Api-Key", "Client"]


def _spell(rng, name):
    k = rng.random()
    if k < 0.3:
        return name
    if k < 0.55:
        return name.lower()
    if k < 0.75:
        return name.upper()
    return "".join(c.upper() if rng.random() < 0.5 else c.lower() for c in name)


PANICS = ["panic", "panic-err", "panic-abort", "panic-rt"]   # string, error value, http.ErrAbortHandler, runtime error
PEERS = ["10.0.0.1", "192.168.1.77", "2001:db8::1", "2001:db8::2", "::1", "fe80::1%eth0", "fe80::1%eth1", "::ffff:10.0.0.1", "2001:db8:0:1::a"]


def _exit(rng):
    return "normal" if rng.random() < 0.45 else rng.choice(PANICS)


def _cfg(rng, mx, builtin, slow, clientip=False):
    """cfg line: every exported option of connlimit (ErrorHandler, Verbose, Logger) and, for the built-in header extractor, the
    spelling of the configured variable and of the header the client sends, chosen independently"""
    t = ["cfg", "max=%d" % mx, "ext=%s" % ("clientip" if clientip else "builtin" if builtin else "custom")]
    if slow:
        t.append("slowreject=1")
    k = rng.random()
    if k < 0.4:
        t.append("verbose=1")
    elif k < 0.55:
        t.append("verbose=0")
    if rng.random() < 0.5:
        t.append("log=1")
    if builtin and not clientip and rng.random() < 0.8:
        name = rng.choice(HNAMES)
        t.append("hvar=" + _spell(rng, name))
        t.append("hsend=" + _spell(rng, name))
    return " ".join(t)


EXTRAS = ["", " verbose=1 log=1", " hvar=x-client-id hsend=X-Client-Id", " verbose=1", " hvar=X-API-KEY hsend=x-api-key log=1",
          " verbose=0 log=1", " hvar=authorization hsend=AUTHORIZATION verbose=1"]

def _tail(lines, live, mx, tag, rng=None, src="s0"):
    """drain, then max+1 fresh arrivals of one source"""
    for i, rid in enumerate(list(live)):
        mode = ("normal" if rng.random() < 0.5 else rng.choice(PANICS)) if rng else ("panic" if i % 2 else "normal")
        lines.append("finish %s %s" % (rid, mode))
    for i in range(max(mx, 0) + 1):
        lines.append("start q%s%d %s" % (tag, i, src))


def _burst_scenario(rng, tier):
    """rounds of simultaneous arrivals of one source while it is below its limit"""
    mx = rng.choice([1, 1, 2, 2, 3])
    slow = rng.random() < 0.25
    builtin = rng.random() < 0.15
    clientip = builtin and rng.random() < 0.5
    lines = [_cfg(rng, mx, builtin, slow, clientip)]
    srcs = rng.sample(PEERS, 2) if clientip else ["s0", "s1"]
    held = {s: [] for s in srcs}
    rej = []
    for k in range(rng.randint(6, 10) if tier != "thorough" else rng.randint(10, 20)):
        src = srcs[0] if rng.random() < 0.8 else srcs[1]
        if rng.random() < 0.2 and len(held[src]) < mx:
            rid = "w%d" % k
            lines.append("start %s %s" % (rid, src))
            held[src].append(rid)
        n = rng.randint(8, 16)
        pre = "b%d_" % k
        lines.append("pstart %d %s %s" % (n, src, pre))
        a = max(0, min(n, mx - len(held[src])))
        held[src] += [pre + str(i) for i in range(a)]
        if slow:
            rej += [pre + str(i) for i in range(a, n)]
        if rng.random() < 0.3:
            lines.append("inflight " + src)
        # let (almost always) everybody out again so that the next burst meets a source below its limit
        for s in srcs:
            keep = 1 if rng.random() < 0.1 and held[s] else 0
            while len(held[s]) > keep:
                rid = held[s].pop(rng.randrange(len(held[s])))
                lines.append("finish %s %s" % (rid, _exit(rng)))
        while rej and rng.random() < 0.9:
            lines.append("finish %s normal" % rej.pop(rng.randrange(len(rej))))
    return lines


def gen(rng, tier):
    n_scen = {"quick": 1500, "thorough": 12000, "search": 1500}.get(tier, 1500)
    for k in range(n_scen):
        if rng.random() < 0.25:
            yield _burst_scenario(rng, tier)
            continue
        mx = rng.choice([-1, 0, 0, 1, 1, 1, 2, 2, 2, 3, 3, 4, 5])
        builtin = rng.random() < 0.5
        slow = rng.random() < 0.33
        nsrc = rng.randint(1, 4)
        clientip = builtin and rng.random() < 0.35
        srcs = rng.sample(PEERS, nsrc) if clientip else ["s%d" % i for i in range(nsrc)]
        lines = [_cfg(rng, mx, builtin, slow, clientip)]
        odd = (not builtin) and rng.random() < 0.35       # scenario with amounts != 1
        live = []                                          # ids the generator believes are inside the handler
        rej = []                                           # ids the generator believes are parked in the error handler
        held = {}
        nid = 0
        n_ev = rng.randint(5, 60)
        p_start = rng.choice([0.5, 0.6, 0.7])
        for _ in range(n_ev):
            r = rng.random()
            if rej and rng.random() < 0.25:
                lines.append("finish %s %s" % (rej.pop(rng.randrange(len(rej))), _exit(rng)))
                continue
            if r < p_start or not live:
                if (live or rej) and rng.random() < 0.03:
                    rid = rng.choice([x[0] for x in live] + rej)   # protocol misuse: id still in use
                    lines.append("start %s %s" % (rid, rng.choice(srcs)))
                    continue
                if clientip and rng.random() < 0.95:
                    # same peer, a new connection: another source port every time
                    rid = "r%d" % nid
                    nid += 1
                    src = rng.choice(srcs) if rng.random() < 0.7 else srcs[0]
                    # port=none: RemoteAddr is the bare address (no port, no brackets), as a front middleware may leave it
                    ptok = "port=none" if rng.random() < 0.15 else "port=%d" % rng.randint(1024, 65535)
                    lines.append("start %s %s %s" % (rid, src, ptok) if rng.random() < 0.9 else "start %s %s" % (rid, src))
                    if held.get(src, 0) < mx:
                        held[src] = held.get(src, 0) + 1
                        live.append((rid, src, 1))
                    elif slow:
                        rej.append(rid)
                    continue
                if not odd and rng.random() < 0.04:
                    n = rng.randint(2, 5)
                    src = rng.choice(srcs)
                    pre = "p%d_" % nid
                    nid += 1
                    lines.append("pstart %d %s %s" % (n, src, pre))
                    a = max(0, min(n, mx - held.get(src, 0)))
                    for i in range(a):
                        live.append((pre + str(i), src, 1))
                    held[src] = held.get(src, 0) + a
                    if slow:
                        rej += [pre + str(i) for i in range(a, n)]
                    continue
                rid = "r%d" % nid
                nid += 1
                src = rng.choice(srcs) if rng.random() < 0.7 else srcs[0]
                if not builtin and rng.random() < 0.06:
                    lines.append("start %s %s err=1" % (rid, src))
                    continue
                amt = 1
                if odd and rng.random() < 0.5:
                    amt = rng.choice([0, 2, 2, 3, -1])
                lines.append("start %s %s" % (rid, src) + ("" if builtin or (amt == 1 and rng.random() < 0.7) else " amt=%d" % amt))
                if held.get(src, 0) < mx:
                    held[src] = held.get(src, 0) + amt
                    live.append((rid, src, amt))
                elif slow:
                    rej.append(rid)
            elif r < p_start + 0.04:
                lines.append("finish x%d normal" % rng.randint(0, 9))    # unknown id
            elif r < p_start + 0.12:
                lines.append("inflight " + rng.choice(srcs))
            else:
                j = rng.randrange(len(live)) if rng.random() < 0.7 else 0
                rid, src, amt = live.pop(j)
                held[src] -= amt
                lines.append("finish %s %s" % (rid, _exit(rng)))
        if rng.random() < 0.7:
            if rng.random() < 0.5:
                for rid in rej:
                    lines.append("finish %s normal" % rid)
            _tail(lines, [x[0] for x in live], mx, "a", rng, srcs[0])
            for s in srcs[:2]:
                lines.append("inflight " + s)
        yield lines


def _interleavings(n, mx, nsrc, modes, slow=False):
    """every maximal sequence: exactly n starts (first from s0), every admitted request finished;
    a finish ends the oldest running request of the chosen source"""
    srcs = ["s%d" % i for i in range(nsrc)]
    out = []

    rej = {s: [] for s in srcs}

    def rec(lines, live, started, nfin):
        if started == n and not any(live.values()) and not any(rej.values()):
            out.append(list(lines))
            return
        for s in srcs:
            if rej[s]:
                rid = rej[s].pop(0)
                lines.append("finish %s normal" % rid)
                rec(lines, live, started, nfin)
                lines.pop()
                rej[s].insert(0, rid)
        if started < n:
            for s in (srcs[:1] if started == 0 else srcs):
                rid = "r%d" % started
                lines.append("start %s %s" % (rid, s))
                adm = len(live[s]) < mx
                if adm:
                    live[s].append(rid)
                elif slow:
                    rej[s].append(rid)
                rec(lines, live, started + 1, nfin)
                if adm:
                    live[s].pop()
                elif slow:
                    rej[s].pop()
                lines.pop()
        for s in srcs:
            if live[s]:
                rid = live[s].pop(0)
                pk = PANICS[(nfin + started) % len(PANICS)]
                mode = {"n": "normal", "p": pk, "a": pk if nfin % 2 == 0 else "normal"}[modes]
                lines.append("finish %s %s" % (rid, mode))
                rec(lines, live, started, nfin + 1)
                lines.pop()
                live[s].insert(0, rid)

    rec([], {s: [] for s in srcs}, 0, 0)
    return out


def _as_clientip(lines):
    """the same interleaving with the stock client.ip extractor: two IPv6 peers, every connection from another port"""
    out = [lines[0].split(" ext=builtin")[0] + " ext=clientip" + (" slowreject=1" if "slowreject=1" in lines[0] else "")]
    for i, l in enumerate(lines[1:]):
        f = l.split()
        if f[0] == "start":
            f[2] = {"s0": "2001:db8::1", "s1": "fe80::1%eth0"}[f[2]]
            f.append("port=%d" % (5000 + i))
        out.append(" ".join(f))
    return out


def exhaustive(tier):
    if tier != "thorough":
        return
    k = 0
    for mx in (0, 1, 2):
        for nsrc in (1, 2):
            for n in range(1, 7):
                for modes in ("n", "p", "a"):
                    if mx == 0 and modes != "n":
                        continue
                    for body in _interleavings(n, mx, nsrc, modes):
                        k += 1
                        lines = ["cfg max=%d ext=builtin%s" % (mx, EXTRAS[k % len(EXTRAS)])] + body
                        _tail(lines, [], mx, "z")
                        yield _as_clientip(lines) if k % 5 == 4 else lines
    for mx in (0, 1, 2):
        for nsrc in (1, 2):
            for n in range(1, 6):
                for modes in ("n", "a"):
                    if mx == 0 and modes != "n":
                        continue
                    for body in _interleavings(n, mx, nsrc, modes, slow=True):
                        k += 1
                        lines = ["cfg max=%d ext=builtin slowreject=1%s" % (mx, EXTRAS[k % len(EXTRAS)])] + body
                        for i in range(max(mx, 0) + 1):
                            lines.append("start qz%d s0" % i)
                        yield _as_clientip(lines) if k % 5 == 4 else lines


# ------------------------------------------------------------------------------------------ monitor
def _walk(ops, outs):
    """re-count from the raw log; yields violations. Restates the property, never calls the model:
    * bound: while every arrival since the last quiescent moment carried an amount >= 1, no source has more than max requests inside the protected handler;
    * 429 iff full: while every such arrival carried amount 1, an arrival is turned away (429, or `rejecting` = parked in the slow error handler) iff the
      monitor's own count of requests of that source *inside the protected handler* is max (>= max for max<=0), else admitted; requests that are being
      rejected, or have been, do not count;
    * a burst of n simultaneous unit arrivals of a source with c inside: exactly min(n, max-c) admitted, the rest turned away;
    * every finish of a running request is answered `released`, on both exits; of a parked rejection `rejected-done`;
    * the harness-side count observed inside the handler equals the monitor's count;
    * quiescence: when nobody is inside the handler, the bookkeeping above restarts from scratch (so max further arrivals must be admitted);
    * extractor error <=> err 500 and nothing admitted."""
    bad = []
    mx = None
    slow = False
    same = True
    live = {}          # id -> src: inside the protected handler
    rej = {}           # id -> src: parked inside the slow error handler
    cnt = {}
    pos = one = True
    stats = {"429": 0, "rel": 0, "adm_after_rel": 0, "panic": 0, "burst": 0}
    for l, o in zip(ops, outs):
        f = l.split()
        if not f or l.startswith("#"):
            continue
        if f[0] == "cfg":
            mx = 0
            slow = "slowreject=1" in f
            kv = dict(t.split("=", 1) for t in f[1:] if "=" in t)
            mx = int(kv.get("max", "0"))
            # built-in header extractor: header names are case-insensitive, so any spelling of the same name identifies the client;
            # a client that sends another header has no identity (token "")
            same = kv.get("ext") != "builtin" or kv.get("hvar", "X-Src").lower() == kv.get("hsend", "X-Src").lower()
            live, rej, cnt, pos, one = {}, {}, {}, True, True
            continue
        if o in ("bad-op", "dup", "unknown"):
            if o == "unknown" and f[0] == "finish" and (f[1] in live or f[1] in rej):
                bad.append("lost: finish of request %s, which has not ended, answered unknown" % f[1])
            if o == "dup" and f[0] == "start" and not (f[1] in live or f[1] in rej):
                bad.append("dup: fresh id %s answered dup" % f[1])
            if o == "dup" and f[0] == "pstart" and not any((f[3] + str(i)) in live or (f[3] + str(i)) in rej for i in range(int(f[1]))):
                bad.append("dup: burst with fresh ids %s* answered dup" % f[3])
            continue
        if f[0] == "start":
            rid, src = f[1], (f[2] if same else "")
            amt, err = 1, False
            for t in f[3:]:
                if t.startswith("amt="):
                    amt = int(t[4:])
                if t == "err=1":
                    err = True
            if err:
                if o != "err 500":
                    bad.append("extract-error: request whose source cannot be identified was answered %r, expected err 500" % o)
                continue
            if o not in ("admitted", "429", "rejecting"):
                bad.append("status: arrival of %s answered %r" % (src, o))
                continue
            c = cnt.get(src, 0)
            if amt < 1:
                pos = False
            if amt != 1:
                one = False
            turned_away = o in ("429", "rejecting")
            if one:
                if turned_away and c < mx:
                    bad.append("reject-not-full: source %s has %d of max %d requests inside the handler (%d rejections in progress), arrival %s answered %s"
                               % (src, c, mx, sum(1 for v in rej.values() if v == src), rid, o))
                if not turned_away and c >= mx:
                    bad.append("over-limit: source %s already has %d of max %d requests inside the handler, arrival %s answered %s" % (src, c, mx, rid, o))
            if o == "rejecting" and not slow:
                bad.append("status: arrival parked in an error handler that was not configured")
            if o == "admitted":
                live[rid] = src
                cnt[src] = c + 1
                if stats["rel"]:
                    stats["adm_after_rel"] += 1
                if pos and cnt[src] > max(mx, 0):
                    m = "over-limit: source %s has %d requests inside the handler, max %d" % (src, cnt[src], mx)
                    if not (bad and bad[-1].startswith("over-limit")):
                        bad.append(m)
            else:
                stats["429"] += 1
                if o == "rejecting":
                    rej[rid] = src
        elif f[0] == "pstart":
            n, src, pre = int(f[1]), (f[2] if same else ""), f[3]
            m = re.match(r"^admitted=(\d+) (rejected|rejecting)=(\d+)$", o)
            if not m or (m.group(2) == "rejecting") != slow:
                bad.append("status: burst of %d arrivals of %s answered %r" % (n, src, o))
                continue
            a, r = int(m.group(1)), int(m.group(3))
            c = cnt.get(src, 0)
            stats["burst"] += 1
            stats["429"] += r
            if a + r != n:
                bad.append("lost: burst of %d arrivals of %s: %d admitted + %d turned away" % (n, src, a, r))
            room = max(mx - c, 0)
            if pos and a > room:
                bad.append("over-limit: %d simultaneous arrivals of source %s, which has %d of max %d requests inside the handler: %d admitted (%d inside now)"
                           % (n, src, c, mx, a, c + a))
            elif one and a < min(n, room):
                bad.append("reject-not-full: %d simultaneous arrivals of source %s, which has %d of max %d inside: only %d admitted, %d turned away" % (n, src, c, mx, a, r))
            for i in range(a):
                live[pre + str(i)] = src
            cnt[src] = c + a
            if a and stats["rel"]:
                stats["adm_after_rel"] += 1
            if slow:
                for i in range(a, a + r):
                    rej[pre + str(i)] = src
        elif f[0] == "finish":
            rid = f[1]
            if rid in live:
                if o != "released":
                    bad.append("exit: finish %s of running request %s answered %r" % (f[2], rid, o))
                src = live.pop(rid)
                cnt[src] -= 1
                stats["rel"] += 1
                if f[2].startswith("panic"):
                    stats["panic"] += 1
                if not live:
                    pos = one = True       # quiescent: the limiter must be as new
            elif rid in rej:
                if o != "rejected-done":
                    bad.append("exit: end of the rejection of %s answered %r" % (rid, o))
                rej.pop(rid)
            elif o in ("released", "rejected-done"):
                bad.append("exit: finish of %s, which is neither inside the handler nor being rejected, answered %s" % (rid, o))
        elif f[0] == "inflight":
            if not same:
                continue
            if o != str(cnt.get(f[1], 0)):
                bad.append("observed: %s requests of %s observed inside the handler, the log says %d" % (o, f[1], cnt.get(f[1], 0)))
            elif pos and cnt.get(f[1], 0) > max(mx, 0):
                bad.append("over-limit: %s requests of %s observed inside the handler, max %d" % (o, f[1], mx))
        if len(bad) > 5:
            break
    return bad, stats


def monitor(ops, outs):
    return _walk(ops, outs)[0]


def nontrivial(ops, outs):
    st = _walk(ops, outs)[1]
    return st["429"] > 0 and st["rel"] > 0 and st["adm_after_rel"] > 0


def describe(ops, outs, hist):
    for l, o in zip(ops, outs):
        f = l.split()
        if not f or l.startswith("#"):
            continue
        k = f[0]
        if k == "finish":
            k += ":" + f[2]
        if k == "start" and any(t.startswith("amt=") and t != "amt=1" for t in f[3:]):
            k += ":amt!=1"
        if k == "cfg":
            k += ":" + " ".join(t for t in f[1:] if not t.startswith("max="))
        if k == "pstart":
            o = "burst"
        hist["op:" + k] += 1
        hist["out:" + o.replace(" ", "_")[:24]] += 1


MANIFEST = {
    "text": ("Proof: Lean 4 theorems over the executable model ConnLimit.step (ServeHTTP cut at its lock-atomic steps acquire / deferred release): "
             "C04_inflight_le_max (every history with extractor amounts >= 1, every prefix, every source: requests inside the handler <= max), "
             "C04_reject_iff_full (unit amounts: turned away iff the source already has max inside the protected handler, admitted otherwise; rejections in "
             "progress do not count), C04_slots_exact (table entry = what the running requests hold, after every history), C04_rejection_holds_nothing (an "
             "arrival that is turned away, at once or through a slow ErrorHandler, and the end of such a rejection leave the limiter untouched), C04_release_on_every_exit (return and panic give back the same slot and lead to the same state), "
             "C04_quiescent_restores_max (no request inside => limiter equals its initial state => max fresh arrivals admitted); by invariants and induction "
             "on histories, no bound on lengths, sources or ids. Tie to connlimit/connlimit.go: the real ConnLimiter is driven in-process through "
             "deterministic interleavings (handlers blocked on channels, a parking ErrorHandler for rejections in progress, panics recovered like net/http), "
             "plus bursts of simultaneous arrivals lined up by a barrier inside the extractor, and compared line by line with the compiled model; "
             "thorough: every maximal interleaving of <= 6 requests (<= 5 with parked rejections) over <= 2 sources with limit <= 2, -race build."),
    "note": ("Trusted: Lean kernel; propext/Quot.sound; hand-written model validated on generated and enumerated scenarios only; acquire/release assumed "
             "atomic (mutex; C09 lock facts and -race runs); the bound theorem needs extractor amounts >= 1 (the built-in extractors return 1, C19; a custom "
             "extractor returning 0 or a negative amount is never limited — the code and the model agree on that); int64 overflow unmodelled."),
    "technique": "Lean 4 proof (accounting invariant over all interleavings) over executable model + differential correspondence with connlimit.ConnLimiter under controlled interleavings",
}
