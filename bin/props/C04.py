"""C04 — per-source concurrency never exceeds the limit; every admitted request returns its slot."""

ID = "C04"
HARNESS = "c04"
DRIVER = "c04"
PROPS_MODULE = "OxyModel.Props.C04"
AUDIT = "OxyModel/Audit/C04.lean"
THEOREMS = ["C04.C04_inflight_le_max", "C04.C04_reject_iff_full", "C04.C04_slots_exact",
            "C04.C04_release_on_every_exit", "C04.C04_quiescent_restores_max"]
RACE = True
JOBS = 12
RULE = ("scenario = deterministic interleaving of start/finish(normal|panic) events of up to 40 requests from 1-4 sources "
        "against limits -1..5 (handlers block on channels), built-in header extractor or a custom extractor with amounts "
        "0..3/-1 and extractor errors, usually followed by a drain and max+1 fresh arrivals; thorough additionally enumerates "
        "every maximal interleaving of <= 6 requests over <= 2 sources with limit 0..2 (up to the symmetry that the limiter "
        "cannot see request ids: a finish ends the oldest running request of the chosen source; exits all-normal, all-panic "
        "or alternating); non-trivial = at least one 429, one release and one admission after a release")
ASSUMPTIONS = [
    "acquire and release are atomic (each runs entirely under ConnLimiter.mutex): C09 lock-discipline obligation; the thorough tier runs the harness under -race",
    "counters fit in int64",
    "the bound on the number of running requests needs extractor amounts >= 1 (theorem hypothesis; amount 0 or negative is never limited by the code — exercised and agreed with the model, not a property violation because the built-in extractors always return 1, C19)",
    "a panic inside the protected handler is recovered by the caller of ServeHTTP (net/http does so per connection)",
]
TRUSTED = ["harness handler that blocks on channels realises the chosen interleaving (start returns only after the request is inside the handler or has been answered)"]


# ------------------------------------------------------------------------------------------ generation
def _tail(lines, live, mx, tag, rng=None):
    """drain, then max+1 fresh arrivals of one source"""
    for i, rid in enumerate(list(live)):
        mode = "panic" if (rng.random() < 0.5 if rng else i % 2) else "normal"
        lines.append("finish %s %s" % (rid, mode))
    for i in range(max(mx, 0) + 1):
        lines.append("start q%s%d s0" % (tag, i))


def gen(rng, tier):
    n_scen = {"quick": 1500, "thorough": 12000, "search": 1500}.get(tier, 1500)
    for k in range(n_scen):
        mx = rng.choice([-1, 0, 0, 1, 1, 1, 2, 2, 2, 3, 3, 4, 5])
        builtin = rng.random() < 0.5
        nsrc = rng.randint(1, 4)
        srcs = ["s%d" % i for i in range(nsrc)]
        lines = ["cfg max=%d ext=%s" % (mx, "builtin" if builtin else "custom")]
        odd = (not builtin) and rng.random() < 0.35       # scenario with amounts != 1
        live = []                                          # ids the generator believes are inside the handler
        held = {}
        nid = 0
        n_ev = rng.randint(5, 60)
        p_start = rng.choice([0.5, 0.6, 0.7])
        for _ in range(n_ev):
            r = rng.random()
            if r < p_start or not live:
                if live and rng.random() < 0.03:
                    rid = rng.choice(live)[0]              # protocol misuse: id still running
                    lines.append("start %s %s" % (rid, rng.choice(srcs)))
                    continue
                rid = "r%d" % nid
                nid += 1
                src = rng.choice(srcs) if rng.random() < 0.7 else srcs[0]
                if not builtin and rng.random() < 0.06:
                    lines.append("start %s %s err=1" % (rid, src))
                    continue
                amt = 1
                if odd and rng.random() < 0.5:
                    amt = rng.choice([0, 2, 2, 3, -1])
                lines.append("start %s %s" % (rid, src) + ("" if builtin or (amt == 1 and rng.random() < 0.7) else " amt=%d" % amt))
                if held.get(src, 0) < mx:
                    held[src] = held.get(src, 0) + amt
                    live.append((rid, src, amt))
            elif r < p_start + 0.04:
                lines.append("finish x%d normal" % rng.randint(0, 9))    # unknown id
            elif r < p_start + 0.12:
                lines.append("inflight " + rng.choice(srcs))
            else:
                j = rng.randrange(len(live)) if rng.random() < 0.7 else 0
                rid, src, amt = live.pop(j)
                held[src] -= amt
                lines.append("finish %s %s" % (rid, rng.choice(["normal", "panic"])))
        if rng.random() < 0.7:
            _tail(lines, [x[0] for x in live], mx, "a", rng)
            for s in srcs[:2]:
                lines.append("inflight " + s)
        yield lines


def _interleavings(n, mx, nsrc, modes):
    """every maximal sequence: exactly n starts (first from s0), every admitted request finished;
    a finish ends the oldest running request of the chosen source"""
    srcs = ["s%d" % i for i in range(nsrc)]
    out = []

    def rec(lines, live, started, nfin):
        if started == n and not any(live.values()):
            out.append(list(lines))
            return
        if started < n:
            for s in (srcs[:1] if started == 0 else srcs):
                rid = "r%d" % started
                lines.append("start %s %s" % (rid, s))
                adm = len(live[s]) < mx
                if adm:
                    live[s].append(rid)
                rec(lines, live, started + 1, nfin)
                if adm:
                    live[s].pop()
                lines.pop()
        for s in srcs:
            if live[s]:
                rid = live[s].pop(0)
                mode = {"n": "normal", "p": "panic", "a": "panic" if nfin % 2 == 0 else "normal"}[modes]
                lines.append("finish %s %s" % (rid, mode))
                rec(lines, live, started, nfin + 1)
                lines.pop()
                live[s].insert(0, rid)

    rec([], {s: [] for s in srcs}, 0, 0)
    return out


def exhaustive(tier):
    if tier != "thorough":
        return
    for mx in (0, 1, 2):
        for nsrc in (1, 2):
            for n in range(1, 7):
                for modes in ("n", "p", "a"):
                    if mx == 0 and modes != "n":
                        continue
                    for body in _interleavings(n, mx, nsrc, modes):
                        lines = ["cfg max=%d ext=builtin" % mx] + body
                        _tail(lines, [], mx, "z")
                        yield lines


# ------------------------------------------------------------------------------------------ monitor
def _walk(ops, outs):
    """re-count from the raw log; yields violations. Restates the property, never calls the model:
    * bound: while every arrival since the last quiescent moment carried an amount >= 1, no source has more than max requests inside the handler;
    * 429 iff full: while every such arrival carried amount 1, an arrival is answered 429 iff the monitor's own count for that source is max (>= max for max<=0), else admitted;
    * every finish of a running request is answered `released`, on both exits;
    * the harness-side count observed inside the handler equals the monitor's count;
    * quiescence: when nobody is inside, the bookkeeping above restarts from scratch (so max further arrivals must be admitted);
    * extractor error <=> err 500 and nothing admitted."""
    bad = []
    mx = None
    live = {}          # id -> src
    cnt = {}
    pos = one = True
    stats = {"429": 0, "rel": 0, "adm_after_rel": 0, "panic": 0}
    for l, o in zip(ops, outs):
        f = l.split()
        if not f or l.startswith("#"):
            continue
        if f[0] == "cfg":
            mx = 0
            for t in f[1:]:
                if t.startswith("max="):
                    mx = int(t[4:])
            live, cnt, pos, one = {}, {}, True, True
            continue
        if o in ("bad-op", "dup", "unknown"):
            if o == "unknown" and f[0] == "finish" and f[1] in live:
                bad.append("lost: finish of running request %s answered unknown" % f[1])
            if o == "dup" and not (f[0] == "start" and f[1] in live):
                bad.append("dup: fresh id %s answered dup" % f[1])
            continue
        if f[0] == "start":
            rid, src = f[1], f[2]
            amt, err = 1, False
            for t in f[3:]:
                if t.startswith("amt="):
                    amt = int(t[4:])
                if t == "err=1":
                    err = True
            if err:
                if o != "err 500":
                    bad.append("extract-error: request whose source cannot be identified was answered %r, expected err 500" % o)
                continue
            if o.startswith("err") or o.startswith("status") or o.startswith("admitted-"):
                bad.append("status: arrival of %s answered %r" % (src, o))
                continue
            c = cnt.get(src, 0)
            if amt < 1:
                pos = False
            if amt != 1:
                one = False
            if one:
                want = "429" if c >= mx else "admitted"
                if o != want:
                    if o == "429":
                        bad.append("reject-not-full: source %s has %d of max %d requests inside the handler, arrival %s answered 429" % (src, c, mx, rid))
                    else:
                        bad.append("over-limit: source %s already has %d of max %d requests inside the handler, arrival %s answered %s" % (src, c, mx, rid, o))
            if o == "admitted":
                live[rid] = src
                cnt[src] = c + 1
                if stats["rel"]:
                    stats["adm_after_rel"] += 1
                if pos and cnt[src] > max(mx, 0):
                    m = "over-limit: source %s has %d requests inside the handler, max %d" % (src, cnt[src], mx)
                    if not (bad and bad[-1].startswith("over-limit")):
                        bad.append(m)
            elif o == "429":
                stats["429"] += 1
            else:
                bad.append("status: arrival answered %r" % o)
        elif f[0] == "finish":
            rid = f[1]
            if rid in live:
                if o != "released":
                    bad.append("exit: finish %s of running request %s answered %r" % (f[2], rid, o))
                src = live.pop(rid)
                cnt[src] -= 1
                stats["rel"] += 1
                if f[2] == "panic":
                    stats["panic"] += 1
                if not live:
                    pos = one = True       # quiescent: the limiter must be as new
            elif o == "released":
                bad.append("exit: finish of %s which never entered the handler answered released" % rid)
        elif f[0] == "inflight":
            if o != str(cnt.get(f[1], 0)):
                bad.append("observed: %s requests of %s observed inside the handler, the log says %d" % (o, f[1], cnt.get(f[1], 0)))
            elif pos and cnt.get(f[1], 0) > max(mx, 0):
                bad.append("over-limit: %s requests of %s observed inside the handler, max %d" % (o, f[1], mx))
        if len(bad) > 5:
            break
    return bad, stats


def monitor(ops, outs):
    return _walk(ops, outs)[0]


def nontrivial(ops, outs):
    st = _walk(ops, outs)[1]
    return st["429"] > 0 and st["rel"] > 0 and st["adm_after_rel"] > 0


def describe(ops, outs, hist):
    for l, o in zip(ops, outs):
        f = l.split()
        if not f or l.startswith("#"):
            continue
        k = f[0]
        if k == "finish":
            k += ":" + f[2]
        if k == "start" and any(t.startswith("amt=") and t != "amt=1" for t in f[3:]):
            k += ":amt!=1"
        if k == "cfg":
            k += ":" + " ".join(f[1:])[:24]
        hist["op:" + k] += 1
        hist["out:" + o.replace(" ", "_")[:24]] += 1


MANIFEST = {
    "text": ("Proof: Lean 4 theorems over the executable model ConnLimit.step (ServeHTTP cut at its lock-atomic steps acquire / deferred release): "
             "C04_inflight_le_max (every history with extractor amounts >= 1, every prefix, every source: requests inside the handler <= max), "
             "C04_reject_iff_full (unit amounts: 429 iff the source already has max inside, admitted otherwise), C04_slots_exact (table entry = what the "
             "running requests hold, after every history), C04_release_on_every_exit (return and panic give back the same slot and lead to the same state), "
             "C04_quiescent_restores_max (no request inside => limiter equals its initial state => max fresh arrivals admitted); by invariants and induction "
             "on histories, no bound on lengths, sources or ids. Tie to connlimit/connlimit.go: the real ConnLimiter is driven in-process through "
             "deterministic interleavings (handlers blocked on channels, panics recovered like net/http) and compared line by line with the compiled model; "
             "thorough: every maximal interleaving of <= 6 requests over <= 2 sources with limit <= 2, -race build."),
    "note": ("Trusted: Lean kernel; propext/Quot.sound; hand-written model validated on generated and enumerated scenarios only; acquire/release assumed "
             "atomic (mutex; C09 lock facts and -race runs); the bound theorem needs extractor amounts >= 1 (the built-in extractors return 1, C19; a custom "
             "extractor returning 0 or a negative amount is never limited — the code and the model agree on that); int64 overflow unmodelled."),
    "technique": "Lean 4 proof (accounting invariant over all interleavings) over executable model + differential correspondence with connlimit.ConnLimiter under controlled interleavings",
}
