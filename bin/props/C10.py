"""C10 — the rebalancer shifts share only away from outliers and never starves a server."""
import math
from fractions import Fraction
from functools import reduce

ID = "C10"
HARNESS = "c02"
DRIVER = "c02"
PROPS_MODULE = "OxyModel.Props.C10"
AUDIT = "OxyModel/Audit/C10.lean"
THEOREMS = ["C10.C10_range", "C10.C10_servable", "C10.C10_once_per_backoff", "C10.C10_mixed_share_not_up",
            "C10.C10_outlier_means_mixed", "C10.C10_outlier_share_not_up", "C10.C10_negative_ratings_counterexample",
            "C10.C10_membership_restores", "C10.C10_timer_bound", "C10.C10_outlier_loses_partial",
            "C10.C10_outlier_loses_within_partial", "C10.C10_outlier_loses_counterexample", "C10.C10_converges_in_6"]
RACE = False
RULE = ("scenario = a Rebalancer (scripted meters, exported API only) over a RoundRobin with 1-6 servers of configured weight 0..5000, "
        "driven by scripts of ratings (failing, recovering, flapping, all failing, exact dyadic ties at the cut, general rationals), readiness "
        "flags, clock steps around the back-off and membership / weight changes, one real ServeHTTP per step (`serve-serve`: a second request issued "
        "while the first one's weight adjustment finishes pushing weights into the balancer - the harness holds the rebalancer's last balancer upsert); "
        "non-trivial = at least two weight adjustments made by requests, one of them with an outlier present")
ASSUMPTIONS = ["ratings are finite float64 values, modelled by exact rationals. The scenarios use (a) dyadic rationals (denominator 64) on which the float64 "
               "arithmetic of SplitFloat64 (sums, halves, x1.5) is exact, exact ties at the cut included, and (b) general rationals (denominators 3, 5, 7, 10, "
               "100, 1000) every one of which is at least 2^-40 (relative) away from the cut at each request - readings that come closer are snapped to "
               "multiples of 1/64 by the generator (an extra visible `rate` line); sub-ulp float behaviour is not modelled",
               "Meter.Rating() is >= 0: the built-in meter (codeMeter over memmetrics.RatioCounter) returns a ratio in [0,1]. Non-negativity is an explicit "
               "hypothesis of C10_outlier_share_not_up / C10_outlier_means_mixed; a custom Meter returning negative ratings can make every server an outlier, "
               "then convergeWeights runs and an outlier's share can rise (C10_negative_ratings_counterexample). The scenarios use ratings >= 0",
               "the clause 'unless every other server is already at the cap' is proved (and holds in the code) with 'other server' read as 'other server rated good': "
               "only good servers grow. The literal reading fails (C10_outlier_loses_counterexample, known finding outlier_unless_only_good)",
               "weights fit in Go int; the frozen clock only moves forward",
               "adjustWeights / UpsertServer / RemoveServer are atomic steps (Rebalancer.mtx held: C09 lock facts)"]
TRUSTED = ["scripted Meter of harness/cmd/c02 (Rating/IsReady set by the scenario)"]

CAP = 4096
SEC = 10 ** 9


def _srv(i):
    # every third server has a mixed-case host: server identity is (scheme, host, path) as written
    return "http App-%d.Example /" % i if i % 3 == 2 else "http s%d /" % i


def _dyadic(f):
    d = f.denominator
    return d & (d - 1) == 0 and d <= 1 << 20 and abs(f.numerator) < 1 << 30


def _float_safe(vals):
    """float64 SplitFloat64 decides like exact arithmetic: all readings dyadic, or every reading at least
    2^-40 (relative) away from the cut"""
    if all(_dyadic(v) for v in vals) or not vals:
        return True
    nv = vals + [Fraction(0)] if len(vals) % 2 == 0 else list(vals)
    m = _median(nv)
    mad = _median([abs(v - m) for v in nv])
    cut = (m + mad) * Fraction(3, 2)
    return all(abs(v - cut) * (1 << 40) >= max(abs(v), abs(cut), Fraction(1, 1 << 20)) for v in vals)


def gen(rng, tier):
    n_scen = {"quick": 300, "thorough": 2500, "search": 400}.get(tier, 300)
    for _ in range(n_scen):
        B = rng.choice([1, 1000, 10 ** 6, SEC, 10 * SEC, 1900 * 10 ** 6, 2 * SEC + 1, 1500 * 10 ** 6])   # incl. fractional back-offs above 1 s
        ready0 = 1 if rng.random() < 0.85 else 0
        lines = ["cfg via=rb backoff=%d ready=%d" % (B, ready0)]
        n = rng.choice([1, 2, 2, 3, 3, 4, 5, 6])
        style = rng.random()
        if style < 0.4:
            pickw = lambda: 1
        elif style < 0.6:
            pickw = lambda: rng.choice([1, 2, 2, 3, 4, 6])
        else:
            pickw = lambda: rng.choice([0, 1, 2, 3, 5, 7, 64, 100, 1024, 1025, 4095, 4096, 4097, 5000])
        alive = set()
        cur = {}      # current rating of every server's meter (a new meter starts at 0)
        for i in range(n):
            w = pickw()
            lines.append("upsert %s w=%d" % (_srv(i), w) if rng.random() < 0.9 else "upsert " + _srv(i))
            alive.add(i)
            cur[i] = Fraction(0)
        lines.append("weights")
        long_ = tier == "thorough" and rng.random() < 0.1
        for _ in range(rng.randint(3, 12) * (8 if long_ else 1)):
            phase = rng.random()
            # a rating script for this phase
            if phase < 0.35:      # some servers fail
                bad = set(i for i in alive if rng.random() < 0.4)
                rate = {i: (rng.choice([32, 48, 64, 20]) if i in bad else rng.choice([0, 0, 1, 2])) for i in alive}
            elif phase < 0.55:    # all equal (recovered / all failing alike)
                v = rng.choice([0, 0, 8, 64])
                rate = {i: v for i in alive}
            elif phase < 0.7:     # exact ties around the cut
                v = rng.choice([2, 4, 8])
                rate = {i: rng.choice([v, v, 3 * v // 2, 3 * v, 3 * v + 1, 0]) for i in alive}
            elif phase < 0.8:     # noise
                rate = {i: rng.randint(0, 64) for i in alive}
            elif phase < 0.9:     # general rationals (not exact in float64): kept away from the cut below
                d = rng.choice([3, 5, 7, 10, 100, 1000])
                rate = {i: Fraction(rng.randint(0, d), d) * 64 for i in alive}
            else:
                rate = {}
            for i, v in rate.items():
                f = Fraction(v) / 64
                cur[i] = f
                lines.append("rate %s %d/%d" % (_srv(i), f.numerator, f.denominator))
            if rng.random() < 0.12 and alive:
                lines.append("ready %s %d" % (_srv(rng.choice(sorted(alive))), rng.randint(0, 1)))
            if rng.random() < 0.15 and alive:
                for i in alive:
                    lines.append("ready %s 1" % _srv(i))
            for _ in range(rng.randint(1, 8)):
                lines.append("adv %d" % rng.choice([0, 1, B // 2, B - 1 if B > 1 else 0, B, B + 1, B + 1, 2 * B + 1, SEC + 1]))
                if not _float_safe([cur[i] for i in alive]):
                    # a non-dyadic rating within 2^-40 (relative) of the cut: float64 and exact arithmetic could
                    # decide differently; snap the non-dyadic readings to multiples of 1/64 (nudged, not hidden)
                    for i in sorted(alive):
                        if not _dyadic(cur[i]):
                            cur[i] = Fraction(round(cur[i] * 64), 64)
                            lines.append("rate %s %d/%d" % (_srv(i), cur[i].numerator, cur[i].denominator))
                # sometimes a second request is issued while the first one's adjustment completes its weight push
                lines.append("serve" if rng.random() < 0.85 else "serve-serve")
                lines.append("weights")
            r = rng.random()
            if r < 0.12:
                i = rng.randrange(n + 1)
                lines.append("upsert %s w=%d" % (_srv(i), pickw()) if rng.random() < 0.8 else "upsert " + _srv(i))
                if i not in alive:
                    cur[i] = Fraction(0)
                alive.add(i)
                lines.append("weights")
            elif r < 0.2:
                i = rng.randrange(n + 1)
                # sometimes the removal is issued while a request's weight adjustment is pushing weights into the balancer
                if rng.random() < 0.3:
                    # ... of an adjustment that does happen: every meter ready and the back-off over
                    for j in sorted(alive):
                        lines.append("ready %s 1" % _srv(j))
                    lines.append("adv %d" % (B + 1))
                    lines.append("serve-remove " + _srv(i))
                else:
                    lines.append("remove " + _srv(i))
                alive.discard(i)
                cur.pop(i, None)
                lines.append("weights")
        yield lines


# ---------------------------------------------------------------- the statement, on the ServerWeight stream

def _median(vs):
    s = sorted(vs)
    l = len(s)
    return s[l // 2] if l % 2 else (s[l // 2 - 1] + s[l // 2]) / 2


def outliers(ratings):
    """value > (median + median absolute deviation) * 1.5, with a zero sentinel for even counts"""
    vals = list(ratings.values())
    nv = vals + [Fraction(0)] if len(vals) % 2 == 0 else vals
    m = _median(nv)
    mad = _median([abs(v - m) for v in nv])
    cut = (m + mad) * Fraction(3, 2)
    return set(k for k, v in ratings.items() if v > cut)


def _parse_w(o):
    d = {}
    for t in o.split()[1:]:
        u, w = t.rsplit("=", 1)
        d[u] = int(w)
    return d


def _ustr(f):
    return "%s||%s|%s|" % (f[0], f[1], "" if f[2] == "-" else f[2])


def _proportional(w, conf):
    ks = list(conf)
    return all(w[a] * conf[b] == w[b] * conf[a] for a in ks for b in ks)


def _expand(ops, outs):
    """`serve-serve` = request, ServerWeight reading, request, ServerWeight reading (same clock)"""
    o2, u2 = [], []
    for l, o in zip(ops, outs):
        if l.split() and l.split()[0] == "serve-serve" and o.count(" ; ") == 3:
            a1, w1, a2, w2 = o.split(" ; ")
            o2 += ["serve", "weights", "serve", "weights"]
            u2 += [a1, w1, a2, w2]
        elif l.split() and l.split()[0] == "serve-remove" and len(l.split()) == 4 and o.count(" ; ") == 1:
            # a request, then (atomically after it) the removal that was issued while its adjustment pushed weights
            a, b = o.split(" ; ")
            o2 += ["serve", "remove " + " ".join(l.split()[1:])]
            u2 += [a, b]
        else:
            o2.append(l)
            u2.append(o)
    return o2, u2


def monitor(ops, outs):
    ops, outs = _expand(ops, outs)
    bad = []
    B = 10 * SEC
    ready0 = False
    conf, rating, ready = {}, {}, {}
    now = 0
    last_w = None            # last ServerWeight vector seen
    last_adj = None          # time of the last adjustment (weight change made by a request) since the last membership change
    timer_ub = None          # the timer is certainly <= this
    pending = None           # facts about the serve whose effect the next `weights` line shows
    conv = 0                 # adjustments that were certain to run with no outlier rated, since ratings stopped differing
    for l, o in zip(ops, outs):
        if l.startswith("#"):
            continue
        f = l.split()
        op = f[0]
        if op == "cfg":
            for t in f[1:]:
                if t.startswith("backoff=") and int(t[8:]) != 0:
                    B = int(t[8:])
                if t == "ready=1":
                    ready0 = True
            continue
        if op == "adv":
            now += int(f[1])
        elif op == "upsert" and o == "ok":
            u = _ustr(f[1:])
            w = None
            for t in f[4:]:
                if t.startswith("w="):
                    w = int(t[2:])
            if u in conf:
                if w is not None:
                    conf[u] = w
            else:
                conf[u] = w if w else 1
                rating[u] = Fraction(0)
                ready[u] = ready0
            pending = ("admin",)
            last_adj = None
            timer_ub = now - SEC
            conv = 0
        elif op == "remove" and o == "ok":
            u = _ustr(f[1:])
            for d in (conf, rating, ready):
                d.pop(u, None)
            pending = ("admin",)
            last_adj = None
            timer_ub = now - SEC
            conv = 0
        elif op == "rate" and o == "ok":
            n, d = f[4].split("/")
            rating[_ustr(f[1:])] = Fraction(int(n), int(d))
        elif op == "ready" and o == "ok":
            ready[_ustr(f[1:])] = f[4] == "1"
        elif op == "serve":
            if any(conf.values()) and not o.startswith("200 "):
                bad.append("servable: the pool has a server of positive configured weight but the request failed: %s" % o)
            if o.startswith("200 "):
                out = outliers(rating) if len(rating) >= 1 else set()
                can = len(conf) >= 2 and all(ready.values())
                certain = can and timer_ub is not None and timer_ub < now
                if pending and pending[0] == "serve":
                    # two requests with no ServerWeight reading in between: changes cannot be attributed
                    last_w, last_adj = None, None
                pending = ("serve", now, out, can, certain)
                timer_ub = max(timer_ub, now + B) if timer_ub is not None else now + B
                if out:
                    conv = 0
                elif certain:
                    conv += 1
            else:
                pending = None
        elif op == "weights":
            w = _parse_w(o)
            if set(w) != set(conf):
                bad.append("membership: ServerWeight stream lists %s, configured %s" % (sorted(w), sorted(conf)))
                break
            # --- range / never starved
            for u, c in conf.items():
                if c > 0 and not (1 <= w[u] <= max(CAP, c)):
                    bad.append("range: effective weight of %s is %d, configured %d: outside [1, max(4096, configured)]" % (u, w[u], c))
            if pending and pending[0] == "admin":
                if w != conf:
                    bad.append("restore: after a membership / configured-weight change the weights are %s, configured %s" % (w, conf))
            elif pending and pending[0] == "serve" and last_w is not None and set(last_w) == set(w):
                _, t, out, can, certain = pending
                changed = w != last_w
                good = set(w) - out
                if changed:
                    if last_adj is not None and not (t > last_adj + B):
                        bad.append("backoff: weights changed at t=%d and again at t=%d, back-off %d" % (last_adj, t, B))
                    last_adj = t
                    if out and good:
                        s0, s1 = sum(last_w.values()), sum(w.values())
                        for u in out:
                            if w[u] * s0 > last_w[u] * s1:
                                bad.append("outlier-up: share of outlier %s rose from %d/%d to %d/%d" % (u, last_w[u], s0, w[u], s1))
                if certain and out and good:
                    # an outlier must lose share unless every other server is at the cap
                    s0, s1 = sum(last_w.values()), sum(w.values())
                    if any(last_w[g] > 0 and 4 * last_w[g] <= CAP for g in good):
                        for u in out:
                            if last_w[u] > 0 and not (w[u] * s0 < last_w[u] * s1):
                                bad.append("outlier-keeps: outlier %s kept its share %d/%d -> %d/%d although the timer had expired and a good server was below the cap"
                                           % (u, last_w[u], s0, w[u], s1))
                    else:
                        # literal reading of the clause: *any* other server below the cap, other outliers included
                        for u in out:
                            others = [x for x in last_w if x != u and last_w[x] > 0 and 4 * last_w[x] <= CAP]
                            if last_w[u] > 0 and others and not (w[u] * s0 < last_w[u] * s1):
                                bad.append("outlier-keeps-literal: outlier %s kept its share %d/%d -> %d/%d; every good server is at the cap but %s (also rated an outlier) is not"
                                           % (u, last_w[u], s0, w[u], s1, others[0]))
                # --- convergence once ratings stop differing
                if not out and conv >= 6 and not _proportional(w, conf):
                    bad.append("converge: %d adjustments without outliers but weights %s are not proportional to the configured %s" % (conv, w, conf))
            pending = None
            last_w = w
        if any(not m.startswith("outlier-keeps-literal:") for m in bad):
            break           # (the recorded finding does not end the scenario: anything after it is still judged)
    return bad[:20]


def _adjustments(ops, outs):
    ops, outs = _expand(ops, outs)
    n = nout = 0
    last = None
    prev_op = None
    rating = {}
    for l, o in zip(ops, outs):
        f = l.split()
        if f[0] == "rate" and o == "ok":
            a, b = f[4].split("/")
            rating[_ustr(f[1:])] = Fraction(int(a), int(b))
        if f[0] == "remove" and o == "ok":
            rating.pop(_ustr(f[1:]), None)
        if f[0] == "weights":
            w = _parse_w(o)
            if prev_op == "serve" and last is not None and w != last and set(w) == set(last):
                n += 1
                if outliers({k: rating.get(k, Fraction(0)) for k in w}):
                    nout += 1
            last = w
        if f[0] in ("serve", "upsert", "remove"):
            prev_op = f[0]
    return n, nout


def nontrivial(ops, outs):
    n, nout = _adjustments(ops, outs)
    return n >= 2 and nout >= 1


def describe(ops, outs, hist):
    for l, o in zip(ops, outs):
        hist["op:" + l.split()[0]] += 1
    n, nout = _adjustments(ops, outs)
    hist["adjustments"] += n
    hist["adjustments-with-outlier"] += nout


def _unless_only_good(ops, outs, msgs):
    return bool(msgs) and all(m.startswith("outlier-keeps-literal:") for m in msgs)


KNOWN_MATCHERS = {"outlier_unless_only_good": _unless_only_good}

MANIFEST = {
    "text": ("Proof: Lean 4 theorems C10_range / C10_servable (every history of ratings, readiness, clock steps, requests and membership changes keeps "
             "1 <= effective weight <= max(4096, configured) for positive configured weights and the balancer's weights equal to the rebalancer's), "
             "C10_once_per_backoff, C10_mixed_share_not_up / C10_outlier_share_not_up (cross-multiplied shares; non-negative ratings), C10_membership_restores, "
             "C10_timer_bound + C10_outlier_loses_partial composed into C10_outlier_loses_within_partial (observable weights after adv > back-off and one request), "
             "C10_converges_in_6 hold for the model RB.Reb.adjust of roundrobin/rebalancer.go with memmetrics.SplitFloat64 over exact "
             "rationals. The model is tied to the code by a differential run of the real Rebalancer over a real RoundRobin (exported API, scripted "
             "meters, frozen clock, one real ServeHTTP per step); a model-independent monitor restates the clauses on the ServerWeight stream."),
    "note": ("Trusted: Lean kernel; propext/Classical.choice/Quot.sound; hand-written model validated against the code only on generated scenarios; "
             "float64 ratings are modelled by exact rationals and exercised with dyadic values (exact in float64, ties at the cut included); "
             "ratings assumed >= 0 for the outlier clauses (C10_negative_ratings_counterexample otherwise); the 'unless every other server is at the cap' clause is "
             "proved for 'every other server rated good' (C10_outlier_loses_counterexample: literal reading fails, known finding outlier_unless_only_good); atomicity of adjustWeights is the C09 lock-discipline obligation."),
    "technique": "Lean 4 proof (invariants over all operation sequences + six-step convergence argument) + differential correspondence with roundrobin.Rebalancer",
}
