"""C13 — rejected requests cost nothing and the advertised wait is sufficient."""
from props import ratecommon as rc
from props.ratecommon import S

ID = "C13"
HARNESS = "c03"
DRIVER = "c03"
PROPS_MODULE = "OxyModel.Props.C13"
AUDIT = "OxyModel/Audit/C13.lean"
THEOREMS = ["C13.C13_reject_no_debit", "C13.C13_admit_debits_all", "C13.C13_reject_no_debit_limiter",
            "C13.C13_flood_free", "C13.C13_flood_free_same_instant", "C13.C13_flood_outcome_counterexample", "C13.C13_refusal_loss_bound",
            "C13.C13_delay_sufficient", "C13.C13_delay_bounds", "C13.C13_reachable", "C13.C13_delay_sufficient_limiter",
            "C13.C13_idle_full_burst", "C13.C13_idle_admits", "C13.C13_idle_full_burst_limiter",
            "C13.C13_over_burst_is_error", "C13.C13_over_burst_is_error_limiter"]
RACE = True
JOBS = 8
RULE = ("scenario = rate set (1-3 periods) through TokenLimiter.ServeHTTP or a bare TokenBucketSet with floods of refused requests "
        "(sequential, and concurrent: preq = n requests of one source from 16 goroutines at one frozen instant, repeated for several rounds "
        "with paced requests in between that the long-period budget must still admit), overlapping refusals of two sources with "
        "different delays (the first held inside the ErrorHandler between decision and response: park-reject / unpark) "
        "(at one instant and spread out, long enough to exhaust the longest-period budget if it were debited), retries exactly at / "
        "just before / after the advertised X-Retry-In, idle gaps around burst*tpt, amounts around every burst; "
        "non-trivial = at least one refusal followed by a retry or by further requests of the same source, and one admission")
ASSUMPTIONS = [
    "request amounts are non-negative, no int64 overflow, monotone clock",
    "'no competing traffic from its source' = no request of that source between the refusal and the retry (other sources are unrestricted)",
    "flood-freeness is claimed as: no bucket is debited, a refused request equals an amount-0 request, tokens never decrease, and at one "
    "instant nothing changes; NOT claimed (false of the code, C13_flood_outcome_counterexample): that a refused request never changes a "
    "later outcome — every request, refused or not, drops the sub-token remainder of elapsed refill time (lastRefresh = now). The cost is "
    "bounded (C13_refusal_loss_bound): per bucket and per refusal less than one token interval tpt of accrued time, nothing when "
    "refusals are less than tpt apart or no whole token has accrued; so k refusals cost a bucket fewer than k tokens and at worst "
    "(refusals just under 2*tpt apart) halve its refill rate",
    "'burst x (period/average)' in the idle clause is burst x tpt with tpt = max(1 ns, floor(period/average)) (see C03: relative gap to the exact "
    "quotient <= 1/floor(period/average); with average > period[ns] the clamp makes it longer than the literal product)",
    "limiter-level theorems hold in every state reachable with the default rates (C13_reachable); per-request rate overrides are not covered",
]


def _flood_scenario(rng, kind):
    short = rc.pick_rate(rng, rng.choice(["hyp", "sub"]), period=rng.choice([S, S, 10 ** 8, 2 * S]))
    short = (short[0], short[1], rng.choice([1, 1, 2, min(short[2], 20)]))
    long_p = rng.choice([60 * S, 3600 * S, 10 * S])
    la = rng.choice([5, 10, 30, 100])
    long_ = (long_p, la, rng.choice([la, la // 2 + 1, 3]))
    rates = [short, long_] if rng.random() < 0.85 else [short, long_, (7 * S, 7, 7)]
    K = long_[2] + rng.randint(2, 8)
    t = rng.choice([0, 5, S - 1])
    amt = rng.choice([1, 1, short[2]])
    body = []
    mk = (lambda t, a: "at %d req f %d" % (t, a)) if kind == "rate" else (lambda t, a: "at %d consume %d" % (t, a))
    # drain the short bucket, then flood
    for _ in range(short[2] // max(1, amt) + 1):
        body.append(mk(t, amt))
    spread = rng.choice([0, 0, 1, rc.tpt(short) // (K + 1) + 1, rc.tpt(short) // 3 + 1])
    for i in range(K):
        t += spread
        body.append(mk(t, rng.choice([amt, amt, short[2], short[2] + 1])))
    if kind == "rate":
        body.append("retry" + rng.choice(["", " extra=1", " extra=0"]))
        # afterwards the long budget must still be there: one request per short-bucket token time
        for _ in range(rng.randint(2, 6)):
            t += rc.tpt(short) * short[2] + rng.choice([0, 1, 1000])
            body.append(mk(t, rng.choice([1, short[2]])))
    else:
        for _ in range(rng.randint(2, 6)):
            t += rc.tpt(short) * max(1, amt) + rng.choice([0, 1])
            body.append(mk(t, amt))
    head = "cfg rate %s cap=3" % rc.fmt_rates(rates) if kind == "rate" else "cfg set " + rc.fmt_rates(rates)
    return [head] + body


def _concurrent_flood(rng, tier):
    """one admitted request, then a concurrent flood at the same instant (all refused by the short rate), paced single requests
    in between: the long-period budget must still be there.  Several rounds, both buckets exercised."""
    sp = rng.choice([S, S, 2 * S, 10 ** 8])
    short = (sp, 1, 1)
    lb = rng.randint(3, 8)
    long_ = (rng.choice([3600 * S, 600 * S]), rng.choice([lb, 100]), lb)
    rates = [short, long_] if rng.random() < 0.8 else [short, long_, (86400 * S, 1000, 50)]
    n = {"quick": 2500, "thorough": 6000, "search": 4000}.get(tier, 2500)
    lines = ["cfg rate %s cap=%d" % (rc.fmt_rates(rates), rng.choice([1, 2, 3]))]
    t = rng.choice([0, 7, S - 1])
    for k in range(lb + 2):
        lines.append("at %d req f 1" % t)
        lines.append("at %d preq f %d %d %d" % (t, rng.choice([1, 1, 1, 2]), rng.choice([n, n // 2]), rng.choice([16, 16, 8])))
        if rng.random() < 0.3:
            lines.append("at %d req f 1" % t)
        t += sp + rng.choice([0, 0, 1, sp // 2])
    return lines


def _parked(rng):
    """two refusals with different delays that overlap: a's refusal is held inside the error handler (after the limiter took
    its decision) while b is refused; a must still be told its own delay, and its retry after that delay must pass"""
    rates = rc.pick_rates(rng, rng.choice(["hyp", "hyp", "odd"]), nmax=2)
    minb = min(r[2] for r in rates)
    lines = ["cfg rate %s cap=%d" % (rc.fmt_rates(rates), rng.choice([3, 4]))]      # three sources: never an eviction
    t = rng.choice([0, 3, S - 1])
    for _ in range(rng.randint(1, 3)):
        a, b = rng.sample(["a", "b", "c"], 2)
        ma = rng.randint(1, minb)
        mb = rng.randint(1, minb)
        lines.append("at %d req %s %d" % (t, a, minb))          # drain a
        if rng.random() < 0.5:
            lines.append("at %d req %s %d" % (t, b, rng.randint(max(1, minb - mb + 1), minb)))   # leave b short of mb
        else:
            lines.append("at %d req %s %d" % (t, b, minb))
        t += rng.choice([0, 0, 1, rc.tpt(rates[0]) // 2])
        lines.append("park-reject")
        lines.append("at %d req %s %d" % (t, a, ma))
        for _ in range(rng.randint(1, 3)):
            lines.append("at %d req %s %d" % (t, b, mb if rng.random() < 0.7 else rng.randint(1, minb)))
            if rng.random() < 0.3:
                t += 1
        lines.append("unpark")
        lines.append("retry" + rng.choice(["", "", " extra=1"]))
        t += max(r[2] * rc.tpt(r) for r in rates) + (minb + 1) * max(rc.tpt(r) for r in rates)
        t = min(t, 2 ** 50)
    return lines


def gen(rng, tier):
    n_scen = {"quick": 260, "thorough": 2500, "search": 300}.get(tier, 260)
    for k in range({"quick": 30, "thorough": 200, "search": 60}.get(tier, 30)):
        yield _parked(rng)
    for k in range({"quick": 12, "thorough": 60, "search": 20}.get(tier, 12)):
        yield _concurrent_flood(rng, tier)
    for k in range(n_scen):
        style = rng.random()
        if style < 0.2:
            yield _flood_scenario(rng, "rate")
        elif style < 0.35:
            yield _flood_scenario(rng, "set")
        elif style < 0.5:
            rates = rc.pick_rates(rng)
            yield ["cfg set " + rc.fmt_rates(rates)] + rc.gen_set_ops(rng, rates, rng.randint(20, 120))
        else:
            rates = rc.pick_rates(rng)
            nsrc = rng.choice([1, 1, 2, 3])
            sources = ["s%d" % i for i in range(nsrc)]
            lines = ["cfg rate %s cap=%s" % (rc.fmt_rates(rates), "default" if rng.random() < 0.2 else str(nsrc + rng.choice([0, 1])))]
            stock = nsrc > 1 and rng.random() < 0.25     # sources told apart by the stock client.ip extractor
            if stock:
                sources = rc.clientip_sources(rng, nsrc)
                lines[0] += " ext=clientip"
            body = rc.gen_source_ops(rng, rates, sources, rng.randint(20, 140), allow_retry=False, allow_rates=(not stock) and rng.random() < 0.1)
            if stock:
                body = rc.amount_one(body)
            out = []
            for l in body:
                out.append(l)
                if rng.random() < 0.3:
                    out.append("retry" + rng.choice(["", "", " extra=1", " extra=%d" % rng.choice([S, 7, 12 * S])]))
            yield lines + out


def monitor(ops, outs):
    kind, cfg, evs, broken = rc.events(ops, outs)
    if kind not in ("rate", "set"):
        return []
    if broken:
        return [] if broken[1].startswith("uninterpretable") else ["broken: line %d: %s" % broken]   # a line the parser cannot read is left to the model/impl diff
    rates = rc.parse_rates(cfg[2])
    if any(e.rates for e in evs):
        cut = min(e.idx for e in evs if e.rates)
        evs = [e for e in evs if e.idx < cut]
    bad = []
    minb = min(r[2] for r in rates)
    full = max(r[2] * rc.tpt(r) for r in rates)
    cap = rc.cap_of(cfg) if kind == "rate" else 1
    within_cap = len(set(e.src for e in evs)) <= cap
    last = {}
    inst = {}      # src -> (t, {amount: (status, delay)} of refused requests since the last change at this instant)
    # "refused requests do not debit": an independent token-bucket set per source that is debited only by the requests the
    # implementation admitted (refused ones merely let time pass).  It is judged only while the source cannot have been forgotten
    # (within capacity, never idle longer than an entry is kept), and only in one direction: a request the implementation refuses
    # although this set still holds the tokens for it in every rate means tokens left without an admission.
    keep = 10 * (max(r[0] for r in rates) // S) * S
    ref = {}       # src -> {"b": {period: [avail, lastRefresh]}, "t": last request, "alive": bool}

    def ref_refill(st, t):
        for r in rates:
            b = st["b"][r[0]]
            c = (t - b[1]) // rc.tpt(r)
            if c > 0:
                b[1] = t
                b[0] = min(r[2], b[0] + c)

    for e in evs:
        where = "line %d (%s amount %d at %d)" % (e.idx, e.src or "set", e.amount, e.t)
        if within_cap:
            st = ref.get(e.src)
            if st is None:
                st = ref[e.src] = {"b": {r[0]: [r[2], e.t if kind == "rate" else 0] for r in rates}, "t": e.t, "alive": True}
            if kind == "rate" and e.t - st["t"] > keep:
                st["alive"] = False
            st["t"] = e.t
            if st["alive"]:
                ref_refill(st, e.t)
                have = min(st["b"][r[0]][0] for r in rates)
                if e.status == "429" and e.amount <= minb and have < e.amount:
                    need = max((e.amount - st["b"][r[0]][0]) * rc.tpt(r) for r in rates)
                    if e.delay < need:
                        bad.append("delay: %s was told to wait %d ns, but debiting only its source's admitted requests the slowest "
                                   "rate needs %d ns for the missing tokens: the advertised wait is not this request's own"
                                   % (where, e.delay, need))
                if e.status == "429" and e.amount <= minb and have >= e.amount:
                    bad.append("debit: %s refused (429 %d) although, debiting only its admitted requests, every rate still holds at "
                               "least %d tokens: refused requests have consumed quota" % (where, e.delay, have))
                    st["alive"] = False
                elif e.status == "200":
                    for r in rates:
                        st["b"][r[0]][0] = max(0, st["b"][r[0]][0] - e.amount)
                elif e.status == "preq":
                    n200 = e.counts[0]
                    want = e.n if e.amount == 0 else (min(e.n, have // e.amount) if e.amount <= minb else 0)
                    if n200 < want:
                        bad.append("debit: %s x%d concurrent: %d admitted although, debiting only admitted requests, every rate holds "
                                   "%d tokens (%d should pass)" % (where, e.n, n200, have, want))
                        st["alive"] = False
                    for r in rates:
                        st["b"][r[0]][0] = max(0, st["b"][r[0]][0] - e.amount * n200)
        if e.status == "preq":
            n200, n429, n500 = e.counts
            if e.amount > minb and n500 != e.n:
                bad.append("over-burst: %s x%d exceeds burst %d but only %d were answered with an error" % (where, e.n, minb, n500))
            if e.amount <= minb and n500:
                bad.append("error: %s x%d is within every burst but %d were refused with an error" % (where, e.n, n500))
            inst.pop(e.src, None)
            last[e.src] = e
            continue
        # a request larger than the burst is refused outright with an error, never with a delay; and only then
        if e.amount > minb and e.status != "500":
            bad.append("over-burst: %s exceeds burst %d but was answered %s, not an error" % (where, minb, e.status))
        if e.amount <= minb and e.status == "500":
            bad.append("error: %s is within every burst (min %d) but was refused with an error" % (where, minb))
        if e.status == "429":
            if e.delay <= 0:
                bad.append("delay: %s refused with a non-positive delay %d" % (where, e.delay))
            if e.delay > max(e.amount * rc.tpt(r) for r in rates):
                bad.append("delay: %s advertised %d ns, more than refilling the whole amount in the slowest bucket" % (where, e.delay))
        p = last.get(e.src)
        if p is None:
            if e.amount <= minb and e.status != "200":
                bad.append("fresh: %s is the first request of its source, within the burst, and was refused (%s)" % (where, e.status))
        else:
            if p.status == "429" and e.amount == p.amount and e.t >= p.t + p.delay and e.status != "200":
                bad.append("retry: %s repeats the request refused at %d with advertised delay %d (no traffic of its source in between) "
                           "and was answered %s" % (where, p.t, p.delay, e.status))
            if e.amount <= minb and e.t >= p.t + full and e.status != "200":
                bad.append("idle: %s comes %d ns after the source's previous request (full refill takes %d) and was answered %s"
                           % (where, e.t - p.t, full, e.status))
        # refused requests change nothing at one instant
        if within_cap:
            it = inst.get(e.src)
            if it is None or it[0] != e.t:
                it = (e.t, {})
                inst[e.src] = it
            seen = it[1]
            if e.amount in seen and seen[e.amount] != (e.status, e.delay):
                bad.append("no-debit: %s got %s %d, the same request at the same instant got %s %d before, with only refused requests "
                           "in between" % (where, e.status, e.delay, seen[e.amount][0], seen[e.amount][1]))
            if e.status == "200" and any(st == "429" and a <= e.amount for a, (st, _) in seen.items()):
                bad.append("no-debit: %s admitted although a smaller-or-equal amount was refused at the same instant and nothing "
                           "was admitted since" % where)
            if e.status == "200" and e.amount > 0:
                seen.clear()
            elif e.status in ("429", "500"):
                seen[e.amount] = (e.status, e.delay)
        last[e.src] = e
        if len(bad) > 5:
            break
    return bad


def nontrivial(ops, outs):
    kind, cfg, evs, broken = rc.events(ops, outs)
    if broken or not evs:
        return False
    seen429 = set()
    ok = False
    follow = False
    for e in evs:
        if e.src in seen429:
            follow = True
        if e.status == "429" or (e.status == "preq" and e.counts[1]):
            seen429.add(e.src)
        if e.status == "200":
            ok = True
    return ok and follow


def describe(ops, outs, hist):
    kind, cfg, evs, broken = rc.events(ops, outs)
    hist["kind:%s" % kind] += 1
    if kind in ("rate", "set"):
        hist["nrates:%d" % len(rc.parse_rates(cfg[2]))] += 1
    last = {}
    for e in evs:
        hist["out:" + e.status] += 1
        if e.status == "preq":
            hist["preq-requests"] += e.n
        if e.retry:
            hist["retry:" + e.status] += 1
        p = last.get(e.src)
        if p is not None and p.status == "429" and e.t == p.t:
            hist["flood-same-instant"] += 1
        last[e.src] = e


MANIFEST = {
    "text": ("Proof: Lean 4 theorems over the executable model of ratelimit/bucket.go, bucketset.go, tokenlimiter.go: C13_reject_no_debit "
             "(after a refusal every bucket of the set is exactly its bare refill, for every subset of refusing buckets; also through the "
             "limiter), C13_flood_free / C13_flood_free_same_instant (refused requests equal amount-0 requests, never lower a bucket, and "
             "change nothing at one instant), C13_delay_sufficient(_limiter) (retry after the advertised delay is admitted, also across "
             "expiry and eviction of the entry), C13_idle_full_burst(_limiter), C13_over_burst_is_error(_limiter); for every reachable "
             "state, every rate set and amount. Tied to the code by a differential run of TokenLimiter.ServeHTTP / TokenBucketSet against "
             "the compiled model, including retry ops driven by the implementation's X-Retry-In."),
    "note": ("Trusted: Lean kernel; propext/Classical.choice/Quot.sound; hand-written model validated on generated scenarios only; "
             "non-negative amounts, no overflow, monotone clock. Not claimed (and false of the code): that a refused request never changes a "
             "later outcome — each request drops the sub-token remainder of elapsed refill time (C13_flood_outcome_counterexample); bounded by "
             "C13_refusal_loss_bound: < tpt of accrued time per bucket per refusal (fewer than k tokens for k refusals, at worst half the refill rate), "
             "nothing when refusals are < tpt apart."),
    "technique": "Lean 4 proof (case analysis of consume/rollback, simulation through the TTL map) over executable model + differential correspondence with ratelimit.TokenLimiter",
}
