"""Orchestrator of one property check.  See DESIGN.md §2/§3.

    bin/check <ID> [quick|thorough] [--seed N] [--replay FILE] [--keep]

Steps: build the harness against /repo's working tree, make sure the Lean proofs of the property
are compiled and their axioms clean (proof obligations), run corpus + generated scenarios through
the real code (harness) and through the Lean model (driver), diff, run the property monitors on the
implementation's outputs, decide, write evidence, print VIOLATION / KNOWN-FINDING lines.
"""
import collections
import concurrent.futures as cf
import fcntl
import hashlib
import importlib
import json
import os
import random
import re
import shutil
import subprocess
import sys
import time

VERIF = os.path.dirname(os.path.dirname(os.path.dirname(os.path.abspath(__file__))))
LEAN = os.path.join(VERIF, "lean")
HARNESS = os.path.join(VERIF, "harness")
REPO = os.environ.get("VERIF_REPO", "/repo")
COVER = bool(os.environ.get("VERIF_COVER"))
ALLOWED_AXIOMS = {"propext", "Classical.choice", "Quot.sound"}
FORBIDDEN = re.compile(r"\b(sorry|admit|native_decide|bv_decide|implemented_by|unsafe)\b|maxHeartbeats 0|^\s*axiom\s", re.M)

GOENV = dict(os.environ, GOFLAGS="-mod=mod", GOPROXY="off", GOSUMDB="off", GOTOOLCHAIN="local",
             CGO_ENABLED=os.environ.get("CGO_ENABLED", "1"))


class Scenario:
    __slots__ = ("lines", "origin", "impl", "model")

    def __init__(self, lines, origin):
        self.lines = [l.rstrip("\n") for l in lines if l.strip() != ""]
        self.origin = origin
        self.impl = None
        self.model = None

    def text(self):
        return "\n".join(self.lines) + "\n"


def split_scenarios(lines, origin):
    """cut a flat list of lines into scenarios at every `cfg` line; leading comments stay attached"""
    out, cur = [], []
    for l in lines:
        l = l.rstrip("\n")
        if not l.strip():
            continue
        if l.split()[0] == "cfg" and any(not x.startswith("#") for x in cur):
            out.append(Scenario(cur, origin))
            cur = []
        cur.append(l)
    if cur:
        out.append(Scenario(cur, origin))
    return out


def run(cmd, **kw):
    return subprocess.run(cmd, stdout=subprocess.PIPE, stderr=subprocess.STDOUT, text=True, **kw)


class Check:
    def __init__(self, pid, tier, seed, keep=False):
        self.id = pid
        self.tier = tier
        self.seed = seed
        self.keep = keep
        self.t0 = time.time()
        self.P = importlib.import_module("props." + pid)
        self.work = os.path.join(VERIF, ".work", "%s.%d" % (pid, os.getpid()))
        os.makedirs(self.work, exist_ok=True)
        self.out_dir = os.path.join(VERIF, "out", pid if REPO == "/repo" else pid + "-scratch-" + hashlib.sha1(REPO.encode()).hexdigest()[:6])
        os.makedirs(self.out_dir, exist_ok=True)
        self.known = load_known(pid)
        self.violations = []      # (replay_path, suffix)
        self.known_hits = []      # strings
        self.obligations = []     # (name, ok, detail)
        self.hist = collections.Counter()
        self.samples = []
        self.n_eval = 0
        self.n_scen = 0
        self.n_nontrivial = 0
        self.nontrivial_hashes = set()
        self.extra = {}
        self.gen_tier = tier
        self.bin_h = os.path.join(self.work, "harness")
        self.bin_d = os.path.join(LEAN, ".lake", "build", "bin", "drv_" + self.P.DRIVER)

    # ---------------------------------------------------------------- builds
    def build_harness(self, race=False):
        # private go.mod so that the replace directive points at the tree under test (VERIF_REPO, default /repo)
        gomod = open(os.path.join(HARNESS, "go.mod")).read().replace("=> /repo", "=> " + REPO)
        with open(os.path.join(self.work, "go.mod"), "w") as f:
            f.write(gomod)
        sums = set(open(os.path.join(REPO, "go.sum")).read().splitlines())
        extra = os.path.join(HARNESS, "go.sum.extra")
        if os.path.exists(extra):
            sums |= set(open(extra).read().splitlines())
        with open(os.path.join(self.work, "go.sum"), "w") as f:
            f.write("\n".join(sorted(x for x in sums if x.strip())) + "\n")
        cover = ["-cover", "-coverpkg=github.com/vulcand/oxy/v2/..."] if COVER else []
        args = (["go", "build", "-modfile", os.path.join(self.work, "go.mod"), "-tags", "verif"] + (["-race"] if race else []) + cover
                + ["-o", self.bin_h, "./cmd/" + self.P.HARNESS])
        r = run(args, cwd=HARNESS, env=GOENV)
        if r.returncode != 0:
            p = self.write_replay("build", "# obligation: corr:%s:harness-build\n# the correspondence harness no longer compiles against %s\n" % (self.id, REPO)
                                  + "".join("# " + l + "\n" for l in r.stdout.splitlines()[:60]))
            self.obligations.append(("corr:%s:harness-build" % self.id, False, r.stdout[:400]))
            self.violations.append((p, "no-failing-input-found"))
            return False
        return True

    def build_lean(self):
        targets = [self.P.PROPS_MODULE, "drv_" + self.P.DRIVER] + list(getattr(self.P, "EXTRA_LEAN_TARGETS", []))
        with open(os.path.join(LEAN, ".check.lock"), "w") as lk:
            fcntl.flock(lk, fcntl.LOCK_EX)
            r = run(["lake", "build"] + targets, cwd=LEAN)
        if r.returncode != 0:
            errs = [l for l in r.stdout.splitlines() if "error" in l.lower()][:40]
            p = self.write_replay("leanbuild", "# obligation: lean-build %s\n" % " ".join(targets) + "".join("# " + l + "\n" for l in errs))
            self.obligations.append(("lean-build", False, "\n".join(errs)[:400]))
            self.violations.append((p, "no-failing-input-found"))
            return False
        return True

    def audit(self):
        """every property theorem exists and depends only on the allowed axioms; no forbidden words"""
        ok = True
        r = run(["lake", "env", "lean", self.P.AUDIT], cwd=LEAN)
        found = {}
        cur = None
        text = r.stdout
        for m in re.finditer(r"'([^']+)' (depends on axioms: \[([^\]]*)\]|does not depend on any axioms)", text, re.S):
            name = m.group(1)
            axs = set(a.strip() for a in (m.group(3) or "").replace("\n", " ").split(",") if a.strip())
            found[name] = axs
        for th in self.P.THEOREMS:
            if th not in found:
                self.obligations.append((th, False, "theorem missing from audit output"))
                ok = False
            elif not found[th] <= ALLOWED_AXIOMS:
                self.obligations.append((th, False, "axioms: %s" % sorted(found[th])))
                ok = False
            else:
                self.obligations.append((th, True, ",".join(sorted(found[th])) or "no axioms"))
        if r.returncode != 0:
            ok = False
            self.obligations.append(("audit-run", False, text[-400:]))
        # forbidden words in the Lean sources this property depends on (comments stripped)
        bad = []
        for root, _, files in os.walk(os.path.join(LEAN, "OxyModel")):
            for fn in files:
                if fn.endswith(".lean"):
                    src = open(os.path.join(root, fn)).read()
                    src = re.sub(r"/-.*?-/", "", src, flags=re.S)
                    src = re.sub(r"--.*", "", src)
                    if FORBIDDEN.search(src):
                        bad.append(os.path.relpath(os.path.join(root, fn), LEAN))
        if bad:
            ok = False
            self.obligations.append(("forbidden-words", False, " ".join(bad)))
        if not ok:
            failed = [o for o in self.obligations if not o[1]]
            p = self.write_replay("audit", "# obligation: proof audit of %s\n" % self.id + "".join("# %s: %s\n" % (o[0], o[2]) for o in failed))
            self.violations.append((p, "no-failing-input-found"))
        return ok

    def source_facts(self):
        """regenerated tie: constants of the source that the model was written against (bin/consts_expected.json),
        re-extracted from the tree under test by harness/cmd/consts (go/parser)"""
        exp_all = json.load(open(os.path.join(VERIF, "bin", "consts_expected.json")))
        exp = exp_all.get(self.id)
        if not exp:
            return True
        binp = os.path.join(self.work, "consts")
        r = run(["go", "build", "-modfile", os.path.join(self.work, "go.mod"), "-o", binp, "./cmd/consts"], cwd=HARNESS, env=GOENV)
        if r.returncode != 0:
            self.obligations.append(("source-facts:extractor-build", False, r.stdout[-300:]))
            return False
        r = subprocess.run([binp, REPO], stdout=subprocess.PIPE, stderr=subprocess.PIPE, text=True)
        try:
            got = json.loads(r.stdout)
        except Exception:
            got = {}
        bad = []
        for k, v in sorted(exp.items()):
            ok = got.get(k) == v
            self.obligations.append(("source-fact %s = %s" % (k, v), ok, "source now says %s" % got.get(k, "<absent>")))
            if not ok:
                bad.append("%s: model written against %s, source now says %s" % (k, v, got.get(k, "<absent>")))
        if bad:
            p = self.write_replay("sourcefacts", "# obligation: source facts the %s model depends on no longer hold\n" % self.id + "".join("# %s\n" % b for b in bad))
            self.violations.append((p, "no-failing-input-found"))
        return not bad

    def leanchecker(self):
        r = run(["lake", "env", "leanchecker", self.P.PROPS_MODULE], cwd=LEAN)
        ok = r.returncode == 0
        self.obligations.append(("leanchecker " + self.P.PROPS_MODULE, ok, r.stdout[-300:]))
        if not ok:
            p = self.write_replay("leanchecker", "# obligation: leanchecker %s\n# %s\n" % (self.P.PROPS_MODULE, r.stdout[-300:].replace("\n", "\n# ")))
            self.violations.append((p, "no-failing-input-found"))
        return ok

    # ---------------------------------------------------------------- running both sides
    def _run_side(self, binary, args, text, timeout):
        import signal
        inp = os.path.join(self.work, "in.%d.%d" % (os.getpid(), id(text) % 1000003))
        p = subprocess.Popen([binary] + args, stdin=subprocess.PIPE, stdout=subprocess.PIPE, stderr=subprocess.PIPE, text=True,
                             cwd=self.work, env=self.run_env(), start_new_session=True)
        try:
            o, e = p.communicate(text, timeout=timeout)
            rc = p.returncode
        except subprocess.TimeoutExpired:
            try:
                os.killpg(p.pid, signal.SIGKILL)
            except Exception:
                p.kill()
            o, e = p.communicate()
            e = (e or "") + "\nTIMEOUT"
            rc = -9
        lines = o.split("\n")
        if lines and lines[-1] == "":
            lines = lines[:-1]
        return lines, (e or "")[-2000:], rc

    def run_env(self):
        env = dict(GOENV, TMPDIR=self.work)
        if COVER:
            os.makedirs(os.path.join(self.work, "cov"), exist_ok=True)
            env["GOCOVERDIR"] = os.path.join(self.work, "cov")
        return env

    def coverage_report(self):
        """VERIF_COVER=1: which statements of the anchored source files the correspondence run executed (Go's own coverage
        instrumentation of the harness binary).  Written to out/<id>/coverage.txt and summarised in the evidence: the tie
        has only *seen* what was executed, so an unexecuted block is where a change could hide."""
        cov = os.path.join(self.work, "cov")
        if not os.path.isdir(cov) or not os.listdir(cov):
            return
        txt = os.path.join(self.work, "cov.txt")
        r = run(["go", "tool", "covdata", "textfmt", "-i=" + cov, "-o=" + txt], env=GOENV)
        if r.returncode != 0 or not os.path.exists(txt):
            self.extra["statement_coverage"] = "covdata failed: " + r.stdout[-200:]
            return
        anchors = set(getattr(self.P, "ANCHORS", []))
        for l in open(os.path.join(VERIF, "properties.jsonl")):
            pr = json.loads(l)
            if pr["id"] == self.id:
                anchors |= set(pr["anchors"]["files"])
        blocks = {}
        pref = "github.com/vulcand/oxy/v2/"
        for l in open(txt):
            m = re.match(r"(\S+):(\d+)\.(\d+),(\d+)\.(\d+) (\d+) (\d+)$", l.strip())
            if not m or not m.group(1).startswith(pref):
                continue
            f = m.group(1)[len(pref):]
            key = (f, int(m.group(2)), int(m.group(4)))
            n, c = int(m.group(6)), int(m.group(7))
            o = blocks.get(key, (n, 0))
            blocks[key] = (n, o[1] + c)
        per = {}
        unc = []
        for (f, a, b), (n, c) in sorted(blocks.items()):
            if f not in anchors:
                continue
            t = per.setdefault(f, [0, 0])
            t[0] += n
            t[1] += n if c else 0
            if not c:
                unc.append("%s:%d-%d (%d stmts)" % (f, a, b, n))
        self.extra["statement_coverage"] = {f: "%d/%d" % (t[1], t[0]) for f, t in per.items()}
        os.makedirs(os.path.join(VERIF, "out", self.id), exist_ok=True)
        with open(os.path.join(VERIF, "out", self.id, "coverage.txt"), "w") as fh:
            fh.write("\n".join("%s %s" % kv for kv in sorted(self.extra["statement_coverage"].items())) + "\n\nuncovered blocks of anchored files:\n" + "\n".join(unc) + "\n")

    def run_batch(self, scens, timeout=None):
        """run scenarios through harness and driver; fills s.impl / s.model"""
        if not scens:
            return
        timeout = timeout or getattr(self.P, "BATCH_TIMEOUT", 300)
        text = "".join(s.text() for s in scens)
        hargs = list(getattr(self.P, "HARNESS_ARGS", []))
        dargs = list(getattr(self.P, "DRIVER_ARGS", []))
        with cf.ThreadPoolExecutor(2) as ex:
            fi = ex.submit(self._run_side, self.bin_h, hargs, text, timeout)
            fm = ex.submit(self._run_side, self.bin_d, dargs, text, timeout)
            io, ie, ic = fi.result()
            mo, me, mc = fm.result()
        pos = 0
        for s in scens:
            n = len(s.lines)
            s.impl = io[pos:pos + n]
            s.model = mo[pos:pos + n]
            if len(s.impl) < n:
                s.impl = s.impl + ["<no output: harness exit=%s %s>" % (ic, ie.strip().splitlines()[-1] if ie.strip() else "")] * (n - len(s.impl))
            if len(s.model) < n:
                s.model = s.model + ["<no output: driver exit=%s %s>" % (mc, me.strip().splitlines()[-1] if me.strip() else "")] * (n - len(s.model))
            pos += n

    def run_parallel(self, scens, jobs=None, timeout=None):
        jobs = jobs or getattr(self.P, "JOBS", 8)
        if len(scens) < 2 * jobs:
            jobs = max(1, len(scens) // 2)
        chunks = [scens[i::jobs] for i in range(jobs)]
        with cf.ThreadPoolExecutor(jobs) as ex:
            list(ex.map(lambda c: self.run_batch(c, timeout), chunks))

    # ---------------------------------------------------------------- judging
    def canon(self, side, line):
        f = getattr(self.P, "canon", None)
        return f(side, line) if f else line

    def diverges(self, s):
        for i, (a, b) in enumerate(zip(s.impl, s.model)):
            if s.lines[i].startswith("#"):
                continue
            if self.canon("impl", a) != self.canon("model", b):
                return i
        return None

    def monitor(self, s):
        try:
            return list(self.P.monitor(s.lines, s.impl))
        except Exception as e:  # a crashing monitor must not hide anything
            return ["monitor-crash %r" % (e,)]

    def account(self, s):
        ops = [l for l in s.lines if not l.startswith("#")]
        self.n_eval += len(ops)
        self.n_scen += 1
        try:
            nt = self.P.nontrivial(s.lines, s.impl)
        except Exception:
            nt = False
        if nt:
            h = hashlib.sha1(s.text().encode()).hexdigest()
            if h not in self.nontrivial_hashes:
                self.nontrivial_hashes.add(h)
        d = getattr(self.P, "describe", None)
        if d:
            try:
                d(s.lines, s.impl, self.hist)
            except Exception:
                pass
        if len(self.samples) < 3 and nt:
            self.samples.append({"origin": s.origin, "ops": s.lines[:12], "impl_out": (s.impl or [])[:12]})

    def shrink(self, s, pred, budget=200):
        """delta-debug the op lines (cfg line(s) kept) while pred(scenario) stays true"""
        t_end = time.time() + (150 if self.tier == "thorough" else 45)
        head = [l for l in s.lines if l.split()[0] == "cfg" or l.startswith("#")]
        ops = [l for l in s.lines if not (l.split()[0] == "cfg" or l.startswith("#"))]
        if hasattr(self.P, "shrinkable") and not self.P.shrinkable:
            return s

        def test(cand):
            nonlocal budget
            if budget <= 0 or time.time() > t_end:
                budget = 0
                return False
            budget -= 1
            c = Scenario(head + cand, s.origin + ":shrunk")
            self.run_batch([c], timeout=40)
            return pred(c)

        n = 2
        while len(ops) >= 2 and budget > 0:
            chunk = max(1, len(ops) // n)
            reduced = False
            for i in range(0, len(ops), chunk):
                cand = ops[:i] + ops[i + chunk:]
                if cand and test(cand):
                    ops = cand
                    n = max(n - 1, 2)
                    reduced = True
                    break
            if not reduced:
                if chunk == 1:
                    break
                n = min(n * 2, len(ops))
        out = Scenario(head + ops, s.origin + ":shrunk")
        self.run_batch([out], timeout=40)
        return out if pred(out) else s

    def write_replay(self, tag, text):
        k = len([f for f in os.listdir(self.out_dir) if f.startswith(tag)])
        p = os.path.join(self.out_dir, "%s-%s-%d-%d.ops" % (tag, self.tier, self.seed, k))
        with open(p, "w") as f:
            f.write(text)
        return p

    def report_monitor_failure(self, s, msgs):
        """a scenario on which the implementation violates the statement"""
        small = self.shrink(s, lambda c: bool(self.monitor(c)))
        msgs2 = self.monitor(small) or msgs
        for k in self.known:
            if k.get("status", "open") == "open" and known_match(self.P, k, small, msgs2):
                line = "KNOWN-FINDING: property=%s %s" % (self.id, k["what"])
                if line not in self.known_hits:
                    self.known_hits.append(line)
                return
        hdr = "# property %s violated by the implementation\n" % self.id + "".join("# monitor: %s\n" % m for m in msgs2[:10])
        d = self.diverges(small)
        hdr += "# model/impl: %s\n" % ("agree on this input" if d is None else "diverge at line %d: impl=%r model=%r" % (d, small.impl[d], small.model[d]))
        p = self.write_replay("violation", hdr + small.text())
        self.violations.append((p, ""))

    def report_divergence(self, s, idx, found_input):
        small = self.shrink(s, lambda c: self.diverges(c) is not None)
        d = self.diverges(small)
        if d is None:
            small, d = s, idx
        kind = small.lines[d].split()[0]
        hdr = ("# correspondence corr:%s:%s no longer checks: the implementation and the Lean model (the object of the %s theorems) disagree\n"
               "# first divergence at line %d: op=%r impl=%r model=%r\n" % (self.id, kind, self.id, d, small.lines[d], small.impl[d], small.model[d]))
        hdr += "# theorems that are no longer tied to the code: %s\n" % " ".join(self.P.THEOREMS)
        if not found_input:
            hdr += "# the monitors found no input on which the implementation violates the statement (no-failing-input-found)\n"
        p = self.write_replay("divergence", hdr + small.text())
        return p

    # ---------------------------------------------------------------- main flow
    def scenario_stream(self, rng):
        cdir = os.path.join(VERIF, "corpus", self.id)
        if os.path.isdir(cdir):
            for fn in sorted(os.listdir(cdir)):
                if fn.endswith(".ops"):
                    for s in split_scenarios(open(os.path.join(cdir, fn)).read().split("\n"), "corpus/" + fn):
                        yield s
        ex = getattr(self.P, "exhaustive", None)
        if ex:
            for k, lines in enumerate(ex(self.gen_tier) or []):
                yield Scenario(lines, "exhaustive:%d" % k)
        # a generator that fails (e.g. its helper process starved on a loaded host) must not take the check down, and must
        # not look like a property violation: what it produced so far is used, the failure is retried once and recorded
        for attempt in (0, 1):
            k = -1
            try:
                for k, lines in enumerate(self.P.gen(rng if attempt == 0 else random.Random(self.seed + 7919), self.gen_tier)):
                    yield Scenario(lines, "gen:%d:%d:%d" % (self.seed, attempt, k))
                break
            except Exception as e:
                import traceback
                self.extra.setdefault("generator_errors", []).append("%r after %d scenarios: %s" % (e, k + 1, traceback.format_exc()[-400:]))
                print("WARNING: scenario generator of %s failed (%r) after %d scenarios%s" % (self.id, e, k + 1, "; retrying once" if attempt == 0 else ""))

    def changed_sources(self):
        """non-test .go files of the tree under test that differ from the tree the models were last validated against
        (bin/validated.json, written by bin/mkvalidated).  A quick check whose property is anchored in a changed package
        explores as widely as the thorough tier does: the models were validated against different code."""
        base = os.path.join(VERIF, "bin", "validated.json")
        if not os.path.exists(base):
            return []
        want = json.load(open(base))["files"]
        changed = []
        seen = set()
        for root, dirs, files in os.walk(REPO):
            dirs[:] = [d for d in dirs if not d.startswith(".")]
            for fn in files:
                if fn.endswith(".go") and not fn.endswith("_test.go"):
                    rel = os.path.relpath(os.path.join(root, fn), REPO)
                    seen.add(rel)
                    try:
                        h = hashlib.sha256(open(os.path.join(root, fn), "rb").read()).hexdigest()
                    except OSError:
                        h = None
                    if want.get(rel) != h:
                        changed.append(rel)
        changed += [f for f in want if f not in seen]
        return sorted(changed)

    def escalation(self):
        changed = self.changed_sources()
        if not changed:
            return []
        anchors = set(getattr(self.P, "ANCHORS", []))
        for l in open(os.path.join(VERIF, "properties.jsonl")):
            pr = json.loads(l)
            if pr["id"] == self.id:
                anchors |= set(pr["anchors"]["files"])
        dirs = {os.path.dirname(a) for a in anchors}
        # plus every package of the repository those packages import (transitively): a change in a helper package
        # (utils, memmetrics, the TTL map ...) matters exactly to the properties whose code depends on it
        try:
            r = subprocess.run(["go", "list", "-deps"] + ["./" + d for d in sorted(dirs)], cwd=REPO, env=GOENV,
                               stdout=subprocess.PIPE, stderr=subprocess.DEVNULL, text=True, timeout=120)
            pref = "github.com/vulcand/oxy/v2/"
            dirs |= {l[len(pref):] for l in r.stdout.split() if l.startswith(pref)}
        except Exception:
            dirs |= {"utils", "memmetrics", "internal/holsterv4/collections", "internal/holsterv4/clock"}
        return [c for c in changed if os.path.dirname(c) in dirs]

    def judge(self, scens, search_only=False):
        diverged = []
        failing = []
        for s in scens:
            if any(str(o).startswith("env-error") for o in (s.impl or [])):
                # the host, not the code under test, failed (no free loopback port and the like, after retries):
                # the scenario is inconclusive; it is counted in the evidence and judged neither way
                self.extra["env_error_scenarios"] = self.extra.get("env_error_scenarios", 0) + 1
                continue
            self.account(s)
            msgs = self.monitor(s)
            if msgs:
                failing.append((s, msgs))
            if not search_only:
                d = self.diverges(s)
                if d is not None:
                    diverged.append((s, d))
        return diverged, failing

    def main(self):
        P = self.P
        self.gen_tier = self.tier
        touched = self.escalation()
        if touched and self.tier == "quick" and not os.environ.get("VERIF_NO_ESCALATE"):
            self.gen_tier = getattr(P, "ESCALATED_TIER", "thorough")
            self.extra["escalated"] = "sources differ from the validated tree in the property's packages (%s): scenarios generated as in the thorough tier" % ", ".join(touched[:8])
        race = self.tier == "thorough" and getattr(P, "RACE", False)
        ok = self.build_harness(race=race)
        ok = self.build_lean() and ok
        if ok:
            self.audit()
            self.source_facts()
            if self.tier == "thorough":
                self.leanchecker()
        pre = getattr(P, "pre_check", None)
        if ok and pre:
            pre(self)
        if ok:
            rng = random.Random(self.seed)
            scens = list(self.scenario_stream(rng))
            self.run_parallel(scens)
            diverged, failing = self.judge(scens)
            # report one failing scenario per kind of monitor message; scenarios that turn out to be recorded known
            # findings do not use up the budget of real reports (otherwise copies of a known finding could hide a violation)
            seen = set()
            looked = 0
            for s, msgs in failing:
                key = msgs[0].split()[0]
                if key in seen:
                    continue
                seen.add(key)
                before = len(self.violations)
                self.report_monitor_failure(s, msgs)
                looked += 1
                if len(self.violations) - before > 0 and len([v for v in self.violations if not v[1]]) >= 3:
                    break
                if looked >= getattr(P, "MAX_REPORTS", 12):
                    break
            self.extra["divergent_scenarios"] = len(diverged)
            if diverged:
                found = bool(self.violations)
                if not found:
                    found = self.search(rng, diverged)
                s, d = diverged[0]
                p = self.report_divergence(s, d, found)
                if not found:
                    self.violations.append((p, "no-failing-input-found"))
                else:
                    self.extra["divergence_replay"] = p
        post = getattr(P, "post_check", None)
        if ok and post:
            post(self)
        self.finish()

    def search(self, rng, diverged):
        """the tie is broken: look for an input on which the implementation violates the statement"""
        t_end = time.time() + (240 if self.tier == "thorough" else 60)
        rounds = 0
        # 1. the diverging scenarios themselves were already judged; 2. fresh seeds, monitors only
        while time.time() < t_end and rounds < 12:
            rounds += 1
            r2 = random.Random(self.seed * 7919 + rounds)
            gen = getattr(self.P, "search_gen", None) or self.P.gen
            scens = [Scenario(l, "search:%d:%d" % (rounds, k)) for k, l in enumerate(gen(r2, "search" if gen is not self.P.gen else self.tier))]
            self.run_parallel(scens)
            _, failing = self.judge(scens, search_only=True)
            if failing:
                s, msgs = failing[0]
                self.report_monitor_failure(s, msgs)
                if self.violations:
                    return True
        self.extra["search_rounds"] = rounds
        return False

    def finish(self):
        if COVER:
            try:
                self.coverage_report()
            except Exception as e:
                self.extra["statement_coverage"] = "failed: %r" % (e,)
        wall = time.time() - self.t0
        n_obl = len(self.obligations)
        n_ok = len([o for o in self.obligations if o[1]])
        ev = {
            "property_id": self.id,
            "tier": self.tier,
            "seed": self.seed,
            "level": "proof",
            "coverage": {
                "obligations": n_obl,
                "discharged": n_ok,
                "checker_cmd": "cd /verif/lean && lake build %s && lake env lean %s%s" % (self.P.PROPS_MODULE, self.P.AUDIT, " && lake env leanchecker " + self.P.PROPS_MODULE if self.tier == "thorough" else ""),
                "trusted_base": ["Lean 4.33 kernel", "axioms: propext, Classical.choice, Quot.sound only (audited per theorem)",
                                 "correspondence harness /verif/harness/cmd/%s + Lean driver Driver/%s.lean" % (self.P.HARNESS, self.P.DRIVER.upper()),
                                 "scenario generator and monitors in /verif/bin/props/%s.py" % self.id] + list(getattr(self.P, "TRUSTED", [])),
                "theorems": [{"name": o[0], "ok": o[1], "detail": o[2][:200]} for o in self.obligations],
                "evaluations": self.n_eval,
                "distinct_nontrivial": len(self.nontrivial_hashes),
                "rule": getattr(self.P, "RULE", ""),
                "traces_validated_against_impl": self.n_scen,
                "samples": self.samples or [{"note": "no scenario ran"}],
                "histogram": dict(self.hist.most_common(60)),
                "exhaustive": bool(self.extra.get("exhaustive", False)),
            },
            "assumptions": list(getattr(self.P, "ASSUMPTIONS", [])),
            "wall_s": round(wall, 2),
            "violations": len(self.violations),
            "known_findings_hit": self.known_hits,
        }
        ev["coverage"].update({k: v for k, v in self.extra.items() if k != "exhaustive"})
        # a generator that silently loses a large share of its scenarios weakens the tie without failing anything: say so
        for k, v in self.hist.items():
            if "dropped-scenarios" in k and self.n_scen and v * 5 > self.n_scen:
                print("WARNING: %s: %d of %d scenarios were dropped by the generator (%s)" % (self.id, v, self.n_scen, k))
                ev["coverage"]["generator_warning"] = "%s=%d of %d scenarios" % (k, v, self.n_scen)
        # evidence/ is only written by a full check of /repo itself: replays and scratch-tree runs go to out/
        evdir = os.path.join(VERIF, "evidence") if REPO == "/repo" and not getattr(self, "is_replay", False) else os.path.join(VERIF, "out", "scratch-evidence")
        os.makedirs(evdir, exist_ok=True)
        with open(os.path.join(evdir, self.id + ".json"), "w") as f:
            json.dump(ev, f, indent=1, sort_keys=True)
            f.write("\n")
        for l in self.known_hits:
            print(l)
        concrete = [v for v in self.violations if not v[1]]
        for p, suffix in (concrete or self.violations):
            print(("VIOLATION property=%s replay=%s %s" % (self.id, p, suffix)).rstrip())
        print("%s %s seed=%d: obligations %d/%d, scenarios %d (%d non-trivial), op lines %d, %.1fs -> %s" % (
            self.id, self.tier, self.seed, n_ok, n_obl, self.n_scen, len(self.nontrivial_hashes), self.n_eval, wall,
            "VIOLATION" if self.violations else "ok"))
        if not self.keep:
            shutil.rmtree(self.work, ignore_errors=True)
        sys.exit(1 if self.violations else 0)

    def replay(self, path):
        lines = open(path).read().split("\n")
        if not any(l.split() and l.split()[0] == "cfg" for l in lines):
            print("replay file names an obligation, re-running the whole check:\n" + "\n".join(l for l in lines if l.startswith("#")))
            return self.main()
        self.is_replay = True
        if not (self.build_harness() and self.build_lean()):
            self.finish()
        scens = split_scenarios(lines, "replay:" + path)
        self.run_batch(scens)
        bad = False
        for s in scens:
            self.account(s)
            for i, l in enumerate(s.lines):
                mark = " " if self.canon("impl", s.impl[i]) == self.canon("model", s.model[i]) else "!"
                print("%s %-50s impl=%-30s model=%s" % (mark, l, s.impl[i], s.model[i]))
            msgs = self.monitor(s)
            for m in msgs:
                print("MONITOR:", m)
            if msgs:
                known = [k for k in self.known if k.get("status", "open") == "open" and known_match(self.P, k, s, msgs)]
                if known:
                    self.known_hits.append("KNOWN-FINDING: property=%s %s" % (self.id, known[0]["what"]))
                else:
                    self.violations.append((path, ""))
            elif self.diverges(s) is not None:
                self.violations.append((path, "no-failing-input-found"))
        self.finish()


def load_known(pid):
    p = os.path.join(VERIF, "known_findings.json")
    if not os.path.exists(p):
        return []
    return [k for k in json.load(open(p)).get("findings", []) if k.get("property") == pid]


def known_match(P, k, scen, msgs):
    """a known finding is identified by a named matcher of the property plugin over the minimised replay"""
    f = getattr(P, "KNOWN_MATCHERS", {}).get(k.get("matcher", ""))
    if not f:
        return False
    try:
        return bool(f(scen.lines, scen.impl, msgs))
    except Exception:
        return False


def cli(argv):
    if len(argv) < 2:
        print(__doc__)
        sys.exit(2)
    pid = argv[1]
    tier = os.environ.get("VERIF_TIER", "quick")
    seed = int(os.environ.get("VERIF_SEED", "1"))
    replay = None
    keep = False
    i = 2
    while i < len(argv):
        a = argv[i]
        if a in ("quick", "thorough"):
            tier = a
        elif a == "--seed":
            i += 1
            seed = int(argv[i])
        elif a == "--replay":
            i += 1
            replay = argv[i]
        elif a == "--keep":
            keep = True
        i += 1
    sys.path.insert(0, os.path.join(VERIF, "bin"))
    c = Check(pid, tier, seed, keep)
    try:
        if replay:
            c.replay(replay)
        else:
            c.main()
    finally:
        if not keep:
            shutil.rmtree(c.work, ignore_errors=True)
