import Driver.Basic
import OxyModel.Model.Buffer

/-! Driver for the Buffer protocol (C06, C07, C15; see `harness/cmd/c06`): runs `Buf.serve` — the
definition the theorems are about.  Everything here is parsing/printing glue: body expansion
`(len, seed)`, the checksum, header printing. -/
open Buf RetryExpr

namespace DriverC06

/-- 251 bytes from the LCG `x ← (x·1103515245 + 12345) mod 2^31`, byte = bits 16..23 -/
def block (seed : Nat) : Array UInt8 := Id.run do
  let mut x := seed % 2147483648
  let mut a : Array UInt8 := Array.mkEmpty 251
  for _ in [0:251] do
    x := (x * 1103515245 + 12345) % 2147483648
    a := a.push ((x / 65536) % 256).toUInt8
  return a

/-- body `(len, seed)`: the 251-byte block repeated -/
def expand (len seed : Nat) : Bytes :=
  let b := block seed
  (List.range len).map (fun i => b[i % 251]!)

def P : UInt64 := 72057594037927931  -- 2^56 - 5

def cksum (l : Bytes) : UInt64 := l.foldl (fun h b => (h * 256 + b.toUInt64) % P) 0

def showBytes (l : Bytes) : String := toString l.length ++ ":" ++ toString (cksum l).toNat

def showHeader (h : Header) : String :=
  let es := (h.filter (fun e => !e.2.isEmpty)).mergeSort (fun a b => a.1 ≤ b.1)
  if es.isEmpty then "-" else ";".intercalate (es.map fun e => e.1 ++ ":" ++ ",".intercalate e.2)

def parseCmp : String → Option Cmp
  | "eq" => some .eq | "neq" => some .neq | "lt" => some .lt
  | "gt" => some .gt | "le" => some .le | "ge" => some .ge
  | _ => none

/-- Polish notation, comma separated -/
def parseExpr : Nat → List String → Option (Expr × List String)
  | 0, _ => none
  | fuel + 1, t :: rest =>
    match t with
    | "and" => do
      let (a, r1) ← parseExpr fuel rest
      let (b, r2) ← parseExpr fuel r1
      pure (.and a b, r2)
    | "or" => do
      let (a, r1) ← parseExpr fuel rest
      let (b, r2) ← parseExpr fuel r1
      pure (.or a b, r2)
    | "neterr" => some (.isNetworkError, rest)
    | "att" | "code" =>
      match rest with
      | c :: v :: r => do
        let c ← parseCmp c
        let v ← v.toNat?
        -- `strconv.Atoi`: a literal beyond Go's `int` (64 bit) is a parse error
        let v ← (if v ≤ 9223372036854775807 then some v else none)
        pure (.cmp (if t == "att" then .attempts else .responseCode) c v, r)
      | _ => none
    | "meq" => match rest with
      | s :: r => some (.methodEq s, r)
      | _ => none
    | "mneq" => match rest with
      | s :: r => some (.methodNeq s, r)
      | _ => none
    | _ => none
  | _, [] => none

def parseRx (s : String) : Option Expr :=
  let toks := s.splitOn ","
  match parseExpr (toks.length + 1) toks with
  | some (e, []) => some e
  | _ => none

abbrev St := Option Cfg

def optInt (f : List String) (k : String) (d : Int) : Int :=
  match Driver.kv f k with
  | some v => match v.toNat? with
    | some n => (n : Int)
    | none => d
  | none => d

def init (f : List String) : St × String :=
  let base : Cfg := { maxReq := optInt f "maxreq" (-1), memReq := Driver.kvNat f "memreq" DefaultMemBodyBytes,
                      maxResp := optInt f "maxresp" (-1), memResp := Driver.kvNat f "memresp" DefaultMemBodyBytes,
                      canHijack := Driver.kvNat f "hj" 1 == 1 }
  match Driver.kv f "rx" with
  | none => (some base, "ok")
  | some s => match parseRx s with
    | some e => (some { base with retry := some e }, "ok")
    | none => (none, "err expr")

def split3 (s : String) : List String := s.splitOn ":"

def parseField2 (a : Attempt) (k v : String) : Option Attempt :=
  match k with
  | "hd" => some { a with hdrOps := a.hdrOps ++ [.del v] }
  | "u" => some { a with setUrl := some v }
  | "s" => v.toNat?.map fun n => { a with status := some n }
  | "ls" => v.toNat?.map fun n => { a with lateStatus := some n }
  -- w / wc / wn / ws / wf: how the handler writes (Write, io.Copy, io.CopyN, io.WriteString, fmt.Fprintf); a write of n bytes either way, except that copying 0 bytes is no call
  | "w" | "wc" | "wn" | "ws" | "wf" =>
    match v.splitOn "." with
    | [l, s] => match l.toNat?, s.toNat? with
      -- io.Copy / io.CopyN from an empty source make no call at all on a writer that has no ReadFrom (bufferWriter has none)
      | some l, some s => if l == 0 && (k == "wc" || k == "wn") then some a else some { a with writes := a.writes ++ [expand l s] }
      | _, _ => none
    | _ => none
  | _ => none

def parseField (a : Attempt) (fld : String) : Option Attempt :=
  match split3 fld with
  | ["-"] => some a
  | ["hj"] => some { a with hijack := true }
  | ["fl"] => some { a with flush := true }
  | ["pn"] => some { a with panic := true }
  | ["lh", k, v] => some { a with lateHdr := a.lateHdr ++ [(k, v)] }
  -- r / rc / rn / rp: how the handler reads (ReadAll, io.Copy, io.CopyN, small Reads); a read of n bytes either way
  | [r, n] =>
    if (r == "r" || r == "rc" || r == "rn" || r == "rp") && n == "all" then some { a with read := none } else     if r == "r" || r == "rc" || r == "rn" || r == "rp" then n.toNat?.map fun n => { a with read := some n }
    else parseField2 a r n
  | ["hs", k, v] => some { a with hdrOps := a.hdrOps ++ [.set k v] }
  | ["ha", k, v] => some { a with hdrOps := a.hdrOps ++ [.add k v] }
  | ["hp", k, v] => some { a with hdrOps := a.hdrOps ++ [.add k v] }   -- h[k] = append(h[k], v)
  | ["h0", k, v] => some { a with hdrOps := a.hdrOps ++ [.set0 k v] }
  | ["hl", k, v] => some { a with hdrOps := a.hdrOps ++ [.setLast k v] }
  | ["rh", k, v] => some { a with respHdr := a.respHdr ++ [(k, v)] }
  | _ => none

def parseAttempt (s : String) : Option Attempt :=
  (s.splitOn ",").foldl (fun acc fld => acc.bind fun a => parseField a fld) (some {})

def parseHeader (s : String) : Option Header :=
  if s == "-" then some [] else
  (s.splitOn ";").foldl (fun acc kv => acc.bind fun h =>
    match kv.splitOn ":" with
    | [k, v] => some (Header.add h k v)
    | _ => none) (some [])

def showView (v : View) : String :=
  " v=" ++ v.req.method ++ "|" ++ v.req.url ++ "|" ++ showHeader v.req.header ++ "|cl=" ++ toString v.req.contentLength
    ++ "|te=" ++ toString v.req.transferEncoding.length ++ "|oh=same|rd=" ++ showBytes v.bodyRead
    ++ "|tf=" ++ toString v.filesAtExit

def showResult (r : Result) : String :=
  let w := match r.resp.status with
    | none => "none"
    | some c => toString c ++ "|" ++ showHeader r.resp.sentHeader ++ "|" ++ showBytes r.resp.body
  "inv=" ++ toString r.invocations ++ String.join (r.views.map showView) ++ " w=" ++ w
    ++ " hij=" ++ (if r.hijacked then "1" else "0") ++ (if r.panicked then " cl=aborted left=" else " cl=ok left=") ++ toString (r.created - r.removed)
    ++ (if r.removed > r.created then " over-removed" else "") ++ (if r.outOfFuel then " fuel" else "")

def step (st : St) (f : List String) : St × String :=
  match st with
  | none => (st, "no-buffer")
  | some cfg =>
    match f with
    | "req" :: method :: url :: framing :: len :: seed :: rest =>
      let r : Option String := do
        let len ← len.toNat?
        let seed ← seed.toNat?
        let chunked ← (match framing with | "cl" => some false | "ch" => some true | _ => none)
        let hdr ← parseHeader ((Driver.kv rest "h").getD "-")
        let atts ← (rest.filter (·.startsWith "a=")).mapM (fun t => parseAttempt ((t.drop 2).toString))
        let req : Req := { method := method, url := url, header := hdr, chunked := chunked, body := expand len seed }
        let script : Nat → Attempt := fun k => atts.getD (k - 1) {}
        pure (showResult (serve cfg req script))
      (st, r.getD "bad-op")
    | _ => (st, "bad-op")

def machine : Driver.Machine St where
  init := init
  step := step

end DriverC06

def main : IO Unit := Driver.run DriverC06.machine
