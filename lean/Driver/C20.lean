import Driver.Basic
import OxyModel.Model.Stack
import OxyModel.Model.Writer

/-! Driver for the C20 protocol (see `harness/cmd/c20`): runs `Stack.serveStack` — the definition the C20 theorems are about. -/
open Stack

namespace DriverC20

structure St where
  stack : List LayerCfg
  /-- admission state per layer (connections in flight / rate tokens left) of the default source "src" -/
  st : List Nat
  /-- the counting layers keep their state per source (`connections[token]`, `bucketSets[source]`) and sources do not
  interact (that independence is C14): the driver keeps one model state per source; `fresh` is the state of a source
  that has not been seen yet (nothing in flight, full burst) -/
  others : List (String × List Nat)
  fresh : List Nat
  script : Script
  front : Caps
  ok : Bool

/-- split at the first occurrence of `sep` -/
def cut (s sep : String) : Option (String × String) :=
  match s.splitOn sep with
  | a :: b :: rest => some (a, sep.intercalate (b :: rest))
  | _ => none

def parseKind : String → Option Kind
  | "stream" => some .stream | "trace" => some .trace | "connlimit" => some .connlimit | "ratelimit" => some .ratelimit
  | "cbreaker" => some .cbreaker | "roundrobin" => some .roundrobin | "rebalancer" => some .rebalancer | "buffer" => some .buffer
  | _ => none

def parseOpt (idx : Nat) (l : LayerCfg) (o : String) : Option LayerCfg :=
  if o == "s" then some { l with sticky := some ("sk" ++ String.ofList (List.replicate (9 - idx) '0')) }
  else if o == "fr" then some { l with fallback := .redirect "" }
  else if o == "frp" then some { l with fallback := .redirect "/p" }
  else if o == "t" then some { l with retry := true }
  else if o == "v" then some { l with verbose := true }
  -- trace/wf: the sink of the trace records fails on every write; logged, no effect on the request / response path
  else if o == "wf" then some l
  else
    let v := (o.drop 1).toString
    match v.toNat? with
    | none => none
    | some n =>
      if o.startsWith "f" then some { l with fallback := .response n }
      else if o.startsWith "q" then some { l with maxReq := n }
      else if o.startsWith "r" then some { l with maxResp := n }
      else if o.startsWith "p" then some { l with periodMs := n }
      else if o.startsWith "m" then some l
      else none

def parseLayer (idx : Nat) (tok : String) : Option LayerCfg :=
  match tok.splitOn "/" with
  | [] => none
  | k :: opts =>
    match parseKind k with
    | none => none
    | some kind => opts.foldl (fun acc o => acc.bind (fun l => parseOpt idx l o)) (some { kind := kind })

def parseStack (v : String) : Option (List LayerCfg) :=
  if v == "-" || v == "" then some [] else
  let toks := v.splitOn ","
  let rec go (i : Nat) : List String → Option (List LayerCfg)
    | [] => some []
    | t :: ts => match parseLayer i t, go (i + 1) ts with
      | some l, some ls => some (l :: ls)
      | _, _ => none
  -- `PreservePath` appends the path of the URL the breaker sees: behind a balancer that is the server URL `http://b0` (no path)
  let rec retarget (behindLB : Bool) : List LayerCfg → List LayerCfg
    | [] => []
    | l :: ls =>
      let l' := match l.fallback with
        | .redirect "/p" => if behindLB then { l with fallback := .redirect "" } else l
        | _ => l
      l' :: retarget (behindLB || l.kind == Kind.roundrobin || l.kind == Kind.rebalancer) ls
  (go 0 toks).map (retarget false)

def chunkBytes (i n : Nat) : List Nat := (List.range n).map fun j => (37 * i + 11 * j + 7) % 251

def parseScript (v : String) : Option Script :=
  (v.splitOn ";").foldl (fun acc part => acc.bind fun (s : Script) =>
    match cut part ":" with
    | none => none
    | some (k, val) =>
      if k == "status" then (if val == "none" then some { s with status := none } else val.toNat?.map fun n => { s with status := some n })
      else if k == "hdr" then
        if val == "" then some s else
        (val.splitOn ",").foldl (fun a kv => a.bind fun (s : Script) => (cut kv "=").map fun (p : String × String) => { s with headers := s.headers ++ [p] }) (some s)
      else if k == "body" then
        if val == "" then some s else
        (val.splitOn ",").foldl (fun a c => a.bind fun (s : Script) => c.toNat?.map fun n => { s with chunks := s.chunks ++ [chunkBytes s.chunks.length n] }) (some s)
      else if k == "flush" then val.toNat?.map fun n => { s with flushAfter := n }
      else if k == "hijack" then some { s with hijack := val == "1" }
      else if k == "early" then some { s with earlyFlush := val == "1" }
      else if k == "info" then
        if val == "" then some s else
        (val.splitOn ",").foldl (fun a c => a.bind fun (s : Script) => c.toNat?.map fun n => { s with info := s.info ++ [n] }) (some s)
      else none) (some ⟨none, [], [], 0, false, [], false⟩)

def hex8 (n : Nat) : String :=
  let d := String.ofList (Nat.toDigits 16 n)
  String.ofList (List.replicate (8 - d.length) '0') ++ d

def skipHdr : List String := ["Date", "Content-Length", "Transfer-Encoding", "Connection"]

def canonHeaders (hs : List Header) : String :=
  let hs := (hs.filter fun h => !skipHdr.contains h.1).mergeSort (fun a b => decide (a.1 ≤ b.1))
  if hs.isEmpty then "-" else "|".intercalate (hs.map fun h => h.1 ++ ":" ++ h.2.replace " " "_")

def tri (b : Bool) : String := if b then "1" else "0"

def render (s : Script) (r : Result) : String :=
  let flush := if r.invoked == 0 || r.hijacked || !flushRequested s then "-" else tri r.flushed
  let hij := if r.invoked == 0 || !s.hijack then "-" else tri r.hijacked
  let (fi, hi) := match r.seen with
    | some c => (tri c.flushIface, tri c.hijackIface)
    | none => ("-", "-")
  let info := if r.infos.isEmpty then "-" else ",".intercalate (r.infos.map toString)
  s!"status={r.resp.status} invoked={r.invoked} body={r.resp.body.length}:{hex8 (adler32 r.resp.body)} hdr={canonHeaders r.resp.headers} flush={flush} hijack={hij} fi={fi} hi={hi} info={info}"

/-- initial state as the harness sets it up: the layer at `iv` is driven to its limit (connlimit: max 1 with one parked request
that also occupies one slot of every other connlimit, whose max is therefore 2; ratelimit: burst consumed); the other counting
layers are far from theirs (connlimit max 1 with nothing in flight, 10^6 tokens). -/
def initState (stack : List LayerCfg) (iv : Option Nat) : List (LayerCfg × Nat) :=
  let parked : Nat := match iv with
    | some i => if (stack.getD i default).kind == Kind.connlimit then 1 else 0
    | none => 0
  stack.mapIdx fun j l =>
    let trip := iv == some j
    match l.kind with
    | .connlimit => if trip then ({ l with limit := 1 }, 1) else ({ l with limit := 1 + parked }, parked)
    | .ratelimit => if trip then (l, 0) else (l, 1000000)
    | _ => ({ l with tripped := trip }, 0)

def freshState (stack : List LayerCfg) (iv : Option Nat) : List Nat :=
  stack.mapIdx fun j l =>
    match l.kind with
    | .ratelimit => if iv == some j then 1 else 1000000
    | _ => 0

def init (f : List String) : St × String :=
  let bad := (⟨[], [], [], [], ⟨none, [], [], 0, false, [], false⟩, Caps.real, false⟩, "bad-cfg")
  let front : Option Caps := match Driver.kv f "front" with
    | none | some "real" => some Caps.real
    | some "nohijack" => some Caps.noHijack
    | some "noflush" => some Caps.noFlush
    | some "plain" => some Caps.plain
    | _ => none
  match parseStack ((Driver.kv f "stack").getD "-"), parseScript ((Driver.kv f "h").getD ""), front with
  | some stack, some sc, some fr =>
    match Driver.kv f "intervene" with
    | none | some "none" => (⟨(initState stack none).map (·.1), (initState stack none).map (·.2), [], freshState stack none, sc, fr, true⟩, "ok")
    | some v =>
      match v.toNat? with
      | some i => if i < stack.length then (⟨(initState stack (some i)).map (·.1), (initState stack (some i)).map (·.2), [], freshState stack (some i), sc, fr, true⟩, "ok") else bad
      | none => bad
  | _, _, _ => bad

def step (st : St) : List String → St × String
  | "req" :: rest =>
    if !st.ok then (st, "no-scenario") else
    let req : Req := ⟨Driver.kvNat rest "body" 0⟩
    let abort := Driver.kv rest "abort" == some "1"
    let h : Req → Script := fun r => { st.script with headers := st.script.headers ++ [("X-Req-Len", toString r.bodyLen),
      -- the handler echoes the credentials it received (Authorization / Proxy-Authorization / cookie `app`): a passing layer
      -- hands it the request the client sent
      ("X-Req-Cred", "Bearer-c20/Basic-c20p/c20")] }
    let src := (Driver.kv rest "src").getD "src"
    let cur := if src == "src" then st.st else ((st.others.find? (·.1 == src)).map (·.2)).getD st.fresh
    let (o, cur') := serveSt st.stack cur h req abort st.front
    ((if src == "src" then { st with st := cur' }
      else { st with others := (src, cur') :: st.others.filter (·.1 != src) }),
      match o with
      | .served r => render (h req) r
      | .aborted k => s!"aborted invoked={k}")
  | _ => (st, "bad-op")

def machine : Driver.Machine St where
  init := init
  step := step

end DriverC20

/-! `cfg pw depth=<d> base=<fh|f|h|->`: a nest of `utils.ProxyWriter`s over a recording writer (Model/Writer.lean); ops `wh <code>`,
`w <b,b,…|->`, `flush`, `hijack`; every op prints what the caller observed, what the base writer has received so far and the
`StatusCode()` / `GetLength()` of every ProxyWriter (outermost first). -/
namespace DriverPW
open Writer

structure St where
  base : Base
  st : Writer.St

def parseBytes (v : String) : Option (List Nat) :=
  if v == "-" then some [] else (v.splitOn ",").mapM (·.toNat?)

def showCall : Call → String
  | .writeHeader c => s!"wh:{c}"
  | .write b => s!"w:{b.length}:{b.foldl (· + ·) 0}"
  | .flush => "fl"
  | .hijack => "hj"

def dash (l : List String) : String := if l.isEmpty then "-" else ",".intercalate l

def render (s : St) (ok : Bool) : String :=
  s!"r={if ok then 1 else 0} seen={dash (s.st.seen.map showCall)} sc={dash (s.st.pws.map fun p => toString p.statusCode)} len={dash (s.st.pws.map fun p => toString p.length)}"

def init (f : List String) : St × String :=
  let base : Option Base := match Driver.kv f "base" with
    | some "fh" => some ⟨true, true⟩
    | some "f" => some ⟨true, false⟩
    | some "h" => some ⟨false, true⟩
    | some "-" => some ⟨false, false⟩
    | _ => none
  match base, (Driver.kv f "depth").bind (·.toNat?) with
  | some b, some d => if d ≤ 8 then (⟨b, fresh d⟩, "ok") else (⟨default, fresh 0⟩, "bad-cfg")
  | _, _ => (⟨default, fresh 0⟩, "bad-cfg")

def apply (s : St) (c : Call) : St × String :=
  let r := s.st.step s.base c
  let s' := { s with st := r.1 }
  (s', render s' r.2)

def step (s : St) : List String → St × String
  | ["wh", c] => match c.toNat? with
    | some k => apply s (.writeHeader k)
    | none => (s, "bad-op")
  | ["w", v] => match parseBytes v with
    | some b => apply s (.write b)
    | none => (s, "bad-op")
  | ["flush"] => apply s .flush
  | ["hijack"] => apply s .hijack
  | _ => (s, "bad-op")

end DriverPW

def machine2 : Driver.Machine (Sum DriverC20.St DriverPW.St) where
  init f :=
    if f.getD 1 "" == "pw" then let r := DriverPW.init f; (.inr r.1, r.2)
    else let r := DriverC20.init f; (.inl r.1, r.2)
  step s f := match s with
    | .inl a => let r := DriverC20.step a f; (.inl r.1, r.2)
    | .inr b => let r := DriverPW.step b f; (.inr r.1, r.2)

def main : IO Unit := Driver.run machine2
