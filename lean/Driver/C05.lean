import Driver.Basic
import OxyModel.Model.CBreaker
import OxyModel.Model.CBreakerHist

/-! Driver for the circuit-breaker protocol (C05, C12, C18; see `harness/cmd/c05`): runs `CB.arrive` and the
composite `CBH.recordH` / `CBH.checkAndSetH` / `CBH.completeH` (breaker × latency histogram) — the definitions the
theorems are about.  The latency of a completion is its finish time minus the start time of that id (for a parked
request: the instant it was decided); the decision uses the MODEL's `LatencyAtQuantileMS` values.  When the op line
carries `q=` (the implementation's values, from the annotate pass) and they differ from the model's, the output
line ends in ` hist-mismatch model=<v,…> impl=<v,…>` (the harness never prints that: it shows as a divergence).

    cfg fb=<ns> rec=<ns> cp=<ns> px=<condition, prefix form> [go=<condition, Go syntax: harness only>]
    at <ns> | adv <ns>            -> ok
    start <id>                    -> pass <state> | fallback <state>
    finish <id> <code> [q=v,v,…]  -> done <code> <state>        (q: oracle LatencyAtQuantileMS values)
    burst <n> <step_ns>           -> burst <run-length outcomes> <state>   (n × (arrive; clock += step))
    pburst <n>                    -> pburst pass=<a> fallback=<b> <state>   (n concurrent arrivals at one frozen instant = n `arrive` steps)
    park-warn <n>                 -> ok        (the next n requests arriving while the breaker is not in standby park in its Warn call)
    start <id>                    -> parked    (arrived, undecided; at most one at a time)
    start <id2> while one parked  -> unparked <pass|fallback> then <pass|fallback> <state>   (two `arrive` steps, the parked one first)
    unpark <id>                   -> pass <state> | fallback <state>      (decided now: the `arrive` step happens here)
    finish <id> <code> …          -> unparked <pass|fallback> <state> done <code> <state>   while a request is parked: the breaker
                                     logs under its lock, so the parked request is decided before the completion can evaluate
    finish2 <id1> <c1> <id2> <c2> … -> unparked <pass|fallback> done2 <c1> <c2> <state>   (one parked, its decision cannot move the state:
                                     record, record, arrive, check, check — both responses recorded before either check)
    cfg … fx=0                    -> `effects` prints `effects none` (no side effects registered)
    state                         -> standby | tripped until=<ns> | recovering until=<ns>
    effects                       -> effects tripped=<n> standby=<n>
-/
open CB CBExpr

namespace DriverC05

def parseLit (s : String) : Option Lit :=
  if s.startsWith "i" then (s.drop 1).toString.toNat?.map Lit.int
  else if s.startsWith "f" then
    match (s.drop 1).toString.splitOn "/" with
    | [a, b] => match a.toNat?, b.toNat? with
      | some a, some b => some (Lit.float a b)
      | _, _ => none
    | _ => none
  else none

def parseCmp : String → Option Cmp
  | "eq" => some .eq | "neq" => some .neq | "lt" => some .lt
  | "le" => some .le | "gt" => some .gt | "ge" => some .ge
  | _ => none

def parseFn : List String → Option (Fn × List String)
  | "ner" :: r => some (.ner, r)
  | "rcr" :: a :: b :: c :: d :: r =>
    match parseLit a, parseLit b, parseLit c, parseLit d with
    | some a, some b, some c, some d => some (.rcr a b c d, r)
    | _, _, _, _ => none
  | "lat" :: q :: r => (parseLit q).map fun q => (.lat q, r)
  | _ => none

/-- comma-separated prefix form, fixed arities -/
def parseExpr : Nat → List String → Option (Expr × List String)
  | 0, _ => none
  | _, [] => none
  | fuel + 1, t :: r =>
    if t == "bad" then some (.bad, r)
    else if t == "and" || t == "or" then
      match parseExpr fuel r with
      | some (a, r1) =>
        match parseExpr fuel r1 with
        | some (b, r2) => some (if t == "and" then .and a b else .or a b, r2)
        | none => none
      | none => none
    else
      match parseCmp t with
      | none => none
      | some op =>
        match parseFn r with
        | some (f, v :: r1) => (parseLit v).map fun v => (.cmp op f v, r1)
        | _ => none

structure St where
  cfg : Cfg
  brk : Brk
  now : Nat                 -- protocol time: ns since hx.Base
  inflight : List String
  starts : List (String × Nat) := []     -- protocol time at which `serve` began for each request in flight
  hist : Hist.Rolling := Hist.Rolling.new
  armed : Nat := 0
  parked : Option String := none
  fx : Bool := true

def abs (t : Nat) : Nat := t + RCnt.baseSinceZeroNs

def stateStr (b : Brk) : String :=
  match b.state with
  | .standby => "standby"
  | .tripped => "tripped until=" ++ toString (b.until_ - RCnt.baseSinceZeroNs)
  | .recovering => "recovering until=" ++ toString (b.until_ - RCnt.baseSinceZeroNs)

/-- THE float step of `hdrhistogram.ValueAtPercentile` for the literal `num/den` (see `Model/Hist.lean`):
    `if percentile > 100 { percentile = 100 }; int64(((percentile / 100) * float64(totalCount)) + 0.5)` in IEEE doubles,
    the same operations in the same order; the conversion truncates toward zero, a negative or NaN value gives a count
    `≤ 0` on which the loop breaks at once, i.e. 0 -/
def floatK (num den total : Nat) : Nat :=
  let p : Float := Float.ofNat num / Float.ofNat den
  let p := if p > 100 then 100 else p
  let x := ((p / 100) * Float.ofNat total) + 0.5
  if x < 0 then 0 else x.toUInt64.toNat

/-- the model's `LatencyAtQuantileMS` values for the condition's quantile literals, as on an op line -/
def orcStr (c : Cfg) (r : Hist.Rolling) : String :=
  ",".intercalate ((CBH.oracleOf floatK c r).map fun e => toString e.2)

/-- ` hist-mismatch …` when the `q=` of the op line (none = empty) is not what the model computes from its histogram;
    the harness prints ` oracle-mismatch=<its own values>` in the same situation (a stale `q=` in a shrunk or hand-written
    scenario): the plugins' `canon` compares the two by the values each side computed -/
def mismatch (c : Cfg) (r : Hist.Rolling) (f : List String) : String :=
  if c.cond.quantiles.isEmpty then "" else
  let v := (Driver.kv f "q").getD ""
  let m := orcStr c r
  if v == m then "" else " hist-mismatch model=" ++ m ++ " impl=" ++ v

/-- latency in ns of the request `id` completing now -/
def latency (s : St) (id : String) : Nat := s.now - (s.starts.lookup id).getD s.now

def forget (l : List (String × Nat)) (id : String) : List (String × Nat) := l.filter (·.1 != id)

def init (f : List String) : Option St × String :=
  match Driver.kv f "px" with
  | none => (none, "bad-cfg")
  | some px =>
    let toks := px.splitOn ","
    match parseExpr (toks.length + 1) toks with
    | some (e, []) =>
      let c : Cfg := ⟨Driver.kvNat f "fb" 0, Driver.kvNat f "rec" 0, Driver.kvNat f "cp" 0, e⟩
      match CB.new c with
      | some b => (some { cfg := c, brk := b, now := 0, inflight := [], fx := Driver.kv f "fx" != some "0" }, "ok")
      | none => (none, "err")
    | _ => (none, "bad-cfg")

/-- `n` arrivals, the clock advancing `stp` after each; run-length encoding of the answers -/
def burst (c : Cfg) : Nat → Nat → Brk → Nat → Char → Nat → String → Brk × Nat × String
  | 0, _, b, now, last, run, acc => (b, now, if run > 0 then acc ++ last.toString ++ toString run else acc)
  | n + 1, stp, b, now, last, run, acc =>
    let r := arrive c b (abs now)
    let ch := match r.1 with | .pass => 'p' | .fallback => 'f'
    if ch == last then burst c n stp r.2 (now + stp) last (run + 1) acc
    else burst c n stp r.2 (now + stp) ch 1 (if run > 0 then acc ++ last.toString ++ toString run else acc)

/-- `start <id> cancelled` (a request whose client has gone) is an arrival like any other -/
def norm : List String → List String
  | ["start", id, "cancelled"] => ["start", id]
  | f => f

def step0 (s : St) : List String → St × String
  | ["at", t] =>
    match t.toNat? with
    | some t => ({ s with now := max s.now t }, "ok")
    | none => (s, "bad-op")
  | ["adv", d] =>
    match d.toNat? with
    | some d => ({ s with now := s.now + d }, "ok")
    | none => (s, "bad-op")
  | ["release-fx"] => if s.parked.isSome then (s, "bad-op") else (s, "ok")   -- lets slow side effects finish: no model step
  | ["park-warn", n] =>
    match n.toNat? with
    | some n => ({ s with armed := n }, "ok")
    | none => (s, "bad-op")
  | ["start", id] =>
    if s.inflight.contains id || s.parked == some id || (s.parked.isSome && s.armed > 0) then (s, "bad-op") else
    match s.parked with
    | some pid =>
      -- a second arrival while one is parked: it waits for the lock the parked one holds; both are decided, in that order
      let ra := arrive s.cfg s.brk (abs s.now)
      let rb := arrive s.cfg ra.2 (abs s.now)
      let str := fun (o : Out) => match o with | .pass => "pass" | .fallback => "fallback"
      let fl := (if ra.1 == .pass then [pid] else []) ++ (if rb.1 == .pass then [id] else [])
      ({ s with brk := rb.2, inflight := fl ++ s.inflight, starts := fl.map (·, s.now) ++ s.starts, parked := none },
        "unparked " ++ str ra.1 ++ " then " ++ str rb.1 ++ " " ++ stateStr rb.2)
    | none =>
    if s.armed > 0 && s.brk.state != .standby then
      ({ s with armed := s.armed - 1, parked := some id }, "parked")
    else
    let r := arrive s.cfg s.brk (abs s.now)
    match r.1 with
    | .pass => ({ s with brk := r.2, inflight := id :: s.inflight, starts := (id, s.now) :: s.starts }, "pass " ++ stateStr r.2)
    | .fallback => ({ s with brk := r.2 }, "fallback " ++ stateStr r.2)
  | ["unpark", id] =>
    if s.parked != some id then (s, "bad-op") else
    let r := arrive s.cfg s.brk (abs s.now)
    match r.1 with
    | .pass => ({ s with brk := r.2, inflight := id :: s.inflight, starts := (id, s.now) :: s.starts, parked := none }, "pass " ++ stateStr r.2)
    | .fallback => ({ s with brk := r.2, parked := none }, "fallback " ++ stateStr r.2)
  | "finish" :: id :: code :: rest =>
    match code.toNat? with
    | none => (s, "bad-op")
    | some code =>
      if !s.inflight.contains id then (s, "bad-op") else
      -- a parked request holds the breaker's lock (the Warn is logged under it): it is decided first
      let (s, pre) := match s.parked with
        | none => (s, "")
        | some pid =>
          let r := arrive s.cfg s.brk (abs s.now)
          match r.1 with
          | .pass => ({ s with brk := r.2, inflight := pid :: s.inflight, starts := (pid, s.now) :: s.starts, parked := none }, "unparked pass " ++ stateStr r.2 ++ " ")
          | .fallback => ({ s with brk := r.2, parked := none }, "unparked fallback " ++ stateStr r.2 ++ " ")
      -- metrics.Record(code, latency) (counters and histogram), then checkAndSet on the model's own quantile values
      let rec_ := CBH.recordH (s.brk, s.hist) (abs s.now) code (latency s id)
      let mm := mismatch s.cfg rec_.2 rest
      let r := CBH.checkAndSetH floatK s.cfg rec_ (abs s.now)
      ({ s with brk := r.1.1, hist := r.1.2, inflight := s.inflight.erase id, starts := forget s.starts id },
        pre ++ "done " ++ toString code ++ " " ++ stateStr r.1.1 ++ mm)
  | "finish2" :: id1 :: c1 :: id2 :: c2 :: rest =>
    match c1.toNat?, c2.toNat?, s.parked with
    | some c1, some c2, some pid =>
      let keeps := (s.brk.state == .recovering && abs s.now ≤ s.brk.until_) || (s.brk.state == .tripped && abs s.now < s.brk.until_)
      if !s.inflight.contains id1 || !s.inflight.contains id2 || id1 == id2 || !keeps then (s, "bad-op") else
      -- Record_1, Record_2 (no lock needed), the parked request's decision (it holds the lock), then the two checkAndSet
      let b1 := CBH.recordH (CBH.recordH (s.brk, s.hist) (abs s.now) c1 (latency s id1)) (abs s.now) c2 (latency s id2)
      let mm := mismatch s.cfg b1.2 rest
      -- adv=<ns>: the clock moves on while the two completions wait for the lock the parked request holds (it sits in the Warn
      -- that precedes its decision); the parked request decides and the checks read the clock once they have the lock
      -- (`until`, `timeToCheck`, `lastCheck` are all taken at now + adv, the two records at now)
      let later := s.now + Driver.kvNat rest "adv" 0
      let ra := arrive s.cfg b1.1 (abs later)
      let k1 := CBH.checkAndSetH floatK s.cfg (ra.2, b1.2) (abs later)
      let k2 := CBH.checkAndSetH floatK s.cfg k1.1 (abs later)
      let fl := ((s.inflight.erase id1).erase id2)
      let st := forget (forget s.starts id1) id2
      let (fl, st, ans) := match ra.1 with | .pass => (pid :: fl, (pid, later) :: st, "pass") | .fallback => (fl, st, "fallback")
      ({ s with brk := k2.1.1, hist := k2.1.2, inflight := fl, starts := st, parked := none, now := later },
        "unparked " ++ ans ++ " done2 " ++ toString c1 ++ " " ++ toString c2 ++ " " ++ stateStr k2.1.1 ++ mm)
    | _, _, _ => (s, "bad-op")
  | ["burst", n, d] =>
    match n.toNat?, d.toNat? with
    | some n, some d =>
      if s.parked.isSome || s.armed > 0 then (s, "bad-op") else
      let r := burst s.cfg n d s.brk s.now ' ' 0 ""
      ({ s with brk := r.1, now := r.2.1 }, "burst " ++ r.2.2 ++ " " ++ stateStr r.1)
    | _, _ => (s, "bad-op")
  | ["pburst", n] =>
    -- n requests arriving at once at one frozen instant: every interleaving of their (lock-atomic) `arrive` steps is a
    -- sequence of n such steps at the same clock reading, and the requests are indistinguishable: the answers are counted
    match n.toNat? with
    | some n =>
      if s.parked.isSome || s.armed > 0 || n < 1 || n > 64 then (s, "bad-op") else
      let r := (List.range n).foldl (fun (acc : Brk × Nat × Nat) _ =>
        let a := arrive s.cfg acc.1 (abs s.now)
        match a.1 with
        | .pass => (a.2, acc.2.1 + 1, acc.2.2)
        | .fallback => (a.2, acc.2.1, acc.2.2 + 1)) (s.brk, 0, 0)
      ({ s with brk := r.1 }, "pburst pass=" ++ toString r.2.1 ++ " fallback=" ++ toString r.2.2 ++ " " ++ stateStr r.1)
    | none => (s, "bad-op")
  | ["state"] => if s.parked.isSome then (s, "bad-op") else (s, stateStr s.brk)
  | ["effects"] =>
    if s.parked.isSome then (s, "bad-op") else
    if !s.fx then (s, "effects none") else
    (s, "effects tripped=" ++ toString s.brk.tripped ++ " standby=" ++ toString s.brk.standbys)
  | _ => (s, "bad-op")

def step (s : St) (f : List String) : St × String := step0 s (norm f)

def machine : Driver.Machine (Option St) where
  init := init
  step := fun s f =>
    match s with
    | none => (none, "no-scenario")
    | some s => let r := step s f; (some r.1, r.2)

end DriverC05

def main : IO Unit := Driver.run DriverC05.machine
