import Driver.Basic
import OxyModel.Model.CBreaker

/-! Driver for the circuit-breaker protocol (C05, C12, C18; see `harness/cmd/c05`): runs `CB.arrive` /
`CB.complete` — the definitions the theorems are about.

    cfg fb=<ns> rec=<ns> cp=<ns> px=<condition, prefix form> [go=<condition, Go syntax: harness only>]
    at <ns> | adv <ns>            -> ok
    start <id>                    -> pass <state> | fallback <state>
    finish <id> <code> [q=v,v,…]  -> done <code> <state>        (q: oracle LatencyAtQuantileMS values)
    burst <n> <step_ns>           -> burst <run-length outcomes> <state>   (n × (arrive; clock += step))
    park-warn <n>                 -> ok        (the next n requests arriving while the breaker is not in standby park in its Warn call)
    start <id>                    -> parked    (arrived, undecided; at most one at a time)
    start <id2> while one parked  -> unparked <pass|fallback> then <pass|fallback> <state>   (two `arrive` steps, the parked one first)
    unpark <id>                   -> pass <state> | fallback <state>      (decided now: the `arrive` step happens here)
    finish <id> <code> …          -> unparked <pass|fallback> <state> done <code> <state>   while a request is parked: the breaker
                                     logs under its lock, so the parked request is decided before the completion can evaluate
    finish2 <id1> <c1> <id2> <c2> … -> unparked <pass|fallback> done2 <c1> <c2> <state>   (one parked, its decision cannot move the state:
                                     record, record, arrive, check, check — both responses recorded before either check)
    cfg … fx=0                    -> `effects` prints `effects none` (no side effects registered)
    state                         -> standby | tripped until=<ns> | recovering until=<ns>
    effects                       -> effects tripped=<n> standby=<n>
-/
open CB CBExpr

namespace DriverC05

def parseLit (s : String) : Option Lit :=
  if s.startsWith "i" then (s.drop 1).toString.toNat?.map Lit.int
  else if s.startsWith "f" then
    match (s.drop 1).toString.splitOn "/" with
    | [a, b] => match a.toNat?, b.toNat? with
      | some a, some b => some (Lit.float a b)
      | _, _ => none
    | _ => none
  else none

def parseCmp : String → Option Cmp
  | "eq" => some .eq | "neq" => some .neq | "lt" => some .lt
  | "le" => some .le | "gt" => some .gt | "ge" => some .ge
  | _ => none

def parseFn : List String → Option (Fn × List String)
  | "ner" :: r => some (.ner, r)
  | "rcr" :: a :: b :: c :: d :: r =>
    match parseLit a, parseLit b, parseLit c, parseLit d with
    | some a, some b, some c, some d => some (.rcr a b c d, r)
    | _, _, _, _ => none
  | "lat" :: q :: r => (parseLit q).map fun q => (.lat q, r)
  | _ => none

/-- comma-separated prefix form, fixed arities -/
def parseExpr : Nat → List String → Option (Expr × List String)
  | 0, _ => none
  | _, [] => none
  | fuel + 1, t :: r =>
    if t == "bad" then some (.bad, r)
    else if t == "and" || t == "or" then
      match parseExpr fuel r with
      | some (a, r1) =>
        match parseExpr fuel r1 with
        | some (b, r2) => some (if t == "and" then .and a b else .or a b, r2)
        | none => none
      | none => none
    else
      match parseCmp t with
      | none => none
      | some op =>
        match parseFn r with
        | some (f, v :: r1) => (parseLit v).map fun v => (.cmp op f v, r1)
        | _ => none

structure St where
  cfg : Cfg
  brk : Brk
  now : Nat                 -- protocol time: ns since hx.Base
  inflight : List String
  armed : Nat := 0
  parked : Option String := none
  fx : Bool := true

def abs (t : Nat) : Nat := t + RCnt.baseSinceZeroNs

def stateStr (b : Brk) : String :=
  match b.state with
  | .standby => "standby"
  | .tripped => "tripped until=" ++ toString (b.until_ - RCnt.baseSinceZeroNs)
  | .recovering => "recovering until=" ++ toString (b.until_ - RCnt.baseSinceZeroNs)

def oracle (c : Cfg) (f : List String) : Oracle :=
  match Driver.kv f "q" with
  | none => []
  | some v => c.cond.quantiles.zip ((v.splitOn ",").map fun x => x.toNat?.getD 0)

def init (f : List String) : Option St × String :=
  match Driver.kv f "px" with
  | none => (none, "bad-cfg")
  | some px =>
    let toks := px.splitOn ","
    match parseExpr (toks.length + 1) toks with
    | some (e, []) =>
      let c : Cfg := ⟨Driver.kvNat f "fb" 0, Driver.kvNat f "rec" 0, Driver.kvNat f "cp" 0, e⟩
      match CB.new c with
      | some b => (some { cfg := c, brk := b, now := 0, inflight := [], fx := Driver.kv f "fx" != some "0" }, "ok")
      | none => (none, "err")
    | _ => (none, "bad-cfg")

/-- `n` arrivals, the clock advancing `stp` after each; run-length encoding of the answers -/
def burst (c : Cfg) : Nat → Nat → Brk → Nat → Char → Nat → String → Brk × Nat × String
  | 0, _, b, now, last, run, acc => (b, now, if run > 0 then acc ++ last.toString ++ toString run else acc)
  | n + 1, stp, b, now, last, run, acc =>
    let r := arrive c b (abs now)
    let ch := match r.1 with | .pass => 'p' | .fallback => 'f'
    if ch == last then burst c n stp r.2 (now + stp) last (run + 1) acc
    else burst c n stp r.2 (now + stp) ch 1 (if run > 0 then acc ++ last.toString ++ toString run else acc)

/-- `start <id> cancelled` (a request whose client has gone) is an arrival like any other -/
def norm : List String → List String
  | ["start", id, "cancelled"] => ["start", id]
  | f => f

def step0 (s : St) : List String → St × String
  | ["at", t] =>
    match t.toNat? with
    | some t => ({ s with now := max s.now t }, "ok")
    | none => (s, "bad-op")
  | ["adv", d] =>
    match d.toNat? with
    | some d => ({ s with now := s.now + d }, "ok")
    | none => (s, "bad-op")
  | ["release-fx"] => if s.parked.isSome then (s, "bad-op") else (s, "ok")   -- lets slow side effects finish: no model step
  | ["park-warn", n] =>
    match n.toNat? with
    | some n => ({ s with armed := n }, "ok")
    | none => (s, "bad-op")
  | ["start", id] =>
    if s.inflight.contains id || s.parked == some id || (s.parked.isSome && s.armed > 0) then (s, "bad-op") else
    match s.parked with
    | some pid =>
      -- a second arrival while one is parked: it waits for the lock the parked one holds; both are decided, in that order
      let ra := arrive s.cfg s.brk (abs s.now)
      let rb := arrive s.cfg ra.2 (abs s.now)
      let str := fun (o : Out) => match o with | .pass => "pass" | .fallback => "fallback"
      let fl := (if ra.1 == .pass then [pid] else []) ++ (if rb.1 == .pass then [id] else [])
      ({ s with brk := rb.2, inflight := fl ++ s.inflight, parked := none },
        "unparked " ++ str ra.1 ++ " then " ++ str rb.1 ++ " " ++ stateStr rb.2)
    | none =>
    if s.armed > 0 && s.brk.state != .standby then
      ({ s with armed := s.armed - 1, parked := some id }, "parked")
    else
    let r := arrive s.cfg s.brk (abs s.now)
    match r.1 with
    | .pass => ({ s with brk := r.2, inflight := id :: s.inflight }, "pass " ++ stateStr r.2)
    | .fallback => ({ s with brk := r.2 }, "fallback " ++ stateStr r.2)
  | ["unpark", id] =>
    if s.parked != some id then (s, "bad-op") else
    let r := arrive s.cfg s.brk (abs s.now)
    match r.1 with
    | .pass => ({ s with brk := r.2, inflight := id :: s.inflight, parked := none }, "pass " ++ stateStr r.2)
    | .fallback => ({ s with brk := r.2, parked := none }, "fallback " ++ stateStr r.2)
  | "finish" :: id :: code :: rest =>
    match code.toNat? with
    | none => (s, "bad-op")
    | some code =>
      if !s.inflight.contains id then (s, "bad-op") else
      -- every LatencyAtQuantileMS of the condition needs its oracle value on the op line (no silent default)
      if (oracle s.cfg rest).length < s.cfg.cond.quantiles.length then (s, "bad-op") else
      -- a parked request holds the breaker's lock (the Warn is logged under it): it is decided first
      let (s, pre) := match s.parked with
        | none => (s, "")
        | some pid =>
          let r := arrive s.cfg s.brk (abs s.now)
          match r.1 with
          | .pass => ({ s with brk := r.2, inflight := pid :: s.inflight, parked := none }, "unparked pass " ++ stateStr r.2 ++ " ")
          | .fallback => ({ s with brk := r.2, parked := none }, "unparked fallback " ++ stateStr r.2 ++ " ")
      let r := complete s.cfg s.brk (abs s.now) code (oracle s.cfg rest)
      ({ s with brk := r.1, inflight := s.inflight.erase id }, pre ++ "done " ++ toString code ++ " " ++ stateStr r.1)
  | "finish2" :: id1 :: c1 :: id2 :: c2 :: rest =>
    match c1.toNat?, c2.toNat?, s.parked with
    | some c1, some c2, some pid =>
      let keeps := (s.brk.state == .recovering && abs s.now ≤ s.brk.until_) || (s.brk.state == .tripped && abs s.now < s.brk.until_)
      if !s.inflight.contains id1 || !s.inflight.contains id2 || id1 == id2 || !keeps then (s, "bad-op") else
      if (oracle s.cfg rest).length < s.cfg.cond.quantiles.length then (s, "bad-op") else
      -- Record_1, Record_2 (no lock needed), the parked request's decision (it holds the lock), then the two checkAndSet
      let b1 := record (record s.brk (abs s.now) c1) (abs s.now) c2
      let ra := arrive s.cfg b1 (abs s.now)
      let k1 := checkAndSet s.cfg ra.2 (abs s.now) (oracle s.cfg rest)
      let k2 := checkAndSet s.cfg k1.1 (abs s.now) (oracle s.cfg rest)
      let fl := ((s.inflight.erase id1).erase id2)
      let (fl, ans) := match ra.1 with | .pass => (pid :: fl, "pass") | .fallback => (fl, "fallback")
      ({ s with brk := k2.1, inflight := fl, parked := none },
        "unparked " ++ ans ++ " done2 " ++ toString c1 ++ " " ++ toString c2 ++ " " ++ stateStr k2.1)
    | _, _, _ => (s, "bad-op")
  | ["burst", n, d] =>
    match n.toNat?, d.toNat? with
    | some n, some d =>
      if s.parked.isSome || s.armed > 0 then (s, "bad-op") else
      let r := burst s.cfg n d s.brk s.now ' ' 0 ""
      ({ s with brk := r.1, now := r.2.1 }, "burst " ++ r.2.2 ++ " " ++ stateStr r.1)
    | _, _ => (s, "bad-op")
  | ["state"] => if s.parked.isSome then (s, "bad-op") else (s, stateStr s.brk)
  | ["effects"] =>
    if s.parked.isSome then (s, "bad-op") else
    if !s.fx then (s, "effects none") else
    (s, "effects tripped=" ++ toString s.brk.tripped ++ " standby=" ++ toString s.brk.standbys)
  | _ => (s, "bad-op")

def step (s : St) (f : List String) : St × String := step0 s (norm f)

def machine : Driver.Machine (Option St) where
  init := init
  step := fun s f =>
    match s with
    | none => (none, "no-scenario")
    | some s => let r := step s f; (some r.1, r.2)

end DriverC05

def main : IO Unit := Driver.run DriverC05.machine
