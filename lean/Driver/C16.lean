import Driver.FwdCommon

/-! Driver for the C16 protocol (see `harness/cmd/c16`): runs `Fwd.relay`, `Fwd.classify` (through the assumed
failure-mode table `Fwd.FailMode.kind`) and `Fwd.stateListener` — the definitions the C16 theorems are about. -/
open Fwd FwdURL DriverFwd

namespace DriverC16

def evStr (es : List Event) : String :=
  ",".intercalate (es.map fun | .connected => "connected" | .disconnected => "disconnected")

/-- listener events and recorded status for a forwarded request whose inner handler ended with `o` -/
def tail (o : Outcome) (rec : String) : String :=
  " ev=" ++ evStr (stateListener o).1 ++ " rec=" ++ rec

def failMode : String → Option FailMode
  | "refused" => some .refused
  | "reset-before" => some .resetBefore
  | "close-before" => some .closeBefore
  | "stall" => some .stall
  | "client-cancel" => some .clientCancel
  | "garbage" => some .garbage
  | _ => none

def step (s : Unit) (f : List String) : Unit × String :=
  match f with
  | "resp" :: _ =>
    let r : Option String := do
      let d ← Driver.kv f "d"
      let rh ← headerLines f "rh"
      let st := Driver.kvNat f "s" 200
      let n := ((d.splitOn ":").headD "").toNat?.getD 0
      -- the backend delivers the whole body: the error handler is not involved, the handler returns
      let out := relayOutcome { status := st, header := mkHdr rh, body := d } n none
      let back := out.1
      -- interim (1xx) responses are passed on to the client as they arrive (`Got1xxResponse`); an upstream
      -- pass-through middleware changes nothing
      let pre := match Driver.kv f "pre" with | some p => if p = "" then "" else " pre=" ++ p | none => ""
      -- hold=1 (a stream that is silent after its head; undeclared length): the proxy flushes the head at once
      -- (`httputil.ReverseProxy.flushInterval` is negative for `ContentLength == -1`), whatever pass-through middleware is upstream
      let hold := if Driver.kvNat f "hold" 0 == 1 then "head=early " else ""
      some (squeeze (hold ++ (if out.2.1 then toString back.status ++ pre ++ " body=" ++ back.body ++ " H " ++ showHdr back.header clientDrop
                      else "aborted")
        ++ tail out.2.2 (toString back.status)))
    (s, r.getD "bad-op")
  | ["fail", m] =>
    match failMode m with
    | none => (s, "bad-op")
    | some fm =>
      -- `RoundTrip` fails with an error of kind `fm.kind`; the error handler writes `classify` and returns
      let st := toString (classify fm.kind.info)
      (s, (if fm = .clientCancel then "gone" else st) ++ tail .ret st)
  | "abort" :: _ =>
    let r : Option String := do
      let rh ← headerLines f "rh"
      let n := Driver.kvNat f "n" 0
      let sent := Driver.kvNat f "sent" 0
      if sent ≥ n then none
      -- the head is relayed, then the body copy fails: `Fwd.relayOutcome` says how the handler ends
      let out := relayOutcome { status := Driver.kvNat f "s" 200, header := mkHdr rh, body := "" } n (some sent)
      some ((if out.2.1 then toString out.1.status else "aborted") ++ tail out.2.2 (toString out.1.status))
    (s, r.getD "bad-op")
  | "presp" :: _ =>
    let r : Option String := do
      let d ← Driver.kv f "d"
      let k := Driver.kvNat f "c" 2
      let st := Driver.kvNat f "s" 200
      match d.splitOn ":" with
      | [n, digs] =>
        let ds := digs.splitOn "/"
        if ds.length ≠ k || k < 1 || k > 16 then none else
        -- k independent relays: each client gets its own backend response unchanged
        let outs := ds.map fun dg =>
          let back := relay { status := st, header := [], body := n ++ ":" ++ dg }
          toString back.status ++ ":" ++ back.body
        let evs := (List.replicate k Outcome.ret).flatMap fun o => (stateListener o).1
        some (" ".intercalate outs ++ " evc=" ++ toString (evs.count .connected) ++ "/" ++ toString (evs.count .disconnected))
      | _ => none
    (s, r.getD "bad-op")
  | ["listener", "ret"] => (s, "200" ++ tail .ret "200")
  -- a handler that re-targets the request (new URL object, or in-place edit) and returns: both notifications are about the
  -- URL object the listener was handed (`defer` evaluates its argument when it is registered)
  | ["listener", "retarget"] => (s, "200" ++ tail .ret "200")
  | ["listener", "mutate"] => (s, "200" ++ tail .ret "200")
  | ["listener", "panic"] => (s, "eof" ++ tail (.panic "boom") "-")
  | ["listener", "abort"] => (s, "eof" ++ tail (.panic "net/http: abort Handler") "-")
  | _ => (s, "bad-op")

def machine : Driver.Machine Unit where
  init := fun _ => ((), "ok")
  step := step

end DriverC16

def main : IO Unit := Driver.run DriverC16.machine
