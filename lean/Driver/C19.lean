import Driver.Basic
import OxyModel.Model.Source

/-! Driver for the C19 protocol (see `harness/cmd/c19`): runs `Source.newExtractor` / `Source.extract`
— the definitions the C19 theorems are about.

    cfg var=<esc variable>                                  -> ok | err unsupported | err wrongheader
    x addr=<esc> host=<esc> [urlhost=<esc>] [h=<esc name>=<esc value>]...   -> ok tok=<esc token> amt=<n> | err

`<esc>`: bytes in `[A-Za-z0-9.:_-]`, `[`, `]` stand for themselves, any other byte is `%XX`; a byte
`b` is the character with code `b` on the model side. -/
open Source

namespace DriverC19

def safe (c : Char) : Bool :=
  c.isAlphanum || c == '.' || c == ':' || c == '_' || c == '-' || c == '[' || c == ']'

def hexDigit (n : Nat) : Char := if n < 10 then Char.ofNat (48 + n) else Char.ofNat (55 + n)

def esc (s : Str) : String :=
  String.ofList (s.flatMap fun c => if safe c then [c] else ['%', hexDigit (c.toNat / 16 % 16), hexDigit (c.toNat % 16)])

def hexVal (c : Char) : Option Nat :=
  if c.isDigit then some (c.toNat - 48)
  else if 'A' ≤ c ∧ c ≤ 'F' then some (c.toNat - 55) else none

def unescL : List Char → Option Str
  | [] => some []
  | '%' :: a :: b :: t =>
    match hexVal a, hexVal b, unescL t with
    | some x, some y, some r => some (Char.ofNat (x * 16 + y) :: r)
    | _, _, _ => none
  | c :: t => if safe c then (unescL t).map (c :: ·) else none

def unesc (s : String) : Option Str := unescL s.toList

/-- parse the tokens after `x` into a request; `none` = ill-formed -/
def parseReq : List String → Req → Bool → Bool → Option Req
  | [], r, _, _ => some { r with headers := r.headers.reverse }
  | t :: ts, r, seenA, seenH =>
    if t.startsWith "addr=" && !seenA then
      match unesc ((t.drop 5).toString) with
      | some v => parseReq ts { r with remoteAddr := v } true seenH
      | none => none
    else if t.startsWith "host=" && !seenH then
      match unesc ((t.drop 5).toString) with
      | some v => parseReq ts { r with host := v } seenA true
      | none => none
    else if t.startsWith "urlhost=" && r.urlHost.isEmpty then
      match unesc ((t.drop 8).toString) with
      | some v => parseReq ts { r with urlHost := v } seenA seenH
      | none => none
    else if t.startsWith "h=" then
      let body := (t.drop 2).toString.toList
      let name := body.takeWhile (· ≠ '=')
      let rest := body.dropWhile (· ≠ '=')
      match rest with
      | [] => none
      | _ :: value =>
        match unescL name, unescL value with
        | some n, some v => parseReq ts { r with headers := (n, v) :: r.headers } seenA seenH
        | _, _ => none
    else none

abbrev St := Option Kind

def step (st : St) (f : List String) : St × String :=
  match st with
  | none => (st, "no-scenario")
  | some k =>
    match f with
    | "x" :: ts =>
      match parseReq ts ⟨[], [], [], []⟩ false false with
      | none => (st, "bad-op")
      | some r =>
        match extract k r with
        | .ok (tok, amt) => (st, "ok tok=" ++ esc tok ++ " amt=" ++ toString amt)
        | .error _ => (st, "err")
    | _ => (st, "bad-op")

def init (f : List String) : St × String :=
  match unesc ((Driver.kv f "var").getD "") with
  | none => (none, "bad-op")
  | some v =>
    match newExtractor v with
    | .ok k => (some k, "ok")
    | .error .unsupported => (none, "err unsupported")
    | .error .wrongHeader => (none, "err wrongheader")

def machine : Driver.Machine St where
  init := init
  step := step

end DriverC19

def main : IO Unit := Driver.run DriverC19.machine
