import Driver.FwdCommon

/-! Driver for the C08 protocol (see `harness/cmd/c08`): runs `Fwd.serve` / `Fwd.relay` — the definitions the
C08 theorems are about — on the request described by one op line. -/
open Fwd FwdURL


namespace DriverC08
open DriverFwd

structure St where
  pass : Bool

def step (s : St) (f : List String) : St × String :=
  match f with
  | "req" :: _ =>
    let r : Option String := do
      let m ← Driver.kv f "m"
      let t ← (Driver.kv f "t").bind fun x => unpe x.toList
      let hostTok ← Driver.kv f "host"
      let host ← if hostTok = "-" then some "" else unpeS hostTok
      let peer ← (Driver.kv f "peer").bind unpeS
      let be ← Driver.kv f "be"
      let hs ← headerLines f "h"
      let rh ← headerLines f "rh"
      if m = "" || !(be = "A" || be = "B") then none
      let body := Driver.kv f "body"
      let n := match body with
        | some b => ((b.splitOn ":").headD "").toNat?.getD 0
        | none => 0
      let rs := Driver.kvNat f "rs" 200
      let hdr := mkHdr hs
      let hdr := if n > 0 then add hdr "Content-Length" (toString n) else hdr
      let req : Req := {
        method := m,
        requestURI := t, url := { scheme := "http", host := "@" ++ be }, host := host, remoteAddr := peer,
        tls := Driver.kvNat f "tls" 0 = 1, header := hdr, bodyLen := n, formParsed := Driver.kvNat f "form" 0 = 1 }
      -- the Go server has parsed the target with the same function before any handler runs
      -- a target form the URL model does not cover: say so instead of predicting
      if !modelledTarget t then some "unmodelled" else
      match parseRequestURI t with
      | none => some "400 be=-"
      | some pu =>
      let req := { req with host := serverHost pu host }
      match serve { passHostHeader := s.pass } req with
      | none => some "500 be=-"
      | some w =>
        let back : Resp := relay { status := rs, header := mkHdr rh, body := "" }
        some (squeeze (toString back.status ++ " be=" ++ (w.backend.2.drop 1).toString ++ " m=" ++ m ++ " t=" ++ pe w.target ++ " p=" ++ w.proto
          ++ " host=" ++ pe w.host.toList ++ " B " ++ showHdr w.header (fun _ _ => false)
          ++ " C " ++ showHdr back.header clientDrop
          ++ (match body with | some b => if n > 0 then " body=" ++ b else "" | none => "")))
    (s, r.getD "bad-op")
  | _ => (s, "bad-op")

def machine : Driver.Machine St where
  init := fun f => ({ pass := Driver.kvNat f "pass" 0 = 1 }, "ok")
  step := step

end DriverC08

def main : IO Unit := Driver.run DriverC08.machine
