import Driver.Basic
import OxyModel.Model.Locks

/-! Driver for the C09 protocol (see `harness/cmd/c09`): evaluates `Locks.checkVar` / `Locks.groupLock`
— the checker the theorem `C09_discipline` runs in the kernel — on a fact table given line by line. -/
open Locks

namespace DriverC09

abbrev St := Option (List Fact)

def parseLock (s : String) : Option (Nat × Bool) :=
  match s.splitOn ":" with
  | [l, "W"] => l.toNat?.map fun n => (n, true)
  | [l, "R"] => l.toNat?.map fun n => (n, false)
  | _ => none

def parseLocks (s : String) : Option (List (Nat × Bool)) :=
  if s == "-" then some [] else (s.splitOn ",").mapM parseLock

def varsOf (fs : List Fact) : List Nat :=
  (fs.map (·.var)).foldl (fun acc v => if acc.contains v then acc else acc ++ [v]) []

def step (st : St) (f : List String) : St × String :=
  match st with
  | none => (none, "no-scenario")
  | some fs =>
    match f with
    | ["fact", v, rw, ls, site] =>
      match v.toNat?, parseLocks ls with
      | some v, some ls =>
        if rw == "r" then (some (fs ++ [⟨v, false, 0, ls, site⟩]), "ok")
        else if rw == "u" then (some (fs ++ [⟨v, true, 1, ls, site⟩]), "ok")
        else if rw == "w" then (some (fs ++ [⟨v, true, 2, ls, site⟩]), "ok")
        else if rw == "x" then (some (fs ++ [⟨v, true, 3, ls, site⟩]), "ok")
        else (st, "bad-op")
      | _, _ => (st, "bad-op")
    | ["verdict", v] =>
      match v.toNat? with
      | none => (st, "bad-op")
      | some v =>
        if (factsOf fs v).isEmpty then (st, "novar") else
        match checkVar fs v with
        | some ℓ => (st, "disciplined " ++ toString ℓ)
        | none => (st, "undisciplined")
    | ["all"] =>
      let bad := ((varsOf fs).filter fun v => (checkVar fs v).isNone).mergeSort (· ≤ ·)
      if bad.isEmpty then (st, "all-disciplined")
      else (st, bad.foldl (fun s v => s ++ " " ++ toString v) "undisciplined")
    | ["updates"] =>
      if noSplitB fs then (st, "updates-atomic")
      else
        let bad := (varsOf (fs.filter fun f => f.kind == 3)).mergeSort (· ≤ ·)
        (st, bad.foldl (fun s v => s ++ " " ++ toString v) "split")
    | ["counter", v] =>
      match v.toNat? with
      | none => (st, "bad-op")
      | some v =>
        if (factsOf fs v).isEmpty then (st, "novar")
        else if isCounterB fs v then (st, "counter") else (st, "not-counter")
    | ["count"] => (st, toString fs.length)
    | _ => (st, "bad-op")

def machine : Driver.Machine St where
  init := fun f => if f == ["cfg", "facts"] then (some [], "ok") else (none, "bad-cfg")
  step := step

end DriverC09

def main : IO Unit := Driver.run DriverC09.machine
