import Driver.Basic
import OxyModel.Model.Sticky

/-! Driver for the C11 protocol (see `harness/cmd/c11`): runs `Sticky.serve` with `Sticky.stdEnv`
(FNV-1a/64, symbolic AEAD) — the definitions the C11 theorems are about.  Jar, tamper operators and
the codec-spec parser are protocol glue. -/
open Sticky

namespace DriverC11

structure St where
  /-- the (wrapped) round-robin balancer -/
  lb : LB
  /-- `lb=rb`: the scenario's front end is a `Rebalancer` around `lb` -/
  isRb : Bool
  /-- the rebalancer's own records -/
  recs : List (URL × Nat)
  ss : Session
  now : Nat
  /-- `Set-Cookie` values received so far, most recent first -/
  jar : List Str

def s2l (s : String) : Str := s.toList
def l2s (l : Str) : String := String.ofList l

/-- codec spec: `raw` | `hash:<salt-esc>` | `aes:<key>:<ttl>` | `fb(<spec>,<spec>)` -/
partial def parseCodec (s : Str) : Option (Codec × Str) :=
  if (s2l "fb(").isPrefixOf s then
    match parseCodec (s.drop 3) with
    | some (a, ',' :: r) =>
      match parseCodec r with
      | some (b, ')' :: r') => some (.fallback a b, r')
      | _ => none
    | _ => none
  else if (s2l "raw").isPrefixOf s then some (.raw, s.drop 3)
  else if (s2l "hash:").isPrefixOf s then
    let body := (s.drop 5).span fun c => c != ',' && c != ')'
    (unesc body.1).map fun salt => (.hash salt, body.2)
  else if (s2l "aes:").isPrefixOf s then
    let k := (s.drop 4).span Char.isDigit
    match k.2 with
    | ':' :: r =>
      let t := r.span Char.isDigit
      if k.1 = [] || t.1 = [] then none
      else some (.aes (Nat.ofDigitChars 10 k.1 0) (Nat.ofDigitChars 10 t.1 0), t.2)
    | _ => none
  else none

def codecOf (s : String) : Option Codec :=
  match parseCodec (s2l s) with
  | some (c, []) => some c
  | _ => none

def xorBit (c : Char) (b : Nat) : Char := Char.ofNat ((c.toNat ^^^ (1 <<< b)) % 256)

def lowerHex (n : Nat) : Char := Char.ofNat (if n < 10 then 48 + n else 87 + n)

def pctTail (v : Str) : Str :=
  match cutLast '/' v with
  | none => v
  | some (a, b) => a ++ '/' :: b.flatMap fun c => if isAlpha c || isDigit c then escByte c else [c]

/-- tamper operators on a cookie value as the client holds it.  A sealed (AES) value is opaque to the
    client: whatever it does to it yields a value that was not minted under any key (`forged`); the
    harness applies the operator to the real cookie string in a way that always changes its bytes. -/
def tamper (v : Str) (t : List String) : Option Str :=
  let sealed := aesTag.isPrefixOf v
  let forged := s2l "forged"
  match t with
  | ["trunc", n] =>
    match n.toNat? with
    | some n => if n = 0 then some v else if sealed then some forged else some (v.take (v.length - n))
    | none => none
  | ["flip", i, b] =>
    match i.toNat?, b.toNat? with
    | some i, some b =>
      if b > 7 then none
      else if sealed then some forged
      else if v = [] then some v
      else some (v.modify (i % v.length) (xorBit · b))
    | _, _ => none
  | ["hex"] => if sealed then some forged else some (v.flatMap fun c => [lowerHex (c.toNat / 16), lowerHex (c.toNat % 16)])
  | ["upper"] => if sealed then some forged else some (v.map fun c => if 'a' ≤ c ∧ c ≤ 'z' then Char.ofNat (c.toNat - 32) else c)
  | ["pct"] => if sealed then some forged else some (pctTail v)
  | _ => none

def resStr : Resp → String
  | .served u set =>
    "served " ++ l2s (esc (render u)) ++ " set=" ++ (match set with | some w => "v:" ++ l2s (esc w) | none => "none")
  | .rejected .errNoServers => "rejected noservers set=none"
  | .rejected .errAllZero => "rejected allzero set=none"
  | .rejected _ => "rejected other set=none"

def keyStr (u : URL) : String := l2s (esc u.scheme) ++ "|" ++ l2s (esc u.host) ++ "|" ++ l2s (esc u.path)

def urlOf (tok : String) : Option URL :=
  match unesc (s2l tok) with
  | none => none
  | some raw => parse raw

def step (st : St) (f : List String) : St × String :=
  match f with
  | ["servers"] =>
    (st, st.lb.srvs.foldl (fun acc s => acc ++ " " ++ l2s (esc (render s.url)) ++ "," ++ toString s.w ++ ","
      ++ l2s (esc s.url.scheme) ++ "|" ++ l2s (esc s.url.host) ++ "|" ++ l2s (esc s.url.path)) "servers")
  | ["mint", spec, u] =>
    -- a foreign sticky session of codec `spec` runs `StickBackend(u)`; the client stores the value
    match codecOf spec with
    | none => (st, "bad-op")
    | some c =>
      match urlOf u with
      | none => (st, "err badurl")
      | some u =>
        let w := setCookieWire st.ss.name (get stdEnv st.now c u)
        let desc := l2s (esc (render u)) ++ "," ++ l2s (esc u.scheme) ++ "|" ++ l2s (esc u.host) ++ "|" ++ l2s (esc u.path)
        match w with
        | some w => ({ st with jar := w :: st.jar }, "minted v:" ++ l2s (esc w) ++ " " ++ desc)
        | none => (st, "minted none " ++ desc)
  | ["codec", spec] =>
    match codecOf spec with
    | some c => ({ st with ss := { st.ss with codec := c } }, "ok")
    | none => (st, "bad-op")
  | ["adv", ns] =>
    match ns.toNat? with
    | some ns => ({ st with now := max st.now ns }, "ok")
    | none => (st, "bad-op")
  | "req" :: args =>
    match Driver.kv args "cookie" with
    | none => (st, "bad-op")
    | some ck =>
      -- the value part of the `Cookie: <name>=<value>` header, if a cookie is sent
      let value : Option (Option Str) :=
        if ck = "none" then some none
        else if ck.startsWith "@" then
          match (ck.drop 1).toString.toNat? with
          | some k => if k = 0 then none else some (st.jar[k - 1]?)
          | none => none
        else if ck.startsWith "raw:" then (unesc (s2l (ck.drop 4).toString)).map some
        else none
      match value with
      | none => (st, "bad-op")
      | some value =>
        let value : Option (Option Str) := match value, Driver.kv args "t" with
          | some v, some t => (tamper v (t.splitOn ":")).map some
          | v, _ => some v
        match value with
        | none => (st, "bad-op")
        | some value =>
          let hdr := value.map (echoLine st.ss.name)
          let r := serve stdEnv st.now st.ss st.lb hdr
          let jar := match r.2 with
            | .served _ (some w) => w :: st.jar
            | _ => st.jar
          ({ st with lb := r.1, jar := jar }, resStr r.2)
  | op :: u :: rest =>
    -- `upsert` / `remove` go through the front end (the rebalancer when `lb=rb`), `upsert-inner` / `remove-inner`
    -- to the wrapped round-robin balancer directly
    if op != "upsert" && op != "remove" && op != "upsert-inner" && op != "remove-inner" then (st, "bad-op") else
    let viaRb := st.isRb && (op == "upsert" || op == "remove")
    if op == "upsert" || op == "upsert-inner" then
      let w : Option (Option Nat) := match rest with
        | [] => some none
        | [w] => w.toNat?.map some
        | _ => none
      match w with
      | none => (st, "bad-op")
      | some w =>
        match urlOf u with
        | none => (st, "err badurl")
        | some u =>
          let st' : St := if viaRb then
              let rb := RB.upsert ⟨st.lb, st.recs⟩ u w
              { st with lb := rb.lb, recs := rb.recs }
            else { st with lb := st.lb.upsert u w }
          let wt := match st'.lb.srvs.find? (fun s => s.url.key == u.key) with | some s => s.w | none => 0
          (st', "ok " ++ l2s (esc (render u)) ++ "," ++ toString wt ++ "," ++ keyStr u)
    else
      if rest != [] then (st, "bad-op") else
      match urlOf u with
      | none => (st, "err badurl")
      | some u =>
        if viaRb then
          match RB.remove ⟨st.lb, st.recs⟩ u with
          | some rb => ({ st with lb := rb.lb, recs := rb.recs }, "ok " ++ keyStr u)
          | none => (st, "err notfound")
        else
          match st.lb.remove u with
          | some lb => ({ st with lb := lb }, "ok " ++ keyStr u)
          | none => (st, "err notfound")
  | _ => (st, "bad-op")

def init (f : List String) : St × String :=
  let codec := (Driver.kv f "codec").bind codecOf
  let name := match Driver.kv f "name" with
    | some n => unesc (s2l n)
    | none => some (s2l "aff")
  match codec, name with
  | some c, some n =>
    match Driver.kv f "lb" with
    | some "rr" => (⟨LB.empty, false, [], ⟨n, c⟩, 0, []⟩, "ok")
    | some "rb" => (⟨LB.empty, true, [], ⟨n, c⟩, 0, []⟩, "ok")
    | _ => (⟨LB.empty, false, [], ⟨s2l "aff", .raw⟩, 0, []⟩, "bad-op")
  | _, _ => (⟨LB.empty, false, [], ⟨s2l "aff", .raw⟩, 0, []⟩, "bad-op")

def machine : Driver.Machine St where
  init := init
  step := step

end DriverC11

def main : IO Unit := Driver.run DriverC11.machine
