import Driver.Basic
import OxyModel.Model.Forward

/-! Parsing/printing glue shared by the forwarder drivers (C08, C16); mirrors `harness/cmd/c08/fx`. -/
open Fwd FwdURL

namespace DriverFwd

def hexDigit (n : Nat) : Char := upperhex n

/-- `fx.PE` -/
def pe (s : List Char) : String :=
  String.ofList (s.flatMap fun c =>
    if 0x20 < c.toNat && c.toNat < 0x7f && c ≠ '%' && c ≠ '|' then [c]
    else ['%', hexDigit (c.toNat / 16 % 16), hexDigit (c.toNat % 16)])

/-- `fx.UnPE` -/
def unpe : List Char → Option (List Char)
  | [] => some []
  | '%' :: a :: b :: r => if ishex a && ishex b then (unpe r).map (Char.ofNat (unhex a * 16 + unhex b) :: ·) else none
  | '%' :: _ => none
  | c :: r => (unpe r).map (c :: ·)

def unpeS (s : String) : Option String := (unpe s.toList).map String.ofList

/-- all `key=Name:pe(value)` tokens, in order, as wire header lines -/
def headerLines (f : List String) (key : String) : Option (List (String × String)) :=
  (f.filter (·.startsWith (key ++ "="))).mapM fun t =>
    let nv := (t.drop (key.length + 1)).toString.toList
    let name := nv.takeWhile (· ≠ ':')
    if name = [] || name.length = nv.length then none
    else (unpe (nv.drop (name.length + 1))).map fun v => (String.ofList name, String.ofList v)

/-- the server's header map: canonical names, values in wire order -/
def mkHdr (ls : List (String × String)) : Hdr := ls.foldl (fun h l => add h (canonKey l.1) l.2) []

def showHdr (h : Hdr) (drop : String → String → Bool) : String :=
  let h := h.filterMap fun e =>
    let vs := e.2.filter fun v => !drop e.1 v
    if vs = [] then none else some (e.1, vs)
  let h := h.mergeSort fun a b => a.1 ≤ b.1
  " ".intercalate (h.map fun e => e.1 ++ ":" ++ "|".intercalate (e.2.map fun v => pe v.toList))

/-- `fx.ClientDrop` -/
def clientDrop (k v : String) : Bool :=
  k = "Date" || k = "Content-Length" || k = "Transfer-Encoding" || (k = "Connection" && (v = "close" || v = "keep-alive"))

def squeeze (s : String) : String := " ".intercalate ((s.splitOn " ").filter (· ≠ ""))

end DriverFwd
