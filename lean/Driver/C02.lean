import Driver.Basic
import OxyModel.Model.Rebalancer

/-! Driver for the C02 / C10 protocol (see `harness/cmd/c02`): runs `RB.Sys` — the definitions the
C02 and C10 theorems are about.

    cfg via=rr|rb [sticky=1] [backoff=<ns>] [ready=0|1]
    upsert <scheme> <host> <path|-> [user=..] [query=..] [w=<int>]
    remove|weight <scheme> <host> <path|->
    servers | weights | next | adv <ns>
    serve [cookie=<scheme>,<host>,<path|->] [mutate=host|path|scheme|all]
    rate <scheme> <host> <path|-> <num>/<den>        ready <scheme> <host> <path|-> 0|1
    race <pairs> <reqs>          serve-remove <scheme> <host> <path|->
    remove-serve <scheme> <host> <path|->            serve-serve            upsert … meterfail=1
    pupsert <n> <scheme> <host> <path|-> [user=..] [query=..] [w=<int>]
-/
open RB PoolM RR

namespace DriverC02

def pth (p : String) : String := if p == "-" then "" else p

def mkURL (f : List String) (s h p : String) : URL :=
  ⟨s, h, pth p, (Driver.kv f "user").getD "", (Driver.kv f "query").getD ""⟩

def parseInt (s : String) : Option Int :=
  if s.startsWith "-" then (s.drop 1).toString.toNat?.map (fun n => -(n : Int)) else s.toNat?.map (fun n => (n : Int))

def parseRat (s : String) : Option Rat :=
  match s.splitOn "/" with
  | [a, b] =>
    match parseInt a, b.toNat? with
    | some n, some d => if d = 0 then none else some (mkRat n d)
    | _, _ => none
  | _ => none

def resErr : Res → String
  | .errNoServers => "noservers"
  | .errAllZero => "allzero"
  | .outOfFuel => "fuel"
  | .sel _ => "sel"

def outStr : Out → String
  | .ok => "ok"
  | .errNegWeight => "err negweight"
  | .errNotFound => "err notfound"
  | .errMeter => "err meter"
  | .next _ (some u) => "ok " ++ u.str
  | .next e none => "err " ++ resErr e
  | .forwarded u fresh => "200 " ++ u.str ++ (if fresh then " fresh" else " alias")
  | .failed e => "500 " ++ resErr e

def sortStrs (l : List String) : List String := l.mergeSort (fun a b => decide (a ≤ b))

def doOp (s : Sys) (o : Op) : Sys × String := let r := s.step o; (r.1, outStr r.2)

def isKV (t : String) : Bool := (t.splitOn "=").length > 1

def step (s : Sys) (f : List String) : Sys × String :=
  match f with
  | "upsert" :: sc :: h :: p :: rest =>
    if !(rest.all isKV) then (s, "bad-op") else
    let failing := Driver.kvNat rest "meterfail" 0 == 1
    match Driver.kv rest "w" with
    | some ws =>
      match parseInt ws with
      | some (.ofNat w) =>
        if failing then doOp s (.upsertFailing (mkURL rest sc h p) (some w))
        else doOp s (.upsert (mkURL rest sc h p) (some (.ofNat w)))
      | some w => doOp s (.upsert (mkURL rest sc h p) (some w))
      | none => (s, "bad-op")
    | none =>
      if failing then doOp s (.upsertFailing (mkURL rest sc h p) none)
      else doOp s (.upsert (mkURL rest sc h p) none)
  | ["remove", sc, h, p] => doOp s (.remove (mkURL [] sc h p))
  | ["weight", sc, h, p] =>
    match s.bal.weight (sc, h, pth p) with
    | some w => (s, toString w)
    | none => (s, "none")
  | ["servers"] => (s, (sortStrs (s.servers.map URL.str)).foldl (fun a u => a ++ " " ++ u) "servers")
  | ["weights"] =>
    (s, (sortStrs (s.weights.map fun e => e.1.str ++ "=" ++ toString e.2)).foldl (fun a u => a ++ " " ++ u) "weights")
  | ["next"] => doOp s .next
  | ["adv", ns] =>
    match ns.toNat? with
    | some ns => doOp s (.adv ns)
    | none => (s, "bad-op")
  | ["serve-remove", sc, h, p] =>
    -- a request and a `RemoveServer` issued while the request's adjustment is applying weights: the
    -- calls are atomic, the adjustment belongs to the request, so the outcome is "request, then removal"
    let r1 := doOp s (.serve none none)
    let r2 := doOp r1.1 (.remove (mkURL [] sc h p))
    (r2.1, r1.2 ++ " ; " ++ r2.2)
  | "pupsert" :: ns :: sc :: h :: p :: rest =>
    -- n goroutines upsert the same URL at once: atomic calls, so n sequential upserts
    if !(rest.all isKV) then (s, "bad-op") else
    match ns.toNat? with
    | none => (s, "bad-op")
    | some n =>
      if n < 1 || n > 64 then (s, "bad-op") else
      let w : Option (Option Int) := match Driver.kv rest "w" with
        | some ws => (parseInt ws).map some
        | none => some none
      match w with
      | none => (s, "bad-op")
      | some w =>
        let u := mkURL rest sc h p
        let r := (List.range n).foldl (fun (acc : Sys × Nat × Nat) _ =>
          let t := acc.1.step (.upsert u w)
          match t.2 with
          | .ok => (t.1, acc.2.1 + 1, acc.2.2)
          | _ => (t.1, acc.2.1, acc.2.2 + 1)) (s, 0, 0)
        -- (the harness's reserved holder server is removed at the end, which leaves the iterator reset)
        (r.1.withBal { r.1.bal with it := It.reset }, "pupsert ok=" ++ toString r.2.1 ++ " negweight=" ++ toString r.2.2 ++ " other=0")
  | ["remove-serve", sc, h, p] =>
    -- `RemoveServer`, and a request issued while the rebalancer is between the balancer's removal and
    -- dropping its record: atomic calls, so "removal, then request"; the harness leaves the iterator reset
    let r1 := doOp s (.remove (mkURL [] sc h p))
    let r2 := r1.1.step (.serve none none)
    -- which member the request got is not part of the canonical output (it may select before `reset()`)
    let o2 := match r2.2 with
      | .forwarded u fresh =>
        "200 " ++ (if r2.1.servers.contains u then "member" else "nonmember:" ++ u.str) ++ (if fresh then " fresh" else " alias")
      | o => outStr o
    (r2.1.withBal { r2.1.bal with it := It.reset }, r1.2 ++ " ; " ++ o2)
  | ["serve-serve"] =>
    -- a second request issued while the first one's adjustment completes its weight push: two requests
    let wstr := fun (t : Sys) =>
      (sortStrs (t.weights.map fun e => e.1.str ++ "=" ++ toString e.2)).foldl (fun a u => a ++ " " ++ u) "weights"
    let r1 := doOp s (.serve none none)
    let r2 := doOp r1.1 (.serve none none)
    (r2.1, r1.2 ++ " ; " ++ wstr r1.1 ++ " ; " ++ r2.2 ++ " ; " ++ wstr r2.1)
  | ["race", a, b] =>
    -- administration calls racing with requests: whatever the interleaving of the (atomic) calls, the
    -- harness ends with a sequential add + remove of the reserved server, which determines the state
    match a.toNat?, b.toNat? with
    | some _, some _ =>
      let x : URL := ⟨"http", "zz-race", "/", "", ""⟩
      let s1 := (s.step (.upsert x none)).1
      ((s1.step (.remove x)).1, "race ok")
    | _, _ => (s, "bad-op")
  | "serve" :: rest =>
    if !(rest.all isKV) then (s, "bad-op") else
    let cookie : Option (Option Key) :=
      match Driver.kv rest "cookie" with
      | none => some none
      | some c => match c.splitOn "," with
        | [sc, h, p] => some (some (sc, h, pth p))
        | _ => none
    let mt : Option (Option Mut) :=
      match Driver.kv rest "mutate" with
      | none => some none
      | some "host" => some (some .host)
      | some "path" => some (some .path)
      | some "scheme" => some (some .scheme)
      | some "all" => some (some (.set ⟨"evil", "evil", "/evil", "evil", "evil=1"⟩))
      | some _ => none
    match cookie, mt with
    | some c, some m => doOp s (.serve c m)
    | _, _ => (s, "bad-op")
  | ["rate", sc, h, p, v] =>
    match parseRat v with
    | some v => doOp s (.rate (sc, h, pth p) v)
    | none => (s, "bad-op")
  | ["ready", sc, h, p, v] =>
    if v == "0" then doOp s (.ready (sc, h, pth p) false)
    else if v == "1" then doOp s (.ready (sc, h, pth p) true)
    else (s, "bad-op")
  | _ => (s, "bad-op")

def init (f : List String) : Sys × String :=
  let via := (Driver.kv f "via").getD "rr"
  if via != "rr" && via != "rb" then (Sys.init false false 0 false, "err cfg") else
  (Sys.init (via == "rb") (Driver.kvNat f "sticky" 0 == 1) (Driver.kvNat f "backoff" 0) (Driver.kvNat f "ready" 0 == 1), "ok")

def machine : Driver.Machine Sys where
  init := init
  step := step

end DriverC02

def main : IO Unit := Driver.run DriverC02.machine
