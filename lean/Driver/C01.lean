import Driver.Basic
import OxyModel.Model.RoundRobin

/-! Driver for the C01 protocol (see `harness/cmd/c01`): runs `RR.Pool` — the definitions the C01
theorems are about. -/
open RR

namespace DriverC01

abbrev St := Pool String

def resStr (p : St) : Res → String
  | .sel i => "ok " ++ p.keys.getD i "?"
  | .errNoServers => "err noservers"
  | .errAllZero => "err allzero"
  | .outOfFuel => "err fuel"

/-- `n` sequential `next` calls, counting result strings -/
def countNexts (p : St) : Nat → List (String × Nat) → St × List (String × Nat)
  | 0, acc => (p, acc)
  | n + 1, acc =>
    let r := p.nextServerFrom
    let k := (resStr p r.1).replace " " ":"
    let acc' := match acc.find? (·.1 == k) with
      | some _ => acc.map fun e => if e.1 == k then (e.1, e.2 + 1) else e
      | none => acc ++ [(k, 1)]
    countNexts r.2 n acc'

def step (p : St) : List String → St × String
  | ["upsert", k, w] =>
    if w.startsWith "-" then (p, "err Weight_should_be_>=_0") else
    match w.toNat? with
    | none => (p, "bad-op")
    | some w => (p.upsert k (some w), "ok")
  | ["upsert", k] => (p.upsert k none, "ok")
  | "upserts" :: k :: ws =>
    -- several Weight options in one call; a negative one fails after the earlier ones were applied
    match ws.mapM String.toInt? with
    | none => (p, "bad-op")
    | some xs =>
      let r := p.upsertOpts k xs
      (r.1, if r.2 then "ok" else "err Weight_should_be_>=_0")
  | ["remove", k] =>
    match p.remove k with
    | some p' => (p', "ok")
    | none => (p, "err notfound")
  | ["weight", k] =>
    match p.weight k with
    | some w => (p, toString w)
    | none => (p, "none")
  | ["next"] =>
    let r := p.nextServerFrom
    (r.2, resStr p r.1)
  | ["nextm"] =>
    -- the caller mutates its copy of the URL afterwards: nothing happens to the pool
    let r := p.nextServerFrom
    (r.2, resStr p r.1)
  | ["pnext", a, b] =>
    match a.toNat?, b.toNat? with
    | some a, some b =>
      let (p', acc) := countNexts p (a * b) []
      let sorted := acc.mergeSort (fun x y => x.1 ≤ y.1)
      (p', sorted.foldl (fun s e => s ++ " " ++ e.1 ++ "=" ++ toString e.2) "counts")
    | _, _ => (p, "bad-op")
  | _ => (p, "bad-op")

def machine : Driver.Machine St where
  init := fun _ => (Pool.empty, "ok")
  step := step

end DriverC01

def main : IO Unit := Driver.run DriverC01.machine
