import Driver.Basic
import OxyModel.Model.RateLimit
import OxyModel.Model.ConnLimit
import OxyModel.Model.Source

/-! Driver for the C03 / C13 / C14 protocol (see `harness/cmd/c03`): runs `RL.Limiter.serve`,
`RL.BucketSet.consume/update`, `TTL.Map.get/set` and `ConnLimit.step` — the definitions the theorems
are about.

    cfg rate <p:a:b[,p:a:b…]> cap=<n>|cap=default [solo=1]
      at <ns> req <src> <amount> [rates=<…>] [evict=<src>]   -> 200 | 429 <delay_ns> | 500   [solo=<…>]
      retry [extra=<ns>]                                      -> <resp> t=<ns> | noretry
      at <ns> preq <src> <amount> <n> <goroutines> [rates=<…>] -> 200=<a> 429=<b> 500=<c>
        (harness: n requests of one source from g goroutines at one frozen instant; model: n sequential
         requests at that instant — requests refused at an instant change nothing
         (`C13_flood_free_same_instant`) and all n are identical, so the counts do not depend on the order)
      park-reject -> ok ; unpark -> <resp> | noparked
        (harness: the next refused request is held inside the limiter's ErrorHandler — after `consumeRates` returned its
         error, before the handler reads it — and answers `parked`; `unpark` lets it finish.  Model: the decision and the
         delay are those of the request itself, taken when it was issued.)
    cfg set <rates>
      at <ns> consume <amount>   -> ok | delay <ns> | err
      at <ns> update <rates>     -> ok
      maxperiod                  -> <ns>
    cfg ttlmap cap=<n>
      at <ns> set <key> <ttl> [v=<n>] [probe=a,b] [evict=<key>]   -> ok len=<n> [gone=a,b] | err ttl
      at <ns> get <key>          -> hit <v> | miss
      len                        -> <n>
    cfg conn max=<m>
      start <id> <src> | finish <id> [rewrite=<src2>]  -> admitted | 429 | released | dup | unknown
-/
open RL

namespace DriverC03

structure Last where
  t : Nat
  src : String
  amount : Nat
  rates : List Rate
  delay : Nat

structure RateSt where
  hl : HLimiter
  cap : Nat
  solo : Option (List (String × Limiter))
  now : Nat
  last : Option Last
  armed : Bool := false
  parked : Option (String × Option Last) := none
  clientip : Bool := false      -- `ext=clientip`: <src> is a RemoteAddr, the source is what `Source.extractClientIP` makes of it

inductive St where
  | dead
  | rate (s : RateSt)
  | set (s : BucketSet) (now : Nat)
  | ttl (m : TTL.HMap Nat) (now : Nat)
  | conn (s : ConnLimit.Sys)

def parseRate (s : String) : Option Rate :=
  match s.splitOn ":" with
  | [p, a, b] =>
    match p.toNat?, a.toNat?, b.toNat? with
    | some p, some a, some b => some ⟨p, a, b⟩
    | _, _, _ => none
  | _ => none

/-- `none` = some `RateSet.Add` failed -/
def parseRates (s : String) : Option (List Rate) :=
  (s.splitOn ",").foldl (fun acc t =>
    match acc, parseRate t with
    | some rs, some r => addRate rs r
    | _, _ => none) (some [])

def respStr : Resp → String
  | .ok => "200"
  | .tooMany d => "429 " ++ toString d
  | .err => "500"

def soloGet (ls : List (String × Limiter)) (src : String) (fresh : Limiter) : Limiter :=
  match ls.find? (fun e => e.1 == src) with
  | some e => e.2
  | none => fresh

def soloPut (ls : List (String × Limiter)) (src : String) (l : Limiter) : List (String × Limiter) :=
  if ls.any (fun e => e.1 == src) then ls.map (fun e => if e.1 == src then (src, l) else e) else ls ++ [(src, l)]

/-- one request through the shared limiter (and the source's private one in solo mode) -/
def doReq (s : RateSt) (t : Nat) (src : String) (amount : Nat) (rates : List Rate) (choice : Option String)
    (suffix : String) : St × String :=
  let now := if t > s.now then t else s.now
  let ev := s.hl.base.evictsAt now src
  -- the victim is the top of the modelled expiry heap; an `evict=` on the op line must name exactly that entry
  let victim := s.hl.victimAt now src
  let flag :=
    if ev then
      match choice with
      | some c => if c == victim then "" else "illegal-evict "
      | none => ""
    else
      match choice with
      | some _ => "spurious-evict "
      | none => ""
  let r := s.hl.serve now src amount rates
  let fresh := Limiter.new s.hl.base.defaults s.cap
  -- solo mode: the victim named on the op line starts afresh in its private limiter too
  let solo0 := match s.solo, choice with
    | some ls, some c => some (soloPut ls c fresh)
    | x, _ => x
  let (solo1, soloStr) := match solo0 with
    | some ls =>
      let r2 := (soloGet ls src fresh).serve now src amount rates ""
      (some (soloPut ls src r2.1), " solo=" ++ (respStr r2.2).replace " " ":")
    | none => (none, "")
  let last := match r.2 with
    | .tooMany d => some ⟨now, src, amount, rates, d⟩
    | _ => s.last
  if s.armed && s.solo.isNone && r.2 != .ok then
    -- the refusal is held back in the error handler; the limiter state has already changed
    (.rate { s with hl := r.1, now := now, armed := false,
                    parked := some (flag ++ respStr r.2, match r.2 with | .tooMany d => some ⟨now, src, amount, rates, d⟩ | _ => none) },
     "parked")
  else
  (.rate { s with hl := r.1, solo := solo1, now := now, last := last }, flag ++ respStr r.2 ++ suffix ++ soloStr)

/-- `n` sequential requests at one instant, counting the responses -/
def preqLoop (hl : HLimiter) (now : Nat) (src : String) (amount : Nat) (rates : List Rate) :
    Nat → Nat × Nat × Nat → HLimiter × (Nat × Nat × Nat)
  | 0, c => (hl, c)
  | k + 1, (a, b, c) =>
    let r := hl.serve now src amount rates
    preqLoop r.1 now src amount rates k
      (match r.2 with | .ok => (a + 1, b, c) | .tooMany _ => (a, b + 1, c) | .err => (a, b, c + 1))

def ratesOf (f : List String) : Option (List Rate) :=
  match Driver.kv f "rates" with
  | some v => parseRates v
  | none => some []

def stepRate0 (s : RateSt) (f : List String) : St × String :=
  match f with
  | "at" :: t :: "req" :: src :: amount :: _ =>
    match t.toNat?, amount.toNat?, ratesOf f with
    | some t, some amount, some rates => doReq s t src amount rates (Driver.kv f "evict") ""
    | _, _, _ => (.rate s, "bad-op")
  | "at" :: t :: "preq" :: src :: amount :: n :: g :: _ =>
    match t.toNat?, amount.toNat?, n.toNat?, g.toNat?, ratesOf f, s.solo, s.armed with
    | some t, some amount, some n, some (_ + 1), some rates, none, false =>
      let now := if t > s.now then t else s.now
      let choice := Driver.kv f "evict"
      let victim := s.hl.victimAt now src
      let flag :=
        if n = 0 then "" else
        if s.hl.base.evictsAt now src then
          match choice with
          | some c => if c == victim then "" else "illegal-evict "
          | none => ""
        else match choice with
          | some _ => "spurious-evict "
          | none => ""
      let r := preqLoop s.hl now src amount rates n (0, 0, 0)
      (.rate { s with hl := r.1, now := now },
        flag ++ "200=" ++ toString r.2.1 ++ " 429=" ++ toString r.2.2.1 ++ " 500=" ++ toString r.2.2.2)
    | _, _, _, _, _, _, _ => (.rate s, "bad-op")
  | ["park-reject"] =>
    if s.solo.isSome || s.parked.isSome then (.rate s, "bad-op") else (.rate { s with armed := true }, "ok")
  | ["unpark"] =>
    match s.parked with
    | none => (.rate s, "noparked")
    | some (out, l) => (.rate { s with parked := none, last := match l with | some l => some l | none => s.last }, out)
  | "retry" :: _ =>
    match s.last with
    | none => (.rate s, "noretry")
    | some l =>
      let t := l.t + l.delay + Driver.kvNat f "extra" 0
      let t := if t > s.now then t else s.now
      doReq { s with last := none } t l.src l.amount l.rates none (" t=" ++ toString t)
  | _ => (.rate s, "bad-op")

def setResStr : SRes → String
  | .ok => "ok"
  | .delay d => "delay " ++ toString d
  | .err => "err"

def stepSet (s : BucketSet) (now : Nat) (f : List String) : St × String :=
  match f with
  | ["at", t, "consume", amount] =>
    match t.toNat?, amount.toNat? with
    | some t, some amount =>
      let now := if t > now then t else now
      let r := s.consume now amount
      (.set r.1 now, setResStr r.2)
    | _, _ => (.set s now, "bad-op")
  | ["at", t, "update", rates] =>
    match t.toNat?, parseRates rates with
    | some t, some rates =>
      let now := if t > now then t else now
      (.set (s.update rates now) now, "ok")
    | some _, none => (.set s now, "err badrate")
    | _, _ => (.set s now, "bad-op")
  | ["maxperiod"] => (.set s now, toString s.maxPeriod)
  | _ => (.set s now, "bad-op")

def joinC (l : List String) : String := ",".intercalate l

def stepTTL (m : TTL.HMap Nat) (now : Nat) (f : List String) : St × String :=
  match f with
  | "at" :: t :: "set" :: k :: ttl :: _ =>
    match t.toNat? with
    | none => (.ttl m now, "bad-op")
    | some t =>
      let now := if t > now then t else now
      match ttl.toNat? with
      | none => (.ttl m now, if ttl.startsWith "-" then "err ttl" else "bad-op")
      | some 0 => (.ttl m now, "err ttl")
      | some ttl =>
        let choice := Driver.kv f "evict"
        let flag :=
          if m.map.evicts k then
            match choice with
            | some c => if c == m.victim then "" else "illegal-evict "
            | none => ""
          else match choice with
            | some _ => "spurious-evict "
            | none => ""
        let m1 := m.set k (Driver.kvNat f "v" 0) ttl now
        -- probes: `Get` of every listed key, in order (a `Get` deletes an expired entry)
        let probes := match Driver.kv f "probe" with
          | some p => (p.splitOn ",").filter (· ≠ "")
          | none => []
        let (m2, gone) := probes.foldl (fun (acc : TTL.HMap Nat × List String) p =>
          let g := acc.1.get p now
          (g.1, if g.2.isNone then acc.2 ++ [p] else acc.2)) (m1, [])
        let goneStr := match Driver.kv f "probe" with
          | some _ => " gone=" ++ joinC gone
          | none => ""
        (.ttl m2 now, flag ++ "ok len=" ++ toString m1.map.entries.length ++ goneStr)
  | ["at", t, "get", k] =>
    match t.toNat? with
    | none => (.ttl m now, "bad-op")
    | some t =>
      let now := if t > now then t else now
      let g := m.get k now
      (.ttl g.1 now, match g.2 with | some v => "hit " ++ toString v | none => "miss")
  | ["len"] => (.ttl m now, toString m.map.entries.length)
  | _ => (.ttl m now, "bad-op")

def connOut : ConnLimit.Out → String
  | .admitted => "admitted"
  | .rejected => "429"
  | .extractErr => "500"
  | .released => "released"
  | .dup => "dup"
  | .unknown => "unknown"

def stepConn (s : ConnLimit.Sys) (f : List String) : St × String :=
  match f with
  | ["start", id, src] => let r := ConnLimit.step s (.start id src 1); (.conn r.1, connOut r.2)
  -- `rewrite=`: what the downstream handler does to the request is irrelevant, the release uses the captured token
  | "finish" :: id :: _ => let r := ConnLimit.step s (.finish id .normal); (.conn r.1, connOut r.2)
  | _ => (.conn s, "bad-op")

/-- `ext=clientip`: the source of a `req` / `preq` is what the stock `client.ip` extractor makes of the RemoteAddr on the op
line, and the amount is always 1; an extractor error is answered 500 by the limiter's error handler and touches nothing. -/
def stepRate (s : RateSt) (f : List String) : St × String :=
  if !s.clientip then stepRate0 s f else
  match f with
  | "at" :: t :: op :: addr :: _ :: rest =>
    if op == "req" || op == "preq" then
      match Source.extractClientIP addr.toList with
      | .ok (tok, _) => stepRate0 s ("at" :: t :: op :: String.ofList tok :: "1" :: rest)
      | .error _ => (.rate s, if op == "req" then "500" else "bad-op")
    else stepRate0 s f
  | _ => stepRate0 s f

def step (st : St) (f : List String) : St × String :=
  match st with
  | .dead => (.dead, "no-scenario")
  | .rate s => stepRate s f
  | .set s now => stepSet s now f
  | .ttl m now => stepTTL m now f
  | .conn s => stepConn s f

def init (f : List String) : St × String :=
  match f with
  | "cfg" :: "rate" :: rates :: _ =>
    match parseRates rates with
    | some (r :: rs) =>
      -- `cap=default` / no `cap=`: no Capacity option, `setDefaults` gives DefaultCapacity; `cap=0` is rejected by the option
      if Driver.kv f "cap" == some "0" then (.dead, "err badcap") else
      let cap := Driver.kvNat f "cap" 0
      let l := HLimiter.new (r :: rs) cap
      (.rate { hl := l, cap := cap, solo := if Driver.kvNat f "solo" 0 = 1 then some [] else none, now := 0, last := none,
               clientip := Driver.kv f "ext" == some "clientip" }, "ok")
    | _ => (.dead, "err badrate")
  | ["cfg", "set", rates] =>
    match parseRates rates with
    | some rs => (.set (BucketSet.new rs 0) 0, "ok")
    | none => (.dead, "err badrate")
  | "cfg" :: "ttlmap" :: _ => (.ttl (TTL.HMap.empty (Driver.kvNat f "cap" 0)) 0, "ok")
  | "cfg" :: "conn" :: _ =>
    match Driver.kv f "max" with
    | some v => match v.toInt? with
      | some m => (.conn (ConnLimit.Sys.init m), "ok")
      | none => (.dead, "bad-cfg")
    | none => (.dead, "bad-cfg")
  | _ => (.dead, "bad-cfg")

def machine : Driver.Machine St where
  init := init
  step := step

end DriverC03

def main : IO Unit := Driver.run DriverC03.machine
