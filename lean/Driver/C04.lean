import Driver.Basic
import OxyModel.Model.ConnLimit

/-! Driver for the C04 protocol (see `harness/cmd/c04`): runs `ConnLimit.step` — the definition the
C04 theorems (and `conn_noninterference`) are about.

    cfg max=<int> [ext=custom|builtin]
    start <id> <src> [amt=<int>] [err=1]   -> admitted | 429 | err 500 | dup
    finish <id> normal|panic               -> released | unknown
    inflight <src>                         -> <n>
-/
open ConnLimit

namespace DriverC04

structure St where
  sys : Sys
  builtin : Bool

def outStr : Out → String
  | .admitted => "admitted"
  | .rejected => "429"
  | .extractErr => "err 500"
  | .released => "released"
  | .dup => "dup"
  | .unknown => "unknown"

def apply (st : St) (e : Event) : St × String :=
  let r := step st.sys e
  ({ st with sys := r.1 }, outStr r.2)

def step (st : St) : List String → St × String
  | "start" :: id :: src :: opts =>
    -- the only optional tokens are amt=<int> and err=1, at most one each, only with the custom extractor
    let known := opts.all fun t => t.startsWith "amt=" || t == "err=1"
    if !known || opts.length > 2 || (st.builtin && !opts.isEmpty) then (st, "bad-op") else
    if opts.contains "err=1" then apply st (.startErr id) else
    match Driver.kv opts "amt" with
    | none => apply st (.start id src 1)
    | some v =>
      match v.toInt? with
      | none => (st, "bad-op")
      | some a => apply st (.start id src a)
  | ["finish", id, "normal"] => apply st (.finish id .normal)
  | ["finish", id, "panic"] => apply st (.finish id .panic)
  | ["inflight", src] => (st, toString (inflightCount st.sys.inflight src))
  | _ => (st, "bad-op")

def init (f : List String) : St × String :=
  let mx := match Driver.kv f "max" with
    | some v => v.toInt?.getD 0
    | none => 0
  let b := Driver.kv f "ext" == some "builtin"
  (⟨Sys.init mx, b⟩, "ok")

def machine : Driver.Machine St where
  init := init
  step := step

end DriverC04

def main : IO Unit := Driver.run DriverC04.machine
