import Driver.Basic
import OxyModel.Model.ConnLimit
import OxyModel.Model.Source

/-! Driver for the C04 protocol (see `harness/cmd/c04`): runs `ConnLimit.step` — the definition the
C04 theorems (and `conn_noninterference`) are about.

    cfg max=<int> [ext=custom|builtin|clientip] [slowreject=1] [verbose=0|1] [log=0|1] [hvar=<name>] [hsend=<name>]
    start <id> <src> [amt=<int>] [err=1] [port=<n>]   -> admitted | 429 | rejecting | err 500 | dup
    finish <id> normal|panic|panic-err|panic-abort|panic-rt   -> released | rejected-done | unknown
    pstart <n> <src> <prefix>              -> admitted=<a> rejected=<r> | admitted=<a> rejecting=<r> | dup
    inflight <src>                         -> <n>

`ext=builtin`: the limiter's extractor is `NewExtractor("request.header." ++ hvar)` and the client sends
its source label in the header line `hsend: <src>` (both default `X-Src`); the token the limiter sees
is `Source.headerGet [(hsend, src)] hvar` (the C19 model).  `verbose` / `log` select connlimit's
`Verbose` / `Logger` options: they only add log lines, the model ignores them.

`ext=clientip`: the stock `client.ip` extractor; `<src>` is the peer's IP text (IPv4, IPv6, IPv6%zone), the
request's `RemoteAddr` is `JoinHostPort(src, port)` (`port` default 1234, `40000+i` for the i-th arrival of a
burst) and the token is `Source.extractClientIP` of it (the C19 model).  The `panic-*` modes are panics
with different values (error, `http.ErrAbortHandler`, a runtime error): every exit releases.

`pstart`: `n` (1..64) simultaneous arrivals of one source, ids `<prefix>0 … <prefix>(n-1)`; the model
takes them as `n` atomic steps in id order (`ConnLimit.burstEvents`) and prints the counts.
-/
open ConnLimit

namespace DriverC04

structure St where
  sys : SysR
  builtin : Bool          -- a stock extractor (request.header.* or client.ip): no amt= / err=1
  clientip : Bool         -- the stock `client.ip` extractor: the source label is the peer's IP text
  hvar : Source.Str
  hsend : Source.Str

/-- what the configured extractor yields for a client labelled `src` connecting from `port`:
    `none` = extractor error -/
def St.ext (st : St) (src port : String) : Option (String × Int) :=
  if st.clientip then
    -- `port=none`: RemoteAddr is the bare address
    match Source.extractClientIP (if port == "none" then src.toList else Source.joinHostPort src.toList port.toList) with
    | .ok (t, a) => some (String.ofList t, a)
    | .error _ => none
  else if st.builtin then some (String.ofList (Source.headerGet [(st.hsend, src.toList)] st.hvar), 1)
  else some (src, 1)

def outStr : OutR → String
  | .base .admitted => "admitted"
  | .base .rejected => "429"
  | .base .extractErr => "err 500"
  | .base .released => "released"
  | .base .dup => "dup"
  | .base .unknown => "unknown"
  | .rejecting => "rejecting"
  | .rejectedDone => "rejected-done"

def apply (st : St) (e : Event) : St × String :=
  let r := stepR st.sys e
  ({ st with sys := r.1 }, outStr r.2)

def inUse (s : SysR) (id : String) : Bool :=
  (findReq s.base.inflight id).isSome || (findRej s.rejecting id).isSome

def isPanic (m : String) : Bool := m == "panic" || m == "panic-err" || m == "panic-abort" || m == "panic-rt"

def burstPort (i : Nat) : String := toString (40000 + i)

def step (st : St) : List String → St × String
  | "start" :: id :: src :: opts =>
    -- optional tokens: amt=<int>, err=1 (custom extractor only), port=<digits> (client.ip only), at most one each
    let known := opts.all fun t => t.startsWith "amt=" || t == "err=1" || t.startsWith "port="
    let stockOk := opts.all fun t => st.clientip && t.startsWith "port="
    if !known || opts.length > 2 || (st.builtin && !stockOk) || (!st.clientip && (Driver.kv opts "port").isSome) then (st, "bad-op") else
    if opts.contains "err=1" then apply st (.startErr id) else
    let port := (Driver.kv opts "port").getD "1234"
    if port != "none" && !port.toList.all Char.isDigit then (st, "bad-op") else
    match st.ext src port with
    | none => apply st (.startErr id)
    | some (tok, one) =>
      match Driver.kv opts "amt" with
      | none => apply st (.start id tok one)
      | some v =>
        match v.toInt? with
        | none => (st, "bad-op")
        | some a => apply st (.start id tok a)
  | ["finish", id, m] =>
    if m == "normal" then apply st (.finish id .normal)
    else if isPanic m then apply st (.finish id .panic)     -- whatever the panic value is
    else (st, "bad-op")
  | ["pstart", n, src, pre] =>
    match n.toNat? with
    | none => (st, "bad-op")
    | some n =>
      if n = 0 || n > 64 then (st, "bad-op") else
      -- `ConnLimit.burstEvents` with the token of every arrival computed from its own port
      let evs := (List.range n).map fun i =>
        match st.ext src (burstPort i) with
        | some (tok, a) => Event.start (pre ++ toString i) tok a
        | none => Event.startErr (pre ++ toString i)
      if (List.range n).any (fun i => inUse st.sys (pre ++ toString i)) then (st, "dup") else
      let os := outsR st.sys evs
      let a := os.count (.base .admitted)
      let r := os.count (.base .rejected) + os.count .rejecting
      let e := os.count (.base .extractErr)
      ({ st with sys := runR st.sys evs },
        "admitted=" ++ toString a ++ (if st.sys.slow then " rejecting=" else " rejected=") ++ toString r
          ++ (if e > 0 then " other=" ++ toString e else ""))
  | ["inflight", src] =>
    match st.ext src "0" with
    | some (tok, _) => (st, toString (inflightCount st.sys.base.inflight tok))
    | none => (st, "0")
  | _ => (st, "bad-op")

def init (f : List String) : St × String :=
  let mx := match Driver.kv f "max" with
    | some v => v.toInt?.getD 0
    | none => 0
  let ci := Driver.kv f "ext" == some "clientip"
  let b := Driver.kv f "ext" == some "builtin" || ci
  let hv := ((Driver.kv f "hvar").getD "X-Src").toList
  let hs := ((Driver.kv f "hsend").getD "X-Src").toList
  if hv.isEmpty || hs.isEmpty then (⟨SysR.init mx false, b, ci, hv, hs⟩, "bad-op") else
  (⟨SysR.init mx (Driver.kv f "slowreject" == some "1"), b, ci, hv, hs⟩, "ok")

def machine : Driver.Machine St where
  init := init
  step := step

end DriverC04

def main : IO Unit := Driver.run DriverC04.machine
