import Driver.Basic
import OxyModel.Model.ConnLimit
import OxyModel.Model.Source

/-! Driver for the C04 protocol (see `harness/cmd/c04`): runs `ConnLimit.step` — the definition the
C04 theorems (and `conn_noninterference`) are about.

    cfg max=<int> [ext=custom|builtin] [slowreject=1] [verbose=0|1] [log=0|1] [hvar=<name>] [hsend=<name>]
    start <id> <src> [amt=<int>] [err=1]   -> admitted | 429 | rejecting | err 500 | dup
    finish <id> normal|panic               -> released | rejected-done | unknown
    pstart <n> <src> <prefix>              -> admitted=<a> rejected=<r> | admitted=<a> rejecting=<r> | dup
    inflight <src>                         -> <n>

`ext=builtin`: the limiter's extractor is `NewExtractor("request.header." ++ hvar)` and the client sends
its source label in the header line `hsend: <src>` (both default `X-Src`); the token the limiter sees
is `Source.headerGet [(hsend, src)] hvar` (the C19 model).  `verbose` / `log` select connlimit's
`Verbose` / `Logger` options: they only add log lines, the model ignores them.

`pstart`: `n` (1..64) simultaneous arrivals of one source, ids `<prefix>0 … <prefix>(n-1)`; the model
takes them as `n` atomic steps in id order (`ConnLimit.burstEvents`) and prints the counts.
-/
open ConnLimit

namespace DriverC04

structure St where
  sys : SysR
  builtin : Bool
  hvar : Source.Str
  hsend : Source.Str

/-- the token the configured extractor yields for a client labelled `src` -/
def St.tok (st : St) (src : String) : String :=
  if st.builtin then String.ofList (Source.headerGet [(st.hsend, src.toList)] st.hvar) else src

def outStr : OutR → String
  | .base .admitted => "admitted"
  | .base .rejected => "429"
  | .base .extractErr => "err 500"
  | .base .released => "released"
  | .base .dup => "dup"
  | .base .unknown => "unknown"
  | .rejecting => "rejecting"
  | .rejectedDone => "rejected-done"

def apply (st : St) (e : Event) : St × String :=
  let r := stepR st.sys e
  ({ st with sys := r.1 }, outStr r.2)

def inUse (s : SysR) (id : String) : Bool :=
  (findReq s.base.inflight id).isSome || (findRej s.rejecting id).isSome

def step (st : St) : List String → St × String
  | "start" :: id :: src :: opts =>
    -- the only optional tokens are amt=<int> and err=1, at most one each, only with the custom extractor
    let known := opts.all fun t => t.startsWith "amt=" || t == "err=1"
    if !known || opts.length > 2 || (st.builtin && !opts.isEmpty) then (st, "bad-op") else
    if opts.contains "err=1" then apply st (.startErr id) else
    match Driver.kv opts "amt" with
    | none => apply st (.start id (st.tok src) 1)
    | some v =>
      match v.toInt? with
      | none => (st, "bad-op")
      | some a => apply st (.start id (st.tok src) a)
  | ["finish", id, "normal"] => apply st (.finish id .normal)
  | ["finish", id, "panic"] => apply st (.finish id .panic)
  | ["pstart", n, src, pre] =>
    match n.toNat? with
    | none => (st, "bad-op")
    | some n =>
      if n = 0 || n > 64 then (st, "bad-op") else
      let evs := burstEvents pre (st.tok src) 1 n
      if evs.any (fun e => match e with | .start id _ _ => inUse st.sys id | _ => false) then (st, "dup") else
      let os := outsR st.sys evs
      let a := os.count (.base .admitted)
      let r := os.count (.base .rejected) + os.count .rejecting
      ({ st with sys := runR st.sys evs },
        "admitted=" ++ toString a ++ (if st.sys.slow then " rejecting=" else " rejected=") ++ toString r)
  | ["inflight", src] => (st, toString (inflightCount st.sys.base.inflight (st.tok src)))
  | _ => (st, "bad-op")

def init (f : List String) : St × String :=
  let mx := match Driver.kv f "max" with
    | some v => v.toInt?.getD 0
    | none => 0
  let b := Driver.kv f "ext" == some "builtin"
  let hv := ((Driver.kv f "hvar").getD "X-Src").toList
  let hs := ((Driver.kv f "hsend").getD "X-Src").toList
  if hv.isEmpty || hs.isEmpty then (⟨SysR.init mx false, b, hv, hs⟩, "bad-op") else
  (⟨SysR.init mx (Driver.kv f "slowreject" == some "1"), b, hv, hs⟩, "ok")

def machine : Driver.Machine St where
  init := init
  step := step

end DriverC04

def main : IO Unit := Driver.run DriverC04.machine
