import Driver.Basic
import OxyModel.Model.Counter

/-! Driver for the C17 protocol (see `harness/cmd/c17`): runs `RCnt.inc/count/reset` and
`RCnt.Ratio.*` — the definitions the C17 theorems are about.

    cfg n=<buckets> r=<resolution ns> [ratio]    -> ok | err buckets | err resolution
    [at <ns>] inc <v> | count | counted | window | clone | append | reset        (counter)
    [at <ns>] snap | scount | sinc <v> | scounted | sreset   (snapshot = Clone() kept next to the live counter)
    [at <ns>] inca <v> | incb <v> | ratio | ready | reset                        (ratio)

Protocol time is ns since 2020-01-01T00:00:00Z; the model's is ns since Go's zero Time. -/
open RCnt

namespace DriverC17

inductive Obj where
  | none
  | cnt (c : Cfg) (d : Duo)
  | rat (c : Cfg) (s : Ratio)

structure DSt where
  now : Nat      -- protocol clock (ns since Base); only moves forward, like `hx.AdvanceTo`
  obj : Obj

def kvInt (f : List String) (key : String) (d : Int) : Option Int :=
  match Driver.kv f key with
  | some v => v.toInt?
  | none => some d

def init (f : List String) : DSt × String :=
  match kvInt f "n" 10, kvInt f "r" 1000000000 with
  | some n, some r =>
    match newCounter n r with
    | .error .buckets => (⟨0, .none⟩, "err buckets")
    | .error .resolution => (⟨0, .none⟩, "err resolution")
    | .ok c =>
      if f.contains "ratio" then (⟨0, .rat c (Ratio.init c)⟩, "ok") else (⟨0, .cnt c (Duo.init c)⟩, "ok")
  | _, _ => (⟨0, .none⟩, "bad-cfg")

def opCnt (c : Cfg) (s : St) (t : Nat) : List String → Option (St × String)
  | ["inc", v] => v.toInt?.map fun v => (inc c s t v, "ok")
  | ["count"] => let r := count c s t; some (r.1, toString r.2)
  | ["counted"] => some (s, toString s.counted)
  | ["window"] => some (s, toString c.windowSize)
  | ["clone"] => some ((clone c s t).2, "ok")
  | ["append"] =>
    let r := clone c s t
    some ((append c r.1 r.2 t).1, "ok")
  | ["reset"] => some (reset s, "ok")
  | _ => none

/-- ops on the live counter go through `Duo.step` / the same `inc`/`count`; snapshot ops likewise -/
def opDuo (c : Cfg) (d : Duo) (t : Nat) (f : List String) : Option (Duo × String) :=
  match f with
  | ["snap"] => some (d.step c t .clone, "ok")
  | ["sinc", v] => v.toInt?.map fun v =>
      (d.step c t (.snap (.inc v)), if d.snap.isSome then "ok" else "none")
  | ["scount"] =>
    match d.snap with
    | some s => some (d.step c t (.snap .read), toString (count c s t).2)
    | none => some (d, "none")
  | ["scounted"] =>
    match d.snap with
    | some s => some (d, toString s.counted)
    | none => some (d, "none")
  | ["sreset"] => some (d.step c t (.snap .reset), if d.snap.isSome then "ok" else "none")
  | _ => (opCnt c d.live t f).map fun r => ({ d with live := r.1 }, r.2)

def opRat (c : Cfg) (s : Ratio) (t : Nat) : List String → Option (Ratio × String)
  | ["inca", v] => v.toInt?.map fun v => (s.incA c t v, "ok")
  | ["incb", v] => v.toInt?.map fun v => (s.incB c t v, "ok")
  | ["ratio"] =>
    let r := s.ratio c t
    some (r.1, toString r.2.1 ++ "/" ++ toString r.2.2)
  | ["ready"] => some (s, if s.isReady then "true" else "false")
  | ["window"] => some (s, toString c.windowSize)
  | ["reset"] => some (s.reset, "ok")
  | _ => none

def step (d : DSt) (f : List String) : DSt × String :=
  let (now, op) : Nat × Option (List String) := match f with
    | "at" :: ns :: rest => match ns.toNat? with
      | some ns => (max d.now ns, some rest)
      | none => (d.now, none)
    | _ => (d.now, some f)
  match op with
  | none => (d, "bad-op")
  | some op =>
    let t := now + baseSinceZeroNs
    match d.obj with
    | .none => (d, "no-scenario")
    | .cnt c s => match opDuo c s t op with
      | some (s', o) => (⟨now, .cnt c s'⟩, o)
      | none => (⟨now, d.obj⟩, "bad-op")
    | .rat c s => match opRat c s t op with
      | some (s', o) => (⟨now, .rat c s'⟩, o)
      | none => (⟨now, d.obj⟩, "bad-op")

def machine : Driver.Machine DSt where
  init := init
  step := step

end DriverC17

def main : IO Unit := Driver.run DriverC17.machine
