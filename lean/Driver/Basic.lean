/-!
# Line-protocol runner shared by all model drivers (core Lean only)

Mirror of `harness/hx`: a `cfg …` line starts a new scenario, every other non-empty line is one
operation, one output line per input line, `#…` lines are echoed as `#`.
-/
namespace Driver

structure Machine (σ : Type) where
  /-- tokens of the `cfg` line (including the word `cfg`) → fresh state, output line -/
  init : List String → σ × String
  step : σ → List String → σ × String

def tokens (line : String) : List String :=
  ((line.replace "\n" "").replace "\r" "" |>.splitOn " ").filter (· ≠ "")

/-- `key=value` lookup among tokens -/
def kv (f : List String) (key : String) : Option String :=
  f.findSome? fun t => if t.startsWith (key ++ "=") then some ((t.drop (key.length + 1)).toString) else none

def kvNat (f : List String) (key : String) (d : Nat) : Nat :=
  match kv f key with
  | some v => v.toNat?.getD d
  | none => d

partial def loop {σ : Type} (m : Machine σ) (inp out : IO.FS.Stream) (st : Option σ) : IO Unit := do
  let line ← inp.getLine
  if line.isEmpty then return ()
  let f := tokens line
  match f with
  | [] => out.putStrLn ""; loop m inp out st
  | t :: _ =>
    if t.startsWith "#" then
      out.putStrLn "#"; loop m inp out st
    else if t == "cfg" then
      let (s, o) := m.init f
      out.putStrLn o; loop m inp out (some s)
    else
      match st with
      | none => out.putStrLn "no-scenario"; loop m inp out st
      | some s =>
        let (s', o) := m.step s f
        out.putStrLn o; loop m inp out (some s')

def run {σ : Type} (m : Machine σ) : IO Unit := do
  let inp ← IO.getStdin
  let out ← IO.getStdout
  loop m inp out none
  out.flush

end Driver
