import OxyModel.Proofs.CBreaker.Machine
import OxyModel.Proofs.CBreaker.Metrics
import OxyModel.Proofs.Counter.History

/-! Composition of the breaker with the C17 counter invariant (`RCnt.Inv`): the metrics of the breaker
count exactly the responses recorded since the last trip whose one-second slot is among the last ten. -/
namespace CB
open CBExpr

theorem ccfg_good : RCnt.Good ccfg ccfg.off := RCnt.good_off ccfg (by decide) (by decide)

/-- 1970-01-01 plus one counter window: from here on `getBucket` indexes a real bucket -/
def tmin : Nat := RCnt.unixEpochNs + ccfg.n * ccfg.r

theorem off_le_slot {now : Nat} (h : tmin ≤ now) : ccfg.off + ccfg.n ≤ ccfg.slot now + 1 :=
  RCnt.off_add_le_slot ccfg (by decide) (by decide) h

/-- a response `(time, code)` is in the metrics window at `now`: its slot is among the last ten -/
def inWin (now : Nat) (r : Nat × Nat) : Bool := decide (now / ccfg.r < r.1 / ccfg.r + ccfg.n)

/-- a counter that has counted `log` and was last touched at or before `T` -/
def CInv (s : RCnt.St) (T : Nat) (log : RCnt.Log) : Prop :=
  ∃ tc, tc ≤ T ∧ RCnt.Inv ccfg ccfg.off s tc log

theorem cinv_init (T : Nat) : CInv (RCnt.St.init ccfg) T [] := ⟨0, Nat.zero_le _, RCnt.inv_init _ _⟩

theorem cinv_mono {s : RCnt.St} {T T' : Nat} {log : RCnt.Log} (h : CInv s T log) (hT : T ≤ T') :
    CInv s T' log := by
  obtain ⟨tc, h1, h2⟩ := h; exact ⟨tc, Nat.le_trans h1 hT, h2⟩

theorem cinv_ceq {s s' : RCnt.St} {T now : Nat} {log : RCnt.Log} (h : CInv s T log) (hT : T ≤ now)
    (he : CEq now s s') : CInv s' now log := by
  rcases he with rfl | rfl
  · exact cinv_mono h hT
  · obtain ⟨tc, h1, h2⟩ := h
    exact ⟨now, Nat.le_refl _, RCnt.cleanup_inv ccfg_good h2 (Nat.le_trans h1 hT)⟩

theorem cinv_inc {s : RCnt.St} {T now : Nat} {log : RCnt.Log} (h : CInv s T log) (hT : T ≤ now)
    (hmin : tmin ≤ now) : CInv (RCnt.inc ccfg s now 1) now ((now, 1) :: log) := by
  obtain ⟨tc, h1, h2⟩ := h
  have := off_le_slot hmin
  have hn : 0 < ccfg.n := by decide
  exact ⟨now, Nat.le_refl _, RCnt.inc_inv ccfg_good h2 (Nat.le_trans h1 hT) (by omega) 1⟩

theorem cinv_reset {s : RCnt.St} {T : Nat} {log : RCnt.Log} (h : CInv s T log) (now : Nat) :
    CInv (RCnt.reset s) now [] := by
  obtain ⟨tc, _, h2⟩ := h
  exact ⟨now, Nat.le_refl _, RCnt.reset_inv ccfg ccfg.off s h2.1 now⟩

/-- the C17 core theorem on such a counter -/
theorem cinv_count {s : RCnt.St} {T now : Nat} {log : RCnt.Log} (h : CInv s T log) (hT : T ≤ now)
    (hmin : tmin ≤ now) :
    (RCnt.count ccfg s now).2 = RCnt.sumIf (fun u => now / ccfg.r < u / ccfg.r + ccfg.n) log := by
  obtain ⟨tc, h1, h2⟩ := h
  rw [RCnt.count_exact ccfg_good h2 (Nat.le_trans h1 hT) (off_le_slot hmin)]
  apply RCnt.windowSum_eq_sumIf
  intro e he
  exact Nat.le_trans (h2.2.2.1 e he) (Nat.le_trans h2.2.1 (Nat.le_trans h1 hT))

/-- one increment of 1 per response -/
def ones (recs : List (Nat × Nat)) : RCnt.Log := recs.map (fun r => (r.1, (1 : Int)))

theorem sumIf_ones (now : Nat) : ∀ (recs : List (Nat × Nat)),
    RCnt.sumIf (fun u => now / ccfg.r < u / ccfg.r + ccfg.n) (ones recs) = ((recs.filter (inWin now)).length : Int)
  | [] => rfl
  | r :: recs => by
    have ih := sumIf_ones now recs
    unfold ones at ih ⊢
    rw [List.map_cons, RCnt.sumIf_cons, ih]
    by_cases h : now / ccfg.r < r.1 / ccfg.r + ccfg.n
    · rw [if_pos h, List.filter_cons_of_pos (by simpa [inWin] using h), List.length_cons]; push_cast; omega
    · rw [if_neg h, List.filter_cons_of_neg (by simpa [inWin] using h)]; omega

/-- `Record` counts 502 and 504 as network errors -/
def isNE (code : Nat) : Bool := decide (code = 504 ∨ code = 502)

/-- the metrics have recorded exactly `recs` (newest first) since they were last reset -/
structure MInv (m : Metrics) (T : Nat) (recs : List (Nat × Nat)) : Prop where
  total : CInv m.total T (ones recs)
  ne : CInv m.netErrors T (ones (recs.filter (fun r => isNE r.2)))
  codes : ∀ e ∈ m.codes, CInv e.2 T (ones (recs.filter (fun r => decide (r.2 = e.1))))
  nodup : (m.codes.map Prod.fst).Nodup
  cover : ∀ r ∈ recs, r.2 ∈ m.codes.map Prod.fst

theorem minv_init (T : Nat) : MInv Metrics.init T [] :=
  ⟨cinv_init T, cinv_init T, by simp [Metrics.init], by simp [Metrics.init], by simp⟩

theorem minv_reset {m : Metrics} {T : Nat} {recs : List (Nat × Nat)} (h : MInv m T recs) (now : Nat) :
    MInv m.reset now [] :=
  ⟨cinv_reset h.total now, cinv_reset h.ne now, by simp [Metrics.reset], by simp [Metrics.reset], by simp⟩

theorem codesEq_keys (now : Nat) : ∀ (l l' : List (Nat × RCnt.St)), CodesEq now l l' →
    l'.map Prod.fst = l.map Prod.fst
  | [], [], _ => rfl
  | [], _ :: _, h => by cases h
  | _ :: _, [], h => by cases h
  | (k, s) :: l, (k', s') :: l', h => by
    obtain ⟨hk, _, hl⟩ := h
    simp [hk, codesEq_keys now l l' hl]

theorem codesEq_cinv (now T : Nat) (hT : T ≤ now) (f : Nat → RCnt.Log) : ∀ (l l' : List (Nat × RCnt.St)),
    CodesEq now l l' → (∀ e ∈ l, CInv e.2 T (f e.1)) → ∀ e ∈ l', CInv e.2 now (f e.1)
  | [], [], _, _ => by simp
  | [], _ :: _, h, _ => by cases h
  | _ :: _, [], h, _ => by cases h
  | (k, s) :: l, (k', s') :: l', h, hi => by
    obtain ⟨hk, hs, hl⟩ := h
    intro e he
    rcases List.mem_cons.mp he with rfl | he
    · subst hk; exact cinv_ceq (hi (k', s) List.mem_cons_self) hT hs
    · exact codesEq_cinv now T hT f l l' hl (fun e he => hi e (List.mem_cons_of_mem _ he)) e he

/-- reading (cleaning up) at `now` keeps the invariant -/
theorem minv_meq {m m' : Metrics} {T now : Nat} {recs : List (Nat × Nat)} (h : MInv m T recs)
    (hT : T ≤ now) (he : MEq now m m') : MInv m' now recs := by
  obtain ⟨e1, e2, e3⟩ := he
  refine ⟨cinv_ceq h.total hT e1, cinv_ceq h.ne hT e2, ?_, ?_, ?_⟩
  · exact codesEq_cinv now T hT (fun k => ones (recs.filter (fun r => decide (r.2 = k)))) _ _ e3 h.codes
  · rw [codesEq_keys now _ _ e3]; exact h.nodup
  · rw [codesEq_keys now _ _ e3]; exact h.cover

theorem recordCode_keys (now code : Nat) : ∀ (l : List (Nat × RCnt.St)),
    (recordCode now code l).map Prod.fst =
      if code ∈ l.map Prod.fst then l.map Prod.fst else l.map Prod.fst ++ [code]
  | [] => by simp [recordCode]
  | (k, s) :: l => by
    unfold recordCode
    by_cases hk : k = code
    · subst hk; simp
    · rw [if_neg hk, List.map_cons, recordCode_keys now code l]
      have : code ≠ k := fun e => hk e.symm
      by_cases hm : code ∈ l.map Prod.fst <;> simp [hm, this]

theorem recordCode_cinv (now code T : Nat) (hT : T ≤ now) (hmin : tmin ≤ now) (recs : List (Nat × Nat)) :
    ∀ (l : List (Nat × RCnt.St)), (l.map Prod.fst).Nodup →
    (code ∉ l.map Prod.fst → recs.filter (fun r => decide (r.2 = code)) = []) →
    (∀ e ∈ l, CInv e.2 T (ones (recs.filter (fun r => decide (r.2 = e.1))))) →
    ∀ e ∈ recordCode now code l,
      CInv e.2 now (ones (((now, code) :: recs).filter (fun r => decide (r.2 = e.1))))
  | [], _, hnone, _ => by
    intro e he
    simp only [recordCode, List.mem_singleton] at he
    subst he
    have := cinv_inc (cinv_init T) hT hmin
    simpa [ones, hnone (by simp)] using this
  | (k, s) :: l, hnd, hnone, hi => by
    intro e he
    unfold recordCode at he
    have hnd' := List.nodup_cons.mp hnd
    by_cases hk : k = code
    · subst hk
      rw [if_pos rfl] at he
      rcases List.mem_cons.mp he with rfl | he
      · have := cinv_inc (hi (k, s) List.mem_cons_self) hT hmin
        simpa [ones] using this
      · have hmem : e.1 ∈ l.map Prod.fst := List.mem_map_of_mem (f := Prod.fst) he
        have hne : e.1 ≠ k := fun e' => hnd'.1 (by rw [← e']; exact hmem)
        have := cinv_mono (hi e (List.mem_cons_of_mem _ he)) hT
        simpa [List.filter_cons, Ne.symm hne] using this
    · rw [if_neg hk] at he
      rcases List.mem_cons.mp he with rfl | he
      · have := cinv_mono (hi (k, s) List.mem_cons_self) hT
        have hne : ¬ code = k := fun e => hk e.symm
        simpa [List.filter_cons, hne] using this
      · exact recordCode_cinv now code T hT hmin recs l hnd'.2
          (fun hm => hnone (by simp only [List.map_cons, List.mem_cons, not_or]; exact ⟨fun e => hk e.symm, hm⟩))
          (fun e he => hi e (List.mem_cons_of_mem _ he)) e he

/-- recording a response -/
theorem minv_record {m : Metrics} {T now : Nat} {recs : List (Nat × Nat)} (h : MInv m T recs)
    (hT : T ≤ now) (hmin : tmin ≤ now) (code : Nat) :
    MInv (m.record now code) now ((now, code) :: recs) := by
  have hnone : code ∉ m.codes.map Prod.fst → recs.filter (fun r => decide (r.2 = code)) = [] := by
    intro hm
    apply List.filter_eq_nil_iff.mpr
    intro r hr
    have := h.cover r hr
    simp only [decide_eq_true_eq]
    intro e; exact hm (e ▸ this)
  refine ⟨?_, ?_, ?_, ?_, ?_⟩
  · have := cinv_inc h.total hT hmin
    simpa [Metrics.record, ones] using this
  · show CInv (if code = 504 ∨ code = 502 then _ else _) now _
    by_cases hc : code = 504 ∨ code = 502
    · rw [if_pos hc]
      have := cinv_inc h.ne hT hmin
      simpa [ones, List.filter_cons, isNE, hc] using this
    · rw [if_neg hc]
      have := cinv_mono h.ne hT
      simpa [List.filter_cons, isNE, hc] using this
  · exact recordCode_cinv now code T hT hmin recs m.codes h.nodup hnone h.codes
  · show ((recordCode now code m.codes).map Prod.fst).Nodup
    rw [recordCode_keys]
    by_cases hm : code ∈ m.codes.map Prod.fst
    · rw [if_pos hm]; exact h.nodup
    · rw [if_neg hm]
      exact List.nodup_append.mpr ⟨h.nodup, by simp, by
        intro a ha b hb; simp at hb; subst hb; exact fun e => hm (e ▸ ha)⟩
  · intro r hr
    show r.2 ∈ (recordCode now code m.codes).map Prod.fst
    rw [recordCode_keys]
    rcases List.mem_cons.mp hr with rfl | hr
    · by_cases hm : code ∈ m.codes.map Prod.fst
      · rw [if_pos hm]; exact hm
      · rw [if_neg hm]; simp
    · have := h.cover r hr
      by_cases hm : code ∈ m.codes.map Prod.fst
      · rw [if_pos hm]; exact this
      · rw [if_neg hm]; exact List.mem_append_left _ this

end CB

namespace CB
open CBExpr

/-! ### what the counters read -/

/-- responses of `recs` in the window at `now` whose code satisfies `P` -/
def winCount (now : Nat) (recs : List (Nat × Nat)) (P : Nat → Bool) : Int :=
  ((recs.filter (fun r => P r.2 && inWin now r)).length : Int)

theorem winCount_cons (now : Nat) (r : Nat × Nat) (recs : List (Nat × Nat)) (P : Nat → Bool) :
    winCount now (r :: recs) P = (if (P r.2 && inWin now r) = true then 1 else 0) + winCount now recs P := by
  unfold winCount
  rw [List.filter_cons]
  by_cases h : (P r.2 && inWin now r) = true
  · simp [h]; omega
  · simp [h]

theorem filter_filter_len (now : Nat) (recs : List (Nat × Nat)) (P : Nat → Bool) :
    (((recs.filter (fun r => P r.2)).filter (inWin now)).length : Int) = winCount now recs P := by
  unfold winCount
  rw [List.filter_filter]
  simp only [Bool.and_comm]

theorem minv_total_count {m : Metrics} {T now : Nat} {recs : List (Nat × Nat)} (h : MInv m T recs)
    (hT : T ≤ now) (hmin : tmin ≤ now) :
    (RCnt.count ccfg m.total now).2 = winCount now recs (fun _ => true) := by
  rw [cinv_count h.total hT hmin, sumIf_ones]
  unfold winCount; simp

theorem minv_ne_count {m : Metrics} {T now : Nat} {recs : List (Nat × Nat)} (h : MInv m T recs)
    (hT : T ≤ now) (hmin : tmin ≤ now) :
    (RCnt.count ccfg m.netErrors now).2 = winCount now recs isNE := by
  rw [cinv_count h.ne hT hmin, sumIf_ones, filter_filter_len now recs isNE]

/-- sum of `f` over the keys satisfying `P` -/
def keySum (P : Nat → Bool) (f : Nat → Int) (keys : List Nat) : Int := ((keys.filter P).map f).sum

theorem keySum_cons (P : Nat → Bool) (f : Nat → Int) (k : Nat) (keys : List Nat) :
    keySum P f (k :: keys) = (if P k = true then f k else 0) + keySum P f keys := by
  unfold keySum
  by_cases h : P k = true
  · rw [if_pos h, List.filter_cons_of_pos h, List.map_cons, List.sum_cons]
  · rw [if_neg h, List.filter_cons_of_neg h, Int.zero_add]

theorem keySum_add (P : Nat → Bool) (f g : Nat → Int) : ∀ (keys : List Nat),
    keySum P (fun k => f k + g k) keys = keySum P f keys + keySum P g keys
  | [] => rfl
  | k :: keys => by
    rw [keySum_cons, keySum_cons, keySum_cons, keySum_add P f g keys]
    by_cases h : P k = true
    · rw [if_pos h, if_pos h, if_pos h]; omega
    · rw [if_neg h, if_neg h, if_neg h]; omega

theorem keySum_zero (P : Nat → Bool) (f : Nat → Int) : ∀ (keys : List Nat), (∀ k ∈ keys, f k = 0) →
    keySum P f keys = 0
  | [], _ => rfl
  | k :: keys, h => by
    rw [keySum_cons, keySum_zero P f keys (fun k hk => h k (List.mem_cons_of_mem _ hk)), h k List.mem_cons_self]
    by_cases hp : P k = true
    · rw [if_pos hp]; rfl
    · rw [if_neg hp]; rfl

/-- exactly one key is the code `x` -/
theorem keySum_indicator (P : Nat → Bool) (x : Nat) (v : Int) : ∀ (keys : List Nat), keys.Nodup → x ∈ keys →
    keySum P (fun k => if x = k then v else 0) keys = if P x = true then v else 0
  | [], _, hm => by cases hm
  | k :: keys, hnd, hm => by
    have hnd' := List.nodup_cons.mp hnd
    rw [keySum_cons]
    by_cases hk : x = k
    · subst hk
      rw [keySum_zero P _ keys (fun k hk => by
        have : x ≠ k := fun e => hnd'.1 (e ▸ hk)
        rw [if_neg this])]
      rw [if_pos rfl]; omega
    · have hm' : x ∈ keys := by
        rcases List.mem_cons.mp hm with e | hm'
        · exact absurd e hk
        · exact hm'
      rw [keySum_indicator P x v keys hnd'.2 hm', if_neg hk]
      by_cases hp : P k = true
      · rw [if_pos hp]; omega
      · rw [if_neg hp]; omega

/-- per-code window counts, summed over the keys in a range, are the window count of the range -/
theorem keySum_winCount (now : Nat) (P : Nat → Bool) (keys : List Nat) (hnd : keys.Nodup) :
    ∀ (recs : List (Nat × Nat)), (∀ r ∈ recs, r.2 ∈ keys) →
    keySum P (fun k => winCount now recs (fun c => decide (c = k))) keys = winCount now recs P
  | [], _ =>
    (keySum_zero P (fun k => winCount now [] (fun c => decide (c = k))) keys (fun _ _ => rfl)).trans rfl
  | r :: recs, hc => by
    have ih := keySum_winCount now P keys hnd recs (fun r hr => hc r (List.mem_cons_of_mem _ hr))
    have hfun : (fun k => winCount now (r :: recs) (fun c => decide (c = k))) =
        (fun k => (if r.2 = k then (if inWin now r = true then (1 : Int) else 0) else 0) +
          winCount now recs (fun c => decide (c = k))) := by
      funext k
      rw [winCount_cons]
      by_cases h1 : r.2 = k <;> by_cases h2 : inWin now r = true <;> simp [h1, h2]
    rw [hfun, keySum_add, ih, keySum_indicator P r.2 _ keys hnd (hc r List.mem_cons_self), winCount_cons]
    by_cases h1 : P r.2 = true <;> by_cases h2 : inWin now r = true <;> simp [h1, h2]

theorem codeSum_eq_keySum (now lo hi : Nat) (f : Nat → Int) : ∀ (codes : List (Nat × RCnt.St)),
    (∀ e ∈ codes, (RCnt.count ccfg e.2 now).2 = f e.1) →
    codeSum now lo hi codes = keySum (fun k => decide (k < hi ∧ k ≥ lo)) f (codes.map Prod.fst)
  | [], _ => rfl
  | (k, s) :: codes, h => by
    rw [codeSum_cons, List.map_cons, keySum_cons,
      codeSum_eq_keySum now lo hi f codes (fun e he => h e (List.mem_cons_of_mem _ he)),
      h (k, s) List.mem_cons_self]
    by_cases hk : k < hi ∧ k ≥ lo
    · rw [if_pos hk, if_pos (by simpa using hk)]
    · rw [if_neg hk, if_neg (by simpa using hk)]

/-- `ResponseCodeRatio`'s two sums are window counts of the code ranges -/
theorem minv_codeSum {m : Metrics} {T now : Nat} {recs : List (Nat × Nat)} (h : MInv m T recs)
    (hT : T ≤ now) (hmin : tmin ≤ now) (lo hi : Nat) :
    codeSum now lo hi m.codes = winCount now recs (fun k => decide (k < hi ∧ k ≥ lo)) := by
  rw [codeSum_eq_keySum now lo hi (fun k => winCount now recs (fun c => decide (c = k))) m.codes]
  · exact keySum_winCount now _ _ h.nodup recs h.cover
  · intro e he
    rw [cinv_count (h.codes e he) hT hmin, sumIf_ones, filter_filter_len now recs (fun c => decide (c = e.1))]

/-! ### through the breaker -/

theorem eval_meq {now : Nat} (orc : Oracle) {m : Metrics} : ∀ (e : Expr) (m' : Metrics), MEq now m m' →
    MEq now m (eval (reader now orc) e m').1 := by
  intro e
  induction e with
  | bad => intro m' h; exact h
  | cmp op f v =>
    intro m' h
    have h1 := (call_meq orc f h).2
    have h2 := (call_meq orc f h1).2
    cases op
    case eq => exact h1
    case neq => exact h1
    case lt => exact h1
    case gt => exact h1
    case le =>
      simp only [eval]
      by_cases hc : (atom (reader now orc) f (fun x => valLt x v) m').2 = true
      · rw [if_pos hc]; exact h1
      · rw [if_neg hc]; exact h2
    case ge =>
      simp only [eval]
      by_cases hc : (atom (reader now orc) f (fun x => valGt x v) m').2 = true
      · rw [if_pos hc]; exact h1
      · rw [if_neg hc]; exact h2
  | and a b iha ihb =>
    intro m' h
    have h1 := iha m' h
    have h2 := ihb _ h1
    simp only [eval]
    by_cases hc : (!(eval (reader now orc) a m').2) = true
    · rw [if_pos hc]; exact h1
    · rw [if_neg hc]
      by_cases hd : (!(eval (reader now orc) b (eval (reader now orc) a m').1).2) = true
      · rw [if_pos hd]; exact h2
      · rw [if_neg hd]; exact h2
  | or a b iha ihb =>
    intro m' h
    have h1 := iha m' h
    have h2 := ihb _ h1
    simp only [eval]
    by_cases hc : (eval (reader now orc) a m').2 = true
    · rw [if_pos hc]; exact h1
    · rw [if_neg hc]
      by_cases hd : (eval (reader now orc) b (eval (reader now orc) a m').1).2 = true
      · rw [if_pos hd]; exact h2
      · rw [if_neg hd]; exact h2

theorem arrive_met (c : Cfg) (b : Brk) (t : Nat) : (arrive c b t).2.met = b.met := by
  cases hs : b.state with
  | standby => rw [arrive_standby c b t hs]
  | tripped =>
    by_cases hlt : t < b.until_
    · rw [arrive_tripped_before c b t hs hlt]
    · rw [arrive_tripped_after c b t hs (by omega)]
  | recovering =>
    by_cases hgt : t > b.until_
    · rw [arrive_recovering_after c b t hs hgt]
    · rw [arrive_recovering_within c b t hs (by omega)]

/-- the metrics after a completion: the recorded metrics up to clean-ups, reset if it tripped -/
theorem complete_met (c : Cfg) (b : Brk) (now code : Nat) (orc : Oracle) :
    ∃ m', MEq now (b.met.record now code) m' ∧
      (complete c b now code orc).1.met = if (complete c b now code orc).2 = true then m'.reset else m' := by
  unfold complete checkAndSet
  by_cases h1 : now > b.lastCheck
  · by_cases h2 : b.state = .tripped
    · refine ⟨b.met.record now code, MEq.refl _ _, ?_⟩
      simp [h1, h2]
    · refine ⟨(eval (reader now orc) c.cond (b.met.record now code)).1, eval_meq orc _ _ (MEq.refl _ _), ?_⟩
      cases h3 : (eval (reader now orc) c.cond (b.met.record now code)).2 <;> simp [h1, h2, h3]
  · refine ⟨b.met.record now code, MEq.refl _ _, ?_⟩
    simp [h1]

/-- the metrics after a check: the metrics up to clean-ups, reset if it tripped -/
theorem check_met (c : Cfg) (b : Brk) (now : Nat) (orc : Oracle) :
    ∃ m', MEq now b.met m' ∧
      (checkAndSet c b now orc).1.met = if (checkAndSet c b now orc).2 = true then m'.reset else m' := by
  unfold checkAndSet
  by_cases h1 : now > b.lastCheck
  · by_cases h2 : b.state = .tripped
    · refine ⟨b.met, MEq.refl _ _, ?_⟩
      simp [h1, h2]
    · refine ⟨(eval (reader now orc) c.cond b.met).1, eval_meq orc _ _ (MEq.refl _ _), ?_⟩
      cases h3 : (eval (reader now orc) c.cond b.met).2 <;> simp [h1, h2, h3]
  · refine ⟨b.met, MEq.refl _ _, ?_⟩
    simp [h1]

theorem record_met (b : Brk) (now code : Nat) : (record b now code).met = b.met.record now code := by
  unfold record; exact rfl

/-- the responses recorded since the last trip (newest first) after a trace, given those before it -/
def recsAfter (c : Cfg) : Brk → List (Nat × Nat) → List Ev → List (Nat × Nat)
  | _, recs, [] => recs
  | b, recs, .arrive t :: es => recsAfter c (step c b (.arrive t)).1 recs es
  | b, recs, .record t code :: es => recsAfter c (step c b (.record t code)).1 ((t, code) :: recs) es
  | b, recs, .check t orc :: es =>
    recsAfter c (step c b (.check t orc)).1 (if (checkAndSet c b t orc).2 = true then [] else recs) es
  | b, recs, .complete t code orc :: es =>
    recsAfter c (step c b (.complete t code orc)).1
      (if (complete c b t code orc).2 = true then [] else (t, code) :: recs) es

/-- **the metrics are the responses since the last trip**: along every trace with non-decreasing time
    stamps (after 1970 plus one window) the invariant holds -/
theorem run_minv (c : Cfg) : ∀ (es : List Ev) (b : Brk) (T : Nat) (recs : List (Nat × Nat)),
    MInv b.met T recs → (T :: es.map Ev.time).Pairwise (· ≤ ·) → (∀ e ∈ es, tmin ≤ e.time) →
    ∃ T', T' ∈ T :: es.map Ev.time ∧ MInv (run c b es).1.met T' (recsAfter c b recs es) := by
  intro es
  induction es with
  | nil => intro b T recs h _ _; exact ⟨T, by simp, by simpa [run_nil, recsAfter] using h⟩
  | cons e es ih =>
    intro b T recs h hs hmin
    have hp := List.pairwise_cons.mp hs
    have hTe : T ≤ e.time := hp.1 e.time (by simp)
    have hmin_e := hmin e List.mem_cons_self
    have hs' : (e.time :: es.map Ev.time).Pairwise (· ≤ ·) := by
      simpa using hp.2
    rw [run_cons]
    cases e with
    | arrive t =>
      have hm : MInv (step c b (.arrive t)).1.met t recs := by
        show MInv (arrive c b t).2.met t recs
        rw [arrive_met]
        exact minv_meq h hTe (MEq.refl _ _)
      obtain ⟨T', a1, a3⟩ := ih _ t recs hm hs' (fun e he => hmin e (List.mem_cons_of_mem _ he))
      exact ⟨T', List.mem_cons_of_mem _ (by simpa [Ev.time] using a1), by simpa [recsAfter] using a3⟩
    | record t code =>
      have hm : MInv (step c b (.record t code)).1.met t ((t, code) :: recs) := by
        show MInv (record b t code).met t _
        rw [record_met]
        exact minv_record h hTe hmin_e code
      obtain ⟨T', a1, a3⟩ := ih _ t _ hm hs' (fun e he => hmin e (List.mem_cons_of_mem _ he))
      exact ⟨T', List.mem_cons_of_mem _ (by simpa [Ev.time] using a1), by simpa [recsAfter] using a3⟩
    | check t orc =>
      obtain ⟨m', e1, e2⟩ := check_met c b t orc
      have hm' := minv_meq h hTe e1
      have hm : MInv (step c b (.check t orc)).1.met t
          (if (checkAndSet c b t orc).2 = true then [] else recs) := by
        show MInv (checkAndSet c b t orc).1.met t _
        rw [e2]
        by_cases hf : (checkAndSet c b t orc).2 = true
        · rw [if_pos hf, if_pos hf]; exact minv_reset hm' t
        · rw [if_neg hf, if_neg hf]; exact hm'
      obtain ⟨T', a1, a3⟩ := ih _ t _ hm hs' (fun e he => hmin e (List.mem_cons_of_mem _ he))
      exact ⟨T', List.mem_cons_of_mem _ (by simpa [Ev.time] using a1), by simpa [recsAfter] using a3⟩
    | complete t code orc =>
      obtain ⟨m', e1, e2⟩ := complete_met c b t code orc
      have hrec := minv_record h hTe hmin_e code
      have hm' := minv_meq hrec (Nat.le_refl _) e1
      have hm : MInv (step c b (.complete t code orc)).1.met t
          (if (complete c b t code orc).2 = true then [] else (t, code) :: recs) := by
        show MInv (complete c b t code orc).1.met t _
        rw [e2]
        by_cases hf : (complete c b t code orc).2 = true
        · rw [if_pos hf, if_pos hf]; exact minv_reset hm' t
        · rw [if_neg hf, if_neg hf]; exact hm'
      obtain ⟨T', a1, a3⟩ := ih _ t _ hm hs' (fun e he => hmin e (List.mem_cons_of_mem _ he))
      exact ⟨T', List.mem_cons_of_mem _ (by simpa [Ev.time] using a1), by simpa [recsAfter] using a3⟩

end CB
