import OxyModel.Proofs.CBreaker.Machine

/-! The recovery period as a segment of a trace: the ratio controller's counters are the observed
passes / refusals, and the ramp bound is an invariant (core tactics only). -/
namespace CB
open CBExpr

/-- requests handed to the protected handler / answered by the fallback, among some observations -/
def passes (os : List Obs) : Nat := os.count .pass
def refusals (os : List Obs) : Nat := os.count .fallback

theorem passes_cons (o : Obs) (os : List Obs) : passes (o :: os) = (if o = .pass then 1 else 0) + passes os := by
  unfold passes; rw [List.count_cons]; by_cases h : o = .pass <;> simp [h] <;> omega

theorem refusals_cons (o : Obs) (os : List Obs) :
    refusals (o :: os) = (if o = .fallback then 1 else 0) + refusals os := by
  unfold refusals; rw [List.count_cons]; by_cases h : o = .fallback <;> simp [h] <;> omega

theorem passes_append (xs ys : List Obs) : passes (xs ++ ys) = passes xs + passes ys := by
  unfold passes; exact List.count_append

theorem refusals_append (xs ys : List Obs) : refusals (xs ++ ys) = refusals xs + refusals ys := by
  unfold refusals; exact List.count_append

/-- one event that leaves a recovering breaker recovering -/
theorem step_recovering (c : Cfg) (b : Brk) (e : Ev) (h : b.state = .recovering)
    (h' : (step c b e).1.state = .recovering) :
    (step c b e).1.until_ = b.until_ ∧ (step c b e).1.rc.start = b.rc.start ∧
    (step c b e).1.rc.dur = b.rc.dur ∧ (step c b e).1.tripped = b.tripped ∧
    (step c b e).1.standbys = b.standbys ∧ (step c b e).1.lastCheck ≥ b.lastCheck ∧
    (step c b e).1.rc.allowed = b.rc.allowed + (if (step c b e).2 = .pass then 1 else 0) ∧
    (step c b e).1.rc.denied = b.rc.denied + (if (step c b e).2 = .fallback then 1 else 0) ∧
    (∀ t0, t0 ≤ e.time → b.rc.Ramp t0 → (step c b e).1.rc.Ramp e.time) := by
  cases e with
  | arrive t =>
    by_cases h1 : t > b.until_
    · have h2 : (step c b (.arrive t)).1.state = .standby := by
        show (arrive c b t).2.state = .standby
        rw [arrive_recovering_after c b t h h1]
      rw [h2] at h'; cases h'
    · have hw := arrive_recovering_within c b t h (by omega)
      obtain ⟨f1, f2, f3, f4⟩ := allow_fields b.rc t
      have e1 : (step c b (.arrive t)).1 = { b with rc := (b.rc.allow t).2 } := by
        show (arrive c b t).2 = _
        rw [hw]
      have e2 : (step c b (.arrive t)).2 = (if (b.rc.allow t).1 then Obs.pass else Obs.fallback) := by
        show (match (arrive c b t).1 with | .pass => Obs.pass | .fallback => Obs.fallback) = _
        rw [hw]; cases (b.rc.allow t).1 <;> rfl
      rw [e1, e2]
      refine ⟨rfl, f1, f2, rfl, rfl, Nat.le_refl _, ?_, ?_, ?_⟩
      · show (b.rc.allow t).2.allowed = _
        rw [f3]; cases (b.rc.allow t).1 <;> simp
      · show (b.rc.allow t).2.denied = _
        rw [f4]; cases (b.rc.allow t).1 <;> simp
      · intro t0 ht0 hr; exact allow_ramp _ _ (ramp_mono _ ht0 hr)
  | record t code =>
    obtain ⟨_, f2, f3, f4, f5, f6⟩ := record_fields b t code
    have e1 : (step c b (.record t code)).1 = record b t code := rfl
    have e2 : (step c b (.record t code)).2 = .recorded := rfl
    rw [e1, e2]
    refine ⟨f2, by rw [f3], by rw [f3], f4, f5, by rw [f6]; exact Nat.le_refl _, by simp [f3], by simp [f3], ?_⟩
    intro t0 ht0 hr; rw [f3]; exact ramp_mono _ ht0 hr
  | check t orc =>
    cases hf : (checkAndSet c b t orc).2 with
    | true =>
      have h2 : (step c b (.check t orc)).1.state = .tripped :=
        (check_true_fields c b t orc hf).1
      rw [h2] at h'; cases h'
    | false =>
      obtain ⟨_, s2, s3, s4, s5⟩ := check_false c b t orc hf
      have hl : (checkAndSet c b t orc).1.lastCheck ≥ b.lastCheck := check_lastCheck_ge c b t orc
      have e1 : (step c b (.check t orc)).1 = (checkAndSet c b t orc).1 := rfl
      have e2 : (step c b (.check t orc)).2 = .done false := by
        show Obs.done (checkAndSet c b t orc).2 = _
        rw [hf]
      rw [e1, e2]
      refine ⟨s2, by rw [s3], by rw [s3], s4, s5, hl, by simp [s3], by simp [s3], ?_⟩
      intro t0 ht0 hr; rw [s3]; exact ramp_mono _ ht0 hr
  | complete t code orc =>
    cases hf : (complete c b t code orc).2 with
    | true =>
      have h2 : (step c b (.complete t code orc)).1.state = .tripped :=
        (complete_true_fields c b t code orc hf).1
      rw [h2] at h'; cases h'
    | false =>
      obtain ⟨_, s2, s3, s4, s5⟩ := complete_false c b t code orc hf
      have hl : (complete c b t code orc).1.lastCheck ≥ b.lastCheck := complete_lastCheck_ge c b t code orc
      have e1 : (step c b (.complete t code orc)).1 = (complete c b t code orc).1 := rfl
      have e2 : (step c b (.complete t code orc)).2 = .done false := by
        show Obs.done (complete c b t code orc).2 = _
        rw [hf]
      rw [e1, e2]
      refine ⟨s2, by rw [s3], by rw [s3], s4, s5, hl, by simp [s3], by simp [s3], ?_⟩
      intro t0 ht0 hr; rw [s3]; exact ramp_mono _ ht0 hr

/-- every state along the trace is `recovering` -/
def AllRecovering (c : Cfg) (b : Brk) (es : List Ev) : Prop :=
  ∀ s ∈ states c b es, s.state = .recovering

theorem allRecovering_final (c : Cfg) : ∀ (es : List Ev) (b : Brk), b.state = .recovering →
    AllRecovering c b es → (run c b es).1.state = .recovering := by
  intro es
  induction es with
  | nil => intro b h _; simpa [run_nil] using h
  | cons e es ih =>
    intro b _ ha
    have h1 : (step c b e).1.state = .recovering := ha _ (by simp [states])
    rw [run_cons]
    exact ih _ h1 (fun s hs => ha s (by simp [states, hs]))

/-- the segment invariant: while the breaker stays recovering, deadline, ramp start and duration are
    fixed, the controller's counters grow by exactly the observed passes and refusals, no side effect is
    launched, and the ramp bound holds at every instant from the last event on -/
theorem segment (c : Cfg) : ∀ (es : List Ev) (b : Brk) (t1 : Nat), b.state = .recovering →
    AllRecovering c b es → es.Pairwise (fun x y => x.time ≤ y.time) → (∀ e ∈ es, t1 ≤ e.time) →
    b.rc.Ramp t1 →
    (run c b es).1.until_ = b.until_ ∧ (run c b es).1.rc.start = b.rc.start ∧
    (run c b es).1.rc.dur = b.rc.dur ∧ (run c b es).1.tripped = b.tripped ∧
    (run c b es).1.standbys = b.standbys ∧ (run c b es).1.lastCheck ≥ b.lastCheck ∧
    (run c b es).1.rc.allowed = b.rc.allowed + passes (run c b es).2 ∧
    (run c b es).1.rc.denied = b.rc.denied + refusals (run c b es).2 ∧
    (∀ t, t1 ≤ t → (∀ e ∈ es, e.time ≤ t) → (run c b es).1.rc.Ramp t) := by
  intro es
  induction es with
  | nil =>
    intro b t1 _ _ _ _ hr
    simp only [run_nil, passes, refusals, List.count_nil, Nat.add_zero]
    exact ⟨trivial, trivial, trivial, trivial, trivial, Nat.le_refl _, trivial, trivial, fun t ht _ => ramp_mono _ ht hr⟩
  | cons e es ih =>
    intro b t1 hs ha hp hge hr
    have h1 : (step c b e).1.state = .recovering := ha _ (by simp [states])
    obtain ⟨s1, s2, s3, s4, s5, s6, s7, s8, s9⟩ := step_recovering c b e hs h1
    have hp' := List.pairwise_cons.mp hp
    obtain ⟨i1, i2, i3, i4, i5, i6, i7, i8, i9⟩ :=
      ih (step c b e).1 e.time h1 (fun s hs' => ha s (by simp [states, hs'])) hp'.2
        (fun e' he' => hp'.1 e' he') (s9 t1 (hge e List.mem_cons_self) hr)
    rw [run_cons]
    simp only [passes_cons, refusals_cons]
    refine ⟨by rw [i1, s1], by rw [i2, s2], by rw [i3, s3], by rw [i4, s4], by rw [i5, s5],
      Nat.le_trans s6 i6, by rw [i7, s7]; omega, by rw [i8, s8]; omega, ?_⟩
    intro t _ hall
    exact i9 t (hall e List.mem_cons_self) (fun e' he' => hall e' (List.mem_cons_of_mem _ he'))

end CB
