import OxyModel.Model.CBreaker

/-! Reading the metrics does not change what is read: `Count()` cleans a counter up, but cleaning up
twice at one instant is cleaning up once; and freshly reset metrics read zero (core tactics only). -/
namespace CB
open CBExpr

/-! ### `RollingCounter.cleanup` at a fixed instant -/

theorem set_set_comm {α : Type} (l : List α) (a b : Nat) (x : α) :
    (l.set a x).set b x = (l.set b x).set a x := by
  by_cases h : a = b
  · subst h; rfl
  · exact List.set_comm _ _ h

theorem cleanupLoop_succ (c : RCnt.Cfg) (lu now i fuel : Nat) (vals : List Int) :
    RCnt.cleanupLoop c lu now i (fuel + 1) vals =
      if c.truncate (now - i * c.r) > c.truncate lu then
        RCnt.cleanupLoop c lu now (i + 1) fuel (vals.set (RCnt.getBucket c (now - i * c.r)) 0)
      else vals := rfl

theorem cleanupLoop_set (c : RCnt.Cfg) (lu now b : Nat) : ∀ (fuel i : Nat) (vals : List Int),
    RCnt.cleanupLoop c lu now i fuel (vals.set b 0) = (RCnt.cleanupLoop c lu now i fuel vals).set b 0 := by
  intro fuel
  induction fuel with
  | zero => intro i vals; rfl
  | succ fuel ih =>
    intro i vals
    rw [cleanupLoop_succ, cleanupLoop_succ]
    by_cases h : c.truncate (now - i * c.r) > c.truncate lu
    · rw [if_pos h, if_pos h, set_set_comm, ih]
    · rw [if_neg h, if_neg h]

theorem cleanupLoop_idem (c : RCnt.Cfg) (lu now : Nat) : ∀ (fuel i : Nat) (vals : List Int),
    RCnt.cleanupLoop c lu now i fuel (RCnt.cleanupLoop c lu now i fuel vals) =
      RCnt.cleanupLoop c lu now i fuel vals := by
  intro fuel
  induction fuel with
  | zero => intro i vals; rfl
  | succ fuel ih =>
    intro i vals
    by_cases h : c.truncate (now - i * c.r) > c.truncate lu
    · rw [cleanupLoop_succ c lu now i fuel vals, if_pos h, cleanupLoop_succ, if_pos h]
      simp only [cleanupLoop_set, ih, List.set_set]
    · rw [cleanupLoop_succ c lu now i fuel vals, if_neg h, cleanupLoop_succ, if_neg h]

theorem cleanup_idem (c : RCnt.Cfg) (s : RCnt.St) (now : Nat) :
    RCnt.cleanup c (RCnt.cleanup c s now) now = RCnt.cleanup c s now := by
  unfold RCnt.cleanup
  simp only [cleanupLoop_idem]

theorem cleanupLoop_zero (c : RCnt.Cfg) (lu now : Nat) : ∀ (fuel i : Nat) (vals : List Int),
    (∀ v ∈ vals, v = 0) → ∀ v ∈ RCnt.cleanupLoop c lu now i fuel vals, v = 0 := by
  intro fuel
  induction fuel with
  | zero => intro i vals h; exact h
  | succ fuel ih =>
    intro i vals h
    rw [cleanupLoop_succ]
    by_cases hc : c.truncate (now - i * c.r) > c.truncate lu
    · rw [if_pos hc]
      apply ih
      intro v hv
      rcases List.mem_or_eq_of_mem_set hv with h1 | h1
      · exact h v h1
      · exact h1
    · rw [if_neg hc]; exact h

theorem sum_zero : ∀ (l : List Int), (∀ v ∈ l, v = 0) → l.sum = 0
  | [], _ => rfl
  | x :: xs, h => by
    rw [List.sum_cons, h x List.mem_cons_self, sum_zero xs (fun v hv => h v (List.mem_cons_of_mem _ hv))]
    rfl

/-- a reset counter counts zero at every later instant -/
theorem count_reset (c : RCnt.Cfg) (s : RCnt.St) (now : Nat) : (RCnt.count c (RCnt.reset s) now).2 = 0 := by
  unfold RCnt.count RCnt.cleanup RCnt.reset
  apply sum_zero
  apply cleanupLoop_zero
  intro v hv
  exact (List.mem_replicate.mp hv).2

/-! ### counters that differ by a clean-up at `now` read the same at `now` -/

/-- `s'` is `s`, possibly cleaned up at `now` -/
def CEq (now : Nat) (s s' : RCnt.St) : Prop := s' = s ∨ s' = RCnt.cleanup ccfg s now

theorem CEq.refl (now : Nat) (s : RCnt.St) : CEq now s s := Or.inl rfl

theorem count_ceq {now : Nat} {s s' : RCnt.St} (h : CEq now s s') :
    RCnt.count ccfg s' now = RCnt.count ccfg s now := by
  rcases h with h | h
  · rw [h]
  · rw [h]; unfold RCnt.count; simp only [cleanup_idem]

theorem count_fst_ceq (now : Nat) (s : RCnt.St) : CEq now s (RCnt.count ccfg s now).1 := Or.inr rfl

/-- metrics that differ by clean-ups at `now` -/
def CodesEq (now : Nat) : List (Nat × RCnt.St) → List (Nat × RCnt.St) → Prop
  | [], [] => True
  | (k, s) :: l, (k', s') :: l' => k' = k ∧ CEq now s s' ∧ CodesEq now l l'
  | _, _ => False

theorem CodesEq.refl (now : Nat) : ∀ l, CodesEq now l l
  | [] => trivial
  | (_, s) :: l => ⟨rfl, CEq.refl now s, CodesEq.refl now l⟩

def MEq (now : Nat) (m m' : Metrics) : Prop :=
  CEq now m.total m'.total ∧ CEq now m.netErrors m'.netErrors ∧ CodesEq now m.codes m'.codes

theorem MEq.refl (now : Nat) (m : Metrics) : MEq now m m :=
  ⟨CEq.refl _ _, CEq.refl _ _, CodesEq.refl _ _⟩

theorem ner_eq (now : Nat) (m : Metrics) :
    Metrics.ner now m =
      if (RCnt.count ccfg m.total now).2 = 0 then
        ({ m with total := (RCnt.count ccfg m.total now).1 }, .ratio 0 1)
      else
        ({ m with total := (RCnt.count ccfg (RCnt.count ccfg m.total now).1 now).1,
                  netErrors := (RCnt.count ccfg m.netErrors now).1 },
          .ratio (RCnt.count ccfg m.netErrors now).2 (RCnt.count ccfg (RCnt.count ccfg m.total now).1 now).2) := rfl

theorem ner_meq {now : Nat} {m m' : Metrics} (h : MEq now m m') :
    (Metrics.ner now m').2 = (Metrics.ner now m).2 ∧ MEq now m (Metrics.ner now m').1 := by
  obtain ⟨h1, h2, h3⟩ := h
  have e1 := count_ceq h1
  have e2 := count_ceq h2
  have e3 : RCnt.count ccfg (RCnt.count ccfg m.total now).1 now = RCnt.count ccfg m.total now :=
    count_ceq (count_fst_ceq now m.total)
  rw [ner_eq, ner_eq, e1, e2, e3]
  by_cases hz : (RCnt.count ccfg m.total now).2 = 0
  · rw [if_pos hz, if_pos hz]
    dsimp only
    exact ⟨rfl, count_fst_ceq now m.total, h2, h3⟩
  · rw [if_neg hz, if_neg hz]
    dsimp only
    exact ⟨rfl, count_fst_ceq now m.total, count_fst_ceq now m.netErrors, h3⟩

theorem rcrOne_ceq (now a0 a1 b0 b1 k : Nat) {s s' : RCnt.St} (hs : CEq now s s') :
    (rcrOne now a0 a1 b0 b1 k s').2 = (rcrOne now a0 a1 b0 b1 k s).2 ∧
    CEq now s (rcrOne now a0 a1 b0 b1 k s').1 := by
  have e1 := count_ceq hs
  have e3 : RCnt.count ccfg (RCnt.count ccfg s now).1 now = RCnt.count ccfg s now :=
    count_ceq (count_fst_ceq now s)
  unfold rcrOne
  by_cases hA : k < a1 ∧ k ≥ a0 <;> by_cases hB : k < b1 ∧ k ≥ b0
  · simp only [if_pos hA, if_pos hB, e1, e3]
    exact ⟨trivial, count_fst_ceq now s⟩
  · simp only [if_pos hA, if_neg hB, e1]
    exact ⟨trivial, count_fst_ceq now s⟩
  · simp only [if_neg hA, if_pos hB, e1]
    exact ⟨trivial, count_fst_ceq now s⟩
  · simp only [if_neg hA, if_neg hB]
    exact ⟨trivial, hs⟩

theorem rcrLoop_cons (now a0 a1 b0 b1 k : Nat) (s : RCnt.St) (rest : List (Nat × RCnt.St)) :
    rcrLoop now a0 a1 b0 b1 ((k, s) :: rest) =
      ((k, (rcrOne now a0 a1 b0 b1 k s).1) :: (rcrLoop now a0 a1 b0 b1 rest).1,
        (rcrOne now a0 a1 b0 b1 k s).2.1 + (rcrLoop now a0 a1 b0 b1 rest).2.1,
        (rcrOne now a0 a1 b0 b1 k s).2.2 + (rcrLoop now a0 a1 b0 b1 rest).2.2) := rfl

theorem rcrLoop_eq (now a0 a1 b0 b1 : Nat) : ∀ (l l' : List (Nat × RCnt.St)), CodesEq now l l' →
    (rcrLoop now a0 a1 b0 b1 l').2 = (rcrLoop now a0 a1 b0 b1 l).2 ∧
    CodesEq now l (rcrLoop now a0 a1 b0 b1 l').1
  | [], [], _ => ⟨rfl, trivial⟩
  | [], _ :: _, h => by cases h
  | _ :: _, [], h => by cases h
  | (k, s) :: l, (k', s') :: l', h => by
    obtain ⟨hk, hs, hl⟩ := h
    subst hk
    obtain ⟨i1, i2⟩ := rcrLoop_eq now a0 a1 b0 b1 l l' hl
    obtain ⟨o1, o2⟩ := rcrOne_ceq now a0 a1 b0 b1 k' hs
    rw [rcrLoop_cons, rcrLoop_cons, o1, i1]
    exact ⟨rfl, rfl, o2, i2⟩

theorem rcr_meq {now : Nat} {m m' : Metrics} (a0 a1 b0 b1 : Nat) (h : MEq now m m') :
    (Metrics.rcr now a0 a1 b0 b1 m').2 = (Metrics.rcr now a0 a1 b0 b1 m).2 ∧
    MEq now m (Metrics.rcr now a0 a1 b0 b1 m').1 := by
  obtain ⟨h1, h2, h3⟩ := h
  obtain ⟨i1, i2⟩ := rcrLoop_eq now a0 a1 b0 b1 m.codes m'.codes h3
  unfold Metrics.rcr
  dsimp only
  rw [i1]
  exact ⟨rfl, h1, h2, i2⟩

/-- every mapper reads the same value from metrics that differ by clean-ups, and leaves such metrics -/
theorem call_meq {now : Nat} (orc : Oracle) {m m' : Metrics} (f : Fn) (h : MEq now m m') :
    ((reader now orc).call f m').2 = ((reader now orc).call f m).2 ∧
    MEq now m ((reader now orc).call f m').1 := by
  cases f with
  | ner => exact ner_meq h
  | rcr a b c d => exact rcr_meq _ _ _ _ h
  | lat q => exact ⟨rfl, h⟩

/-! ### `ResponseCodeRatio` as sums over the code ranges -/

/-- sum of the window counts of the status codes in `[lo, hi)` -/
def codeSum (now lo hi : Nat) (codes : List (Nat × RCnt.St)) : Int :=
  ((codes.filter (fun e => decide (e.1 < hi ∧ e.1 ≥ lo))).map (fun e => (RCnt.count ccfg e.2 now).2)).sum

theorem codeSum_cons (now lo hi k : Nat) (s : RCnt.St) (l : List (Nat × RCnt.St)) :
    codeSum now lo hi ((k, s) :: l) =
      (if k < hi ∧ k ≥ lo then (RCnt.count ccfg s now).2 else 0) + codeSum now lo hi l := by
  unfold codeSum
  by_cases h : k < hi ∧ k ≥ lo
  · rw [if_pos h, List.filter_cons_of_pos (by simpa using h), List.map_cons, List.sum_cons]
  · rw [if_neg h, List.filter_cons_of_neg (by simpa using h), Int.zero_add]

theorem rcrOne_vals (now a0 a1 b0 b1 k : Nat) (s : RCnt.St) :
    (rcrOne now a0 a1 b0 b1 k s).2 =
      (if k < a1 ∧ k ≥ a0 then (RCnt.count ccfg s now).2 else 0,
       if k < b1 ∧ k ≥ b0 then (RCnt.count ccfg s now).2 else 0) := by
  have e3 : RCnt.count ccfg (RCnt.count ccfg s now).1 now = RCnt.count ccfg s now :=
    count_ceq (count_fst_ceq now s)
  unfold rcrOne
  dsimp only
  by_cases hA : k < a1 ∧ k ≥ a0 <;> by_cases hB : k < b1 ∧ k ≥ b0
  · simp only [if_pos hA, if_pos hB, e3]
  · simp only [if_pos hA, if_neg hB]
  · simp only [if_neg hA, if_pos hB]
  · simp only [if_neg hA, if_neg hB]

theorem rcrLoop_sums (now a0 a1 b0 b1 : Nat) : ∀ (l : List (Nat × RCnt.St)),
    (rcrLoop now a0 a1 b0 b1 l).2 = (codeSum now a0 a1 l, codeSum now b0 b1 l)
  | [] => rfl
  | (k, s) :: l => by
    have ih := rcrLoop_sums now a0 a1 b0 b1 l
    rw [rcrLoop_cons, codeSum_cons, codeSum_cons]
    dsimp only
    rw [ih, rcrOne_vals]

/-! ### reset metrics read zero -/

theorem ner_reset (m : Metrics) (now : Nat) : (Metrics.ner now m.reset).2 = .ratio 0 1 := by
  have h0 : (RCnt.count ccfg (RCnt.reset m.total) now).2 = 0 := count_reset _ _ _
  rw [ner_eq]
  have h0' : (RCnt.count ccfg m.reset.total now).2 = 0 := h0
  rw [if_pos h0']

theorem rcr_reset (m : Metrics) (now a0 a1 b0 b1 : Nat) :
    (Metrics.rcr now a0 a1 b0 b1 m.reset).2 = .ratio 0 1 := by
  rfl

end CB
